(* The incremental EventSource model delivers exactly what the whole-stream
   WHATWG specification dispatches. *)
From Hio Require Import Base.Prelude Model.HttpLine Model.Chunk Model.Sse
  Proofs.HttpLineProofs Proofs.ChunkProofs Proofs.ChunkRoundtrip Proofs.SseProofs.
From Coq Require Import ZifyBool.

(* ------------------------------------------------- lines: scan vs spec_lines *)
Lemma scan_sse_spec : forall b cur,
  spec_lines b cur false =
  match scan_sse b with
  | Some (l, r, k) => (rev cur ++ l) :: spec_lines r [] k
  | None => []
  end.
Proof.
  induction b as [|x b IH]; intros cur; [reflexivity|].
  cbn [spec_lines scan_sse]. destruct (N.eqb x LFb).
  - rewrite app_nil_r. reflexivity.
  - destruct (N.eqb x CRb).
    + rewrite app_nil_r. reflexivity.
    + rewrite IH. destruct (scan_sse b) as [[[l r] k]|]; [|reflexivity].
      cbn [rev]. rewrite <- app_assoc. reflexivity.
Qed.

Lemma spec_lines_skip (sk : bool) (b : bytes) :
  sk && is_nil b = false -> spec_lines b [] sk = spec_lines (skipped sk b) [] false.
Proof.
  destruct sk; [|reflexivity]. destruct b as [|x b]; [discriminate|]. intros _.
  cbn [skipped drop_lf spec_lines]. destruct (N.eqb x LFb) eqn:E; [reflexivity|].
  cbn [spec_lines]. rewrite E. reflexivity.
Qed.

(* ------------------------------------------------- run vs fold over lines *)
Fixpoint impl_run (e : est) (lines : list bytes) : est * list event :=
  match lines with
  | [] => (e, [])
  | l :: ls => let (e', o) := sse_line e l in
               let (e'', es) := impl_run e' ls in
               (e'', match o with Some x => x :: es | None => es end)
  end.

Lemma somes_cons {A} (o : option A) l :
  somes (o :: l) = match o with Some x => x :: somes l | None => somes l end.
Proof. destruct o; reflexivity. Qed.

Lemma run_lines : forall f sk e b,
  length b < f ->
  match run sse_stage f (sk, e) b with
  | (Live s' _, os) => impl_run e (spec_lines b [] sk) = (snd s', somes os)
  | (Dead _, _) => True
  end.
Proof.
  induction f as [|f IH]; intros sk e b Hf; [lia|].
  cbn [run]. unfold sse_stage at 1. cbn [fst snd]. unfold line_stage.
  destruct (sk && is_nil b) eqn:Es.
  - destruct sk; [|discriminate]. destruct b; [|discriminate]. reflexivity.
  - rewrite (spec_lines_skip _ _ Es), scan_sse_spec. cbn [scan rev app].
    assert (Hb1 : length (skipped sk b) <= length b)
      by (unfold skipped; destruct sk; [apply drop_lf_len|lia]).
    destruct (scan_sse (skipped sk b)) as [[[l r] k]|] eqn:E.
    + destruct (N.ltb max_line (lenN l)); [exact I|].
      destruct (sse_line e l) as [e1 o] eqn:El.
      apply scan_sse_shrinks in E.
      specialize (IH k e1 r ltac:(lia)).
      destruct (run sse_stage f (k, e1) r) as [[s' b'|e'] os]; [|exact I].
      cbn [impl_run]. rewrite El, IH, somes_cons. reflexivity.
    + destruct (N.ltb (max_line + 1) (lenN (skipped sk b))); [exact I|reflexivity].
Qed.

(* ---------------------------------------- parts list vs the data buffer *)
Definition lf_terminated (ps : list bytes) : bytes := concat (map (fun p => p ++ [LFb]) ps).

Definition R (e : est) (w : wbuf) : Prop :=
  w_lastid w = s_id e /\ w_type w = s_name e /\ w_retry w = s_retry e /\
  w_data w = lf_terminated (rev (s_parts e)).

Lemma lf_terminated_nil ps : is_nil (lf_terminated ps) = is_nil ps.
Proof.
  destruct ps as [|p ps]; [reflexivity|]. unfold lf_terminated. cbn [map concat].
  destruct p; reflexivity.
Qed.

Lemma removelast_join : forall ps, ps <> [] -> removelast (lf_terminated ps) = join_lf ps.
Proof.
  induction ps as [|p ps IH]; intros Hne; [congruence|].
  destruct ps as [|q t].
  - unfold lf_terminated. cbn [map concat join_lf]. rewrite app_nil_r.
    rewrite removelast_app by discriminate. cbn. apply app_nil_r.
  - change (lf_terminated (p :: q :: t)) with ((p ++ [LFb]) ++ lf_terminated (q :: t)).
    rewrite removelast_app.
    + rewrite IH by discriminate. cbn [join_lf]. rewrite <- app_assoc. reflexivity.
    + intros H. pose proof (lf_terminated_nil (q :: t)) as Hn. rewrite H in Hn. discriminate.
Qed.

Lemma partition1_head x rest :
  partition1 58 (x :: rest) =
  if N.eqb x 58 then ([], true, rest)
  else let '(a, f, c) := partition1 58 rest in (x :: a, f, c).
Proof. reflexivity. Qed.

Lemma partition1_nosep : forall sep l a c, partition1 sep l = (a, false, c) -> c = [].
Proof.
  induction l as [|x l IH]; intros a c H; cbn [partition1] in H.
  - inversion H; reflexivity.
  - destruct (N.eqb x sep); [discriminate|].
    destruct (partition1 sep l) as [[a' f'] c'] eqn:E. inversion H; subst. eapply IH; reflexivity.
Qed.

Lemma rev_nil_iff {A} (l : list A) : is_nil (rev l) = is_nil l.
Proof. destruct l as [|x l]; [reflexivity|]. cbn. destruct (rev l); reflexivity. Qed.

Lemma step_sim e w l :
  R e w ->
  R (fst (sse_line e l)) (fst (w_line w l)) /\ snd (sse_line e l) = snd (w_line w l).
Proof.
  intros [Hid [Hty [Hre Hda]]].
  destruct l as [|x rest].
  - (* blank line: dispatch *)
    unfold sse_line, w_line, w_dispatch. cbn [is_nil].
    rewrite Hda, lf_terminated_nil, rev_nil_iff.
    destruct (s_parts e) as [|p ps] eqn:Ep; cbn [is_nil fst snd].
    + repeat split; cbn; auto.
    + split; [repeat split; cbn; auto|].
      rewrite removelast_join by (cbn; intros H; apply app_eq_nil in H; destruct H; discriminate).
      rewrite Hid, Hty. reflexivity.
  - unfold sse_line, w_line. cbn [is_nil].
    rewrite partition1_head.
    destruct (N.eqb x 58) eqn:Ex.
    + (* comment *) cbn. repeat split; auto.
    + destruct (partition1 58 rest) as [[a f] c] eqn:Ep. cbn [andb is_nil].
      replace (f && false) with false by (destruct f; reflexivity).
      assert (Hv : (if f then drop_space c else []) = drop_space c).
      { destruct f; [reflexivity|]. rewrite (partition1_nosep _ _ _ _ Ep). reflexivity. }
      rewrite Hv. unfold w_field.
      destruct (bytes_eqb (x :: a) f_event); [cbn; repeat split; auto|].
      destruct (bytes_eqb (x :: a) f_data).
      { cbn [fst snd]. split; [|reflexivity]. repeat split; cbn [w_lastid w_type w_retry w_data s_id s_name s_retry s_parts]; auto.
        rewrite Hda. unfold lf_terminated. cbn [rev]. rewrite map_app, concat_app. cbn [map concat].
        rewrite app_nil_r. reflexivity. }
      destruct (bytes_eqb (x :: a) f_id).
      { destruct (existsb (N.eqb 0) (drop_space c)); cbn; repeat split; auto. }
      destruct (bytes_eqb (x :: a) f_retry).
      { destruct (negb (is_nil (drop_space c)) && forallb is_dec (drop_space c)
                  && Nat.leb (length (drop_space c)) max_int_digits); cbn; repeat split; auto. }
      cbn. repeat split; auto.
Qed.

Lemma runs_sim : forall ls e w,
  R e w ->
  R (fst (impl_run e ls)) (fst (w_run w ls)) /\ snd (impl_run e ls) = snd (w_run w ls).
Proof.
  induction ls as [|l ls IH]; intros e w HR; [split; [exact HR|reflexivity]|].
  cbn [impl_run w_run].
  destruct (step_sim e w l HR) as [HR1 Ho].
  destruct (sse_line e l) as [e1 o]. destruct (w_line w l) as [w1 o']. cbn [fst snd] in *. subst o'.
  destruct (IH e1 w1 HR1) as [HR2 Hes].
  destruct (impl_run e1 ls) as [e2 es]. destruct (w_run w1 ls) as [w2 es']. cbn [fst snd] in *. subst es'.
  split; [exact HR2|reflexivity].
Qed.

Lemma R_init : R est_init w_init.
Proof. repeat split. Qed.

(* ------------------------------------------------------------ main theorem *)
Theorem sse_matches_spec : forall reads s b os,
  feeds sse_stage sse_start reads = (Live s b, os) ->
  (somes os, s_id (snd s), s_retry (snd s)) = sse_spec (concat reads).
Proof.
  intros reads s b os H. rewrite sse_feeds_concat in H.
  cbn [feed sse_start app] in H.
  pose proof (run_lines (S (length (concat reads))) false est_init (concat reads) ltac:(lia)) as Hl.
  unfold sse_init in H. rewrite H in Hl.
  unfold sse_spec.
  destruct (runs_sim (spec_lines (concat reads) [] false) est_init w_init R_init) as [[Hid [_ [Hre _]]] Hes].
  rewrite Hl in Hid, Hre, Hes. cbn [fst snd] in *.
  destruct (w_run w_init (spec_lines (concat reads) [] false)) as [w es]. cbn [fst snd] in *.
  subst es. rewrite Hid, Hre. reflexivity.
Qed.

(* the parser only ever fails with LineTooLong (an HTTPException) *)
Lemma run_dead : forall f s b k os, run sse_stage f s b = (Dead k, os) -> k = HTTPExc.
Proof.
  induction f as [|f IH]; intros s b k os H; [discriminate|].
  cbn [run] in H. destruct (sse_stage s b) as [|s' b' o|e] eqn:E.
  - discriminate.
  - destruct (run sse_stage f s' b') as [p os'] eqn:Er. inversion H; subst. eapply IH; eauto.
  - inversion H; subst. unfold sse_stage in E.
    destruct (line_stage ESse (fst s) b) as [|k' r l|e'] eqn:El; try discriminate.
    + destruct (sse_line (snd s) l); discriminate.
    + inversion E; subst. eapply line_fail_http; eauto.
Qed.

Theorem sse_fails_only_http : forall reads k os,
  feeds sse_stage sse_start reads = (Dead k, os) -> k = HTTPExc.
Proof.
  intros reads k os H. rewrite sse_feeds_concat in H. cbn [feed sse_start] in H.
  eapply run_dead; eauto.
Qed.

Lemma scan_sse_line_len : forall bb l r k, scan_sse bb = Some (l, r, k) -> length l < length bb.
Proof.
  induction bb as [|x bb IHb]; intros l0 r0 k0 E0; [discriminate|].
  cbn [scan_sse] in E0. destruct (N.eqb x LFb); [inversion E0; subst; cbn; lia|].
  destruct (N.eqb x CRb); [inversion E0; subst; cbn; lia|].
  destruct (scan_sse bb) as [[[l1 r1] k1]|] eqn:E1; [|discriminate].
  inversion E0; subst. specialize (IHb _ _ _ eq_refl). cbn. lia.
Qed.

(* a stream of at most 65537 bytes never fails *)
Lemma run_live_short : forall f s b,
  (lenN b <= max_line + 1)%N -> exists s' b' os, run sse_stage f s b = (Live s' b', os).
Proof.
  induction f as [|f IH]; intros s b Hb; [repeat eexists|].
  cbn [run]. unfold sse_stage at 1. unfold line_stage.
  destruct (fst s && is_nil b); [repeat eexists|].
  assert (Hb1 : length (skipped (fst s) b) <= length b)
    by (unfold skipped; destruct (fst s); [apply drop_lf_len|lia]).
  cbn [scan].
  destruct (scan_sse (skipped (fst s) b)) as [[[l r] k]|] eqn:E.
  - pose proof (scan_sse_shrinks _ _ _ _ E) as Hr.
    pose proof (scan_sse_line_len _ _ _ _ E) as Hll.
    assert (Hl : (lenN l <= max_line)%N) by (unfold lenN in *; lia).
    apply N.ltb_ge in Hl. rewrite Hl.
    destruct (sse_line (snd s) l) as [e1 o].
    destruct (IH (k, e1) r ltac:(unfold lenN in *; lia)) as [s' [b' [os Hrun]]].
    rewrite Hrun. repeat eexists.
  - assert (Hl : N.ltb (max_line + 1) (lenN (skipped (fst s) b)) = false)
      by (apply N.ltb_ge; unfold lenN in *; lia).
    rewrite Hl. repeat eexists.
Qed.

Theorem sse_short_never_fails : forall reads,
  (lenN (concat reads) <= max_line + 1)%N ->
  exists s b os, feeds sse_stage sse_start reads = (Live s b, os).
Proof.
  intros reads H. rewrite sse_feeds_concat. cbn [feed sse_start app].
  apply run_live_short. exact H.
Qed.

(* ------------------------------------------------- inside chunked coding *)
Theorem sse_chunked_matches_spec : forall reads cst b os r,
  feeds chunk_stage (Live CSize []) reads = (Live cst b, os) ->
  sse_over_chunked reads = Some r ->
  r = sse_spec (body_of (somes os)).
Proof.
  intros reads cst b os r Hc Hs. unfold sse_over_chunked in Hs. rewrite Hc in Hs.
  destruct (feeds sse_stage sse_start (map k_data (somes os))) as [[s b'|k] eos] eqn:E; [|discriminate].
  cbn [sse_result] in Hs. inversion Hs; subst.
  apply (sse_matches_spec _ _ _ _ E).
Qed.

Lemma body_of_sent cs lastext trs : body_of (sent_chunks cs lastext trs) = concat (map e_data cs).
Proof.
  unfold body_of, sent_chunks. rewrite map_app, concat_app. cbn [map concat k_data].
  rewrite !app_nil_r, map_map. reflexivity.
Qed.

(* an event stream sent as any well-formed chunked body, read in any
   fragmentation: the events are those of the stream *)
Theorem sse_chunked_encoded : forall reads cs zeros lastext trs tail r,
  Forall wf_chunk cs -> zeros_ok zeros -> ext_text_ok lastext ->
  (lenN (zeros ++ lastext) <= max_line)%N ->
  Forall wf_trailer trs -> length trs <= max_headers ->
  concat reads = encode_chunked cs zeros lastext trs ++ tail ->
  sse_over_chunked reads = Some r ->
  r = sse_spec (concat (map e_data cs)).
Proof.
  intros reads cs zeros lastext trs tail r H1 H2 H3 H4 H5 H6 E Hs.
  destruct (feed_encoded cs zeros lastext trs tail H1 H2 H3 H4 H5 H6) as [os [Hf Hso]].
  pose proof (chunk_feeds_concat reads) as Hc. rewrite E, Hf in Hc.
  rewrite (sse_chunked_matches_spec _ _ _ _ _ Hc Hs), Hso, body_of_sent. reflexivity.
Qed.
