"""C21 — Memo transmission loses no gram under transport backpressure.

Drives the real hio.core.udp.peermemoing.PeerMemoer / hio.core.uxd.peermemoing.PeerMemoer
(Peer.send + Memoer tx servicing) over a fake socket whose sendto() follows a script of kernel results.
"""
import errno as _errno

from harness.core import coq_N, coq_nat, coq_list, coq_bool, coq_bytes, coq_option

PROP = "C21"
COQ_REQUIRES = ["Hio.Model.MemoTx"]
COQ_CHECK = "MemoTx.check_case"
COQ_CASE_TYPE = "MemoTx.case"
COQ_BRANCHES = ("MemoTx.case_branches", "MemoTx.n_branches")
RULE = ("op sequences (gramit / serviceTxGrams / serviceTxGramsOnce / opened flag / real close() and reopen()) on the real UDP "
        "and UXD PeerMemoer and on a Memoer-level class that overrides only send "
        "over a fake socket whose sendto follows a script of kernel results: accept n bytes (0..len and beyond), accept "
        "all, or raise OSError with one of 19 errnos (4 would-block, 10 unreachable, 5 unexpected); grams are queued as "
        "bytes, bytearray or memoryview objects and the SAME object is often queued several times to different "
        "destinations (fan-out), the application's objects must stay unchanged; in 30% of the cases the application owns "
        "the queue: a deque (empty or pre-filled) and a .txbs remainder are handed to the constructor and the deque is filled by "
        "the application afterwards; a case is "
        "non-trivial when >= 2 grams were queued and some send accepted nothing or only part of a gram")
MODELLED = ["socket.sendto (scripted results: count / OSError(errno))",
            "collections.deque / bytearray slicing (as list operations)",
            "destination addresses (as N; all truthy)"]

WOULD_BLOCK = ["EAGAIN", "EWOULDBLOCK", "ENOBUFS", "ENOMEM"]
UNREACH = ["ECONNREFUSED", "ENOENT", "ECONNRESET", "ENETRESET", "ENETUNREACH", "EHOSTUNREACH", "ENETDOWN",
           "EHOSTDOWN", "ETIMEDOUT", "ETIME"]
OTHER = ["EMSGSIZE", "EPERM", "EINVAL", "EPIPE", "EBADF"]
ALL_ERRNOS = WOULD_BLOCK + UNREACH + OTHER


# --------------------------------------------------------------------------- cases

def _g(s, d):
    return ["gram", s.encode().hex() if isinstance(s, str) else bytes(s).hex(), d]


def _go(s, d, obj, typ):
    """gram op whose payload is application object number `obj` (same number = the very same Python object)
    of type typ in bytes | bytearray | memoryview"""
    return ["gram", s.encode().hex() if isinstance(s, str) else bytes(s).hex(), d, obj, typ]


def directed():
    A, B, C = "AAAAAA", "BBBBBB", "CC"
    out = [
        # fan-out: one bytearray object queued to three destinations, complete sends
        {"transport": "udp", "ops": [_go(A, 1, 0, "bytearray"), _go(A, 2, 0, "bytearray"), _go(A, 3, 0, "bytearray")] + [["svc"]] * 2, "script": []},
        # ... with a partial send and a would-block in between
        {"transport": "uxd", "ops": [_go(A, 1, 0, "bytearray"), _go(A, 2, 0, "bytearray"), _go(B, 1, 1, "bytes"), _go(A, 3, 0, "bytearray")] + [["svc"]] * 6,
         "script": [["acc", 2], ["acc", 0], ["err", "EAGAIN"], ["acc", 1], ["all"], ["acc", 3]]},
        # the same object re-queued after it was sent; memoryview and bytes objects shared as well
        {"transport": "udp", "ops": [_go(A, 1, 0, "bytearray"), ["svc"], _go(A, 2, 0, "bytearray"), ["once"], _go(C, 1, 1, "memoryview"), _go(C, 2, 1, "memoryview"),
                                     _go(B, 3, 2, "bytes"), _go(B, 1, 2, "bytes")] + [["svc"]] * 4, "script": [["all"], ["acc", 4], ["acc", 1]]},
        # fan-out with an unreachable destination in the middle
        {"transport": "uxd", "ops": [_go(A, 1, 0, "bytearray"), _go(A, 2, 0, "bytearray"), _go(A, 3, 0, "bytearray")] + [["svc"]] * 4,
         "script": [["acc", 3], ["err", "ECONNREFUSED"], ["acc", 5]]},
    ] + [
        # D24 part 1 (fixed): send accepts nothing on a newly dequeued gram
        {"transport": "udp", "ops": [_g(A, 1), _g(B, 1), ["svc"], ["svc"], ["svc"]], "script": [["acc", 0]]},
        # D24 part 2 (fixed): partial remainder while txgs is empty
        {"transport": "udp", "ops": [_g(A, 1), ["svc"], ["svc"], ["svc"]], "script": [["acc", 3]]},
        {"transport": "uxd", "ops": [_g(A, 1), ["once"], ["once"], ["once"]], "script": [["acc", 3], ["acc", 0], ["acc", 2]]},
        # would-block errnos, partial, unreachable drop of a remainder, unexpected error on a fresh gram
        {"transport": "udp", "ops": [_g(A, 1), _g(B, 2), _g(C, 1)] + [["svc"]] * 6,
         "script": [["acc", 0], ["err", "EAGAIN"], ["acc", 3], ["err", "ECONNREFUSED"], ["err", "EMSGSIZE"]]},
        {"transport": "uxd", "ops": [_g(A, 1), _g(B, 2), _g(C, 1)] + [["svc"]] * 6,
         "script": [["acc", 0], ["err", "ENOBUFS"], ["acc", 3], ["err", "ENOENT"], ["err", "EPERM"]]},
        # unexpected error while a remainder is in txbs (kept), then completes
        {"transport": "udp", "ops": [_g(A, 1), ["svc"], ["svc"], ["svc"]], "script": [["acc", 2], ["err", "EINVAL"], ["all"]]},
        # closed: nothing is serviced; reopened: continues
        {"transport": "udp", "ops": [_g(A, 1), ["open", False], ["svc"], ["once"], ["open", True], ["once"], ["svc"]],
         "script": [["acc", 1]]},
        # empty gram, over-long accept count, interleaved queueing
        {"transport": "uxd", "ops": [_g("", 1), _g(B, 2), ["svc"], _g(C, 3), ["once"], ["svc"]], "script": [["acc", 0], ["acc", 99], ["acc", 1]]},
        # every unreachable errno drops exactly the gram in flight
        {"transport": "udp", "ops": [_g("g%02d" % i, 1 + i % 3) for i in range(10)] + [["svc"]] * 11,
         "script": [x for e in UNREACH for x in (["err", e],)]},
        {"transport": "uxd", "ops": [_g("g%02d" % i, 1) for i in range(4)] + [["svc"]] * 12,
         "script": [["err", e] for e in WOULD_BLOCK] + [["acc", 1]] * 3},
        # nothing queued
        {"transport": "udp", "ops": [["svc"], ["once"]], "script": []},
        # close() / reopen() in the middle of backpressure: the parked gram / remainder survives and is sent after reopen
        *[{"transport": t, "ops": [_g(A, 1), _g(B, 2), ["svc"], ["close"], ["svc"], ["once"], ["reopen"], ["svc"], ["svc"]], "script": [sc]}
          for t in ("memoer", "udp", "uxd") for sc in (["acc", 3], ["acc", 0])],
        *[{"transport": t, "ops": [_g(A, 1), ["once"], ["reopen"], _g(C, 2), ["once"], ["reopen"], ["once"], ["once"]], "script": [["acc", 2], ["acc", 1]]}
          for t in ("memoer", "uxd")],
        {"transport": "memoer", "own": {"txbs0": [C.encode().hex(), 3], "append": True},
         "ops": [["reopen"], _g(A, 1), ["svc"], ["close"], ["reopen"], ["svc"]], "script": [["acc", 1]]},
        # the application owns the queue: an EMPTY deque handed to the constructor and filled afterwards
        {"transport": "udp", "own": {"append": True}, "ops": [_g(A, 1), _g(B, 2), ["svc"], _g(C, 1), ["once"], ["svc"]], "script": [["acc", 2]]},
        {"transport": "uxd", "own": {"append": True}, "ops": [_g(A, 1), _g(B, 2), _g(C, 3), _g(A, 2)] + [["svc"]] * 3, "script": [["acc", 0]]},
        # ... handed over empty, then filled through gramit
        {"transport": "udp", "own": {}, "ops": [_g(A, 1), _g(B, 2), ["svc"], ["svc"]], "script": [["acc", 1]]},
        # ... pre-filled, with a remainder in .txbs, more appended later
        {"transport": "uxd", "own": {"prefill": [[A.encode().hex(), 1], [B.encode().hex(), 2]], "txbs0": [C.encode().hex(), 3], "append": True},
         "ops": [["svc"], _g(C, 1), ["svc"], ["svc"]], "script": [["acc", 1], ["acc", 0]]},
        {"transport": "udp", "own": {"prefill": [[A.encode().hex(), 1]]}, "ops": [["once"], _g(B, 2), ["once"], ["once"]], "script": []},
    ]
    return out


def _rand_script(rng, n, gl, fault):
    s = []
    for _ in range(n):
        r = rng.random()
        if r < 0.30:
            s.append(["acc", 0] if rng.random() < 0.5 else ["err", rng.choice(WOULD_BLOCK)])
        elif r < 0.60:
            s.append(["acc", rng.randint(1, max(1, gl - 1))])
        elif r < 0.80:
            s.append(["all"] if rng.random() < 0.7 else ["acc", gl + rng.randint(0, 3)])
        elif r < 0.80 + 0.15 * fault:
            s.append(["err", rng.choice(UNREACH)])
        elif r < 0.80 + 0.20 * fault:
            s.append(["err", rng.choice(OTHER)])
        else:
            s.append(["all"])
    return s


def generate(rng, tier):
    n = 700 if tier == "quick" else 14000
    out = []
    for i in range(n):
        fault = rng.choice([0, 0, 1, 1, 2])       # 0: backpressure only, 1: + unreachable, 2: + unexpected errors
        gl = rng.choice([1, 2, 3, 5, 8])
        ng = rng.randint(1, 6)
        ops, k = [], 0
        pend = ng
        share, pool = rng.random() < 0.5, []
        while pend or rng.random() < 0.5:
            r = rng.random()
            if pend and r < 0.45:
                ln = rng.choice([gl, gl, rng.randint(0, gl)])
                body = bytes((65 + k) for _ in range(ln)) if rng.random() < 0.7 else bytes(rng.randrange(256) for _ in range(ln))
                op = ["gram", body.hex(), rng.randint(1, 3)]
                if share:
                    if pool and rng.random() < 0.6:          # fan-out: queue an earlier object again, other destination
                        h, obj, typ = rng.choice(pool)
                        op = ["gram", h, rng.randint(1, 3), obj, typ]
                    else:
                        typ = rng.choice(["bytearray", "bytearray", "bytes", "memoryview"])
                        op += [len(pool), typ]
                        pool.append((op[1], op[3], typ))
                ops.append(op); k += 1; pend -= 1
            elif r < 0.80:
                ops.append(["svc"])
            elif r < 0.95:
                ops.append(["once"])
            elif r < 0.975:
                ops.append(["open", False]); ops.append(rng.choice([["svc"], ["once"]])); ops.append(["open", True])
            else:
                ops.append(rng.choice([["reopen"], ["close"]]))
                if ops[-1] == ["close"]:
                    ops.append(rng.choice([["svc"], ["once"]])); ops.append(["reopen"])
            if len(ops) > 30:
                break
        fs = {0: 0, 1: 1, 2: 1.0}[fault]
        script = _rand_script(rng, rng.randint(0, 3 * ng + 3), gl, fs)
        if fault < 2:
            script = [x for x in script if not (x[0] == "err" and x[1] in OTHER)]
        # drain so that completion is observable: the script is finite, afterwards everything is accepted
        ops += [["svc"]] * (len(script) + 1) if rng.random() < 0.7 else []
        c = {"transport": rng.choice(["udp", "uxd", "memoer"]), "ops": ops, "script": script}
        if c["transport"] == "memoer":        # at Memoer level a would-block is a send that returns 0
            c["script"] = [["acc", 0] if (x[0] == "err" and x[1] in WOULD_BLOCK) else x for x in script]
        if rng.random() < 0.25:               # close()/reopen() somewhere inside the history
            k = rng.randrange(len(ops) + 1)
            ops[k:k] = rng.choice([[["reopen"]], [["close"], rng.choice([["svc"], ["once"]]), ["reopen"]]])
        if rng.random() < 0.3:      # application-owned queue objects handed to the constructor
            c["own"] = {"append": rng.random() < 0.6}
            if rng.random() < 0.5:
                c["own"]["prefill"] = [[bytes([97 + j] * rng.randint(1, gl)).hex(), rng.randint(1, 3)] for j in range(rng.randint(1, 3))]
            if rng.random() < 0.3:
                c["own"]["txbs0"] = [bytes([48] * rng.randint(1, gl)).hex(), rng.randint(1, 3)]
        out.append(c)
    return out


# --------------------------------------------------------------------------- implementation

class _FakeSock:
    def __init__(self, script):
        self.script = list(script)
        self.log = []          # [dst, offered hex, result]

    def sendto(self, data, dst):
        r = self.script.pop(0) if self.script else ["all"]
        offered = bytes(data)
        if r[0] == "err":
            self.log.append([dst, offered.hex(), r])
            raise OSError(getattr(_errno, r[1]), r[1])
        n = len(offered) if r[0] == "all" else r[1]
        self.log.append([dst, offered.hex(), ["acc", n]])
        return n

    def close(self):
        pass


def _dst(transport, d):
    return ("10.0.0.%d" % d, 5000 + d) if transport == "udp" else "/var/tmp/nowhere/d%d" % d   # memoer: a path string too


def _undst(dst):
    if dst is None:
        return None
    return int(dst[0].rsplit(".", 1)[1]) if isinstance(dst, tuple) else int(dst.rsplit("d", 1)[1])


def _make(transport, script, **kwa):
    if transport == "memoer":
        # Memoer-level class: overrides only send (the documented way to attach a transport); close / reopen / open are
        # Memoer's own.  The scripted "socket" is reused as the result source.
        from hio.core.memo.memoing import Memoer
        sock = _FakeSock(script)

        class ScriptedMemoer(Memoer):
            def send(self, gram, dst, *, echoic=False):
                return sock.sendto(gram, dst)

        m = ScriptedMemoer(name="c21", **kwa)
        m.ls = sock
        m.opened = True
        return m
    if transport == "udp":
        from hio.core.udp.peermemoing import PeerMemoer
        m = PeerMemoer(name="c21", **kwa)
    else:
        from hio.core.uxd.peermemoing import PeerMemoer
        m = PeerMemoer(name="c21", reopen=False, **kwa)
    m.ls = _FakeSock(script)
    m.opened = True
    return m


def run_impl(case):
    import logging
    logging.disable(logging.CRITICAL)
    from harness.core import exn_kind
    t = case["transport"]
    own = case.get("own")          # the application owns the queue objects and hands them to the constructor
    kwa, q = {}, None
    if own:
        from collections import deque
        q = deque((bytes.fromhex(h), _dst(t, d)) for h, d in own.get("prefill", []))
        kwa["txgs"] = q
        if own.get("txbs0"):
            kwa["txbs"] = (bytearray(bytes.fromhex(own["txbs0"][0])), _dst(t, own["txbs0"][1]))
    m = _make(t, case["script"], **kwa)
    sock = m.ls
    excs, left = [], []
    objs = {}              # application objects: number -> (object, original content)
    for op in case["ops"]:
        left.append(len(sock.script))
        try:
            if op[0] == "gram":
                data = bytes.fromhex(op[1])
                if len(op) > 3:
                    if op[3] not in objs:
                        o = {"bytes": data, "bytearray": bytearray(data), "memoryview": memoryview(bytearray(data))}[op[4]]
                        objs[op[3]] = (o, data)
                    payload = objs[op[3]][0]
                else:
                    payload = data
                if own and own.get("append"):
                    q.append((payload, _dst(t, op[2])))        # the application fills ITS queue object
                else:
                    m.gramit(payload, _dst(t, op[2]))
            elif op[0] == "svc":
                m.serviceTxGrams()
            elif op[0] == "once":
                m.serviceTxGramsOnce()
            elif op[0] == "close":
                m.close()                                  # the class's real close()
            elif op[0] == "reopen":
                if t == "memoer":
                    m.reopen()                             # Memoer.reopen: close() then open()
                else:
                    m.close()                              # Peer.close; a real reopen would bind a socket, so the
                    m.ls, m.opened = sock, True            # scripted socket is attached again instead
            else:
                m.opened = bool(op[1])
            excs.append(None)
        except Exception as ex:
            excs.append(exn_kind(ex))
    if m.ls is None:
        m.ls = sock
    log = [[_undst(d), h, r] for d, h, r in m.ls.log]
    before = {"txgs": [[bytes(g).hex(), _undst(d)] for g, d in m.txgs], "txbs": [bytes(m.txbs[0]).hex(), _undst(m.txbs[1])]}
    # drain phase (after everything that is compared with the model has been recorded): the transport stops
    # pushing back and the Memoer is serviced further through the entry point the case uses (the ...Once
    # method if the case uses it at all, else the greedy one); one call per pending gram and two to spare
    entry = "once" if any(op[0] == "once" for op in case["ops"]) else "svc"
    pend = len(before["txgs"]) + (1 if before["txbs"][1] is not None else 0)
    m.ls.script, m.ls.log = [], []
    m.opened = True
    drain_exc = None
    try:
        for _ in range(pend + 2):
            m.serviceTxGramsOnce() if entry == "once" else m.serviceTxGrams()
    except Exception as ex:
        drain_exc = exn_kind(ex)
    drain = {"entry": entry, "exc": drain_exc,
             "offered": [[_undst(d), h] for d, h, r in m.ls.log],
             "txgs_left": [[bytes(g).hex(), _undst(d)] for g, d in m.txgs],
             "txbs_left": [bytes(m.txbs[0]).hex(), _undst(m.txbs[1])]}
    return {"excs": excs, "drain": drain, "queue_adopted": (q is None or m.txgs is q),
            "objs_changed": sorted(k for k, (o, orig) in objs.items() if bytes(o) != orig),
            "log": log,
            "script_left_before": left,
            "opened": bool(m.opened),
            "txgs": before["txgs"],
            "txbs": before["txbs"]}


def _accepted(obs):
    out = []
    for d, h, r in obs["log"]:
        if r[0] == "acc":
            b = bytes.fromhex(h)
            if min(r[1], len(b)):
                out.append([d, b[:min(r[1], len(b))].hex()])
    return out


# --------------------------------------------------------------------------- oracle

def _in_scope(case):
    return not any(x[0] == "err" and x[1] in OTHER for x in case["script"])


def _eventually_delivered(obs):
    """once the transport accepts again, further service calls through the case's entry point deliver everything
    that was pending, in order, in full, and leave txgs empty and txbs = (b'', None)"""
    d = obs["drain"]
    pending = ([[obs["txbs"][1], obs["txbs"][0]]] if obs["txbs"][1] is not None else []) + [[dst, g] for g, dst in obs["txgs"]]
    if d["exc"]:
        return f"servicing with an accepting transport raised {d['exc']}"
    if d["txgs_left"] or d["txbs_left"] != ["", None]:
        return (f"transport accepts everything, yet after {len(pending) + 2} further {d['entry']} service calls "
                f"txgs={d['txgs_left']} txbs={d['txbs_left']} are still unsent")
    if d["offered"] != pending:
        return f"pending {pending} but the accepting transport was offered {d['offered']}"
    return None


def oracle(case, obs):
    """Every queued gram is offered to the transport in full, in queue order, each byte accepted exactly once;
    a gram is abandoned only after an unreachable error; nothing raises; once the transport accepts again a
    final serviceTxGrams drains everything.  (Fault sequences with unexpected errnos are outside the property.)"""
    if not obs.get("queue_adopted", True):
        return "the queue object handed to the constructor is not the one the Memoer services: grams the application puts on it are never sent"
    w = _eventually_delivered(obs)
    if w or not _in_scope(case):
        return w
    if any(obs["excs"]):
        return f"exception escaped although the transport only blocked or reported unreachable: {obs['excs']}"
    if obs.get("objs_changed"):
        return f"the application's own gram objects {obs['objs_changed']} were modified by transmit servicing"
    own = case.get("own") or {}
    queued = ([(bytes.fromhex(own["txbs0"][0]), own["txbs0"][1])] if own.get("txbs0") else []) + \
             [(bytes.fromhex(h), d) for h, d in own.get("prefill", [])] + \
             [(bytes.fromhex(o[1]), o[2]) for o in case["ops"] if o[0] == "gram"]
    i, off = 0, 0
    for n, (d, h, r) in enumerate(obs["log"]):
        offered = bytes.fromhex(h)
        if i >= len(queued):
            return f"send call {n} offers {offered!r} to {d} but every queued gram was already sent or dropped"
        g, gd = queued[i]
        if d != gd or offered != g[off:]:
            return (f"send call {n} offers {offered!r} to {d}; expected the unsent rest {g[off:]!r} of gram {i} "
                    f"{g!r} for {gd} (a gram was lost, duplicated or reordered)")
        if r[0] == "err" and r[1] in UNREACH:
            i, off = i + 1, 0
            continue
        if r[0] == "acc":
            off += min(r[1], len(offered))
        if off >= len(g):   # nothing (left) to send: done (would-block changes nothing; an empty gram is done at once)
            i, off = i + 1, 0
    rest = []
    if i < len(queued):
        rest = [(queued[i][0][off:], queued[i][1])] + queued[i + 1:]
    have = ([(bytes.fromhex(obs["txbs"][0]), obs["txbs"][1])] if obs["txbs"][1] is not None else []) + \
           [(bytes.fromhex(g), d) for g, d in obs["txgs"]]
    if rest != have:
        return f"still pending {have!r} but unsent queue is {rest!r} (a gram was lost or duplicated)"
    if obs["txbs"][1] is None and obs["txbs"][0] != "":
        return "idle txbs holds bytes"
    # completion: last op is a greedy service on an opened peer with the script already exhausted
    if case["ops"] and case["ops"][-1] == ["svc"] and obs["opened"] and obs["script_left_before"][-1] == 0:
        if have:
            return f"transport accepts everything yet {have!r} stays unsent after serviceTxGrams"
    return None


def nontrivial(case, obs):
    ng = sum(1 for o in case["ops"] if o[0] == "gram")
    part = any((r[0] == "acc" and r[1] < len(h) // 2) or (r[0] == "err" and r[1] in WOULD_BLOCK) for d, h, r in obs["log"])
    return ng >= 2 and part


def classify(case, obs, why):
    return None


def shrink(case):
    ops, sc = case["ops"], case["script"]
    for i in range(len(ops)):
        yield dict(case, ops=ops[:i] + ops[i + 1:])
    for i in range(len(sc)):
        yield dict(case, script=sc[:i] + sc[i + 1:])


def distribution(cases, obs):
    kinds = {"would_block": 0, "partial": 0, "full": 0, "unreachable": 0, "unexpected": 0}
    for o in obs:
        if not isinstance(o, dict) or "log" not in o:
            continue
        for d, h, r in o["log"]:
            if r[0] == "err":
                kinds["would_block" if r[1] in WOULD_BLOCK else "unreachable" if r[1] in UNREACH else "unexpected"] += 1
            elif r[1] == 0 and h:
                kinds["would_block"] += 1
            elif r[1] < len(h) // 2:
                kinds["partial"] += 1
            else:
                kinds["full"] += 1
    return {"send_results": kinds, "transports": {t: sum(1 for c in cases if c.get("transport") == t) for t in ("udp", "uxd", "memoer")}}


# --------------------------------------------------------------------------- Gallina

def _op(o):
    if o[0] == "gram":
        return f"(MemoTx.Gramit {coq_bytes(bytes.fromhex(o[1]))} {coq_N(o[2])})"
    if o[0] == "svc":
        return "MemoTx.Service"
    if o[0] == "once":
        return "MemoTx.ServiceOnce"
    if o[0] == "close":
        return "(MemoTx.SetOpened false)"          # closing keeps queue and remainder
    if o[0] == "reopen":
        return "(MemoTx.SetOpened true)"
    return f"(MemoTx.SetOpened {coq_bool(o[1])})"


def _k(x):
    if x[0] == "acc":
        return f"(MemoTx.KAcc {coq_nat(x[1])})"
    if x[0] == "all":
        return "MemoTx.KAll"
    return f"(MemoTx.KErr MemoTx.{x[1]})"


def to_coq(case, obs):
    exc = lambda e: coq_option(e, ty="exn")
    acc = [f"({coq_N(d)}, {coq_bytes(bytes.fromhex(h))})" for d, h in _accepted(obs)]
    txgs = [f"({coq_bytes(bytes.fromhex(g))}, {coq_N(d)})" for g, d in obs["txgs"]]
    txbs = f"({coq_bytes(bytes.fromhex(obs['txbs'][0]))}, {coq_option(obs['txbs'][1], coq_N, 'N')})"
    own = case.get("own") or {}
    pre = [f"(MemoTx.Gramit {coq_bytes(bytes.fromhex(h))} {coq_N(d)})" for h, d in own.get("prefill", [])]
    t0 = own.get("txbs0")
    txbs0 = f"({coq_bytes(bytes.fromhex(t0[0]))}, (Some {coq_N(t0[1])}))" if t0 else "((@nil N), (@None N))"
    return ("{| MemoTx.c_txbs0 := %s; MemoTx.c_ops := %s; MemoTx.c_script := %s; MemoTx.c_excs := %s; MemoTx.c_accepted := %s; "
            "MemoTx.c_txgs := %s; MemoTx.c_txbs := %s |}" % (
                txbs0,
                coq_list(pre + [_op(o) for o in case["ops"]], "MemoTx.op"),
                coq_list([_k(x) for x in case["script"]], "MemoTx.kres"),
                coq_list([exc(None) for _ in pre] + [exc(e) for e in obs["excs"]], "option exn"),
                coq_list(acc, "N * bytes"), coq_list(txgs, "bytes * N"), txbs))
