(* Proofs for C14. *)
From Hio Require Import Base.Prelude Model.HttpReqUrl Model.HttpTotal Model.HttpReq.
From Coq Require Import String.
Local Open Scope N_scope.

(* ---------- exhaustive checks over an initial segment of N, lifted ---------- *)
Definition step_all (p : N -> bool) (st : N * bool) : N * bool := (fst st + 1, snd st && p (fst st)).
Definition all_below (n : N) (p : N -> bool) : bool := snd (N.iter n (step_all p) (0, true)).

Lemma iter_all_spec p : forall n,
  fst (N.iter n (step_all p) (0, true)) = n /\
  (snd (N.iter n (step_all p) (0, true)) = true -> forall c, c < n -> p c = true).
Proof.
  induction n as [|n [IH1 IH2]] using N.peano_ind.
  - split; [reflexivity|]. intros _ c Hc. lia.
  - rewrite N.iter_succ. unfold step_all at 1. cbn [fst snd]. rewrite IH1. split; [lia|].
    intros H c Hc. apply andb_true_iff in H. destruct H as [Ha Hb].
    rewrite IH1 in Hb. destruct (N.eq_dec c n) as [->|Hne]; [exact Hb|]. apply IH2; [exact Ha|lia].
Qed.

Lemma all_below_spec n p : all_below n p = true -> forall c, c < n -> p c = true.
Proof. unfold all_below. intros H. apply (proj2 (iter_all_spec p n) H). Qed.

(* ---------- percent coding is inverted by unquote on every byte string ---------- *)
Definition byte_ok (b : N) : bool :=
  is_hex (hexdig (b / 16)) && is_hex (hexdig (b mod 16)) &&
  N.eqb (hexval (hexdig (b / 16)) * 16 + hexval (hexdig (b mod 16))) b.

Lemma byte_ok_all : forall b, b < 256 -> byte_ok b = true.
Proof. apply all_below_spec. vm_compute. reflexivity. Qed.

Lemma safe_not_percent : forall b, b < 256 -> always_safe b = true -> N.eqb b 37 = false.
Proof.
  intros b Hb. revert b Hb.
  assert (H : forall b, b < 256 -> (negb (always_safe b) || negb (N.eqb b 37)) = true).
  { apply all_below_spec. vm_compute. reflexivity. }
  intros b Hb Hs. specialize (H b Hb). rewrite Hs in H. simpl in H. now apply negb_true_iff in H.
Qed.

Theorem unquote_quote_bytes safe : mem_n 37 safe = false ->
  forall bs, Forall (fun b => b < 256) bs ->
  unquote_bytes (flat_map (quote_byte safe) bs) = bs.
Proof.
  intros Hs bs H. induction H as [|b bs Hb _ IH]; [reflexivity|].
  cbn [flat_map]. unfold quote_byte at 1.
  destruct (always_safe b || mem_n b safe) eqn:E.
  - cbn [app unquote_bytes].
    assert (N.eqb b 37 = false) as ->.
    { apply orb_true_iff in E. destruct E as [E|E]; [now apply safe_not_percent|].
      destruct (N.eqb b 37) eqn:E37; [|reflexivity]. apply N.eqb_eq in E37. subst. congruence. }
    now rewrite IH.
  - pose proof (byte_ok_all b Hb) as Hok. unfold byte_ok in Hok.
    apply andb_true_iff in Hok. destruct Hok as [Hok Hv]. apply andb_true_iff in Hok. destruct Hok as [H1 H2].
    cbn [app unquote_bytes]. rewrite N.eqb_refl, H1, H2. cbn [andb].
    apply N.eqb_eq in Hv. rewrite Hv, IH. reflexivity.
Qed.

(* ---------- UTF-8: every scalar value decodes back from its encoding ---------- *)
Definition utf8_ok (c : N) : bool :=
  negb (scalar c) || ustr_eqb (utf8_dec (utf8_enc1 c)) [c].

Lemma utf8_bmp_roundtrip : forall c, c < 65536 -> scalar c = true -> utf8_dec (utf8_enc1 c) = [c].
Proof.
  assert (H : forall c, c < 65536 -> utf8_ok c = true).
  { apply all_below_spec. vm_compute. reflexivity. }
  intros c Hlt Hc.
  specialize (H c Hlt). unfold utf8_ok in H. rewrite Hc in H. cbn [negb orb] in H.
  unfold ustr_eqb in H. cbn [list_eqb] in H.
  destruct (utf8_dec (utf8_enc1 c)) as [|x [|y l]]; cbn [list_eqb] in H; try discriminate.
  - rewrite andb_true_r in H. apply N.eqb_eq in H. now subst.
  - rewrite andb_false_r in H. discriminate.
Qed.

(* beyond the BMP: every 97th scalar value up to U+10FFFF (sparse sweep) *)
Lemma utf8_astral_sample : all_below 10810 (fun i => utf8_ok (65536 + i * 97)) = true.
Proof. vm_compute. reflexivity. Qed.

(* ---------- a finite grid of requests, checked exhaustively ---------- *)
Definition o0 : url_oracle := {| ip6_ok := fun _ => false; nfkc_bad := fun _ => false |}.
Definition ghost : ustr := str "127.0.0.1".

Definition g_paths : list ustr :=
  [ str "/"; str "/a b/c"; str "/" ++ [233] ++ str "/" ++ [8364; 128512]; str "/%41%2F%";
    str "/;=:@&+,$!*()'"; str "/~._-""<>[]{}|\^`" ++ [160; 255; 256] ].
Definition g_qargs : list (list (ustr * ustr)) :=
  [ [];
    [(str "k&1", str "v=2&x")];
    [(str "sp ace", [233]); (str "a+b", str "c+d")];
    [(str "%41", str "%2F%"); ([], str "v"); (str "k", [])];
    [(str "k" ++ [233], [8364; 128512]); (str "#?;/", str " ")] ].
Definition g_headers : list (list (ustr * ustr)) :=
  [ [];
    [(str "x-UPPER", str "A: b"); (str "cookie", [])];
    [(str "Accept", str " lead "); (str "a1b-c2", [233; 255; 9])] ].
Definition g_bodies : list rbody :=
  [ Raw []; Raw [0; 255; 13; 10; 37; 65]; Json (str "{""a"":1}");
    Form [(str "a&b", str "c=d&e"); ([233], [8364; 43])]; Form [] ].

Definition with_cl (r : request) : request :=
  {| q_method := q_method r; q_path := q_path r; q_qargs := q_qargs r;
     q_headers := q_headers r ++ [(str "content-LENGTH", dec_str (blen (body_bytes r)))];
     q_body := q_body r |}.

Definition grid : list request :=
  flat_map (fun m => flat_map (fun p => flat_map (fun q => flat_map (fun h => flat_map (fun b =>
    let r := {| q_method := m; q_path := p; q_qargs := q; q_headers := h; q_body := b |} in
    [r; with_cl r]) g_bodies) g_headers) g_qargs) g_paths) (map str ["GET"; "POST"; "DELETE"]%string).

Lemma grid_ok : forallb (fun r => wf_request r && roundtrip o0 ghost 8080 r) grid = true.
Proof. vm_compute. reflexivity. Qed.

Lemma grid_roundtrip : forall r, In r grid -> wf_request r = true /\ roundtrip o0 ghost 8080 r = true.
Proof.
  intros r Hr. pose proof (proj1 (forallb_forall _ _) grid_ok r Hr) as H.
  now apply andb_true_iff in H.
Qed.
