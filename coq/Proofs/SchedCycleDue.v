(* C03, part 2: the due-time rule.
   (a) one-step equations of [recur_loop] for an arbitrary program (the rule as
       the code has it, for any scheduler, flat or nested);
   (b) a reference cycle model in Gallina (mirror of [reference_flat] in
       harness/drivers/sched_common.py): a list of (doer, due, pc) visited in
       order once per cycle;
   (c) refinement: for static flat programs (root doers are leaves without
       effects and without raises) [do_run] computes exactly what the reference
       computes, under the single side condition  oof (do_run ...) = false;
   (d) what the reference model says: once per cycle, in enter order, at the
       cycle's tyme. *)
From Coq Require Import Permutation.
From Hio Require Import Base.Prelude Base.AMap Base.Time Model.Sched Proofs.SchedEqs Proofs.SchedFrame
  Proofs.SchedCycleTick.

Section Due.
Context {T : Type} `{Time T}.
Implicit Types s a b : st T.

(* ---------- (a) the rule, for any program ---------- *)

(* next due tyme of a deed with due tyme [re], run at tyme [now] under a
   scheduler with tock [stock], after its doer yielded [t] *)
Definition next_due (now stock re : T) (t : option T) : T :=
  match t with
  | None => tadd now stock
  | Some x => if tfalsy x then tadd now stock else tadd re x
  end.

Variable tk : T.

Lemma recur_loop_empty f s sid : deeds (get_sched s sid) = [] -> recur_loop tk (S f) s sid = (s, GReturn).
Proof. intro E. rewrite recur_loop_S, E. reflexivity. Qed.

Lemma recur_loop_mark f s sid r : deeds (get_sched s sid) = DMark :: r ->
  recur_loop tk (S f) s sid = (set_deeds s sid r, GReturn).
Proof. intro E. rewrite recur_loop_S, E. reflexivity. Qed.

(* not due: no send, re-appended unchanged *)
Lemma recur_loop_notdue f s sid i re r : deeds (get_sched s sid) = DDeed i re :: r -> tleb re (tyme s) = false ->
  recur_loop tk (S f) s sid = recur_loop tk f (set_deeds (set_deeds s sid r) sid (r ++ [DDeed i re])) sid.
Proof. intros E D. rewrite recur_loop_S, E. cbv zeta. cbn [tyme set_deeds set_sched]. rewrite D. reflexivity. Qed.

(* due: exactly one send; a yield t re-appends the deed with [next_due] *)
Lemma recur_loop_due f s sid i re r : deeds (get_sched s sid) = DDeed i re :: r -> tleb re (tyme s) = true ->
  recur_loop tk (S f) s sid =
  let '(s2, g) := gen_send tk f (set_deeds s sid r) i in
  match g with
  | GYield t => recur_loop tk f (set_deeds s2 sid (deeds (get_sched s2 sid) ++
                                   [DDeed i (next_due (tyme s2) (sched_tock tk s2 sid) re t)])) sid
  | GReturn => recur_loop tk f s2 sid
  | GRaise kbd => (s2, GRaise kbd)
  | GFuel => (s2, GFuel)
  end.
Proof.
  intros E D. rewrite recur_loop_S, E. cbv zeta. cbn [tyme set_deeds set_sched]. rewrite D.
  destruct (gen_send tk f _ i) as [s2 g]. destruct g as [[x|]| | |]; reflexivity.
Qed.

(* ---------- state access lemmas ---------- *)

Lemma deeds_set_deeds s i ds : deeds (get_sched (set_deeds s i ds) i) = ds.
Proof. unfold get_sched, set_deeds, set_sched; cbn [scheds]. now rewrite get_set_same. Qed.

Lemma get_gen_same s i g : get_gen (set_gen s i g) i = g.
Proof. unfold get_gen, set_gen; cbn [gens]. now rewrite get_set_same. Qed.
Lemma get_gen_other s i g j : j <> i -> get_gen (set_gen s i g) j = get_gen s j.
Proof. intro. unfold get_gen, set_gen; cbn [gens]. now rewrite get_set_other. Qed.
Lemma get_done_same s i d : get_done (set_done s i d) i = d.
Proof. unfold get_done, set_done; cbn [dones]. now rewrite get_set_same. Qed.
Lemma get_done_other s i d j : j <> i -> get_done (set_done s i d) j = get_done s j.
Proof. intro. unfold get_done, set_done; cbn [dones]. now rewrite get_set_other. Qed.

(* Recur steps of a trace, newest first, as (doer, tyme) *)
Definition rec_of (e : ev T) : list (id * T) :=
  match e_kind e with Recur => [(e_id e, e_tyme e)] | _ => [] end.
Definition recs s : list (id * T) := flat_map rec_of (trace s).
(* oldest first: what the harness observes *)
Definition recur_steps s : list (id * T) := rev (recs s).

(* ---------- forced closing: no Recur, no done flag touched ---------- *)

Definition closes a b : Prop :=
  dones b = dones a /\ tyme b = tyme a /\ defs b = defs a /\
  exists l, trace b = l ++ trace a /\ Forall (fun e => e_kind e = Cease \/ e_kind e = Exit) l.

Lemma closes_refl a : closes a a.
Proof. repeat split. exists []. split; [reflexivity|constructor]. Qed.
Lemma closes_trans a b c : closes a b -> closes b c -> closes a c.
Proof.
  intros (D1 & T1 & F1 & l1 & E1 & A1) (D2 & T2 & F2 & l2 & E2 & A2).
  repeat split; try congruence. exists (l2 ++ l1). split; [now rewrite E2, E1, app_assoc|].
  apply Forall_app. split; assumption.
Qed.
Lemma cl_emit a s k i : (k = Cease \/ k = Exit) -> closes a s -> closes a (emit s k i).
Proof.
  intros Hk C. eapply closes_trans; [exact C|]. repeat split.
  eexists [_]. split; [reflexivity|]. constructor; [exact Hk|constructor].
Qed.
Lemma cl_gen a s i g : closes a s -> closes a (set_gen s i g).
Proof. intro C. eapply closes_trans; [exact C|]. repeat split. exists []. split; [reflexivity|constructor]. Qed.
Lemma cl_deeds a s i d : closes a s -> closes a (set_deeds s i d).
Proof. intro C. eapply closes_trans; [exact C|]. repeat split. exists []. split; [reflexivity|constructor]. Qed.
Lemma cl_oof a s : closes a s -> closes a (out_of_fuel s).
Proof. intro C. eapply closes_trans; [exact C|]. repeat split. exists []. split; [reflexivity|constructor]. Qed.

Definition closes_at (f : nat) : Prop :=
  (forall a s i, closes a s -> closes a (gen_close tk f s i)) /\
  (forall a s i, closes a s -> closes a (close_own tk f s i)) /\
  (forall a s ds, closes a s -> closes a (close_list tk f s ds)).

Lemma closes_all : forall f, closes_at f.
Proof.
  induction f as [|f (Icl & Ico & Ili)]; unfold closes_at.
  - repeat split; intros; cbn; now apply cl_oof.
  - repeat match goal with |- _ /\ _ => split end; intros.
    + rewrite gen_close_S.
      destruct (get_gen s i); try assumption.
      destruct (get (defs s) i) as [[k sc|t0 al kids]|]; try assumption.
      * apply cl_gen, cl_emit; [auto|]. apply cl_emit; [auto|]. now apply cl_gen.
      * cbv zeta. apply cl_gen, cl_emit; [auto|]. apply Ico. apply cl_emit; [auto|]. now apply cl_gen.
    + rewrite close_own_S. cbv zeta. apply Ili. now apply cl_deeds.
    + rewrite close_list_S. destruct ds as [|[|i re] r]; [assumption|now apply Ili|].
      apply Ili. now apply Icl.
Qed.

Lemma close_own_closes f s sid : closes s (close_own tk f s sid).
Proof. destruct (closes_all f) as (_ & Ico & _). apply Ico, closes_refl. Qed.
Lemma gen_close_closes f s i : closes s (gen_close tk f s i).
Proof. destruct (closes_all f) as (Icl & _). apply Icl, closes_refl. Qed.
Lemma close_list_closes f s ds : closes s (close_list tk f s ds).
Proof. destruct (closes_all f) as (_ & _ & Ili). apply Ili, closes_refl. Qed.

Lemma closes_recs a b : closes a b -> recs b = recs a.
Proof.
  intros (_ & _ & _ & l & E & A). unfold recs. rewrite E, flat_map_app.
  replace (flat_map rec_of l) with (@nil (id * T)); [reflexivity|]. clear E.
  induction A as [|e l [K|K] A IH]; cbn [flat_map]; [reflexivity| |]; unfold rec_of at 1; rewrite K; exact IH.
Qed.
Lemma closes_done a b i : closes a b -> get_done b i = get_done a i.
Proof. intros (D & _). unfold get_done. now rewrite D. Qed.

(* ---------- (b) the reference cycle model ---------- *)

Record rdoer := { r_id : id; r_due : T; r_pc : nat }.

Definition script_of (D : amap (fdef T)) (i : id) : list (fstep T) :=
  match get D i with Some (FLeaf _ sc) => sc | _ => [] end.
Definition out_at (D : amap (fdef T)) (i : id) (pc : nat) : outcome T :=
  f_out (nth pc (script_of D i) default_step).

(* one doer in one cycle at tyme [now]: (what stays in the list, recur steps) *)
Definition ref_visit (D : amap (fdef T)) (now tock : T) (d : rdoer) : list rdoer * list (id * T) :=
  if tleb (r_due d) now then
    match out_at D (r_id d) (r_pc d) with
    | OYield t => ([{| r_id := r_id d; r_due := next_due now tock (r_due d) t; r_pc := S (r_pc d) |}],
                   [(r_id d, now)])
    | _ => ([], [(r_id d, now)])
    end
  else ([d], []).

Fixpoint ref_pass (D : amap (fdef T)) (now tock : T) (q : list rdoer) : list rdoer * list (id * T) :=
  match q with
  | [] => ([], [])
  | d :: q' =>
    let '(a, o) := ref_visit D now tock d in
    let '(b, o') := ref_pass D now tock q' in
    (a ++ b, o ++ o')
  end.

Definition limited (limit : option T) : bool :=
  match limit with Some l => negb (tfalsy l) | None => false end.

(* result: recur steps per cycle (oldest cycle first), final tyme, done *)
Fixpoint ref_cycles (D : amap (fdef T)) (tock : T) (limit : option T) (stop : T) (cycles : nat)
  (now : T) (q : list rdoer) (outs : list (list (id * T))) : option (list (list (id * T)) * T * bool) :=
  match cycles with
  | O => None
  | S c =>
    let '(q', o) := ref_pass D now tock q in
    let now' := tadd now tock in
    match q' with
    | [] => Some (outs ++ [o], now', true)
    | _ => if limited limit && tleb stop now' then Some (outs ++ [o], now', false)
           else ref_cycles D tock limit stop c now' q' (outs ++ [o])
    end
  end.

Definition ref_enter (D : amap (fdef T)) (now : T) (ids : list id) : list rdoer :=
  flat_map (fun i => match out_at D i 0 with
                     | OYield _ => [{| r_id := i; r_due := now; r_pc := 1 |}]
                     | _ => [] end) ids.

Definition ref_run (cycles : nat) (p : prog T) : option (list (list (id * T)) * T * bool) :=
  let q := ref_enter (p_defs p) (p_tyme p) (p_doers p) in
  let limit := option_map tabs (p_limit p) in
  let stop := tadd (p_tyme p) (match limit with Some l => l | None => tzero end) in
  ref_cycles (p_defs p) (p_tock p) limit stop cycles (p_tyme p) q [].

(* the same reference, now producing the whole event trace (newest first, as [trace]) *)
Definition mk (k : ekind) (i : id) (t : T) : ev T := {| e_kind := k; e_id := i; e_tyme := t |}.

Definition visit_evs (D : amap (fdef T)) (now : T) (d : rdoer) : list (ev T) :=
  if tleb (r_due d) now then
    match out_at D (r_id d) (r_pc d) with
    | OYield _ => [mk Recur (r_id d) now]
    | _ => [mk Exit (r_id d) now; mk Clean (r_id d) now; mk Recur (r_id d) now]
    end
  else [].

Fixpoint pass_evs (D : amap (fdef T)) (now : T) (q : list rdoer) : list (ev T) :=
  match q with [] => [] | d :: q' => pass_evs D now q' ++ visit_evs D now d end.

Fixpoint enter_evs (D : amap (fdef T)) (now : T) (ids : list id) : list (ev T) :=
  match ids with
  | [] => []
  | i :: r => enter_evs D now r ++
              match out_at D i 0 with
              | OYield _ => [mk Enter i now]
              | _ => [mk Exit i now; mk Clean i now; mk Enter i now]
              end
  end.

(* forced exit of the doers still alive: reverse list order, i.e. the first doer's Exit is the newest event *)
Fixpoint exit_evs (now : T) (q : list rdoer) : list (ev T) :=
  match q with [] => [] | d :: q' => mk Exit (r_id d) now :: mk Cease (r_id d) now :: exit_evs now q' end.

Fixpoint ref_trace_cycles (D : amap (fdef T)) (tock : T) (limit : option T) (stop : T) (cycles : nat)
  (now : T) (q : list rdoer) (tr : list (ev T)) : option (list (ev T)) :=
  match cycles with
  | O => None
  | S c =>
    let q' := fst (ref_pass D now tock q) in
    let tr' := pass_evs D now q ++ tr in
    let now' := tadd now tock in
    match q' with
    | [] => Some (mk DoReturn 0%N now' :: tr')
    | _ => if limited limit && tleb stop now' then Some (mk DoReturn 0%N now' :: exit_evs now' q' ++ tr')
           else ref_trace_cycles D tock limit stop c now' q' tr'
    end
  end.

Definition ref_trace (cycles : nat) (p : prog T) : option (list (ev T)) :=
  let q := ref_enter (p_defs p) (p_tyme p) (p_doers p) in
  let limit := option_map tabs (p_limit p) in
  let stop := tadd (p_tyme p) (match limit with Some l => l | None => tzero end) in
  ref_trace_cycles (p_defs p) (p_tock p) limit stop cycles (p_tyme p) q (enter_evs (p_defs p) (p_tyme p) (p_doers p)).

(* ---------- the program class ---------- *)

Definition quiet_step (stp : fstep T) : bool :=
  match f_es stp, f_out stp with
  | [], OYield _ | [], OReturn _ => true
  | _, _ => false
  end.
Definition quiet_def (d : option (fdef T)) : bool :=
  match d with Some (FLeaf _ sc) => forallb quiet_step sc | _ => false end.

Fixpoint nodupb (l : list N) : bool :=
  match l with [] => true | x :: r => negb (memN x r) && nodupb r end.

Definition flat_static (p : prog T) : bool :=
  nodupb (p_doers p) &&
  forallb (fun i => negb (N.eqb i 0) && quiet_def (get (p_defs p) i)) (p_doers p).

Lemma memN_In x l : memN x l = true <-> In x l.
Proof.
  unfold memN. rewrite existsb_exists. split.
  - intros (y & I & E). apply N.eqb_eq in E. now subst.
  - intro I. exists x. split; [exact I|apply N.eqb_refl].
Qed.
Lemma nodupb_NoDup l : nodupb l = true -> NoDup l.
Proof.
  induction l as [|x r IH]; cbn [nodupb]; intro E; [constructor|].
  apply andb_true_iff in E. destruct E as [E1 E2]. constructor; [|now apply IH].
  intro I. apply memN_In in I. rewrite I in E1. discriminate.
Qed.

Lemma quiet_nth sc pc : forallb quiet_step sc = true -> quiet_step (nth pc sc default_step) = true.
Proof.
  intro Q. destruct (Nat.lt_ge_cases pc (length sc)) as [L|L].
  - rewrite forallb_forall in Q. apply Q. now apply nth_In.
  - rewrite nth_overflow by exact L. reflexivity.
Qed.

(* ---------- what a quiet leaf does when started / resumed / closed ---------- *)

Lemma quiet_send f s i pc k sc s' g :
  get_gen s i = GSusp pc -> get (defs s) i = Some (FLeaf k sc) -> forallb quiet_step sc = true ->
  gen_send tk f s i = (s', g) -> g <> GFuel ->
  let s0 := emit (set_gen s i (GRun pc)) Recur i in
  match f_out (nth pc sc default_step) with
  | OYield t => s' = set_gen s0 i (GSusp (S pc)) /\ g = GYield t
  | OReturn r => s' = set_done (set_gen (emit (emit s0 Clean i) Exit i) i GDone) i (done_after k r (get_done s i))
                 /\ g = GReturn
  | _ => False
  end.
Proof.
  intros G Df Q E NF. cbv zeta.
  destruct f as [|f]; [rewrite gen_send_O in E; inversion E; subst; congruence|].
  rewrite gen_send_S, G, Df in E.
  destruct f as [|f]; [rewrite run_step_O in E; inversion E; subst; congruence|].
  rewrite run_step_S in E. cbv zeta in E.
  pose proof (quiet_nth sc pc Q) as Qs. unfold quiet_step in Qs.
  destruct (f_es (nth pc sc default_step)) eqn:Es; [|discriminate].
  destruct f as [|f]; [rewrite run_effects_O in E; inversion E; subst; congruence|].
  rewrite run_effects_S in E.
  destruct (f_out (nth pc sc default_step)) eqn:Eo; try discriminate;
    inversion E; subst; split; reflexivity.
Qed.

Lemma quiet_start f s i k sc s' g :
  startable s i = true -> get (defs s) i = Some (FLeaf k sc) -> forallb quiet_step sc = true ->
  gen_start tk f s i = (s', g) -> g <> GFuel ->
  let s0 := emit (set_gen s i (GRun 0)) Enter i in
  match f_out (nth 0 sc default_step) with
  | OYield t => s' = set_gen s0 i (GSusp 1) /\ g = GYield t
  | OReturn r => s' = set_done (set_gen (emit (emit s0 Clean i) Exit i) i GDone) i (done_after k r (get_done s i))
                 /\ g = GReturn
  | _ => False
  end.
Proof.
  intros St Df Q E NF. cbv zeta.
  destruct f as [|f]; [rewrite gen_start_O in E; inversion E; subst; congruence|].
  rewrite gen_start_S, St, Df in E. cbn [negb] in E.
  destruct f as [|f]; [rewrite run_step_O in E; inversion E; subst; congruence|].
  rewrite run_step_S in E. cbv zeta in E.
  pose proof (quiet_nth sc 0 Q) as Qs. unfold quiet_step in Qs.
  destruct (f_es (nth 0 sc default_step)) eqn:Es; [|discriminate].
  destruct f as [|f]; [rewrite run_effects_O in E; inversion E; subst; congruence|].
  rewrite run_effects_S in E.
  destruct (f_out (nth 0 sc default_step)) eqn:Eo; try discriminate;
    inversion E; subst; split; reflexivity.
Qed.

(* ---------- (c) the abstraction relation ---------- *)

Variable D : amap (fdef T).

Definition deed_of (d : rdoer) : deed T := DDeed (r_id d) (r_due d).

(* the doers of q are suspended quiet leaves, pairwise distinct, none is the root *)
Definition Good s (q : list rdoer) : Prop :=
  defs s = D /\ NoDup (map r_id q) /\
  forall d, In d q -> get_gen s (r_id d) = GSusp (r_pc d) /\ r_id d <> 0%N /\ quiet_def (get D (r_id d)) = true.

Lemma quiet_def_inv i : quiet_def (get D i) = true ->
  exists k sc, get D i = Some (FLeaf k sc) /\ forallb quiet_step sc = true /\ script_of D i = sc.
Proof.
  unfold quiet_def, script_of. destruct (get D i) as [[k sc|]|]; try discriminate.
  intro Q. exists k, sc. auto.
Qed.

Lemma good_frame s s' q :
  Good s q -> defs s' = defs s -> (forall d, In d q -> get_gen s' (r_id d) = get_gen s (r_id d)) -> Good s' q.
Proof.
  intros (Df & ND & A) E G. split; [congruence|]. split; [exact ND|].
  intros d I. destruct (A d I) as (A1 & A2 & A3). rewrite (G d I). auto.
Qed.

(* moving the head to the back with an updated entry *)
Lemma nodup_rot (i : id) l : NoDup (i :: l) -> NoDup (l ++ [i]).
Proof. intro N. eapply Permutation_NoDup; [apply Permutation_cons_append|exact N]. Qed.

(* the tock a scheduler uses for the asap branch, as a function of the definitions *)
Definition stock (sid : id) : T :=
  if N.eqb sid 0 then tk else match get D sid with Some (FNest t _ _) => tabs t | _ => tzero end.
Lemma sched_tock_D s sid : defs s = D -> sched_tock tk s sid = stock sid.
Proof. intro E. unfold sched_tock, stock. now rewrite E. Qed.

(* the pass: [todo] still before the marker, [acc] already behind it *)
Lemma loop_ref_at (sid : id) : forall todo f s acc s' g,
  recur_loop tk f s sid = (s', g) -> g <> GFuel ->
  deeds (get_sched s sid) = map deed_of todo ++ DMark :: map deed_of acc ->
  Good s (todo ++ acc) ->
  let '(q', o) := ref_pass D (tyme s) (stock sid) todo in
  g = GReturn /\ deeds (get_sched s' sid) = map deed_of (acc ++ q') /\ Good s' (acc ++ q') /\
  recs s' = rev o ++ recs s /\ tyme s' = tyme s /\ get_done s' 0%N = get_done s 0%N /\
  trace s' = pass_evs D (tyme s) todo ++ trace s.
Proof.
  induction todo as [|d todo IH]; intros f s acc s' g E NF Dq Gd.
  - cbn [ref_pass map app] in *.
    destruct f as [|f]; [rewrite recur_loop_O in E; inversion E; subst; congruence|].
    rewrite (recur_loop_mark f s sid _ Dq) in E. inversion E; subst; clear E.
    rewrite app_nil_r. split; [reflexivity|]. split; [apply deeds_set_deeds|].
    split; [eapply good_frame; [exact Gd|reflexivity|reflexivity]|]. repeat split; reflexivity.
  - cbn [ref_pass map app] in *.
    destruct f as [|f]; [rewrite recur_loop_O in E; inversion E; subst; congruence|].
    destruct Gd as (Df & ND & A).
    destruct (A d (or_introl eq_refl)) as (Gi & Ni & Qi).
    destruct (quiet_def_inv _ Qi) as (k & sc & Dfi & Qsc & Sc).
    unfold ref_visit. destruct (tleb (r_due d) (tyme s)) eqn:Due.
    + (* due: one send *)
      rewrite (recur_loop_due f s sid _ _ _ Dq Due) in E.
      destruct (gen_send tk f (set_deeds s sid _) (r_id d)) as [s2 g2] eqn:Es.
      assert (NF2 : g2 <> GFuel) by (intro; subst g2; inversion E; subst; congruence).
      assert (Dfs : get (defs s) (r_id d) = Some (FLeaf k sc)) by (rewrite Df; exact Dfi).
      pose proof (quiet_send f (set_deeds s sid (map deed_of todo ++ DMark :: map deed_of acc)) (r_id d) (r_pc d) k sc s2 g2 Gi Dfs Qsc Es NF2) as QS.
      cbv zeta in QS. unfold out_at. rewrite Sc.
      destruct (f_out (nth (r_pc d) sc default_step)) as [t|r| |] eqn:Eo; try contradiction.
      * (* yield: re-appended behind the marker with the new due tyme *)
        destruct QS as [-> ->].
        set (d' := {| r_id := r_id d; r_due := next_due (tyme s) (stock sid) (r_due d) t; r_pc := S (r_pc d) |}).
        match type of E with context [sched_tock tk ?x sid] =>
          assert (Sk : sched_tock tk x sid = stock sid) by (apply sched_tock_D; exact Df); rewrite Sk in E; clear Sk end.
        match type of E with recur_loop tk f ?x _ = _ => set (s3 := x) in E end.
        assert (Dq3 : deeds (get_sched s3 sid) = map deed_of todo ++ DMark :: map deed_of (acc ++ [d'])).
        { unfold s3. rewrite deeds_set_deeds.
          change (deeds (get_sched (set_gen (emit (set_gen (set_deeds s sid (map deed_of todo ++ DMark :: map deed_of acc))
                     (r_id d) (GRun (r_pc d))) Recur (r_id d)) (r_id d) (GSusp (S (r_pc d)))) sid))
            with (deeds (get_sched (set_deeds s sid (map deed_of todo ++ DMark :: map deed_of acc)) sid)).
          rewrite deeds_set_deeds, map_app, <- app_assoc. reflexivity. }
        assert (G3 : Good s3 (todo ++ acc ++ [d'])).
        { split; [exact Df|]. split.
          - rewrite app_assoc, map_app. cbn [map]. change (r_id d') with (r_id d).
            apply nodup_rot. exact ND.
          - intros x Ix. rewrite app_assoc in Ix. apply in_app_or in Ix. destruct Ix as [Ix|[<-|[]]].
            + assert (Ne : r_id x <> r_id d).
              { cbn [map] in ND. inversion ND as [|? ? Nin _]; subst. intro Eq. apply Nin. rewrite <- Eq.
                apply in_map. exact Ix. }
              destruct (A x (or_intror Ix)) as (A1 & A2 & A3). split; [|auto].
              unfold s3. change (get_gen (set_deeds ?a _ _) ?j) with (get_gen a j).
              rewrite get_gen_other by exact Ne. change (get_gen (emit ?a _ _) ?j) with (get_gen a j).
              rewrite get_gen_other by exact Ne. exact A1.
            + split; [|auto]. unfold s3. change (get_gen (set_deeds ?a _ _) ?j) with (get_gen a j).
              cbn [r_id r_pc d']. apply get_gen_same. }
        specialize (IH f s3 (acc ++ [d']) s' g E NF Dq3).
        specialize (IH G3).
        change (tyme s3) with (tyme s) in IH.
        destruct (ref_pass D (tyme s) (stock sid) todo) as [b o'].
        destruct IH as (I1 & I2 & I3 & I4 & I5 & I6 & I7).
        split; [exact I1|]. rewrite <- app_assoc in I2, I3. cbn [app] in *.
        split; [exact I2|]. split; [exact I3|]. split.
        { rewrite I4. unfold recs at 1. unfold s3. cbn [trace set_deeds set_sched set_gen emit flat_map rec_of e_kind e_id e_tyme tyme app].
          cbn [rev]. rewrite <- app_assoc. reflexivity. }
        split; [exact I5|]. split; [exact I6|].
        rewrite I7. cbn [pass_evs]. unfold visit_evs, out_at. rewrite Due, Sc, Eo. rewrite <- app_assoc. reflexivity.
      * (* return: the doer leaves the deque *)
        destruct QS as [-> ->].
        match type of E with recur_loop tk f ?x _ = _ => set (s3 := x) in E end.
        assert (Dq3 : deeds (get_sched s3 sid) = map deed_of todo ++ DMark :: map deed_of acc).
        { unfold s3.
          change (deeds (get_sched (set_deeds s sid (map deed_of todo ++ DMark :: map deed_of acc)) sid)
                  = map deed_of todo ++ DMark :: map deed_of acc).
          apply deeds_set_deeds. }
        assert (G3 : Good s3 (todo ++ acc)).
        { split; [exact Df|]. split; [cbn [map] in ND; now inversion ND|].
          intros x Ix.
          assert (Ne : r_id x <> r_id d).
          { cbn [map] in ND. inversion ND as [|? ? Nin _]; subst. intro Eq. apply Nin. rewrite <- Eq.
            apply in_map. exact Ix. }
          destruct (A x (or_intror Ix)) as (A1 & A2 & A3). split; [|auto].
          unfold s3. change (get_gen (set_done ?a _ _) ?j) with (get_gen a j).
          rewrite get_gen_other by exact Ne.
          change (get_gen (emit (emit (emit ?a _ _) _ _) _ _) ?j) with (get_gen a j).
          rewrite get_gen_other by exact Ne. exact A1. }
        specialize (IH f s3 acc s' g E NF Dq3 G3).
        change (tyme s3) with (tyme s) in IH.
        destruct (ref_pass D (tyme s) (stock sid) todo) as [b o'].
        destruct IH as (I1 & I2 & I3 & I4 & I5 & I6 & I7).
        split; [exact I1|]. cbn [app]. split; [exact I2|]. split; [exact I3|]. split.
        { rewrite I4. unfold recs at 1. unfold s3. cbn [trace set_deeds set_sched set_gen set_done emit flat_map rec_of e_kind e_id e_tyme tyme app].
          cbn [rev]. rewrite <- app_assoc. reflexivity. }
        split; [exact I5|]. split.
        { rewrite I6. unfold s3. rewrite get_done_other by (intro X; apply Ni; now rewrite X). reflexivity. }
        rewrite I7. cbn [pass_evs]. unfold visit_evs, out_at. rewrite Due, Sc, Eo. rewrite <- app_assoc. reflexivity.
    + (* not due: re-appended unchanged *)
      rewrite (recur_loop_notdue f s sid _ _ _ Dq Due) in E.
      match type of E with recur_loop tk f ?x _ = _ => set (s3 := x) in E end.
      assert (Dq3 : deeds (get_sched s3 sid) = map deed_of todo ++ DMark :: map deed_of (acc ++ [d])).
      { unfold s3. rewrite deeds_set_deeds, map_app, <- app_assoc. reflexivity. }
      assert (G3 : Good s3 (todo ++ acc ++ [d])).
      { split; [exact Df|]. split.
        - rewrite app_assoc, map_app. cbn [map]. apply nodup_rot. exact ND.
        - intros x Ix. apply A. rewrite app_assoc in Ix. apply in_app_or in Ix.
          destruct Ix as [Ix|[<-|[]]]; [right; exact Ix|left; reflexivity]. }
      specialize (IH f s3 (acc ++ [d]) s' g E NF Dq3).
      specialize (IH G3).
      change (tyme s3) with (tyme s) in IH.
      destruct (ref_pass D (tyme s) (stock sid) todo) as [b o'].
      destruct IH as (I1 & I2 & I3 & I4 & I5 & I6 & I7).
      rewrite <- app_assoc in I2, I3. cbn [app] in *.
      split; [exact I1|]. split; [exact I2|]. split; [exact I3|]. split; [exact I4|].
      split; [exact I5|]. split; [exact I6|].
      rewrite I7. cbn [pass_evs]. unfold visit_evs. rewrite Due, app_nil_r. reflexivity.
Qed.

(* one whole pass of the root *)
Lemma pass_ref_at (sid : id) f s q s' g :
  recur_pass tk f s sid = (s', g) -> g <> GFuel ->
  deeds (get_sched s sid) = map deed_of q -> Good s q ->
  let '(q', o) := ref_pass D (tyme s) (stock sid) q in
  g = GReturn /\ deeds (get_sched s' sid) = map deed_of q' /\ Good s' q' /\
  recs s' = rev o ++ recs s /\ tyme s' = tyme s /\ get_done s' 0%N = get_done s 0%N /\
  trace s' = pass_evs D (tyme s) q ++ trace s.
Proof.
  intros E NF Dq Gd.
  destruct f as [|f]; [rewrite recur_pass_O in E; inversion E; subst; congruence|].
  rewrite recur_pass_S in E. cbv zeta in E.
  match type of E with recur_loop tk f ?x _ = _ => set (s1 := x) in E end.
  assert (Dq1 : deeds (get_sched s1 sid) = map deed_of q ++ DMark :: map deed_of []).
  { unfold s1. rewrite deeds_set_deeds, Dq. reflexivity. }
  assert (G1 : Good s1 (q ++ [])).
  { rewrite app_nil_r. eapply good_frame; [exact Gd|reflexivity|reflexivity]. }
  pose proof (loop_ref_at sid q f s1 [] s' g E NF Dq1 G1) as L.
  change (tyme s1) with (tyme s) in L.
  destruct (ref_pass D (tyme s) (stock sid) q) as [q' o]. exact L.
Qed.

(* the root scheduler *)
Lemma loop_ref : forall todo f s acc s' g,
  recur_loop tk f s 0%N = (s', g) -> g <> GFuel ->
  deeds (get_sched s 0%N) = map deed_of todo ++ DMark :: map deed_of acc ->
  Good s (todo ++ acc) ->
  let '(q', o) := ref_pass D (tyme s) tk todo in
  g = GReturn /\ deeds (get_sched s' 0%N) = map deed_of (acc ++ q') /\ Good s' (acc ++ q') /\
  recs s' = rev o ++ recs s /\ tyme s' = tyme s /\ get_done s' 0%N = get_done s 0%N /\
  trace s' = pass_evs D (tyme s) todo ++ trace s.
Proof. exact (loop_ref_at 0%N). Qed.

Lemma pass_ref f s q s' g :
  recur_pass tk f s 0%N = (s', g) -> g <> GFuel ->
  deeds (get_sched s 0%N) = map deed_of q -> Good s q ->
  let '(q', o) := ref_pass D (tyme s) tk q in
  g = GReturn /\ deeds (get_sched s' 0%N) = map deed_of q' /\ Good s' q' /\
  recs s' = rev o ++ recs s /\ tyme s' = tyme s /\ get_done s' 0%N = get_done s 0%N /\
  trace s' = pass_evs D (tyme s) q ++ trace s.
Proof. exact (pass_ref_at 0%N f s q s' g). Qed.

(* enter of the root over fresh quiet leaves *)
Lemma enter_ref : forall ids f s q s' g,
  enter_own tk f s 0%N ids = (s', g) -> g <> GFuel ->
  deeds (get_sched s 0%N) = map deed_of q -> Good s q ->
  NoDup ids ->
  (forall i, In i ids -> startable s i = true /\ i <> 0%N /\ quiet_def (get D i) = true /\ ~ In i (map r_id q)) ->
  g = GReturn /\ deeds (get_sched s' 0%N) = map deed_of (q ++ ref_enter D (tyme s) ids) /\
  Good s' (q ++ ref_enter D (tyme s) ids) /\
  recs s' = recs s /\ tyme s' = tyme s /\ get_done s' 0%N = get_done s 0%N /\
  trace s' = enter_evs D (tyme s) ids ++ trace s.
Proof.
  induction ids as [|i ids IH]; intros f s q s' g E NF Dq Gd ND A.
  - destruct f as [|f]; [rewrite enter_own_O in E; inversion E; subst; congruence|].
    rewrite enter_own_S in E. inversion E; subst. cbn [ref_enter flat_map]. rewrite app_nil_r.
    split; [reflexivity|]. split; [exact Dq|]. split; [exact Gd|]. repeat split; reflexivity.
  - destruct f as [|f]; [rewrite enter_own_O in E; inversion E; subst; congruence|].
    rewrite enter_own_S in E. cbv zeta in E.
    destruct (gen_start tk f (set_done s i (Some false)) i) as [s1 g1] eqn:Es.
    destruct (A i (or_introl eq_refl)) as (St & Ni & Qi & Fresh).
    destruct (quiet_def_inv _ Qi) as (k & sc & Dfi & Qsc & Sc).
    destruct Gd as (Df & NDq & Aq).
    assert (NF1 : g1 <> GFuel) by (intro; subst g1; inversion E; subst; congruence).
    assert (Dfs : get (defs s) i = Some (FLeaf k sc)) by (rewrite Df; exact Dfi).
    pose proof (quiet_start f (set_done s i (Some false)) i k sc s1 g1 St Dfs Qsc Es NF1) as QS.
    assert (Oa : out_at D i 0 = f_out (nth 0 sc default_step)) by (unfold out_at; now rewrite Sc).
    cbv zeta in QS. unfold ref_enter. cbn [flat_map]. rewrite Oa. fold (ref_enter D (tyme s) ids).
    apply NoDup_cons_iff in ND. destruct ND as [Nin ND'].
    destruct (f_out (nth 0 sc default_step)) as [t|r| |] eqn:Eo; try contradiction.
    + destruct QS as [-> ->].
      set (d' := {| r_id := i; r_due := tyme s; r_pc := 1 |}).
      match type of E with enter_own tk f ?x _ _ = _ => set (s3 := x) in E end.
      assert (Dq3 : deeds (get_sched s3 0%N) = map deed_of (q ++ [d'])).
      { unfold s3. rewrite deeds_set_deeds.
        change (deeds (get_sched (set_gen (emit (set_gen (set_done s i (Some false)) i (GRun 0)) Enter i) i (GSusp 1)) 0%N))
          with (deeds (get_sched s 0%N)).
        rewrite Dq, map_app. reflexivity. }
      assert (G3 : Good s3 (q ++ [d'])).
      { split; [exact Df|]. split.
        - rewrite map_app. cbn [map]. change (r_id d') with i. apply nodup_rot. constructor; assumption.
        - intros x Ix. apply in_app_or in Ix. destruct Ix as [Ix|[<-|[]]].
          + assert (Ne : r_id x <> i) by (intro Eq; apply Fresh; rewrite <- Eq; now apply in_map).
            destruct (Aq x Ix) as (A1 & A2 & A3). split; [|auto].
            unfold s3. change (get_gen (set_deeds ?a _ _) ?j) with (get_gen a j).
            rewrite get_gen_other by exact Ne. change (get_gen (emit ?a _ _) ?j) with (get_gen a j).
            rewrite get_gen_other by exact Ne. exact A1.
          + split; [|auto]. unfold s3. change (get_gen (set_deeds ?a _ _) ?j) with (get_gen a j).
            cbn [r_id r_pc d']. apply get_gen_same. }
      assert (A3 : forall j, In j ids -> startable s3 j = true /\ j <> 0%N /\ quiet_def (get D j) = true /\ ~ In j (map r_id (q ++ [d']))).
      { intros j Ij. destruct (A j (or_intror Ij)) as (B1 & B2 & B3 & B4).
        assert (Ne : j <> i) by (intro; subst; contradiction).
        split; [|split; [exact B2|split; [exact B3|]]].
        - unfold startable, s3 in *. change (get_gen (set_deeds ?a _ _) ?j) with (get_gen a j).
          rewrite get_gen_other by exact Ne. change (get_gen (emit ?a _ _) ?j) with (get_gen a j).
          rewrite get_gen_other by exact Ne. exact B1.
        - rewrite map_app, in_app_iff. cbn. intros [X|[X|[]]]; [contradiction|congruence]. }
      specialize (IH f s3 (q ++ [d']) s' g E NF Dq3 G3 ND' A3).
      change (tyme s3) with (tyme s) in IH. rewrite <- app_assoc in IH. cbn [app] in IH.
      destruct IH as (I1 & I2 & I3 & I4 & I5 & I6 & I7).
      split; [exact I1|]. split; [exact I2|]. split; [exact I3|]. split; [exact I4|].
      split; [exact I5|]. split; [|rewrite I7; cbn [enter_evs]; rewrite Oa, <- app_assoc; reflexivity].
      rewrite I6. unfold s3. change (get_done (set_deeds ?a _ _) ?j) with (get_done a j).
      change (get_done (set_gen (emit (set_gen ?a _ _) _ _) _ _) ?j) with (get_done a j).
      apply get_done_other. congruence.
    + destruct QS as [-> ->].
      match type of E with enter_own tk f ?x _ _ = _ => set (s3 := x) in E end.
      assert (Dq3 : deeds (get_sched s3 0%N) = map deed_of q) by exact Dq.
      assert (G3 : Good s3 q).
      { split; [exact Df|]. split; [exact NDq|].
        intros x Ix.
        assert (Ne : r_id x <> i) by (intro Eq; apply Fresh; rewrite <- Eq; now apply in_map).
        destruct (Aq x Ix) as (A1 & A2 & A3). split; [|auto].
        unfold s3. change (get_gen (set_done ?a _ _) ?j) with (get_gen a j).
        rewrite get_gen_other by exact Ne.
        change (get_gen (emit (emit (emit ?a _ _) _ _) _ _) ?j) with (get_gen a j).
        rewrite get_gen_other by exact Ne. exact A1. }
      assert (A3 : forall j, In j ids -> startable s3 j = true /\ j <> 0%N /\ quiet_def (get D j) = true /\ ~ In j (map r_id q)).
      { intros j Ij. destruct (A j (or_intror Ij)) as (B1 & B2 & B3 & B4).
        assert (Ne : j <> i) by (intro; subst; contradiction).
        split; [|auto].
        unfold startable, s3 in *. change (get_gen (set_done ?a _ _) ?j) with (get_gen a j).
        rewrite get_gen_other by exact Ne.
        change (get_gen (emit (emit (emit ?a _ _) _ _) _ _) ?j) with (get_gen a j).
        rewrite get_gen_other by exact Ne. exact B1. }
      specialize (IH f s3 q s' g E NF Dq3 G3 ND' A3).
      change (tyme s3) with (tyme s) in IH.
      destruct IH as (I1 & I2 & I3 & I4 & I5 & I6 & I7).
      split; [exact I1|]. split; [exact I2|]. split; [exact I3|]. split; [exact I4|].
      split; [exact I5|]. split; [|rewrite I7; cbn [enter_evs]; rewrite Oa, <- app_assoc; reflexivity].
      rewrite I6. unfold s3. rewrite get_done_other by congruence.
      change (get_done (set_gen (emit (emit (emit (set_gen ?a _ _) _ _) _ _) _ _) _ _) ?j) with (get_done a j).
      apply get_done_other. congruence.
Qed.

(* the end of a run: forced exit adds no recur step and leaves the root flag *)
Lemma end_facts f s k :
  recs (emit (close_own tk f s 0%N) k 0%N) = (match k with Recur => [(0%N, tyme s)] | _ => [] end) ++ recs s /\
  tyme (emit (close_own tk f s 0%N) k 0%N) = tyme s /\
  get_done (emit (close_own tk f s 0%N) k 0%N) 0%N = get_done s 0%N.
Proof.
  pose proof (close_own_closes f s 0%N) as C.
  split; [|split].
  - unfold recs at 1. cbn [trace emit flat_map]. fold (recs (close_own tk f s 0%N)).
    rewrite (closes_recs _ _ C). unfold rec_of; cbn [e_kind e_id e_tyme].
    destruct C as (_ & Ty & _). rewrite Ty. destruct k; reflexivity.
  - destruct C as (_ & Ty & _). exact Ty.
  - change (get_done (emit ?a _ _) ?j) with (get_done a j). now apply closes_done.
Qed.

(* the cycle loop against the reference *)
Lemma cycles_ref cycles : forall f s q outs limit stop,
  deeds (get_sched s 0%N) = map deed_of q -> Good s q ->
  recs s = rev (concat outs) -> get_done s 0%N = Some false ->
  oof (cycle_loop tk cycles f s limit stop) = false ->
  exists res (dn : bool), ref_cycles D tk limit stop cycles (tyme s) q outs = Some (res, tyme (cycle_loop tk cycles f s limit stop), dn) /\
    recur_steps (cycle_loop tk cycles f s limit stop) = concat res /\
    get_done (cycle_loop tk cycles f s limit stop) 0%N = Some dn.
Proof.
  induction cycles as [|c IH]; intros f s q outs limit stop Dq Gd Rc Dn O; cbn [cycle_loop ref_cycles] in *; [discriminate|].
  destruct (recur_pass tk f s 0%N) as [s1 r] eqn:E.
  assert (NF : r <> GFuel).
  { intro; subst r. rewrite (recur_pass_fuel tk f s 0%N s1 E) in O. discriminate. }
  pose proof (pass_ref f s q s1 r E NF Dq Gd) as P.
  destruct (ref_pass D (tyme s) tk q) as [q' o].
  destruct P as (-> & Dq1 & G1 & R1 & T1 & Dn1 & _).
  cbv zeta in *.
  set (s2 := set_tyme s1 (tadd (tyme s1) tk)) in *.
  assert (Dq2 : deeds (get_sched s2 0%N) = map deed_of q') by exact Dq1.
  assert (R2 : recs s2 = rev (concat (outs ++ [o]))).
  { change (recs s2) with (recs s1). rewrite R1, Rc, concat_app, rev_app_distr. cbn [concat]. now rewrite app_nil_r. }
  rewrite <- T1. change (tadd (tyme s1) tk) with (tyme s2).
  rewrite Dq2 in O |- *. unfold limited.
  destruct q' as [|d q']; cbn [map] in *.
  - destruct (end_facts f (set_done s2 0%N (Some true)) DoReturn) as (F1 & F2 & F3).
    exists (outs ++ [o]), true. split; [now rewrite F2|]. split.
    + unfold recur_steps. rewrite F1. cbn [app]. change (recs (set_done s2 0%N (Some true))) with (recs s2).
      rewrite R2. apply rev_involutive.
    + rewrite F3. apply get_done_same.
  - destruct (_ && _) eqn:Lim.
    + destruct (end_facts f s2 DoReturn) as (F1 & F2 & F3).
      exists (outs ++ [o]), false. split; [now rewrite F2|]. split.
      * unfold recur_steps. rewrite F1. cbn [app]. rewrite R2. apply rev_involutive.
      * rewrite F3. change (get_done s2 0%N) with (get_done s1 0%N). congruence.
    + assert (G2 : Good s2 (d :: q')) by (eapply good_frame; [exact G1|reflexivity|reflexivity]).
      assert (Dn2 : get_done s2 0%N = Some false) by (change (get_done s2 0%N) with (get_done s1 0%N); congruence).
      exact (IH f s2 (d :: q') (outs ++ [o]) limit stop Dq2 G2 R2 Dn2 O).
Qed.

(* ---------- the whole trace ---------- *)

Lemma split_mark_none (q : list rdoer) acc : split_mark (map deed_of q) acc = None.
Proof. revert acc. induction q as [|d q IH]; intro acc; [reflexivity|]. cbn [map split_mark deed_of]. apply IH. Qed.

Lemma unrotate_plain (q : list rdoer) : unrotate (map deed_of q) = map deed_of q.
Proof. unfold unrotate. now rewrite split_mark_none. Qed.

(* closing in list order: oldest event first is Cease, Exit of the first element *)
Fixpoint close_evs (now : T) (l : list rdoer) : list (ev T) :=
  match l with [] => [] | d :: l' => close_evs now l' ++ [mk Exit (r_id d) now; mk Cease (r_id d) now] end.

Lemma close_evs_snoc now l d : close_evs now (l ++ [d]) = mk Exit (r_id d) now :: mk Cease (r_id d) now :: close_evs now l.
Proof. induction l as [|x l IH]; [reflexivity|]. cbn [app close_evs]. now rewrite IH. Qed.

Lemma close_evs_rev now q : close_evs now (rev q) = exit_evs now q.
Proof. induction q as [|d q IH]; [reflexivity|]. cbn [rev exit_evs]. now rewrite close_evs_snoc, IH. Qed.

Lemma close_list_ref : forall l f s,
  Good s l -> oof (close_list tk f s (map deed_of l)) = false ->
  trace (close_list tk f s (map deed_of l)) = close_evs (tyme s) l ++ trace s.
Proof.
  induction l as [|d l IH]; intros f s Gd O.
  - destruct f as [|f]; [discriminate O|]. reflexivity.
  - destruct f as [|f]; [discriminate O|].
    cbn [map] in *. rewrite close_list_S in O |- *. change (deed_of d) with (DDeed (r_id d) (r_due d)) in O |- *.
    cbv beta iota in O |- *.
    destruct Gd as (Df & ND & A).
    destruct (A d (or_introl eq_refl)) as (Gi & Ni & Qi).
    destruct (quiet_def_inv _ Qi) as (k & sc & Dfi & Qsc & Sc).
    assert (Dfs : get (defs s) (r_id d) = Some (FLeaf k sc)) by (rewrite Df; exact Dfi).
    destruct f as [|f]; [discriminate O|].
    rewrite gen_close_S, Gi, Dfs in O |- *.
    match type of O with oof (close_list tk _ ?x _) = _ => set (s3 := x) in * end.
    assert (G3 : Good s3 l).
    { split; [exact Df|]. split; [cbn [map] in ND; now inversion ND|].
      intros x Ix.
      assert (Ne : r_id x <> r_id d).
      { cbn [map] in ND. inversion ND as [|? ? Nin _]; subst. intro Eq. apply Nin. rewrite <- Eq. apply in_map. exact Ix. }
      destruct (A x (or_intror Ix)) as (A1 & A2 & A3). split; [|auto].
      unfold s3. rewrite get_gen_other by exact Ne.
      change (get_gen (emit (emit ?a _ _) _ _) ?j) with (get_gen a j).
      rewrite get_gen_other by exact Ne. exact A1. }
    rewrite (IH (S f) s3 G3 O). cbn [close_evs]. rewrite <- app_assoc. reflexivity.
Qed.

(* exit() of the root over a deque of suspended quiet leaves *)
Lemma close_own_ref f s q :
  deeds (get_sched s 0%N) = map deed_of q -> Good s q -> oof (close_own tk f s 0%N) = false ->
  trace (close_own tk f s 0%N) = exit_evs (tyme s) q ++ trace s.
Proof.
  intros Dq Gd O. destruct f as [|f]; [discriminate O|].
  rewrite close_own_S in *. cbv zeta in *. rewrite Dq, unrotate_plain, <- map_rev in *.
  assert (G1 : Good (set_deeds s 0%N []) (rev q)).
  { destruct Gd as (Df & ND & A). split; [exact Df|]. split.
    - rewrite map_rev. apply NoDup_rev. exact ND.
    - intros x Ix. apply A. now apply in_rev. }
  rewrite (close_list_ref (rev q) f _ G1 O), close_evs_rev. reflexivity.
Qed.

Lemma cycles_trace cycles : forall f s q limit stop,
  deeds (get_sched s 0%N) = map deed_of q -> Good s q ->
  oof (cycle_loop tk cycles f s limit stop) = false ->
  ref_trace_cycles D tk limit stop cycles (tyme s) q (trace s) = Some (trace (cycle_loop tk cycles f s limit stop)).
Proof.
  induction cycles as [|c IH]; intros f s q limit stop Dq Gd O; cbn [cycle_loop ref_trace_cycles] in *; [discriminate|].
  destruct (recur_pass tk f s 0%N) as [s1 r] eqn:E.
  assert (NF : r <> GFuel).
  { intro; subst r. rewrite (recur_pass_fuel tk f s 0%N s1 E) in O. discriminate. }
  pose proof (pass_ref f s q s1 r E NF Dq Gd) as P.
  destruct (ref_pass D (tyme s) tk q) as [q' o]. cbn [fst].
  destruct P as (-> & Dq1 & G1 & _ & T1 & _ & Tr1).
  cbv zeta in *.
  set (s2 := set_tyme s1 (tadd (tyme s1) tk)) in *.
  assert (Dq2 : deeds (get_sched s2 0%N) = map deed_of q') by exact Dq1.
  assert (G2 : Good s2 q') by (eapply good_frame; [exact G1|reflexivity|reflexivity]).
  rewrite <- Tr1, <- T1. change (tadd (tyme s1) tk) with (tyme s2). change (trace s1) with (trace s2).
  rewrite Dq2 in O |- *. unfold limited.
  destruct q' as [|d q']; cbn [map] in *.
  - f_equal. cbn [trace emit].
    assert (G3 : Good (set_done s2 0%N (Some true)) []) by (eapply good_frame; [exact G2|reflexivity|reflexivity]).
    f_equal; [unfold mk; f_equal; symmetry; exact (proj1 (proj2 (end_facts f (set_done s2 0%N (Some true)) DoReturn)))|].
    rewrite (close_own_ref f (set_done s2 0%N (Some true)) [] Dq2 G3 O). reflexivity.
  - destruct (_ && _) eqn:Lim.
    + f_equal. cbn [trace emit].
      f_equal; [unfold mk; f_equal; symmetry; exact (proj1 (proj2 (end_facts f s2 DoReturn)))|].
      symmetry. exact (close_own_ref f s2 (d :: q') Dq2 G2 O).
    + exact (IH f s2 (d :: q') limit stop Dq2 G2 O).
Qed.

End Due.

Section DueRun.
Context {T : Type} `{Time T}.

Lemma flat_static_inv (p : prog T) : flat_static p = true ->
  NoDup (p_doers p) /\ forall i, In i (p_doers p) -> i <> 0%N /\ quiet_def (get (p_defs p) i) = true.
Proof.
  unfold flat_static. intro F. apply andb_true_iff in F. destruct F as [F1 F2].
  split; [now apply nodupb_NoDup|]. intros i I. rewrite forallb_forall in F2.
  specialize (F2 i I). apply andb_true_iff in F2. destruct F2 as [F2 F3]. split; [|exact F3].
  intro; subst. discriminate.
Qed.

(* C03 refinement: a static flat program does exactly what the reference cycle model does *)
Theorem do_run_ref cycles fuel (p : prog T) :
  flat_static p = true -> oof (do_run cycles fuel p) = false ->
  exists res (dn : bool), ref_run cycles p = Some (res, tyme (do_run cycles fuel p), dn) /\
    recur_steps (do_run cycles fuel p) = concat res /\
    get_done (do_run cycles fuel p) 0%N = Some dn.
Proof.
  intros F O. destruct (flat_static_inv p F) as (ND & A).
  unfold do_run in *.
  destruct (enter_own (p_tock p) fuel (init_st p) 0%N (p_doers p)) as [s1 r] eqn:E.
  assert (NF : r <> GFuel).
  { intro; subst r. rewrite (enter_own_fuel _ _ _ _ _ _ E) in O. discriminate. }
  assert (G0 : Good (p_defs p) (init_st p) []).
  { split; [reflexivity|]. split; [constructor|]. intros d []. }
  assert (A0 : forall i, In i (p_doers p) -> startable (init_st p) i = true /\ i <> 0%N /\
                quiet_def (get (p_defs p) i) = true /\ ~ In i (map r_id (@nil (@rdoer T)))).
  { intros i I. destruct (A i I). repeat split; auto. }
  destruct (enter_ref (p_tock p) (p_defs p) (p_doers p) fuel (init_st p) [] s1 r E NF eq_refl G0 ND A0)
    as (-> & Dq1 & G1 & R1 & T1 & Dn1 & _).
  cbn [app] in *. change (tyme (init_st p)) with (p_tyme p) in *.
  assert (G2 : Good (p_defs p) (set_rlive s1 true) (ref_enter (p_defs p) (p_tyme p) (p_doers p))).
  { eapply good_frame; [exact G1|reflexivity|reflexivity]. }
  pose proof (cycles_ref (p_tock p) (p_defs p) cycles fuel (set_rlive s1 true) _ [] _ _ Dq1 G2 R1 Dn1 O) as C.
  unfold ref_run. change (tyme (set_rlive s1 true)) with (tyme s1) in C.
  rewrite T1 in C |- *. exact C.
Qed.

(* ... and the whole event trace (Enter / Recur / Clean / Exit of every doer, the
   forced Cease / Exit of the survivors in reverse enter order, DoReturn) is the
   reference's *)
Theorem do_run_trace cycles fuel (p : prog T) :
  flat_static p = true -> oof (do_run cycles fuel p) = false ->
  ref_trace cycles p = Some (trace (do_run cycles fuel p)).
Proof.
  intros F O. destruct (flat_static_inv p F) as (ND & A).
  unfold do_run in *.
  destruct (enter_own (p_tock p) fuel (init_st p) 0%N (p_doers p)) as [s1 r] eqn:E.
  assert (NF : r <> GFuel).
  { intro; subst r. rewrite (enter_own_fuel _ _ _ _ _ _ E) in O. discriminate. }
  assert (G0 : Good (p_defs p) (init_st p) []).
  { split; [reflexivity|]. split; [constructor|]. intros d []. }
  assert (A0 : forall i, In i (p_doers p) -> startable (init_st p) i = true /\ i <> 0%N /\
                quiet_def (get (p_defs p) i) = true /\ ~ In i (map r_id (@nil (@rdoer T)))).
  { intros i I. destruct (A i I). repeat split; auto. }
  destruct (enter_ref (p_tock p) (p_defs p) (p_doers p) fuel (init_st p) [] s1 r E NF eq_refl G0 ND A0)
    as (-> & Dq1 & G1 & _ & T1 & _ & Tr1).
  cbn [app] in *. change (tyme (init_st p)) with (p_tyme p) in *. change (trace (init_st p)) with (@nil (ev T)) in Tr1.
  rewrite app_nil_r in Tr1.
  assert (G2 : Good (p_defs p) (set_rlive s1 true) (ref_enter (p_defs p) (p_tyme p) (p_doers p))).
  { eapply good_frame; [exact G1|reflexivity|reflexivity]. }
  pose proof (cycles_trace (p_tock p) (p_defs p) cycles fuel (set_rlive s1 true) _ _ _ Dq1 G2 O) as C.
  unfold ref_trace. change (tyme (set_rlive s1 true)) with (tyme s1) in C. change (trace (set_rlive s1 true)) with (trace s1) in C.
  rewrite T1, Tr1 in C. rewrite T1. exact C.
Qed.

End DueRun.
