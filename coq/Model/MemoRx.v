(* Receive side of hio.core.memo.memoing.Memoer as it is after the D25 repairs:
   receive (echo queue) -> _serviceOneReceived (pick, first-only storage) ->
   fuse / _serviceOnceRxGrams -> rxms -> inbox.
   The four dicts rxgs / counts / vids / sources are created and deleted
   together, so one ordered list of entries (dict insertion order of rxgs)
   represents them.  Sources are N.  Memo text is its UTF-8 bytes. *)
From Hio Require Import Base.Prelude Model.B64 Model.MemoGram.
From Hio Require Model.MemoTx.
Local Open Scope N_scope.

Record entry := { e_mid : bytes;
                  e_grams : list (N * bytes);   (* rxgs[mid]: gn -> body *)
                  e_count : option N;           (* counts.get(mid) *)
                  e_vid : option bytes;         (* vids[mid] *)
                  e_src : N }.                  (* sources[mid] *)

Definition memo := (bytes * N * option bytes)%type.   (* (memo, src, vid) *)

Record state := { rxgs : list entry;
                  queue : list (bytes * N);     (* datagrams waiting in the transport *)
                  rxms : list memo;
                  inbox : list memo }.

Definition init : state := {| rxgs := []; queue := []; rxms := []; inbox := [] |}.

Fixpoint find_entry (mid : bytes) (es : list entry) : option entry :=
  match es with
  | [] => None
  | e :: es' => if bytes_eqb (e_mid e) mid then Some e else find_entry mid es'
  end.

Definition vids_of (es : list entry) (mid : bytes) : bytes :=
  match find_entry mid es with
  | Some e => match e_vid e with Some v => v | None => [] end
  | None => []
  end.

Fixpoint gram_at (gn : N) (gs : list (N * bytes)) : option bytes :=
  match gs with
  | [] => None
  | (k, b) :: gs' => if k =? gn then Some b else gram_at gn gs'
  end.

(* first-only storage of a picked gram *)
Definition upd_entry (e : entry) (p : picked) : entry :=
  {| e_mid := e_mid e;
     e_grams := match gram_at (p_gn p) (e_grams e) with
                | Some _ => e_grams e
                | None => e_grams e ++ [(p_gn p, p_body p)]
                end;
     e_count := match e_count e with Some c => Some c | None => p_gc p end;
     e_vid := e_vid e; e_src := e_src e |}.

Fixpoint store (es : list entry) (p : picked) (src : N) : list entry :=
  match es with
  | [] => [{| e_mid := p_mid p; e_grams := [(p_gn p, p_body p)]; e_count := p_gc p;
              e_vid := p_vid p; e_src := src |}]
  | e :: es' => if bytes_eqb (e_mid e) (p_mid p) then upd_entry e p :: es'
                else e :: store es' p src
  end.

(* fuse(grams, cnt) *)
Fixpoint collect (gs : list (N * bytes)) (i : N) (n : nat) : option bytes :=
  match n with
  | O => Some []
  | S n' => match gram_at i gs with
            | None => None
            | Some b => match collect gs (i + 1) n' with
                        | None => None
                        | Some r => Some (b ++ r)
                        end
            end
  end.

Definition fuse (gs : list (N * bytes)) (cnt : N) : res (option bytes) :=
  if N.of_nat (length gs) <? cnt then Ok None else
  match collect gs 0 (N.to_nat cnt) with
  | None => Ok None
  | Some m => if utf8_ok m then Ok (Some m) else Exc MemoErr
  end.

(* _serviceOnceRxGrams over the snapshot of keys: (kept entries, delivered) *)
Fixpoint rx_grams (es : list entry) : list entry * list memo :=
  match es with
  | [] => ([], [])
  | e :: es' =>
    let (k, d) := rx_grams es' in
    match e_count e with
    | None => (e :: k, d)
    | Some c =>
      match fuse (e_grams e) c with
      | Exc _ => (k, d)                           (* undecodable: dropped *)
      | Ok None => (e :: k, d)
      | Ok (Some m) => (k, (m, e_src e, e_vid e) :: d)
      end
    end
  end.

Section Rx.
  Variable verify : bytes -> bytes -> bytes -> res unit.
  Variable authic : bool.

  (* _serviceOneReceived on a non-empty datagram: MemoErr is caught (gram
     dropped); anything else escapes with the state unchanged *)
  Definition receive_one (es : list entry) (gram : bytes) (src : N) : list entry * option exn :=
    match pick verify authic (vids_of es) gram with
    | Ok p => (store es p src, None)
    | Exc MemoErr => (es, None)
    | Exc k => (es, Some k)
    end.

  (* serviceReceives: while opened: if not _serviceOneReceived(): break.
     An empty datagram reads as "no data" and stops the loop. *)
  Fixpoint receives (es : list entry) (q : list (bytes * N)) : list entry * list (bytes * N) * option exn :=
    match q with
    | [] => (es, [], None)
    | ([], _) :: q' => (es, q', None)
    | (g, src) :: q' =>
      match receive_one es g src with
      | (es', None) => receives es' q'
      | (es', Some k) => (es', q', Some k)
      end
    end.

  Definition receives_once (es : list entry) (q : list (bytes * N)) : list entry * list (bytes * N) * option exn :=
    match q with
    | [] => (es, [], None)
    | ([], _) :: q' => (es, q', None)
    | (g, src) :: q' => let (es', x) := receive_one es g src in (es', q', x)
    end.

  Inductive op :=
  | Dgram (g : bytes) (src : N)     (* a datagram arrives at the transport *)
  | SvcReceives | SvcRxGrams | SvcRxMemos
  | SvcAllRx | SvcAllRxOnce
  | RxSet (o : cfgop).             (* the receiver's own .code / .curt / .size (its TRANSMIT settings) are set:
                                      no effect whatsoever on the receive side *)

  Definition do_receives (once : bool) (s : state) : state * option exn :=
    let '(es, q, x) := (if once then receives_once else receives) (rxgs s) (queue s) in
    ({| rxgs := es; queue := q; rxms := rxms s; inbox := inbox s |}, x).

  Definition do_rx_grams (s : state) : state :=
    let (k, d) := rx_grams (rxgs s) in
    {| rxgs := k; queue := queue s; rxms := rxms s ++ d; inbox := inbox s |}.

  Definition do_rx_memos (once : bool) (s : state) : state :=
    if once then
      match rxms s with
      | [] => s
      | m :: r => {| rxgs := rxgs s; queue := queue s; rxms := r; inbox := inbox s ++ [m] |}
      end
    else {| rxgs := rxgs s; queue := queue s; rxms := []; inbox := inbox s ++ rxms s |}.

  Definition step (s : state) (o : op) : state * option exn :=
    match o with
    | Dgram g src => ({| rxgs := rxgs s; queue := queue s ++ [(g, src)]; rxms := rxms s; inbox := inbox s |}, None)
    | SvcReceives => do_receives false s
    | SvcRxGrams => (do_rx_grams s, None)
    | SvcRxMemos => (do_rx_memos false s, None)
    | SvcAllRx =>
      match do_receives false s with
      | (s', Some k) => (s', Some k)
      | (s', None) => (do_rx_memos false (do_rx_grams s'), None)
      end
    | SvcAllRxOnce =>
      match do_receives true s with
      | (s', Some k) => (s', Some k)
      | (s', None) => (do_rx_memos true (do_rx_grams s'), None)
      end
    | RxSet _ => (s, None)
    end.

  Fixpoint run (s : state) (ops : list op) : state * list (option exn) :=
    match ops with
    | [] => (s, [])
    | o :: ops' => let (s', x) := step s o in
                   let (s'', xs) := run s' ops' in (s'', x :: xs)
    end.
End Rx.

(* ---- correspondence ---- *)
(* verify is mverify (key choice by vid code and .keep, modelled) over the
   crypto proper, which is instantiated with the table of calls observed on the
   real Memoer.verify during the same run: ((key text, sig, ser), outcome), and
   the receiver's .keep as (vid, qvk) pairs. *)
Definition vtable := list (bytes * bytes * bytes * res unit).
Fixpoint vlookup (t : vtable) (v s m : bytes) : res unit :=
  match t with
  | [] => Exc OtherErr         (* the implementation never made this call *)
  | (v', s', m', r) :: t' =>
    if bytes_eqb v v' && bytes_eqb s s' && bytes_eqb m m' then r else vlookup t' v s m
  end.

Record obs_entry := { o_mid : bytes; o_grams : list (N * bytes); o_count : option N;
                      o_vid : option bytes; o_src : N }.

Fixpoint klookup (k : list (bytes * bytes)) (vid : bytes) : option bytes :=
  match k with
  | [] => None
  | (v, q) :: k' => if bytes_eqb v vid then Some q else klookup k' vid
  end.

Record case := { c_authic : bool;
                 c_keep : list (bytes * bytes);
                 c_ops : list op;
                 c_verify : vtable;
                 c_excs : list (option exn);
                 c_rxgs : list obs_entry;      (* in dict order; grams sorted by gn *)
                 c_rxms : list memo;
                 c_inbox : list memo;
                 c_queue : nat }.              (* datagrams left in the transport *)

Fixpoint insert_gram (g : N * bytes) (l : list (N * bytes)) : list (N * bytes) :=
  match l with
  | [] => [g]
  | h :: t => if fst g <? fst h then g :: h :: t else h :: insert_gram g t
  end.
Definition sort_grams (l : list (N * bytes)) : list (N * bytes) := fold_right insert_gram [] l.

Definition memo_eqb (a b : memo) : bool :=
  bytes_eqb (fst (fst a)) (fst (fst b)) && N.eqb (snd (fst a)) (snd (fst b))
  && option_eqb bytes_eqb (snd a) (snd b).

Definition entry_eqb (e : entry) (o : obs_entry) : bool :=
  bytes_eqb (e_mid e) (o_mid o)
  && list_eqb (pair_eqb N.eqb bytes_eqb) (sort_grams (e_grams e)) (o_grams o)
  && option_eqb N.eqb (e_count e) (o_count o)
  && option_eqb bytes_eqb (e_vid e) (o_vid o)
  && N.eqb (e_src e) (o_src o).

Fixpoint list_eqb2 {A B} (eqb : A -> B -> bool) (x : list A) (y : list B) : bool :=
  match x, y with
  | [], [] => true
  | a :: x', b :: y' => eqb a b && list_eqb2 eqb x' y'
  | _, _ => false
  end.

Definition check_case (c : case) : bool :=
  let (s, xs) := run (mverify (vlookup (c_verify c)) (klookup (c_keep c))) (c_authic c) init (c_ops c) in
  list_eqb (option_eqb exn_eqb) xs (c_excs c)
  && list_eqb2 entry_eqb (rxgs s) (c_rxgs c)
  && list_eqb memo_eqb (rxms s) (c_rxms c)
  && list_eqb memo_eqb (inbox s) (c_inbox c)
  && Nat.eqb (length (queue s)) (c_queue c).

Local Open Scope nat_scope.
(* branch ids: outcome of pick for every datagram (replayed against the
   evolving state), and what the fuse pass did *)
Definition pick_branch (verify : bytes -> bytes -> bytes -> res unit) (authic : bool)
           (es : list entry) (g : bytes) : nat :=
  match g with
  | [] => 0
  | b :: _ =>
    match pick verify authic (vids_of es) g with
    | Ok p => (if (b / 4 =? 24)%N then 1 else 2)
              + (match p_vid p with Some _ => 2 | None => 0 end)
              + (match p_gc p with Some _ => 0 | None => 4 end)      (* 1..8 *)
    | Exc MemoErr => if (b / 4 =? 24)%N then 9 else if (b / 4 =? 27)%N then 10 else 11
    | Exc _ => 12
    end
  end.

Fixpoint branches (verify : bytes -> bytes -> bytes -> res unit) (authic : bool)
         (s : state) (ops : list op) : list nat :=
  match ops with
  | [] => []
  | o :: ops' =>
    let here :=
      match o with
      | SvcReceives | SvcAllRx | SvcAllRxOnce =>
        match queue s with (g, _) :: _ => [pick_branch verify authic (rxgs s) g] | [] => [] end
      | SvcRxGrams =>
        let (k, d) := rx_grams (rxgs s) in
        (match d with [] => [] | _ => [13] end)
        ++ (if Nat.ltb (length k + length d) (length (rxgs s)) then [14] else [])
        ++ (match k with [] => [] | _ => [15] end)
      | _ => []
      end in
    here ++ branches verify authic (fst (step verify authic s o)) ops'
  end.
Definition case_branches (c : case) : list nat :=
  branches (mverify (vlookup (c_verify c)) (klookup (c_keep c))) (c_authic c) init (c_ops c).
Definition n_branches : nat := 16.

(* ---- C20 correspondence: segmentation by the real rend, then delivery ---- *)
(* sign is instantiated with the table of the real Memoer.sign calls:
   ((vid, ser), 88 char signature text) *)
Definition stable := list (bytes * bytes * bytes).
Fixpoint slookup (t : stable) (v m : bytes) : bytes :=
  match t with
  | [] => []
  | (v', m', sg) :: t' => if bytes_eqb v v' && bytes_eqb m m' then sg else slookup t' v m
  end.

Record sent := { s_params : rparams;            (* r_size = the effective .size observed *)
                 s_icode : code; s_icurt : bool; (* code and curt given to __init__ *)
                 s_req : option nat;            (* size given to __init__; None = default MaxGramSize *)
                 s_hist : list cfgop;           (* setter calls made before rend *)
                 s_text : bytes; s_grams : res (list bytes) }.  (* observed rend output *)

(* k_tx: when the grams travel through the sender's transmit queue under a scripted transport (Model/MemoTx.v:
   gramit of the rend output per destination, service calls, realized send results); k_more_rx: the receivers of
   the other destinations *)
Record case20 := { k_sign : stable; k_sent : list sent; k_rx : case;
                   k_more_rx : list case; k_tx : option MemoTx.case }.

Definition check_sent (t : stable) (s : sent) : bool :=
  res_eqb (list_eqb bytes_eqb) (rend (slookup t) (s_params s) (s_text s)) (s_grams s)
  && match s_req s with
     | Some q =>
       let f := cfg_run (s_icode s) (s_icurt s) q (s_hist s) in
       Nat.eqb (r_size (s_params s)) (f_size f)
       && Bool.eqb (r_curt (s_params s)) (f_curt f)
       && bytes_eqb (code_text (r_code (s_params s))) (code_text (f_code f))
     | None => Nat.leb (min_size (s_params s)) (r_size (s_params s))
     end.

Definition check_case20 (c : case20) : bool :=
  forallb (check_sent (k_sign c)) (k_sent c) && check_case (k_rx c)
  && forallb check_case (k_more_rx c)
  && match k_tx c with Some t => MemoTx.check_case t | None => true end.

Definition case20_branches (c : case20) : list nat :=
  map (fun s => match s_grams s with
                | Exc _ => 16
                | Ok g => (if r_curt (s_params s) then 17 else 18)
                end) (k_sent c)
  ++ map (fun s => match s_grams s with
                   | Ok [_] => 19 | Ok (_ :: _ :: _) => 20 | _ => 21 end) (k_sent c)
  ++ case_branches (k_rx c) ++ flat_map case_branches (k_more_rx c)
  ++ match k_tx c with Some t => map (fun b => 22 + b) (MemoTx.case_branches t) | None => [] end.
Definition n_branches20 : nat := 31.
