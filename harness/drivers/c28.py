"""C28 — registered data objects round-trip losslessly through JSON, CBOR and MessagePack.

Eight registered RegDom dataclasses are defined once per process in two synthetic modules: c28_plain (annotations
are real classes) and c28_post (`from __future__ import annotations`: annotations are strings, as in hio's own hier
modules).  A case is one instance (a tagged tree); it is serialised with _asjson/_ascbor/_asmgpk and rebuilt with
_fromjson/_fromcbor/_frommgpk of the real classes.
"""
import json, struct, sys, types
from harness.core import coq_list, coq_bool, coq_res, coq_nat, coq_Z, exn_kind

PROP = "C28"
COQ_REQUIRES = ["Hio.Model.Dom"]
COQ_CHECK = "Dom.check_case"
COQ_CASE_TYPE = "Dom.case"
COQ_BRANCHES = ("Dom.case_branches", "Dom.n_branches")
SHARD = 150
RULE = ("instances of 8 registered RegDom, 4 frozen IceRegDom, a TymeDom and an IceTymeDom subclass holding a nested data object (defined under postponed annotations) and hio's own Bag / IceBag dataclasses (Leaf, Mid with a Leaf field, Top with Mid and Leaf fields and "
        "int/str/list/dict/Any fields, Opt with `Leaf | None` and `list[Leaf]` fields; each defined with real and with "
        "postponed string annotations); field values drawn from None/bool/int (up to 64 bits)/finite float/str (ASCII, "
        "Latin, CJK, astral)/list/dict(str keys) to depth 3; dataclass-typed fields hold an instance, None, or (10%) an "
        "ill-typed value; a separate stream puts data objects into Optional, list and Any fields; a history stream defines "
        "a fresh Outer class whose postponed annotation names a not yet defined Inner, deserialises it once (nested field "
        "absent / null / no early call as control), then defines Inner and round-trips an Outer holding an Inner; four frozen "
        "IceRegDom classes (one holding a mutable data object) join the 8 classes; a mutation stream serialises an object, "
        "changes a nested list / dict / non-frozen data object in place, and serialises and round-trips it again; a refused-input "
        "stream interleaves malformed inputs (truncation at one or at every prefix length, trailing bytes, the record twice, a "
        "non-dict top-level value; for json, cbor and mgpk), decodes of the same record twice (bytes / bytearray / memoryview / "
        "str; results equal, distinct, sharing nothing; one changed in place, then a third decode) with clean round trips of other classes before the case's own round "
        "trip; four classes whose fields have non-None defaults, default_factory containers, a default nested object or no "
        "default at all hold None in exactly those fields; four classes with their own _dictify/_datify hook pair (wire form differs from the field dict; non-frozen strict "
        "and tolerant, TymeDom-based, frozen) round-trip in the history steps, and hooked classes serve as NESTED field types "
        "one and two levels deep (RegDom, TymeDom, frozen) holding an instance or None; non-trivial = a nested "
        "object, a non-ASCII string, an int beyond 2^53 or a list/dict field")
MODELLED = ["json / cbor2 / msgpack as an abstract codec with dec (enc v) = Some v on the common domain (checked per case: the "
            "library's decode of its own encoding must equal _asdict())",
            "dataclasses.asdict / fields / the generated __init__ (a missing member gets None in the model; every serialisation "
            "carries all fields, so defaults only matter when a decoder drops a member) / typing.get_type_hints",
            "Python values as trees: int as Z, float by its 64 bits, str as code points, dict as ordered pair list"]

SRC = '''
from dataclasses import dataclass
from typing import Any
from hio.help.doming import RegDom, registerify

@registerify
@dataclass
class C28Leaf{S}(RegDom):
    a: Any = None
    b: Any = None

@registerify
@dataclass
class C28Mid{S}(RegDom):
    leaf: C28Leaf{S} = None
    v: Any = None

@registerify
@dataclass
class C28Top{S}(RegDom):
    mid: C28Mid{S} = None
    leaf: C28Leaf{S} = None
    w: Any = None
    n: int = None
    s: str = None
    l: list = None
    m: dict = None

@registerify
@dataclass
class C28Opt{S}(RegDom):
    leaf: C28Leaf{S} | None = None
    leaves: list[C28Leaf{S}] = None
    v: Any = None
'''
ICE_SRC = '''
from dataclasses import dataclass
from typing import Any
from hio.help.doming import IceRegDom, registerify
from c28_plain import C28LeafA

@registerify
@dataclass(frozen=True)
class C28IceLeaf(IceRegDom):
    a: Any = None
    b: Any = None

@registerify
@dataclass(frozen=True)
class C28IceMid(IceRegDom):
    leaf: C28LeafA = None      # a mutable data object inside a frozen one
    v: Any = None

@registerify
@dataclass(frozen=True)
class C28IceTop(IceRegDom):
    mid: C28IceMid = None
    leaf: C28IceLeaf = None
    w: Any = None
    n: int = None
    s: str = None
    l: list = None
    m: dict = None

@registerify
@dataclass(frozen=True)
class C28IceOpt(IceRegDom):
    leaf: C28IceLeaf | None = None
    leaves: list[C28IceLeaf] = None
    v: Any = None
'''
# TymeDom / IceTymeDom subclasses with a nested data object, defined under postponed annotations the way hio's own
# bagging / canning modules are (their InitVar[None|Callable] annotations must stay resolvable for get_type_hints)
TYME_SRC = '''
from __future__ import annotations
from dataclasses import dataclass
from typing import Any
from hio.help.doming import RegDom, IceRegDom, TymeDom, IceTymeDom, registerify, namify

@registerify
@dataclass
class C28TPoint(RegDom):
    a: Any = None
    b: Any = None

@namify
@registerify
@dataclass
class C28TBag(TymeDom):
    leaf: C28TPoint = None
    v: Any = None

    def __hash__(self):
        return hash(self._astuple())

@namify
@registerify
@dataclass(frozen=True)
class C28TIce(IceTymeDom):
    leaf: C28TPoint = None
    v: Any = None

# subclasses that ADD fields to an already namified class (hio's Bag / IceBag / Can and the TymeDom subclass
# above), with and without re-applying @namify, with and without @registerify, and a holder that nests one
from hio.base.hier.bagging import Bag, IceBag
from hio.base.hier.canning import Can

@registerify
@dataclass
class C28LBag(Bag):
    label: Any = None
    meta: Any = None

@namify
@registerify
@dataclass
class C28NBag(Bag):
    label: Any = None
    meta: Any = None

@dataclass(frozen=True)
class C28LIce(IceBag):
    label: Any = None

@registerify
@dataclass
class C28TBag2(C28TBag):
    extra: Any = None

@registerify
@dataclass
class C28Holder(RegDom):
    bag: C28LBag = None
    v: Any = None

@dataclass
class C28LCan(Can):
    label: Any = None

# dataclass FIELDS whose names start with an underscore, of every value kind including nested data objects
from c28_plain import C28LeafA
from c28_ice import C28IceLeaf

@registerify
@dataclass
class C28UMid(RegDom):
    _leaf: C28LeafA = None
    _v: Any = None
    w: Any = None

@registerify
@dataclass(frozen=True)
class C28UIce(IceRegDom):
    _leaf: C28IceLeaf = None
    _l: list = None
    _m: dict = None

@namify
@registerify
@dataclass
class C28UBag(TymeDom):
    _origin: C28TPoint = None
    _n: int = None
    value: Any = None

@namify
@registerify
@dataclass(frozen=True)
class C28UIceBag(IceTymeDom):
    _origin: C28TPoint = None
    _s: str = None

# fields whose defaults are NOT None (a value, a default_factory container, a default nested object) and a field
# without default: a None held there is a value and must come back as None
from dataclasses import field

@registerify
@dataclass
class C28Limit(RegDom):
    high: Any = 100
    low: int = 0
    tags: list = field(default_factory=lambda: ["t"])
    meta: dict = field(default_factory=lambda: {"k": 1})
    leaf: C28LeafA = field(default_factory=lambda: C28LeafA(a=1))
    name: str = "x"

@registerify
@dataclass
class C28Must(RegDom):
    must: Any
    opt: Any = 5

@namify
@registerify
@dataclass
class C28TLimit(TymeDom):
    high: Any = 100
    origin: C28TPoint = field(default_factory=lambda: C28TPoint(a=0, b=0))
    label: str = "tl"

@registerify
@dataclass(frozen=True)
class C28IceLimit(IceRegDom):
    high: Any = 100
    tags: list = field(default_factory=lambda: ["t"])

# classes with their own _dictify / _datify hook pair: the dict (wire) form differs from the field dict
class _SpanHooks:
    def _dictify(self):
        return {"lo": self.lo, "len": self.hi - self.lo}

    @classmethod
    def _datify(cls, d):
        return cls(lo=d["lo"], hi=d["lo"] + d["len"])          # strict: the wire form must carry "len"

@registerify
@dataclass
class C28Span(_SpanHooks, RegDom):
    lo: int = 0
    hi: int = 0

@registerify
@dataclass
class C28LaxSpan(RegDom):
    lo: int = 0
    hi: int = 0

    def _dictify(self):
        return {"lo": self.lo, "len": self.hi - self.lo}

    @classmethod
    def _datify(cls, d):
        return cls(lo=d.get("lo", 0), hi=d.get("lo", 0) + d.get("len", 0))      # tolerant

@namify
@registerify
@dataclass
class C28TymeSpan(_SpanHooks, TymeDom):
    lo: int = 0
    hi: int = 0

@registerify
@dataclass(frozen=True)
class C28IceSpan(_SpanHooks, IceRegDom):
    lo: int = 0
    hi: int = 0

# hooked classes used as NESTED field types, one and two levels deep.  A nested object is serialised by
# dataclasses.asdict (field dict), a top-level one by its _dictify (wire form), so this hook reads both forms
class _NSpanHooks:
    def _dictify(self):
        return {"lo": self.lo, "len": self.hi - self.lo}

    @classmethod
    def _datify(cls, d):
        if "len" in d:
            return cls(lo=d["lo"], hi=d["lo"] + d["len"])
        return cls(lo=d["lo"], hi=d["hi"])

@registerify
@dataclass
class C28NSpan(_NSpanHooks, RegDom):
    lo: int = 0
    hi: int = 0

@registerify
@dataclass(frozen=True)
class C28IceNSpan(_NSpanHooks, IceRegDom):
    lo: int = 0
    hi: int = 0

@registerify
@dataclass
class C28Probe(RegDom):
    span: C28NSpan = None
    v: Any = None

@registerify
@dataclass
class C28Station(RegDom):
    probe: C28Probe = None
    w: Any = None

@registerify
@dataclass(frozen=True)
class C28IceProbe(IceRegDom):
    span: C28IceNSpan = None
    v: Any = None

@namify
@registerify
@dataclass
class C28TStation(TymeDom):
    probe: C28Probe = None
    label: str = "s"
'''
# class number -> (name stem, [(field, dataclass number or None)])
SCHEMA = []
for off in (0, 4):
    SCHEMA += [("Leaf", [("a", None), ("b", None)]),
               ("Mid", [("leaf", off + 0), ("v", None)]),
               ("Top", [("mid", off + 1), ("leaf", off + 0), ("w", None), ("n", None), ("s", None), ("l", None), ("m", None)]),
               ("Opt", [("leaf", None), ("leaves", None), ("v", None)])]
# 8..11: frozen IceRegDom classes; IceMid holds the mutable class 0, IceTop holds IceMid (9) and IceLeaf (8)
SCHEMA += [("IceLeaf", [("a", None), ("b", None)]),
           ("IceMid", [("leaf", 0), ("v", None)]),
           ("IceTop", [("mid", 9), ("leaf", 8), ("w", None), ("n", None), ("s", None), ("l", None), ("m", None)]),
           ("IceOpt", [("leaf", None), ("leaves", None), ("v", None)])]
# 12..14: TymeDom family under postponed annotations; 15, 16: hio's own Bag and IceBag (one Any field)
SCHEMA += [("TPoint", [("a", None), ("b", None)]),
           ("TBag", [("leaf", 12), ("v", None)]),
           ("TIce", [("leaf", 12), ("v", None)]),
           ("Bag", [("value", None)]),
           ("IceBag", [("value", None)])]
# 17..22: subclasses adding fields to namified classes (17 not re-namified, 18 re-namified, 19 frozen and neither
# namified nor registered, 20 extends the TymeDom subclass 13, 21 holds a 17, 22 extends Can)
SCHEMA += [("LBag", [("value", None), ("label", None), ("meta", None)]),
           ("NBag", [("value", None), ("label", None), ("meta", None)]),
           ("LIce", [("value", None), ("label", None)]),
           ("TBag2", [("leaf", 12), ("v", None), ("extra", None)]),
           ("Holder", [("bag", 17), ("v", None)]),
           ("LCan", [("value", None), ("label", None)])]
# 23..26: fields whose names start with an underscore (nested object, Any, list, dict, int, str)
SCHEMA += [("UMid", [("_leaf", 0), ("_v", None), ("w", None)]),
           ("UIce", [("_leaf", 8), ("_l", None), ("_m", None)]),
           ("UBag", [("_origin", 12), ("_n", None), ("value", None)]),
           ("UIceBag", [("_origin", 12), ("_s", None)])]
# 27..30: fields with non-None defaults, default_factory, a default nested object, and a field without default
DEFAULTED = [len(SCHEMA) + i for i in range(4)]
SCHEMA += [("Limit", [("high", None), ("low", None), ("tags", None), ("meta", None), ("leaf", 0), ("name", None)]),
           ("Must", [("must", None), ("opt", None)]),
           ("TLimit", [("high", None), ("origin", 12), ("label", None)]),
           ("IceLimit", [("high", None), ("tags", None)])]
NCLS = len(SCHEMA)       # the classes whose round trip is also evaluated by the Coq model
# 27..30: classes with a _dictify/_datify hook pair (wire form {lo, len}); they take part in the history streams and the
# direct oracle only (a hook is arbitrary code; the model knows asdict / fields-driven datify)
HOOKED = [NCLS, NCLS + 1, NCLS + 2, NCLS + 3]
SCHEMA += [("Span", [("lo", None), ("hi", None)]), ("LaxSpan", [("lo", None), ("hi", None)]),
           ("TymeSpan", [("lo", None), ("hi", None)]), ("IceSpan", [("lo", None), ("hi", None)])]
# NCLS+4..NCLS+9: hooked classes as nested field types (NSpan, IceNSpan, Probe > NSpan, Station > Probe > NSpan,
# IceProbe > IceNSpan, TStation > Probe)
NESTHOOK = [NCLS + 4 + i for i in range(6)]
SCHEMA += [("NSpan", [("lo", None), ("hi", None)]), ("IceNSpan", [("lo", None), ("hi", None)]),
           ("Probe", [("span", NCLS + 4), ("v", None)]), ("Station", [("probe", NCLS + 6), ("w", None)]),
           ("IceProbe", [("span", NCLS + 5), ("v", None)]), ("TStation", [("probe", NCLS + 6), ("label", None)])]
FROZEN = {8, 9, 10, 11, 14, 16, 19, 24, 26, 30, NCLS + 3, NCLS + 5, NCLS + 8}
_classes = None


def classes():
    global _classes
    if _classes is None:
        out = []
        for name, future, S in (("c28_plain", False, "A"), ("c28_post", True, "P")):
            m = types.ModuleType(name)
            sys.modules[name] = m
            src = ("from __future__ import annotations\n" if future else "") + SRC.replace("{S}", S)
            exec(compile(src, name, "exec"), m.__dict__)
            out += [getattr(m, f"C28{stem}{S}") for stem in ("Leaf", "Mid", "Top", "Opt")]
        m = types.ModuleType("c28_ice")
        sys.modules["c28_ice"] = m
        exec(compile(ICE_SRC, "c28_ice", "exec"), m.__dict__)
        out += [getattr(m, f"C28Ice{stem}") for stem in ("Leaf", "Mid", "Top", "Opt")]
        m = types.ModuleType("c28_tyme")
        sys.modules["c28_tyme"] = m
        exec(compile(TYME_SRC, "c28_tyme", "exec"), m.__dict__)
        out += [m.C28TPoint, m.C28TBag, m.C28TIce]
        from hio.base.hier.bagging import Bag, IceBag
        out += [Bag, IceBag]
        out += [m.C28LBag, m.C28NBag, m.C28LIce, m.C28TBag2, m.C28Holder, m.C28LCan]
        out += [m.C28UMid, m.C28UIce, m.C28UBag, m.C28UIceBag]
        out += [m.C28Limit, m.C28Must, m.C28TLimit, m.C28IceLimit]
        out += [m.C28Span, m.C28LaxSpan, m.C28TymeSpan, m.C28IceSpan]
        out += [m.C28NSpan, m.C28IceNSpan, m.C28Probe, m.C28Station, m.C28IceProbe, m.C28TStation]
        _classes = out
    return _classes


# History stream: a fresh Outer (shape of Mid, postponed annotations) is defined BEFORE its nested class exists, is
# deserialised once ("early": "absent" = data without the nested field, "null" = nested field null; "control" = no
# early call), then the nested class is defined and an Outer holding an Inner goes through the three codecs.
HIST_OUTER = '''
from __future__ import annotations
from dataclasses import dataclass
from typing import Any
from hio.help.doming import RegDom, registerify

@registerify
@dataclass
class C28HOuter{N}(RegDom):
    leaf: C28HInner{N} = None
    v: Any = None
'''
HIST_INNER = '''
@registerify
@dataclass
class C28HInner{N}(RegDom):
    a: Any = None
    b: Any = None
'''
_hist_counter = [0]


def history_classes(early):
    """returns (class table with Inner at 4 and Outer at 5, result tree of the early call or None)"""
    _hist_counter[0] += 1
    N = str(_hist_counter[0])
    name = "c28_hist_" + N
    m = types.ModuleType(name)
    sys.modules[name] = m
    exec(compile(HIST_OUTER.replace("{N}", N), name, "exec"), m.__dict__)
    outer = getattr(m, "C28HOuter" + N)
    first = None
    if early in ("absent", "null"):
        d = {"v": 1} if early == "absent" else {"leaf": None, "v": 1}
        import cbor2, msgpack
        first = [outer._fromjson(json.dumps(d).encode()), outer._fromcbor(cbor2.dumps(d)), outer._frommgpk(msgpack.dumps(d))]
        first = [bool(type(y) is outer and y.leaf is None and y.v == 1) for y in first]
    exec(compile(HIST_INNER.replace("{N}", N), name, "exec"), m.__dict__)
    inner = getattr(m, "C28HInner" + N)
    cs = [None] * len(SCHEMA)
    cs[4], cs[5] = inner, outer
    return cs, first


# ----------------------------------------------------------------------------- trees
# ["n"] None | ["b", bool] | ["i", int] | ["f", hex] | ["s", str] | ["l", [tree]] | ["d", [[key, tree]]] | ["o", cls, [[field, tree]]]

def build(t, cs=None):
    k = t[0]
    if k == "n":
        return None
    if k in ("b", "i", "s"):
        return t[1]
    if k == "f":
        return float.fromhex(t[1])
    if k == "l":
        return [build(x, cs) for x in t[1]]
    if k == "d":
        return {key: build(x, cs) for key, x in t[1]}
    return (cs or classes())[t[1]](**{f: build(x, cs) for f, x in t[2]})


def tree_of(x, cs=None):
    if x is None:
        return ["n"]
    if isinstance(x, bool):
        return ["b", x]
    if isinstance(x, int):
        return ["i", x]
    if isinstance(x, float):
        return ["f", x.hex()]
    if isinstance(x, str):
        return ["s", x]
    if isinstance(x, (list, tuple)):
        return ["l", [tree_of(y, cs) for y in x]]
    if isinstance(x, dict):
        return ["d", [[k, tree_of(v, cs)] for k, v in x.items()]]
    cs = cs or classes()
    if type(x) in cs:
        c = cs.index(type(x))
        return ["o", c, [[f, tree_of(getattr(x, f), cs)] for f, _ in SCHEMA[c][1]]]
    raise TypeError(f"unrepresentable {type(x)}")


def obj(c, **kw):
    return ["o", c, [[f, kw.get(f, ["n"])] for f, _ in SCHEMA[c][1]]]


def has_obj(t):
    if t[0] == "o":
        return True
    if t[0] == "l":
        return any(has_obj(x) for x in t[1])
    if t[0] == "d":
        return any(has_obj(x) for _, x in t[1])
    return False


def in_domain(t):
    """every dataclass-annotated field holds None or an instance of exactly that class (recursively)"""
    if t[0] == "o":
        for (f, x), (_, ft) in zip(t[2], SCHEMA[t[1]][1]):
            if ft is not None and not (x[0] == "n" or (x[0] == "o" and x[1] == ft)):
                return False
            if not in_domain(x):
                return False
        return True
    if t[0] == "l":
        return all(in_domain(x) for x in t[1])
    if t[0] == "d":
        return all(in_domain(x) for _, x in t[1])
    return True


def misplaced(t, top=True):
    """a data object sits where the annotation is not exactly its class (Optional / list[...] / Any / inside a
    container): the class D31b speaks about"""
    if t[0] == "o":
        for (f, x), (_, ft) in zip(t[2], SCHEMA[t[1]][1]):
            if ft is None and has_obj(x):
                return True
            if ft is not None and x[0] == "o" and misplaced(x, False):
                return True
        return False
    return False


# ----------------------------------------------------------------------------- cases

STRS = ["", "a", "abc", "leaf", "é", "naïve", "日本", "\U0001F600x", "a\"b\\c", "\n\t", "ключ"]
INTS = [0, 1, -1, 255, 2**31, -2**31, 2**53 + 1, 2**63 - 1, -2**63, 2**64 - 1, 10**15]
FLTS = [0.0, -0.0, 1.5, -2.25, 1e300, 5e-324, 0.1, 3.141592653589793, 1e16, float(2**53)]


def rand_plain(rng, depth):
    r = rng.random()
    if depth <= 0 or r < 0.55:
        k = rng.choice("nbiifssss")
        if k == "n":
            return ["n"]
        if k == "b":
            return ["b", rng.random() < 0.5]
        if k == "i":
            return ["i", rng.choice(INTS) if rng.random() < 0.5 else rng.randint(-1000, 1000)]
        if k == "f":
            return ["f", (rng.choice(FLTS) if rng.random() < 0.6 else rng.uniform(-1e6, 1e6)).hex()]
        return ["s", rng.choice(STRS)]
    if r < 0.8:
        return ["l", [rand_plain(rng, depth - 1) for _ in range(rng.choice([0, 1, 2, 3]))]]
    keys = rng.sample(STRS, rng.choice([0, 1, 2, 3]))
    return ["d", [[k, rand_plain(rng, depth - 1)] for k in keys]]


def rand_obj(rng, c, illtyped=0.1, misplace=0.0):
    fs = []
    for f, ft in SCHEMA[c][1]:
        r = rng.random()
        if ft is not None:
            if r < illtyped:
                x = rng.choice([["l", []], ["s", ""], ["d", []], ["d", [["a", ["i", 1]]]], ["d", [["zz", ["i", 1]]]],
                                ["i", 3], ["l", [["s", "a"]]], ["s", "a"], rand_obj(rng, (ft + 1) % NCLS, 0, 0)])
            elif r < 0.3:
                x = ["n"]
            else:
                x = rand_obj(rng, ft, illtyped, misplace)
        else:
            leafc = c - c % 4
            if rng.random() < misplace:
                x = rng.choice([rand_obj(rng, leafc, 0, 0), ["l", [rand_obj(rng, leafc, 0, 0)]],
                                ["d", [["k", rand_obj(rng, leafc, 0, 0)]]]])
            elif f == "n":
                x = ["i", rng.choice(INTS)]
            elif f == "s":
                x = ["s", rng.choice(STRS)]
            elif f in ("l", "leaves"):
                x = ["l", [rand_plain(rng, 2) for _ in range(rng.choice([0, 1, 3]))]]
            elif f == "m":
                x = ["d", [[k, rand_plain(rng, 2)] for k in rng.sample(STRS, rng.choice([0, 1, 3]))]]
            else:
                x = rand_plain(rng, 3)
        fs.append([f, x])
    return ["o", c, fs]


def directed():
    L, M, T, O = 0, 1, 2, 3
    out = []
    for off in (0, 4):
        leaf = obj(off + L, a=["i", 5], b=["s", "é"])
        out += [
            {"obj": leaf},
            {"obj": obj(off + M, leaf=leaf, v=["i", 2])},                                       # D31 witness shape
            {"obj": obj(off + T, mid=obj(off + M, leaf=leaf, v=["l", [["i", 1], ["f", (2.5).hex()], ["n"]]]), leaf=leaf,
                        w=["d", [["k", ["l", []]]]], n=["i", 2**64 - 1], s=["s", "日本"], l=["l", [["b", True]]],
                        m=["d", [["x", ["f", (-0.0).hex()]]]])},
            {"obj": obj(off + O, leaf=leaf, leaves=["l", [leaf]], v=["n"])},                     # D31b
            {"obj": obj(off + O, leaf=["n"], leaves=["l", [["i", 1]]], v=leaf)},                 # D31b (Any field)
            {"obj": obj(off + M, leaf=["n"], v=["n"])},
            {"obj": obj(off + M, leaf=["l", []], v=["i", 1])},                                   # ill-typed: becomes Leaf()
            {"obj": obj(off + M, leaf=["s", ""], v=["i", 1])},
            {"obj": obj(off + M, leaf=["d", [["a", ["i", 3]]]], v=["i", 1])},                    # ill-typed: dict matching fields
            {"obj": obj(off + M, leaf=["d", [["zz", ["i", 3]]]], v=["i", 1])},
            {"obj": obj(off + M, leaf=["l", [["s", "a"]]], v=["s", "a"])},
            {"obj": obj(off + M, leaf=obj(off + M, leaf=leaf), v=["i", 1])},                     # wrong class in the field
        ]
    # frozen classes, and in-place changes after a first serialisation
    ileaf = obj(8, a=["l", [["i", 1]]], b=["d", [["k", ["i", 1]]]])
    mleaf = obj(0, a=["i", 5], b=["l", []])
    imid = obj(9, leaf=mleaf, v=["l", [["s", "a"]]])
    itop = obj(10, mid=imid, leaf=ileaf, w=["d", []], n=["i", 7], s=["s", "é"], l=["l", [["i", 1]]], m=["d", [["x", ["i", 1]]]])
    out += [{"obj": ileaf}, {"obj": imid}, {"obj": itop}, {"obj": obj(11, leaf=ileaf, leaves=["l", [ileaf]], v=["n"])}]
    out += [
        {"obj": ileaf, "mut": [[["f", "a"]], "append", ["i", 2]]},
        {"obj": ileaf, "mut": [[["f", "b"]], "setkey", "new", ["s", "v"]]},
        {"obj": imid, "mut": [[["f", "leaf"]], "attr", "a", ["i", 6]]},                    # mutable object inside a frozen one
        {"obj": imid, "mut": [[["f", "leaf"], ["f", "b"]], "append", ["i", 9]]},
        {"obj": imid, "mut": [[["f", "v"]], "append", ["n"]]},
        {"obj": itop, "mut": [[["f", "mid"], ["f", "leaf"]], "attr", "b", ["s", "changed"]]},
        {"obj": itop, "mut": [[["f", "leaf"], ["f", "a"]], "append", ["f", (2.5).hex()]]},
        {"obj": itop, "mut": [[["f", "m"]], "setkey", "x", ["i", 2]]},
        {"obj": itop, "mut": [[["f", "l"]], "append", ["d", [["k", ["n"]]]]]},
        {"obj": obj(1, leaf=mleaf, v=["l", []]), "mut": [[], "attr", "v", ["i", 3]]},
        {"obj": obj(5, leaf=obj(4, a=["l", []]), v=["n"]), "mut": [[["f", "leaf"], ["f", "a"]], "append", ["i", 1]]},
    ]
    # TymeDom family under postponed annotations, and hio's own Bag / IceBag
    tp = obj(12, a=["i", 5], b=["s", "é"])
    out += [{"obj": tp}, {"obj": obj(13, leaf=tp, v=["l", [["i", 1]]])}, {"obj": obj(14, leaf=tp, v=["d", [["k", ["n"]]]])},
            {"obj": obj(13, leaf=["n"], v=["n"])}, {"obj": obj(15, value=["l", [["i", 1], ["s", "é"]]])},
            {"obj": obj(16, value=["d", [["k", ["f", (1.5).hex()]]]])}, {"obj": obj(15, value=tp)},
            {"obj": obj(13, leaf=tp, v=["l", []]), "mut": [[["f", "leaf"]], "attr", "a", ["i", 6]]},
            {"obj": obj(14, leaf=tp, v=["l", []]), "mut": [[["f", "v"]], "append", ["i", 6]]}]
    out += directed_seqs()
    # None in fields whose default is not None / a default_factory / a default nested object / absent
    out += [{"obj": obj(27)}, {"obj": obj(27, high=["n"], low=["i", 3], tags=["l", []], meta=["d", []], leaf=obj(0), name=["s", "n"])},
            {"obj": obj(27, high=["i", 0], low=["n"], tags=["n"], meta=["n"], leaf=["n"], name=["n"])},
            {"obj": obj(28)}, {"obj": obj(28, must=["n"], opt=["i", 1])}, {"obj": obj(28, must=["i", 1], opt=["n"])},
            {"obj": obj(29)}, {"obj": obj(29, high=["n"], origin=["n"], label=["s", "z"])},
            {"obj": obj(30)}, {"obj": obj(30, high=["n"], tags=["l", [["n"]]])},
            {"obj": obj(0), "seq": [["twice", 0, obj(27), "str"], ["twice", 0, obj(28), "str"], ["twice", 0, obj(29), "bytearray"],
                                    ["twice", 1, obj(27), "bytes"], ["twice", 2, obj(28), "bytes"]]}]
    # fields named with a leading underscore
    out += [{"obj": ["o", 23, [["_leaf", obj(0, a=["i", 5], b=["s", "é"])], ["_v", ["l", [["i", 1]]]], ["w", ["n"]]]]},
            {"obj": ["o", 24, [["_leaf", obj(8, a=["l", [["i", 1]]])], ["_l", ["l", [["s", "a"]]]], ["_m", ["d", [["k", ["i", 1]]]]]]]},
            {"obj": ["o", 25, [["_origin", obj(12, a=["i", 5], b=["i", 6])], ["_n", ["i", 7]], ["value", ["s", "v"]]]]},
            {"obj": ["o", 26, [["_origin", obj(12, a=["i", 5], b=["i", 6])], ["_s", ["s", "日本"]]]]},
            {"obj": ["o", 23, [["_leaf", ["n"]], ["_v", ["d", [["k", ["n"]]]]], ["w", ["i", 1]]]]},
            {"obj": ["o", 23, [["_leaf", obj(0, a=["l", []])], ["_v", ["n"]], ["w", ["n"]]]], "mut": [[["f", "_leaf"], ["f", "a"]], "append", ["i", 1]]}]
    # subclasses adding fields to namified classes, top level and nested
    lb = obj(17, value=["i", 5], label=["s", "five"], meta=["d", [["k", ["i", 1]]]])
    out += [{"obj": lb}, {"obj": obj(18, value=["i", 5], label=["s", "five"], meta=["l", [["i", 1]]])},
            {"obj": obj(19, value=["l", [["i", 1]]], label=["s", "x"])},
            {"obj": obj(20, leaf=obj(12, a=["i", 1]), v=["i", 2], extra=["s", "more"])},
            {"obj": obj(21, bag=lb, v=["n"])}, {"obj": obj(22, value=["i", 1], label=["s", "can"])},
            {"obj": lb, "mut": [[["f", "meta"]], "setkey", "new", ["i", 2]]}]
    leaf = obj(4, a=["i", 5], b=["s", "é"])
    for early in ("absent", "null", "control"):
        out.append({"obj": obj(5, leaf=leaf, v=["i", 2]), "early": early})
        out.append({"obj": obj(5, leaf=["n"], v=["l", [["i", 1]]]), "early": early})
    return out


def history_cases(rng, k):
    out = []
    for i in range(k):
        o = rand_obj(rng, 5, 0.0, 0.0)
        if rng.random() < 0.8:
            o[2][0][1] = rand_obj(rng, 4, 0.0, 0.0)      # mostly a real nested object
        out.append({"obj": o, "early": ["absent", "null", "control"][i % 3]})
    return out


# Mutation histories: construct -> serialise with every codec -> change a nested mutable value IN PLACE (append to a
# list, set a dict key, assign an attribute of a non-frozen data object, possibly inside a frozen one) -> serialise
# again and round-trip.  "mut" = [path, op, arg...]: path steps are ["f", field] / ["i", index] / ["k", key].
def _targets(t, path, frozen_top):
    """places of a tree that can be changed in place: (path, kind)"""
    out = []
    if t[0] == "o":
        if t[1] not in FROZEN:
            out.append((path, "attr"))
        for f, x in t[2]:
            out += _targets(x, path + [["f", f]], False)
    elif t[0] == "l":
        out.append((path, "list"))
        for i, x in enumerate(t[1]):
            out += _targets(x, path + [["i", i]], False)
    elif t[0] == "d":
        out.append((path, "dict"))
        for k, x in t[1]:
            out += _targets(x, path + [["k", k]], False)
    return out


def _node(t, path):
    for kind, key in path:
        if kind == "f":
            t = dict((f, x) for f, x in t[2])[key]
        elif kind == "i":
            t = t[1][key]
        else:
            t = dict((k, x) for k, x in t[1])[key]
    return t


def rand_mutation(rng, t):
    ts = _targets(t, [], True)
    if not ts:
        return None
    path, kind = rng.choice(ts)
    v = rand_plain(rng, 1)
    if kind == "list":
        return [path, "append", v]
    if kind == "dict":
        return [path, "setkey", rng.choice(["zz", "a", "new"]), v]
    node = _node(t, path)
    plain = [f for f, ft in SCHEMA[node[1]][1] if ft is None]
    return [path, "attr", rng.choice(plain), v]


def apply_mutation(x, mut):
    path, op = mut[0], mut[1]
    for kind, key in path:
        x = getattr(x, key) if kind == "f" else x[key]
    if op == "append":
        x.append(build(mut[2]))
    elif op == "setkey":
        x[mut[2]] = build(mut[3])
    else:
        setattr(x, mut[2], build(mut[3]))


def mutation_cases(rng, k):
    out = []
    while len(out) < k:
        c = rng.choice([8, 9, 10, 10, 11, 9, 10, 13, 14, 16, rng.randrange(NCLS)])
        o = rand_obj(rng, c, 0.0, 0.15 if c % 4 == 3 else 0.0)
        m = rand_mutation(rng, o)
        if m is not None:
            out.append({"obj": o, "mut": m})
    return out


def rand_typed(rng):
    c = rng.choice([0, 1, 2, 4, 5, 6, 8, 9, 10, 12, 13, 14, 15, 16, 17, 18, 19, 20, 21, 22, 23, 24, 25, 26, 27, 28, 29, 30])
    return rand_obj(rng, c, 0.0, 0.0)


def hooked_obj(rng):
    lo = rng.randint(-50, 50)
    if rng.random() < 0.5:
        return obj(rng.choice(HOOKED), lo=["i", lo], hi=["i", lo + rng.randint(0, 40)])
    # a hooked class as a nested field type, one or two levels deep, holding an instance or None
    nsp = lambda c: ["n"] if rng.random() < 0.5 else obj(c, lo=["i", lo], hi=["i", lo + rng.randint(0, 40)])
    probe = lambda: ["n"] if rng.random() < 0.3 else obj(NCLS + 6, span=nsp(NCLS + 4), v=rand_plain(rng, 1))
    k = rng.randrange(5)
    if k == 0:
        return obj(NCLS + 6, span=nsp(NCLS + 4), v=rand_plain(rng, 1))
    if k == 1:
        return obj(NCLS + 7, probe=probe(), w=rand_plain(rng, 1))
    if k == 2:
        return obj(NCLS + 8, span=nsp(NCLS + 5), v=rand_plain(rng, 1))
    if k == 3:
        return obj(NCLS + 9, probe=probe(), label=["s", "lbl"])
    return obj(rng.choice([NCLS + 4, NCLS + 5]), lo=["i", lo], hi=["i", lo + 3])


def seq_cases(rng, k):
    out = []
    for i in range(k):
        steps = []
        if rng.random() < 0.5:
            steps.append(["rt", hooked_obj(rng)])
        if rng.random() < 0.2:
            steps.append(["twice", rng.randrange(3), hooked_obj(rng), "bytes"])
        for _ in range(rng.choice([1, 2, 3, 5])):
            r = rng.random()
            t = rand_typed(rng)
            ki = rng.randrange(3)
            if r < 0.2:
                steps.append(["twice", ki, t, rng.choice(["bytes", "bytes", "bytearray", "memoryview", "str"])])
            elif r < 0.3:
                steps.append(["rt", t])
            elif r < 0.6:
                steps.append(["bad", ki, t, "trunc", rng.choice([0, 1, 2, 3, 5, 8, 13, 21, 34, 55, 10**6])])
            elif r < 0.75:
                steps.append(["bad", ki, t, "trail", rng.choice([1, 2, 5])])
            elif r < 0.85:
                steps.append(["bad", ki, t, "double", 0])
            else:
                steps.append(["bad", ki, t, "type", rng.randrange(3)])
        out.append({"obj": rand_typed(rng), "seq": steps})
    return out


def directed_seqs():
    hooks = [{"obj": obj(0, a=["i", 1]), "seq": [["rt", obj(c, lo=["i", 2], hi=["i", 9])], ["rt", obj(c, lo=["i", -3], hi=["i", -3])],
                                                  ["twice", 0, obj(c, lo=["i", 2], hi=["i", 9]), "bytes"],
                                                  ["bad", 1, obj(c, lo=["i", 2], hi=["i", 9]), "trunc", 3]]} for c in HOOKED]
    sp = obj(NCLS + 4, lo=["i", 2], hi=["i", 9])
    nest = [obj(NCLS + 6, span=["n"], v=["i", 1]), obj(NCLS + 6, span=sp, v=["n"]),
            obj(NCLS + 7, probe=obj(NCLS + 6, span=["n"], v=["i", 1]), w=["s", "w"]), obj(NCLS + 7, probe=obj(NCLS + 6, span=sp), w=["n"]),
            obj(NCLS + 7, probe=["n"], w=["i", 0]), obj(NCLS + 8, span=["n"], v=["l", []]),
            obj(NCLS + 8, span=obj(NCLS + 5, lo=["i", 1], hi=["i", 4]), v=["n"]),
            obj(NCLS + 9, probe=obj(NCLS + 6, span=["n"]), label=["s", "t"]), obj(NCLS + 9, probe=["n"], label=["s", "t"]), sp]
    hooks.append({"obj": obj(0, a=["i", 2]), "seq": [["rt", t] for t in nest] + [["twice", 0, nest[2], "bytes"], ["twice", 2, nest[0], "bytes"]]})
    return hooks + _directed_seqs()


def _directed_seqs():
    leaf = obj(0, a=["i", 5], b=["s", "é"])
    mid = obj(1, leaf=leaf, v=["l", [["i", 1], ["f", (2.5).hex()], ["n"]]])
    tb = obj(13, leaf=obj(12, a=["i", 1]), v=["d", [["k", ["i", 2]]]])
    ice = obj(9, leaf=leaf, v=["s", "x"])
    out = []
    for ki in range(3):
        out.append({"obj": mid, "seq": [["rt", leaf], ["bad", ki, mid, "trunc", 5], ["rt", tb]]})
        out.append({"obj": tb, "seq": [["bad", ki, ice, "trail", 2], ["rt", mid]]})
        out.append({"obj": ice, "seq": [["bad", ki, leaf, "double", 0], ["bad", ki, leaf, "type", 0], ["bad", ki, leaf, "type", 1]]})
        out.append({"obj": leaf, "seq": [["bad", ki, mid, "alltrunc", 0]]})
        for form in ("bytes", "bytearray", "memoryview", "str"):
            itop = obj(10, mid=obj(9, leaf=leaf, v=["l", [["s", "a"]]]), leaf=obj(8, a=["l", [["i", 1]]], b=["d", []]),
                       l=["l", [["i", 1]]], m=["d", [["x", ["i", 1]]]])
            out.append({"obj": mid, "seq": [["twice", ki, itop, form], ["twice", ki, obj(8, a=["l", []], b=["d", []]), form],
                                            ["twice", ki, mid, form], ["twice", ki, tb, form], ["twice", ki, obj(16, value=["l", [["i", 1]]]), form]]})
        out.append({"obj": mid, "seq": [["bad", ki, tb, "alltrunc", 0], ["bad", (ki + 1) % 3, ice, "trunc", 3]]})
    return out


def defaulted_cases(rng, k):
    """objects of the classes with non-None defaults, None in their fields with probability 0.4"""
    out = []
    for _ in range(k):
        c = rng.choice(DEFAULTED)
        o = rand_obj(rng, c, 0.0, 0.0)
        for fx in o[2]:
            if rng.random() < 0.4:
                fx[1] = ["n"]
        out.append({"obj": o})
    return out


def generate(rng, tier):
    n = 500 if tier == "quick" else 4500
    out = [{"obj": rand_obj(rng, rng.randrange(NCLS))} for _ in range(n)]
    out += [{"obj": rand_obj(rng, rng.randrange(NCLS), 0.0, 0.0)} for _ in range(n // 2)]
    out += [{"obj": rand_obj(rng, rng.randrange(NCLS), 0.0, 0.35)} for _ in range(n // 4)]
    out += history_cases(rng, 60 if tier == "quick" else 600)
    out += mutation_cases(rng, 240 if tier == "quick" else 2400)
    out += seq_cases(rng, 150 if tier == "quick" else 1500)
    out += defaulted_cases(rng, 120 if tier == "quick" else 1200)
    return out


# ----------------------------------------------------------------------------- implementation

CODECS = [("_asjson", "_fromjson", "json"), ("_ascbor", "_fromcbor", "cbor"), ("_asmgpk", "_frommgpk", "mgpk")]


def _loads(kind, raw):
    if kind == "json":
        return json.loads(raw.decode())
    if kind == "cbor":
        import cbor2
        return cbor2.loads(raw)
    import msgpack
    return msgpack.loads(raw)


def _asdict_tree(t):
    """what dictify must give for the object tree t (data objects become dicts, recursively)"""
    if t[0] == "o":
        return ["d", [[f, _asdict_tree(x)] for f, x in t[2]]]
    if t[0] == "l":
        return ["l", [_asdict_tree(x) for x in t[1]]]
    if t[0] == "d":
        return ["d", [[k, _asdict_tree(x)] for k, x in t[1]]]
    return t


# Refused-input histories ("seq"): before the case's own round trip, a list of steps runs in the same process:
#   ["rt", tree]                         round trip of another (well-typed) object through the three codecs
#   ["bad", codec, tree, how, arg]       a malformed input derived from the valid encoding of tree is given to _from*:
#   ["twice", codec, tree, form]         the same valid record is decoded twice (form = bytes / bytearray / memoryview /
#        str where the library accepts it): both results equal the object, are distinct objects sharing no nested
#        container; one is then changed in place and the record decoded a third time
#        how = "trunc" (first arg bytes), "alltrunc" (every proper prefix, each followed by a round trip of tree),
#              "trail" (arg extra bytes appended), "double" (the record twice), "type" (a non-dict top-level value)
# Every _from* result must depend on its own argument only.
def _dumps(kind, v):
    if kind == "json":
        return json.dumps(v, separators=(",", ":"), ensure_ascii=False).encode()
    if kind == "cbor":
        import cbor2
        return cbor2.dumps(v)
    import msgpack
    return msgpack.dumps(v)


def _reference(kind, raw):
    """what a state-free decoder makes of raw: ("exc",) or ("ok", value)"""
    try:
        return ("ok", _loads(kind, raw))
    except Exception:
        return ("exc",)


def run_seq(steps):
    log = []

    def rt(tree):
        x = build(tree)
        res = []
        for enc, dec, kind in CODECS:
            try:
                y = getattr(type(x), dec)(getattr(x, enc)())
                res.append(bool(y == x and type(y) is type(x)))
            except Exception as ex:
                res.append(exn_kind(ex))
        return res

    def bad(kind_i, x, raw):
        enc, dec, kind = CODECS[kind_i]
        ref = _reference(kind, raw)
        try:
            y = getattr(type(x), dec)(raw)
            got = ["ok", bool(y == x and type(y) is type(x))]
        except Exception as ex:
            got = ["exc", exn_kind(ex)]
        # expectation from the argument alone
        if ref[0] == "exc":
            want = "exc"
        elif ref[1] == x._asdict():
            want = "same"          # e.g. cbor2 ignores trailing bytes: the record itself is intact
        else:
            want = "any"
        return {"codec": kind, "len": len(raw), "got": got, "want": want}

    import dataclasses

    def isdom(y):
        return dataclasses.is_dataclass(y) and not isinstance(y, type)

    def containers(y, acc):
        """ids of every mutable container / data object reachable from y"""
        if isinstance(y, (list, dict)) or isdom(y):
            acc.add(id(y))
        if isinstance(y, list):
            for z in y:
                containers(z, acc)
        elif isinstance(y, dict):
            for z in y.values():
                containers(z, acc)
        elif isdom(y):
            for f in dataclasses.fields(y):
                containers(getattr(y, f.name), acc)
        return acc

    def edit_in_place(y):
        """change the first list / dict / non-frozen data object found inside y; False when there is none"""
        todo = [y]
        while todo:
            z = todo.pop(0)
            if isinstance(z, list):
                z.append("edited"); return True
            if isinstance(z, dict):
                z["edited"] = 1; return True
            if isdom(z):
                if not z.__dataclass_params__.frozen:
                    setattr(z, dataclasses.fields(z)[0].name, "edited"); return True
                todo += [getattr(z, f.name) for f in dataclasses.fields(z)]
        return False

    def twice(ki, tree, form):
        enc, dec, kind = CODECS[ki]
        x = build(tree)
        raw = getattr(x, enc)()

        def arg():
            b = bytes(raw)
            return {"bytes": b, "bytearray": bytearray(b), "memoryview": memoryview(b), "str": b.decode()}[form]
        try:
            ref = _loads(kind, arg())
        except Exception:
            return {"codec": kind, "form": form, "skip": True}     # the library itself does not take this form
        out = {"codec": kind, "form": form, "skip": False}
        try:
            y1 = getattr(type(x), dec)(arg())
            y2 = getattr(type(x), dec)(arg())
            out["equal"] = bool(y1 == x and y2 == x and type(y1) is type(x) and type(y2) is type(x))
            out["distinct"] = y1 is not y2 and not (containers(y1, set()) & containers(y2, set()))
            out["edited"] = edit_in_place(y1)
            y3 = getattr(type(x), dec)(arg())
            out["third"] = bool(y3 == x and type(y3) is type(x))
        except Exception as ex:
            out["exc"] = exn_kind(ex) + ": " + str(ex)[:80]
        return out

    for st in steps:
        if st[0] == "rt":
            log.append({"rt": rt(st[1])})
            continue
        if st[0] == "twice":
            log.append({"twice": twice(st[1], st[2], st[3])})
            continue
        _, ki, tree, how, arg = st
        x = build(tree)
        raw = getattr(x, CODECS[ki][0])()
        if how == "trunc":
            log.append({"bad": bad(ki, x, raw[:max(0, min(arg, len(raw) - 1))])})
        elif how == "alltrunc":
            for k in range(len(raw)):
                log.append({"bad": bad(ki, x, raw[:k])})
                log.append({"rt": rt(tree)})
        elif how == "trail":
            log.append({"bad": bad(ki, x, raw + bytes(range(1, arg + 1)))})
        elif how == "double":
            log.append({"bad": bad(ki, x, raw + raw)})
        else:
            log.append({"bad": bad(ki, x, _dumps(CODECS[ki][2], [1, "a"] if arg == 0 else (7 if arg == 1 else "text")))})
    return log


def run_impl(case):
    seqlog = run_seq(case["seq"]) if case.get("seq") else None
    obs = _run_one(case)
    obs["seqlog"] = seqlog
    return obs


def _run_one(case):
    cs, first = (None, None)
    if case.get("early"):
        assert case["obj"][1] == 5, "history cases are Outer-shaped (class 5 holding class 4)"
        cs, first = history_classes(case["early"])
    x = build(case["obj"], cs)
    cls = type(x)
    pre = None
    if case.get("mut"):
        # first serialisation of the object as constructed, then the in-place change
        pre = {"asdict": tree_of(x._asdict()), "wire": [tree_of(_loads(kind, getattr(x, enc)())) for enc, _, kind in CODECS],
               "expect": _asdict_tree(tree_of(x))}
        apply_mutation(x, case["mut"])
    obs = {"asdict": tree_of(x._asdict(), cs), "wire": [], "back": [], "equal": [], "first": first, "pre": pre,
           "now": tree_of(x, cs), "expect": _asdict_tree(tree_of(x, cs))}
    for enc, dec, kind in CODECS:
        raw = getattr(x, enc)()
        obs["wire"].append(tree_of(_loads(kind, raw), cs))
        try:
            y = getattr(cls, dec)(raw)
            obs["back"].append(["ok", tree_of(y, cs)])
            obs["equal"].append(bool(y == x and type(y) is cls))
        except Exception as ex:
            obs["back"].append(["exc", exn_kind(ex)])
            obs["equal"].append(False)
    return obs


def oracle(case, obs):
    for n, e in enumerate(obs.get("seqlog") or []):
        if "twice" in e:
            t = e["twice"]
            if t["skip"]:
                continue
            if "exc" in t:
                return f"history step {n}: decoding a valid {t['codec']} record given as {t['form']} raised {t['exc']}"
            if not t["equal"]:
                return f"history step {n}: decoding the same {t['codec']} record twice ({t['form']}) did not give the object both times"
            if not t["distinct"]:
                return (f"history step {n}: two decodes of the same {t['codec']} record ({t['form']}) returned the same object "
                        f"or objects sharing a nested container")
            if not t["third"]:
                return (f"history step {n}: after an in-place change of an earlier result, decoding the same {t['codec']} "
                        f"record ({t['form']}) no longer gives the serialised object")
        elif "rt" in e:
            if e["rt"] != [True, True, True]:
                return f"history step {n}: a clean round trip between refused inputs failed: {e['rt']} (json, cbor, mgpk)"
        else:
            b = e["bad"]
            if b["want"] == "exc" and b["got"][0] != "exc":
                return (f"history step {n}: {b['codec']} input of {b['len']} bytes that a state-free decoder refuses was "
                        f"accepted by _from*: {b['got']}")
            if b["want"] == "same" and b["got"] != ["ok", True]:
                return (f"history step {n}: {b['codec']} input of {b['len']} bytes decodes to the record itself but _from* "
                        f"gave {b['got']}")
    if obs.get("first") and not all(obs["first"]):
        return f"early deserialisation of the outer class (before its nested class existed) went wrong: {obs['first']}"
    for phase, o in (("before the in-place change", obs.get("pre")), ("of the current object", obs)):
        if o is None:
            continue
        if o["asdict"] != o["expect"]:
            return f"_asdict() {phase} is not dictify of the object: {json.dumps(o['asdict'])[:200]} vs {json.dumps(o['expect'])[:200]}"
        for (enc, dec, kind), w in zip(CODECS, o["wire"]):
            if w != o["expect"]:
                return f"{enc}() {phase} does not encode the object ({kind}): {json.dumps(w)[:200]} vs {json.dumps(o['expect'])[:200]}"
    if not in_domain(obs["now"]):
        return None      # a dataclass-typed field holding something that is neither None nor such an instance
    for (enc, dec, kind), eq, back in zip(CODECS, obs["equal"], obs["back"]):
        if not eq:
            return (f"{dec}({enc}(x)) != x for {kind}" + (f" (history: early={case['early']})" if case.get("early") else "")
                    + f": got {json.dumps(back, ensure_ascii=True)[:300]}")
    return None


def classify(case, obs, why):
    if "is not dictify of the object" in why or "does not encode the object" in why:
        return None
    return "D31b" if misplaced(obs["now"]) else None


def nontrivial(case, obs):
    def walk(t):
        if t[0] == "o":
            return any(x[0] in ("o", "l", "d") or walk(x) for _, x in t[2])
        if t[0] == "s":
            return any(ord(ch) > 127 for ch in t[1])
        if t[0] == "i":
            return abs(t[1]) > 2**53
        if t[0] == "l":
            return any(walk(x) for x in t[1])
        if t[0] == "d":
            return any(walk(x) for _, x in t[1])
        return False
    return walk(case["obj"])


def shrink(case):
    if case.get("seq"):
        sq = case["seq"]
        for i in range(len(sq)):
            if len(sq) > 1:
                yield dict(case, seq=sq[:i] + sq[i + 1:])
        return
    if case.get("early") or case.get("mut"):
        return
    t = case["obj"]
    for i, (f, x) in enumerate(t[2]):
        if x != ["n"]:
            yield {"obj": ["o", t[1], t[2][:i] + [[f, ["n"]]] + t[2][i + 1:]]}
        if x[0] == "l" and len(x[1]) > 1:
            yield {"obj": ["o", t[1], t[2][:i] + [[f, ["l", x[1][:1]]]] + t[2][i + 1:]]}
        if x[0] == "o":
            for sub in shrink({"obj": x}):
                yield {"obj": ["o", t[1], t[2][:i] + [[f, sub["obj"]]] + t[2][i + 1:]]}


# ----------------------------------------------------------------------------- Gallina

def _str(s):
    return "(@nil N)" if not s else "[" + "; ".join(str(ord(c)) for c in s) + "]%N"


def _bits(h):
    return str(struct.unpack(">Q", struct.pack(">d", float.fromhex(h)))[0]) + "%N"


def _tree(t, D):
    """D = 'D' for Dom.dv constructors, 'V' for Dom.value constructors"""
    k = t[0]
    P = "Dom." + D
    if k == "n":
        return f"{P}Null"
    if k == "b":
        return f"({P}Bool {coq_bool(t[1])})"
    if k == "i":
        return f"({P}Int {coq_Z(t[1])})"
    if k == "f":
        return f"({P}Float {_bits(t[1])})"
    if k == "s":
        return f"({P}Str {_str(t[1])})"
    ty = "Dom.dv" if D == "D" else "Dom.value"
    if k == "l":
        return f"({P}List {coq_list([_tree(x, D) for x in t[1]], ty)})"
    if k == "d":
        return f"({P}Dict {coq_list([f'({_str(key)}, {_tree(x, D)})' for key, x in t[1]], 'Dom.str * ' + ty)})"
    assert D == "D"
    return f"(Dom.DDom {t[1]} {coq_list([f'({_str(f)}, {_tree(x, D)})' for f, x in t[2]], 'Dom.str * Dom.dv')})"


COQ_HEADER = ["Definition SCH : Dom.schema := %s." % coq_list(
    [coq_list([f"({_str(f)}, {'Dom.TOther' if ft is None else f'Dom.TDom {ft}'})" for f, ft in fs], "Dom.str * Dom.ftype")
     for _, fs in SCHEMA[:NCLS]], "list (Dom.str * Dom.ftype)")]


def to_coq(case, obs):
    return ("{| Dom.k_schema := SCH; Dom.k_class := %s; Dom.k_obj := %s; Dom.k_asdict := %s; Dom.k_wire := %s; "
            "Dom.k_back := %s; Dom.k_typed := %s |}" % (
                coq_nat(obs["now"][1]), _tree(obs["now"], "D"), _tree(obs["asdict"], "V"),
                coq_list([_tree(w, "V") for w in obs["wire"]], "Dom.value"),
                coq_list([coq_res(b, lambda t: _tree(t, "D")) for b in obs["back"]], "res Dom.dv"),
                coq_bool(in_domain(obs["now"]) and not misplaced(obs["now"]))))


def distribution(cases, obs):
    d = {"in domain": 0, "ill-typed dataclass field": 0, "object in Optional/list/Any field": 0,
         "postponed-annotation class": 0, "nested depth >= 2": 0}
    for c in cases:
        t = c["obj"]
        d["in domain"] += in_domain(t)
        d["ill-typed dataclass field"] += not in_domain(t)
        d["object in Optional/list/Any field"] += misplaced(t)
        d["postponed-annotation class"] += 4 <= t[1] < 8
        d["frozen class"] = d.get("frozen class", 0) + (t[1] in FROZEN)
        d["mutation history"] = d.get("mutation history", 0) + bool(c.get("mut"))
        d["early-call history"] = d.get("early-call history", 0) + bool(c.get("early"))
        d["refused-input history"] = d.get("refused-input history", 0) + bool(c.get("seq"))
        d["nested depth >= 2"] += any(x[0] == "o" and any(y[0] == "o" for _, y in x[2]) for _, x in t[2])
    return d
