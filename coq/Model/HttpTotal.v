(* C16 — exception behaviour of the HTTP service loops.
   Model of  hio.core.http.serving.Server.service / BareServer.service  on one
   connection and of  hio.core.http.clienting.Client.service , round by round
   (one round = one call of .service() after the bytes of that round arrived).

   Every function that can raise in the request / response parse path is a
   *site*: it returns [stage]/[res] carrying the exception kind it raises.
   The [except] clauses of the Python code are the places where a kind is
   turned into a value (HTTPExc -> errored, ValueErr -> HTTPExc, ...).
   A kind that no clause catches leaves the round as [Exc k] ("escapes
   service()").  No proofs here.

   Sites (function: kind raised / on what / caught by):
     line_lf, line_crlf   parseLine, parseLeader : HTTPExc LineTooLong / no terminator in 65537 bytes or line > 65536 / parseMessage
     leader_step          parseLeader            : HTTPExc / line without ': ', > 100 headers / parseMessage
     request_line         parseRequestLine       : HTTPExc / empty line, version not HTTP/, unknown method / parseMessage
                          Requestant.parseHead   : HTTPExc / version not HTTP/1. / parseMessage
     url_site             urlsplit, .port        : ValueErr / unbalanced or invalid IPv6 bracket, bad port, NFKC / except ValueError -> InvalidURL (HTTPExc)
     content_length       int()                  : ValueErr / not an integer / except ValueError -> List.length None
     chunk_size           parseChunk             : HTTPExc InvalidChunk / size not 1*HEXDIG / parseMessage
     chunk_end            parseChunk             : HTTPExc InvalidChunk / data not followed by CRLF / parseMessage
     body_kind            parseBody              : HTTPExc / neither chunked nor a List.length / parseMessage
     status_line          parseStatusLine        : HTTPExc BadStatusLine / empty, not HTTP/, status not int in 100..999 ; int() ValueErr caught inside
                          Respondent.parseHead   : HTTPExc UnknownProtocol, PrematureClosure / parseMessage
     dictify_site         Parsent.dictify        : ValueErr (incl. UnicodeDecodeError), RuntimeErr (RecursionError) / json.loads / except clause of dictify
     sse_site             EventSource.parse      : HTTPExc LineTooLong / event line over 65536 bytes / parseMessage   (UTF-8 decoding uses errors='replace': no raise)
     respond_site         Steward.respond        : RuntimeErr (RecursionError) / json.dumps of a reply nested too deep / except RecursionError -> data null
                          CustomResponder.build  : UnicodeErr / .encode('utf-8') of the dumped reply; cannot happen: ensure_ascii escapes every non-ASCII character, lone surrogates included
     redirect_site        Client.redirect        : HTTPExc InvalidURL / no Location, urlsplit ValueErr, bad port, unresolvable host / serviceResponse -> errored response
*)
From Hio Require Import Base.Prelude Model.HttpReqUrl.
From Coq Require Import String.
Local Open Scope N_scope.

Definition blen (b : bytes) : N := N.of_nat (List.length b).
Definition MAXL : N := 65536.
Definition MAXH : N := 100.

Inductive stage (A : Type) : Type :=
| Need
| Fail (k : exn) (rest : bytes)           (* rest: what the raising site left in the buffer *)
| Got (a : A) (rest : bytes).
Arguments Need {A}. Arguments Fail {A} k rest. Arguments Got {A} a rest.

(* ---------- lines (httping.findEol / parseLine) ---------- *)
Fixpoint take_lf (b : bytes) : option (bytes * bytes) :=
  match b with
  | [] => None
  | x :: r => if N.eqb x 10 then Some ([], r)
              else match take_lf r with
                   | Some (l, rest) => Some (x :: l, rest)
                   | None => None
                   end
  end.

Fixpoint take_crlf (b : bytes) : option (bytes * bytes) :=
  match b with
  | [] => None
  | x :: r =>
    match r with
    | y :: r' => if N.eqb x 13 && N.eqb y 10 then Some ([], r')
                 else match take_crlf r with
                      | Some (l, rest) => Some (x :: l, rest)
                      | None => None
                      end
    | [] => None
    end
  end.

Definition strip_cr (l : bytes) : bytes :=
  match frev l with
  | x :: r => if N.eqb x 13 then frev r else l
  | [] => l
  end.

(* eols = (CRLF, LF): earliest terminator, CRLF preferred at the same place *)
Definition line_lf (b : bytes) : stage bytes :=
  match take_lf b with
  | None => if MAXL + 1 <? blen b then Fail HTTPExc b else Need
  | Some (l0, rest) => let l := strip_cr l0 in
                       if MAXL <? blen l then Fail HTTPExc b else Got l rest
  end.

(* eols = (CRLF,) *)
Definition line_crlf (b : bytes) : stage bytes :=
  match take_crlf b with
  | None => if MAXL + 1 <? blen b then Fail HTTPExc b else Need
  | Some (l, rest) => if MAXL <? blen l then Fail HTTPExc b else Got l rest
  end.

(* ---------- headers (CIMultiDict with __setitem__ only) ---------- *)
Definition hdrs := list (ustr * ustr).

Fixpoint hset (h : hdrs) (k v : ustr) : hdrs :=
  match h with
  | [] => [(k, v)]
  | (k', v') :: h' => if ustr_eqb (lower k') (lower k) then (k, v) :: h'
                      else (k', v') :: hset h' k v
  end.

Fixpoint hget (h : hdrs) (lk : ustr) : option ustr :=   (* lk already lower case *)
  match h with
  | [] => None
  | (k, v) :: h' => if ustr_eqb (lower k) lk then Some v else hget h' lk
  end.

Definition hget_str (h : hdrs) (lk : string) : ustr :=  (* .get(k) or '' : both falsy *)
  match hget h (str lk) with Some v => v | None => [] end.

(* one line of parseLeader: inl = more lines, inr = leader complete *)
Definition leader_step (h : hdrs) (b : bytes) : stage (hdrs + hdrs) :=
  match line_lf b with
  | Need => Need
  | Fail k r => Fail k r
  | Got l rest =>
    match l with
    | [] => Got (inr h) rest
    | _ => let '(k, f, v) := partition2 58 32 l in
           if negb f then Fail HTTPExc rest                 (* fixed D15: was ValueErr *)
           else let h' := hset h k v in
                if MAXH <? N.of_nat (List.length h') then Fail HTTPExc rest else Got (inl h') rest
    end
  end.

(* ---------- chunked coding (httping.parseChunk) ---------- *)
Inductive cst := CSize | CData (n : positive) | CEnd (chunk : bytes) | CTrail (h : hdrs).

Fixpoint hex_val (s : bytes) (acc : N) : N :=
  match s with [] => acc | c :: r => hex_val r (acc * 16 + hexval c) end.

Definition chunk_size (l : bytes) : res N :=
  let '(sz, _, _) := partition1 59 l in
  let sz' := strip_with (fun c => N.eqb c 32 || N.eqb c 9) sz in
  match sz' with
  | [] => Exc HTTPExc
  | _ => if forallb is_hex sz' then Ok (hex_val sz' 0) else Exc HTTPExc
  end.

(* inl = in progress (state), inr = body complete *)
Definition chunk_step (c : cst) (body : bytes) (b : bytes) : stage (cst * bytes + bytes) :=
  match c with
  | CSize =>
    match line_crlf b with
    | Need => Need | Fail k r => Fail k r
    | Got l rest =>
      match chunk_size l with
      | Exc k => Fail k rest
      | Ok 0 => Got (inl (CTrail [], body)) rest
      | Ok (N.pos n) => Got (inl (CData n, body)) rest
      end
    end
  | CData n =>
    if blen b <? N.pos n then Need
    else Got (inl (CEnd (firstn (Pos.to_nat n) b), body)) (skipn (Pos.to_nat n) b)
  | CEnd ch =>      (* the chunk joins the body only once its terminating CRLF is seen *)
    match line_crlf b with
    | Need => Need | Fail k r => Fail k r
    | Got l rest => match l with [] => Got (inl (CSize, body ++ ch)) rest | _ => Fail HTTPExc rest end
    end
  | CTrail h =>
    match leader_step h b with
    | Need => Need | Fail k r => Fail k r
    | Got (inl h') rest => Got (inl (CTrail h', body)) rest
    | Got (inr _) rest => Got (inr body) rest
    end
  end.

(* ---------- head interpretation shared by request and response ---------- *)
Definition is_chunked (h : hdrs) : bool :=
  ustr_eqb (lower (strip_with is_uspace (hget_str h "transfer-encoding"))) (str "chunked").

(* int(Content-Length) under `except ValueError`: None when not a
   non-negative integer *)
Definition content_length (v : ustr) : option N :=
  match py_int v with
  | Some z => if (z <? 0)%Z then None else Some (Z.to_N z)
  | None => None                                            (* ValueErr caught *)
  end.

Definition media_type (h : hdrs) : ustr :=
  let ct := hget_str h "content-type" in
  if mem_n 59 ct then fst (fst (rpartition1 59 ct)) else ct.
Definition is_json (h : hdrs) : bool := contains (str "application/json") (lower (media_type h)).
Definition is_sse (h : hdrs) : bool := contains (str "text/event-stream") (lower (media_type h)).

(* ============================ server ============================ *)
Definition METHODS : list ustr :=
  map str ["GET"; "HEAD"; "PUT"; "PATCH"; "POST"; "DELETE"; "OPTIONS"; "TRACE"; "CONNECT"]%string.

Definition catch_value_as_http {A} (r : res A) : res A :=
  match r with Exc ValueErr => Exc HTTPExc | _ => r end.

(* urlsplit + .port under `except ValueError: raise InvalidURL` (fixed D18) *)
Definition url_site (o : url_oracle) (u : ustr) : res (split * option N) :=
  catch_value_as_http
    (bind (urlsplit o u) (fun s => bind (url_port (u_netloc s)) (fun p => Ok (s, p)))).

(* parseRequestLine + the version and url handling of Requestant.parseHead:
   (method, version is 1.0) *)
Definition request_line (o : url_oracle) (l : bytes) : res (ustr * bool * split) :=
  match l with
  | [] => Exc HTTPExc
  | _ =>
    let toks := split_ws l in
    let m := nth 0 toks [] in
    let u := nth 1 toks [] in
    let v := nth 2 toks [] in
    if negb (starts_with (str "HTTP/") v) then Exc HTTPExc
    else if negb (existsb (ustr_eqb m) METHODS) then Exc HTTPExc
    else if negb (starts_with (str "HTTP/1.") v) then Exc HTTPExc
    else bind (url_site o u) (fun sp => Ok (m, starts_with (str "HTTP/1.0") v, fst sp))
  end.

Record rinfo := { ri_method : ustr; ri_v10 : bool; ri_persist : bool; ri_json : bool;
                  ri_ctype : bool;            (* a non-empty Content-Type was given *)
                  ri_url : split; ri_hdrs : hdrs }.

Definition req_length (h : hdrs) : option N :=
  if is_chunked h then None
  else match hget_str h "content-length" with
       | [] => Some 0
       | v => content_length v
       end.

Definition req_persist (v10 : bool) (h : hdrs) : bool :=
  let conn := lower (hget_str h "connection") in
  if v10 then contains (str "keep-alive") conn
  else if contains (str "close") conn then false
  else if negb (is_chunked h) && match req_length h with None => true | _ => false end then false
  else true.

Inductive pst :=
| PLine
| PHead (m : ustr) (v10 : bool) (u : split) (h : hdrs)
| PLen (ri : rinfo) (n : N)
| PChunk (ri : rinfo) (c : cst) (body : bytes).

Inductive pres :=
| PNeed (s : pst) (b : bytes)
| PFail (k : exn)
| PDone (ri : rinfo) (body : bytes) (b : bytes)
| POut.                                   (* fuel exhausted: never reached *)

(* one call of Requestant.parse(): run the generator to its next yield *)
Fixpoint req_run (fuel : nat) (o : url_oracle) (s : pst) (b : bytes) : pres :=
  match fuel with
  | O => POut
  | S fuel' =>
    match s with
    | PLine =>
      match line_lf b with
      | Need => PNeed s b
      | Fail k _ => PFail k
      | Got l rest =>
        match request_line o l with
        | Exc k => PFail k
        | Ok (m, v10, u) => req_run fuel' o (PHead m v10 u []) rest
        end
      end
    | PHead m v10 u h =>
      match leader_step h b with
      | Need => PNeed s b
      | Fail k _ => PFail k
      | Got (inl h') rest => req_run fuel' o (PHead m v10 u h') rest
      | Got (inr h') rest =>
        let ri := {| ri_method := m; ri_v10 := v10; ri_persist := req_persist v10 h';
                     ri_json := is_json h';
                     ri_ctype := negb (match hget_str h' "content-type" with [] => true | _ => false end);
                     ri_url := u; ri_hdrs := h' |} in
        if is_chunked h' then req_run fuel' o (PChunk ri CSize []) rest
        else match req_length h' with
             | Some n => req_run fuel' o (PLen ri n) rest
             | None => PFail HTTPExc                         (* Invalid body *)
             end
      end
    | PLen ri n =>
      if blen b <? n then PNeed s b
      else PDone ri (firstn (N.to_nat n) b) (skipn (N.to_nat n) b)
    | PChunk ri c body =>
      match chunk_step c body b with
      | Need => PNeed s b
      | Fail k _ => PFail k
      | Got (inl (c', body')) rest => req_run fuel' o (PChunk ri c' body') rest
      | Got (inr body') rest => PDone ri body' rest
      end
    end
  end.

Definition req_parse (o : url_oracle) (s : pst) (b : bytes) : pres :=
  req_run (4 + List.length b) o s b.

(* json.loads is external: what it does on the body is an input *)
Inductive jres := JOk | JValue | JRecursion.
Definition json_site (j : jres) : res unit :=
  match j with JOk => Ok tt | JValue => Exc ValueErr | JRecursion => Exc RuntimeErr end.
(* Parsent.dictify: `except (ValueError, RecursionError)` (fixed: was ValueError only) *)
Definition dictify_site (needed : bool) (j : jres) : res unit :=
  if needed then
    match json_site j with
    | Exc ValueErr => Ok tt
    | Exc RuntimeErr => Ok tt
    | r => r
    end
  else Ok tt.

(* ---------- the reply of the bare server (Steward.respond + CustomResponder.build) ----------
   The request is echoed as JSON.  What json.loads made of the body is external and comes as a
   value [jv]; strings are code point lists and may hold lone surrogates (json.loads accepts
   the escape \ud83d), NUL and non-BMP characters. *)
Inductive jv :=
| JNull | JBool (b : bool)
| JNum (repr : ustr)                       (* json.dumps of the int / float, external, ASCII *)
| JStr (s : ustr)
| JArr (l : list jv)
| JObj (l : list (ustr * jv)).

Definition hexl (v : N) : N := if v <? 10 then 48 + v else 87 + v.   (* lower case *)
Definition uesc (c : N) : ustr :=
  [92; 117; hexl ((c / 4096) mod 16); hexl ((c / 256) mod 16); hexl ((c / 16) mod 16); hexl (c mod 16)].

(* json.encoder: ESCAPE_ASCII (ensure_ascii=True) / ESCAPE (False) on one character *)
Definition jesc1 (ascii : bool) (c : N) : ustr :=
  if N.eqb c 34 then [92; 34] else if N.eqb c 92 then [92; 92]
  else if N.eqb c 10 then [92; 110] else if N.eqb c 13 then [92; 114] else if N.eqb c 9 then [92; 116]
  else if N.eqb c 8 then [92; 98] else if N.eqb c 12 then [92; 102]
  else if c <? 32 then uesc c
  else if ascii && (126 <? c) then
    (if c <? 65536 then uesc c
     else uesc (55296 + ((c - 65536) / 1024) mod 1024) ++ uesc (56320 + (c - 65536) mod 1024))
  else [c].
Definition jstr (ascii : bool) (s : ustr) : ustr := 34 :: flat_map (jesc1 ascii) s ++ [34].

Fixpoint sepcat (l : list ustr) : ustr :=
  match l with
  | [] => []
  | [x] => x
  | x :: r => x ++ 44 :: sepcat r
  end.

Definition ascii_only (s : ustr) : ustr := map (fun c => if c <? 128 then c else 63) s.

(* json.dumps(v, separators=(',', ':'), ensure_ascii=ascii) *)
Fixpoint dumps (ascii : bool) (v : jv) : ustr :=
  match v with
  | JNull => str "null"
  | JBool true => str "true"
  | JBool false => str "false"
  | JNum r => ascii_only r
  | JStr s => jstr ascii s
  | JArr l => 91 :: sepcat (map (dumps ascii) l) ++ [93]
  | JObj l => 123 :: sepcat (map (fun kv => jstr ascii (fst kv) ++ 58 :: dumps ascii (snd kv)) l) ++ [125]
  end.

(* str.encode('utf-8'), strict: a surrogate raises UnicodeEncodeError *)
Definition is_surrogate (c : N) : bool := (55296 <=? c) && (c <=? 57343).
Definition encode_strict (s : ustr) : res bytes :=
  if existsb is_surrogate s then Exc UnicodeErr else Ok (utf8_enc s).

(* httping.updateQargsQuery(dict(), query) -> the dict *)
Fixpoint dset (d : list (ustr * ustr)) (k v : ustr) : list (ustr * ustr) :=
  match d with
  | [] => [(k, v)]
  | (k', v') :: d' => if ustr_eqb k' k then (k', v) :: d' else (k', v') :: dset d' k v
  end.
Fixpoint split_at (c : N) (s : ustr) (cur : ustr) : list ustr :=
  match s with
  | [] => [frev cur]
  | x :: r => if N.eqb x c then frev cur :: split_at c r [] else split_at c r (x :: cur)
  end.
Definition qargs_of (query : ustr) : list (ustr * ustr) :=
  let parts := if mem_n 59 query then split_at 59 query []
               else if mem_n 38 query then split_at 38 query [] else [query] in
  fold_left (fun d part =>
               match part with
               | [] => d
               | _ => let '(k, f, v) := partition1 61 part in
                      if f then dset d (unquote_plus k) (unquote_plus v)
                      else dset d (unquote_plus part) (str "true")
               end) parts [].

(* the dict Steward.respond builds *)
Definition echo_jv (ri : rinfo) (body : bytes) (data : jv) : jv :=
  JObj [ (str "version", JStr (if ri_v10 ri then str "HTTP/1.0" else str "HTTP/1.1"));
         (str "method", JStr (ri_method ri));
         (str "path", JStr (unquote (u_path (ri_url ri))));
         (str "qargs", JObj (map (fun kv => (fst kv, JStr (snd kv))) (qargs_of (u_query (ri_url ri)))));
         (str "fragment", JStr (u_fragment (ri_url ri)));
         (str "headers", JArr (map (fun kv => JArr [JStr (fst kv); JStr (snd kv)]) (ri_hdrs ri)));
         (str "body", JStr (utf8_dec body));                 (* decode('utf-8', errors='replace') *)
         (str "data", data) ].

(* CustomResponder.build: json.dumps (RecursionError when the value is nested too deep for the
   interpreter: external, [rec_hit]) then .encode('utf-8').  [ascii] is json.dumps' ensure_ascii:
   True in the code. *)
Definition build_reply (ascii rec_hit : bool) (v : jv) : res bytes :=
  if rec_hit then Exc RuntimeErr else encode_strict (dumps ascii v).

(* Steward.respond: `except RecursionError` -> reply again with data null *)
Definition respond_site (rec_hit : bool) (ri : rinfo) (body : bytes) (data : jv) : res bytes :=
  match build_reply true rec_hit (echo_jv ri body data) with
  | Exc RuntimeErr => build_reply true false (echo_jv ri body JNull)
  | r => r
  end.

(* the external json.loads as a finite table body -> outcome (default: parses to null) *)
Record jent := { je_res : jres;
                 je_val : jv;          (* the parsed value when je_res = JOk *)
                 je_deep : bool;       (* parsed, but too deeply nested to be transcribed: reply not compared *)
                 je_rec : bool }.      (* json.dumps of the reply hit the recursion limit *)
Definition jent0 : jent := {| je_res := JOk; je_val := JNull; je_deep := false; je_rec := false |}.
Definition jmap := list (bytes * jent).
Fixpoint jent_of (js : jmap) (body : bytes) : jent :=
  match js with
  | [] => jent0
  | (b, j) :: js' => if bytes_eqb b body then j else jent_of js' body
  end.
Definition json_of (js : jmap) (body : bytes) : jres := je_res (jent_of js body).

Inductive skind := Wsgi | Bare.

Record served := { sv_method : ustr; sv_v10 : bool; sv_body : bytes;
                   sv_reply : option bytes }.   (* bare: body of the reply, when modelled *)

Record conn := { c_buf : bytes;
                 c_pst : option pst;        (* None: requestant.parser is None *)
                 c_cutoff : bool;
                 c_closed : bool;
                 c_closing : bool;          (* wsgi: answered, not persistent, waiting for txbs to drain *)
                 c_served : list served;
                 c_jsoned : bool;           (* requestant.jsoned: only reassigned when a Content-Type is given *)
                 c_data : jent;             (* requestant.data (jent0 = None): only reassigned by dictify when jsoned *)
                 c_json : jmap }.           (* what json.loads does on each body (bare) *)

Definition conn0 (js : jmap) : conn :=
  {| c_buf := []; c_pst := Some PLine; c_cutoff := false; c_closed := false;
     c_closing := false; c_served := []; c_jsoned := false; c_data := jent0; c_json := js |}.

Definition close (c : conn) : conn :=
  {| c_buf := c_buf c; c_pst := None; c_cutoff := c_cutoff c; c_closed := true;
     c_closing := false; c_served := c_served c; c_jsoned := c_jsoned c; c_data := c_data c; c_json := c_json c |}.

(* the bytes of one round: data then optionally end of stream *)
Record rnd := { r_data : bytes; r_eof : bool }.

(* One call of Server.service() / BareServer.service() seen from one
   connection.  [Exc k]: exception k leaves service(). *)
Definition server_round (kind : skind) (o : url_oracle) (c : conn) (r : rnd) : res conn :=
  if c_closed c then Ok c else
  (* serviceConnects: the WSGI server drops a connection cut off by the peer *)
  if match kind with Wsgi => c_cutoff c | Bare => false end then Ok (close c) else
  (* serviceReceivesAllIx *)
  let buf := c_buf c ++ r_data r in
  let cut := c_cutoff c || r_eof r in
  let c1 := {| c_buf := buf; c_pst := c_pst c; c_cutoff := cut; c_closed := false;
               c_closing := c_closing c; c_served := c_served c; c_jsoned := c_jsoned c; c_data := c_data c; c_json := c_json c |} in
  match c_pst c with
  | None =>
    (* nothing to parse; serviceReps: a drained non persistent connection is closed *)
    if c_closing c then Ok (close c1) else Ok c1
  | Some s =>
    match req_parse o s buf with
    | POut => Exc OtherErr
    | PNeed s' b' =>
      Ok {| c_buf := b'; c_pst := Some s'; c_cutoff := cut; c_closed := false;
            c_closing := false; c_served := c_served c; c_jsoned := c_jsoned c; c_data := c_data c; c_json := c_json c |}
    | PFail HTTPExc => Ok (close c1)          (* parseMessage: errored; the server closes the connection *)
    | PFail k => Exc k                        (* nothing catches it *)
    | PDone ri body b' =>
      let sv := {| sv_method := ri_method ri; sv_v10 := ri_v10 ri; sv_body := body; sv_reply := None |} in
      match kind with
      | Wsgi =>
        (* responder runs the app and ends in the same round; persistent: new parser;
           else close once the response left (next round) *)
        Ok {| c_buf := b'; c_pst := if ri_persist ri then Some PLine else None;
              c_cutoff := cut; c_closed := false; c_closing := negb (ri_persist ri);
              c_served := c_served c ++ [sv]; c_jsoned := c_jsoned c; c_data := c_data c;
              c_json := c_json c |}
      | Bare =>
        let jsoned := if ri_ctype ri then ri_json ri else c_jsoned c in
        let ent := jent_of (c_json c) body in
        match dictify_site jsoned (je_res ent) with
        | Exc k => Exc k
        | Ok _ =>
          let data := if jsoned then match je_res ent with JOk => ent | _ => jent0 end else c_data c in
          match respond_site (je_rec data) ri body (je_val data) with
          | Exc k => Exc k
          | Ok reply =>
            let sv' := {| sv_method := ri_method ri; sv_v10 := ri_v10 ri; sv_body := body;
                          sv_reply := if je_deep data then None else Some reply |} in
            let c2 := {| c_buf := b'; c_pst := if ri_persist ri then Some PLine else None;
                         c_cutoff := cut; c_closed := false; c_closing := false;
                         c_served := c_served c ++ [sv']; c_jsoned := jsoned; c_data := data;
                         c_json := c_json c |} in
            if ri_persist ri then Ok c2 else Ok (close c2)
          end
        end
      end
    end
  end.

Fixpoint server_run (kind : skind) (o : url_oracle) (c : conn) (rs : list rnd) : res conn :=
  match rs with
  | [] => Ok c
  | r :: rs' => match server_round kind o c r with
                | Exc k => Exc k
                | Ok c' => server_run kind o c' rs'
                end
  end.

(* ============================ client ============================ *)
(* parseStatusLine: (version token, status); int() ValueError caught inside *)
Definition status_line (l : bytes) : res (ustr * N) :=
  match l with
  | [] => Exc HTTPExc
  | _ =>
    let toks := split_ws l in
    let v := nth 0 toks [] in
    let st := nth 1 toks [] in
    if negb (starts_with (str "HTTP/") v) then Exc HTTPExc
    else match py_int st with
         | None => Exc HTTPExc                               (* ValueErr -> BadStatusLine *)
         | Some z => if ((z <? 100) || (999 <? z))%Z then Exc HTTPExc
                     else Ok (v, Z.to_N z)
         end
  end.

(* Respondent.parseHead after the status line: UnknownProtocol unless 1.x / 0.9 *)
Definition version_ok (v : ustr) : bool :=
  ustr_eqb v (str "HTTP/1.0") || ustr_eqb v (str "HTTP/0.9") || starts_with (str "HTTP/1.") v.

Inductive cmethod := MGet | MHead | MPost.

(* what the respondent knows once the head is parsed *)
Record pinfo := { pi_status : N; pi_json : bool; pi_ctype : bool; pi_sse : bool;
                  pi_dead : bool;    (* the EventSource in use has a finished parser (it raised LineTooLong before) *)
                  pi_redirect : bool; pi_location : ustr }.
Definition pinfo0 (dead : bool) (status : N) : pinfo :=
  {| pi_status := status; pi_json := false; pi_ctype := false; pi_sse := false; pi_dead := dead;
     pi_redirect := false; pi_location := [] |}.

Definition resp_length (status : N) (m : cmethod) (h : hdrs) : option N :=
  if N.eqb status 204 || N.eqb status 304 || ((100 <=? status) && (status <? 200))
     || match m with MHead => true | _ => false end
  then Some 0
  else if is_chunked h then None
  else match hget_str h "content-length" with
       | [] => None
       | v => content_length v
       end.

Definition is_redirect (status : N) : bool := mem_n status [300; 301; 302; 303; 307].

Inductive qst :=
| QStart (fresh : bool)                      (* parseMessage waiting for a non-empty msg *)
| QLine
| QCont (h : hdrs)                           (* leader of a 100 Continue, discarded *)
| QHead (status : N) (h : hdrs)
| QLen (pi : pinfo) (n : N)
| QChunk (pi : pinfo) (c : cst) (body : bytes)
| QClose (pi : pinfo) (body : bytes).        (* body runs until the connection closes *)

(* EventSource.parse: decoding uses errors='replace'; the only raise left is
   parseLine's LineTooLong, external here ([long]) *)
(* an event line longer than the limit among the event bytes received so far: a terminated line
   of more than 65536 bytes, or more than 65537 bytes without a terminator (CR or LF) *)
Fixpoint seg_long (b : bytes) (cur : N) : bool :=
  match b with
  | [] => MAXL + 1 <? cur
  | x :: r => if N.eqb x 10 || N.eqb x 13 then (MAXL <? cur) || seg_long r 0 else seg_long r (cur + 1)
  end.
Definition sse_too_long (body : bytes) : bool := seg_long body 0.
(* EventSource.parse: LineTooLong once; the parser is then finished and later calls do nothing *)
Definition sse_site (dead : bool) (body : bytes) : res unit :=
  if negb dead && sse_too_long body then Exc HTTPExc else Ok tt.

Inductive qres :=
| QNeed (s : qst) (body : bytes) (b : bytes)
| QFail (k : exn) (pi : pinfo) (body : bytes) (b : bytes)   (* pi/body as the respondent holds them *)
| QDone (pi : pinfo) (body : bytes) (b : bytes)
| QOut.

Definition is_nil {A} (l : list A) : bool := match l with [] => true | _ => false end.

(* One call of Respondent.parse().  [closed]: respondent.closed; [chk]: the
   next thing the generator does is the `closed and not msg` test in front of
   a next() on a sub-generator; [sevt]: .evented left by the previous response *)
Fixpoint resp_run (fuel : nat) (m : cmethod) (closed sdead sevt : bool) (chk : bool)
         (s : qst) (status0 : N) (body0 : bytes) (b : bytes) : qres :=
  match fuel with
  | O => QOut
  | S fuel' =>
    let premature := chk && closed && is_nil b in
    let run := resp_run fuel' m closed sdead sevt in
    match s with
    | QStart _ =>
      match b with
      | [] => QNeed (QStart false) body0 b
      | _ => (* parseMessage: a closure seen while waiting for the message to start is forgotten *)
             resp_run fuel' m false sdead sevt true QLine status0 body0 b
      end
    | QLine =>
      if premature then QFail HTTPExc (pinfo0 sdead status0) body0 b else
      match line_lf b with
      | Need => QNeed s body0 b
      | Fail k r => QFail k (pinfo0 sdead status0) body0 r
      | Got l rest =>
        match status_line l with
        | Exc k => QFail k (pinfo0 sdead status0) body0 rest
        | Ok (v, st) =>
          if N.eqb st 100 then run true (QCont []) status0 body0 rest
          else if negb (version_ok v) then QFail HTTPExc (pinfo0 sdead st) body0 rest
          else run true (QHead st []) st body0 rest
        end
      end
    | QCont h =>
      if premature then QFail HTTPExc (pinfo0 sdead status0) body0 b else
      match leader_step h b with
      | Need => QNeed s body0 b
      | Fail k r => QFail k (pinfo0 sdead status0) body0 r
      | Got (inl h') rest => run false (QCont h') status0 body0 rest
      | Got (inr _) rest => run true QLine status0 body0 rest
      end
    | QHead st h =>
      if premature then QFail HTTPExc (pinfo0 sdead st) body0 b else
      match leader_step h b with
      | Need => QNeed s body0 b
      | Fail k r => QFail k (pinfo0 sdead st) body0 r
      | Got (inl h') rest => run false (QHead st h') st body0 rest
      | Got (inr h') rest =>
        let ct := negb (is_nil (hget_str h' "content-type")) in
        let pi := {| pi_status := st; pi_json := is_json h'; pi_ctype := ct;
                     pi_sse := if ct then is_sse h' else sevt;
                     pi_dead := if ct && is_sse h' then false else sdead;   (* a new EventSource per event-stream head *)
                     pi_redirect := is_redirect st; pi_location := hget_str h' "location" |} in
        (* parseBody: chunked takes precedence even over the forced length 0 *)
        if is_chunked h' then run true (QChunk pi CSize []) st [] rest
        else match resp_length st m h' with
             | Some n => run true (QLen pi n) st [] rest
             | None => run true (QClose pi []) st [] rest
             end
      end
    | QLen pi n =>
      if blen b <? n then
        (if closed && is_nil b then QFail HTTPExc pi body0 b else QNeed s body0 b)
      else QDone pi (firstn (N.to_nat n) b) (skipn (N.to_nat n) b)
    | QChunk pi c body =>
      if premature then QFail HTTPExc pi body b else
      match chunk_step c body b with
      | Need => QNeed s body b
      | Fail k r => QFail k pi body r
      | Got (inl (c', body')) rest =>
        (* after a data chunk: events are parsed, and a closed drained stream ends the body *)
        match c, c' with
        | CEnd _, CSize =>
          match (if pi_sse pi then sse_site (pi_dead pi) body' else Ok tt) with
          | Exc k => QFail k pi body' rest
          | Ok _ =>
            if closed && is_nil rest then QDone pi body' rest
            else run true (QChunk pi c' body') (pi_status pi) body' rest
          end
        | _, _ => run false (QChunk pi c' body') (pi_status pi) body' rest
        end
      | Got (inr body') rest => QDone pi body' rest
      end
    | QClose pi body =>
      let body' := body ++ b in
      match (if pi_sse pi then sse_site (pi_dead pi) body' else Ok tt) with
      | Exc k => QFail k pi body' []
      | Ok _ => if closed then QDone pi body' [] else QNeed (QClose pi body') body' []
      end
    end
  end.

(* Client.redirect up to the point where it starts changing things:
   Ok = follow on this connection, Exc HTTPExc = refused (InvalidURL) *)
Definition rfind (c : N) (s : ustr) : option nat :=     (* index of last occurrence *)
  let '(a, f, _) := partition1 c (frev s) in
  if f then Some (List.length s - 1 - List.length a)%nat else None.

Definition unbracket (h : ustr) : ustr :=
  match h with
  | 91 :: _ => match frev h with 93 :: _ => removelast (tl h) | _ => h end
  | _ => h
  end.

(* httping.normalizeHostPort(host, port): host part; int(port) ValueError -> InvalidURL *)
Definition norm_host_port (host : ustr) : res ustr :=
  let i := rfind 58 host in
  let j := rfind 93 host in
  let colon_last := match i, j with
                    | Some a, Some b => Nat.ltb b a
                    | Some _, None => true
                    | None, _ => false
                    end in
  if colon_last then
    let a := match i with Some a => a | None => 0%nat end in
    let p := skipn (S a) host in
    let h := unbracket (firstn a host) in
    match p with
    | [] => Ok h
    | _ => match py_int p with Some _ => Ok h | None => Exc HTTPExc end
    end
  else Ok (unbracket host).

Record net_oracle := { resolves : ustr -> bool }.   (* coring.normalizeHost raises neither OSError nor UnicodeError (IDNA) *)

Definition redirect_site (o : url_oracle) (n : net_oracle) (location : ustr) : res unit :=
  match location with
  | [] => Exc HTTPExc
  | _ =>
    let '(p, sep, q) := partition1 63 location in
    let loc := if sep then unquote p ++ 63 :: q else unquote p in
    match catch_value_as_http
            (bind (urlsplit o loc) (fun s => bind (url_port (u_netloc s)) (fun pt => Ok s))) with
    | Exc k => Exc k
    | Ok s =>
      (* Requester.build splits the path again: refused when that yields a scheme or a host *)
      match urlsplit o (u_path s) with
      | Exc _ => Exc HTTPExc
      | Ok s2 =>
      if negb (is_nil (u_scheme s2)) || negb (is_nil (u_netloc s2)) then Exc HTTPExc else
      let host := url_hostname (u_netloc s) in
      match host with
      | [] => Ok tt                                         (* relative: same connection *)
      | _ => match norm_host_port host with
             | Exc k => Exc k
             | Ok h => if resolves n h then Ok tt else Exc HTTPExc   (* OSErr -> InvalidURL *)
             end
      end
      end
    end
  end.

Record response := { rp_status : N; rp_errored : bool; rp_body : bytes; rp_redirects : N }.

Record client := { k_buf : bytes; k_pst : qst; k_waited : bool; k_queued : N;
                   k_cutoff : bool; k_closed : bool; k_status : N; k_body : bytes;
                   k_evented : bool; k_sse_dead : bool; k_nredir : N; k_responses : list response;
                   k_method : cmethod }.   (* respondent.method, set by respondent.reinit(method=requester.method) at every transmit *)

Record cconf := { cf_method : cmethod; cf_redirectable : bool; cf_dictable : bool;
                  cf_json : jmap }.

Definition client0 (nreq : N) : client :=
  {| k_buf := []; k_pst := QStart true; k_waited := false; k_queued := nreq;
     k_cutoff := false; k_closed := false; k_status := 0; k_body := [];
     k_evented := false; k_sse_dead := false; k_nredir := 0; k_responses := []; k_method := MGet |}.

(* the response has ended (parsed or errored): Client.serviceResponse after parse() *)
Definition client_ended (cf : cconf) (o : url_oracle) (n : net_oracle) (k : client)
           (queued : N) (errored : bool) (pi : pinfo) (body buf : bytes) (cut closed dead : bool)
  : res client :=
  match dictify_site (pi_json pi || cf_dictable cf) (json_of (cf_json cf) body) with
  | Exc e => Exc e
  | Ok _ =>
    if pi_sse pi then   (* evented: no response entry, still waited *)
      Ok {| k_buf := buf; k_pst := QStart true; k_waited := true; k_queued := queued;
            k_cutoff := cut; k_closed := closed; k_status := pi_status pi; k_body := body;
            k_evented := true; k_sse_dead := dead; k_nredir := k_nredir k; k_responses := k_responses k; k_method := k_method k |}
    else
      let deliver (err : bool) :=
        Ok {| k_buf := buf; k_pst := QStart true; k_waited := false; k_queued := queued;
              k_cutoff := cut; k_closed := closed; k_status := pi_status pi; k_body := body;
              k_evented := false; k_sse_dead := dead; k_nredir := 0;
              k_responses := k_responses k ++
                [{| rp_status := pi_status pi; rp_errored := err; rp_body := body;
                    rp_redirects := k_nredir k |}]; k_method := k_method k |} in
      if cf_redirectable cf && pi_redirect pi then
        match redirect_site o n (pi_location pi) with
        | Exc HTTPExc => deliver true                       (* refused: final errored response *)
        | Exc e => Exc e
        | Ok _ =>   (* followed: request retransmitted, respondent.reinit() clears status, evented *)
          Ok {| k_buf := buf; k_pst := QStart true; k_waited := true; k_queued := queued;
                k_cutoff := cut; k_closed := closed; k_status := 0; k_body := body;
                k_evented := false; k_sse_dead := dead; k_nredir := k_nredir k + 1; k_responses := k_responses k;
                k_method := cf_method cf |}   (* redirect() re-sends with the redirected request's method *)
        end
      else deliver errored
  end.

(* One call of Client.service() *)
Definition client_round (cf : cconf) (o : url_oracle) (n : net_oracle) (k : client) (r : rnd)
  : res client :=
  (* cutoff seen in an earlier round: respondent.close() *)
  let closed := k_closed k || k_cutoff k in
  (* serviceRequests: transmit the next queued request; respondent.reinit() *)
  let '(waited, queued, status, evented, meth) :=
    if negb (k_waited k) && (0 <? k_queued k) then (true, k_queued k - 1, 0, false, cf_method cf)
    else (k_waited k, k_queued k, k_status k, k_evented k, k_method k) in
  let k := {| k_buf := k_buf k; k_pst := k_pst k; k_waited := k_waited k; k_queued := k_queued k;
              k_cutoff := k_cutoff k; k_closed := k_closed k; k_status := k_status k;
              k_body := k_body k; k_evented := k_evented k; k_sse_dead := k_sse_dead k; k_nredir := k_nredir k;
              k_responses := k_responses k; k_method := meth |} in
  (* serviceResponse: receive *)
  let buf := k_buf k ++ r_data r in
  let cut := k_cutoff k || r_eof r in
  if negb waited then
    Ok {| k_buf := buf; k_pst := k_pst k; k_waited := false; k_queued := queued;
          k_cutoff := cut; k_closed := closed; k_status := status; k_body := k_body k;
          k_evented := evented; k_sse_dead := k_sse_dead k; k_nredir := k_nredir k; k_responses := k_responses k; k_method := meth |}
  else
    (* a fresh parseMessage generator clears .closed on its first step *)
    let closed' := match k_pst k with QStart true => false | _ => closed end in
    match resp_run (6 + 2 * List.length buf) meth closed' (k_sse_dead k) evented true
                   (k_pst k) status (k_body k) buf with
    | QOut => Exc OtherErr
    | QNeed s' body' b' =>
      Ok {| k_buf := b'; k_pst := s'; k_waited := true; k_queued := queued;
            k_cutoff := cut; k_closed := closed'; k_status := status; k_body := body';
            k_evented := evented; k_sse_dead := k_sse_dead k; k_nredir := k_nredir k; k_responses := k_responses k; k_method := meth |}
    | QFail HTTPExc pi body' b' =>
      (* parseMessage / serviceResponse: errored, ended *)
      client_ended cf o n k queued true
                   {| pi_status := pi_status pi; pi_json := pi_json pi; pi_ctype := pi_ctype pi;
                      pi_sse := if pi_ctype pi then pi_sse pi else evented; pi_dead := pi_dead pi;
                      pi_redirect := pi_redirect pi; pi_location := pi_location pi |}
                   body' b' cut closed' (pi_dead pi || (pi_sse pi && sse_too_long body'))
    | QFail e _ _ _ => Exc e
    | QDone pi body' b' => client_ended cf o n k queued false pi body' b' cut closed' (pi_dead pi)
    end.

Fixpoint client_run (cf : cconf) (o : url_oracle) (n : net_oracle) (k : client) (rs : list rnd)
  : res client :=
  match rs with
  | [] => Ok k
  | r :: rs' => match client_round cf o n k r with
                | Exc e => Exc e
                | Ok k' => client_run cf o n k' rs'
                end
  end.

(* ============================ correspondence ============================ *)
(* finite tables standing for the external checks *)
Definition tbl := list (ustr * bool).
Fixpoint tbl_get (t : tbl) (d : bool) (k : ustr) : bool :=
  match t with
  | [] => d
  | (k', v) :: t' => if ustr_eqb k' k then v else tbl_get t' d k
  end.
Definition mk_oracle (ip6 nfkc : tbl) : url_oracle :=
  {| ip6_ok := tbl_get ip6 false; nfkc_bad := tbl_get nfkc false |}.
Definition mk_net (rs : tbl) : net_oracle := {| resolves := tbl_get rs false |}.

Inductive side :=
| Server (kind : skind)
| Client (m : cmethod) (nreq : N) (redirectable dictable : bool).

Definition obs_served := (ustr * bool * bytes * option bytes)%type.
Definition obs_resp := (N * bool * bytes * N)%type.

Record case := { x_side : side;
                 x_rounds : list rnd;
                 x_ip6 : tbl; x_nfkc : tbl; x_resolves : tbl; x_json : jmap;
                 (* observed *)
                 x_exc : option exn;                 (* exception out of service() *)
                 x_closed : bool;                    (* server: connection closed at the end *)
                 x_served : list obs_served;         (* server: requests handed to the app / steward *)
                 x_responses : list obs_resp;        (* client: entries of .responses *)
                 x_errored : bool }.                 (* client: respondent.errored at the end is not compared; kept for the oracle *)

Definition served_eqb (a : served) (b : obs_served) : bool :=
  let '(m, v10, body, reply) := b in
  ustr_eqb (sv_method a) m && Bool.eqb (sv_v10 a) v10 && bytes_eqb (sv_body a) body
  && match sv_reply a, reply with
     | Some x, Some y => bytes_eqb x y
     | _, _ => true          (* wsgi, or a value too deep to transcribe *)
     end.

Definition resp_eqb (a : response) (b : obs_resp) : bool :=
  let '(st, er, body, nr) := b in
  N.eqb (rp_status a) st && Bool.eqb (rp_errored a) er && bytes_eqb (rp_body a) body
  && N.eqb (rp_redirects a) nr.

Fixpoint list_eqb2 {A B} (f : A -> B -> bool) (x : list A) (y : list B) : bool :=
  match x, y with
  | [], [] => true
  | a :: x', b :: y' => f a b && list_eqb2 f x' y'
  | _, _ => false
  end.

Definition run_case (c : case) : res (conn + client) :=
  let o := mk_oracle (x_ip6 c) (x_nfkc c) in
  match x_side c with
  | Server kind =>
    match server_run kind o (conn0 (x_json c)) (x_rounds c) with
    | Exc k => Exc k | Ok s => Ok (inl s) end
  | Client m nreq rd dc =>
    let cf := {| cf_method := m; cf_redirectable := rd; cf_dictable := dc;
                 cf_json := x_json c |} in
    match client_run cf o (mk_net (x_resolves c)) (client0 nreq) (x_rounds c) with
    | Exc k => Exc k | Ok s => Ok (inr s) end
  end.

Definition check_case (c : case) : bool :=
  match run_case c, x_exc c with
  | Exc k, Some k' => exn_eqb k k'
  | Ok (inl s), None =>
    Bool.eqb (c_closed s) (x_closed c) && list_eqb2 served_eqb (c_served s) (x_served c)
  | Ok (inr k), None => list_eqb2 resp_eqb (k_responses k) (x_responses c)
  | _, _ => false
  end.

(* branch classifier: which outcome class the case ends in *)
Definition case_branches (c : case) : list nat :=
  match run_case c with
  | Exc _ => [0%nat]
  | Ok (inl s) =>
    (if c_closed s then 1%nat else 2%nat) ::
    (match c_served s with [] => 3%nat | [_] => 4%nat | _ => 5%nat end) ::
    (match x_side c with Server Wsgi => [6%nat] | _ => [7%nat] end)
  | Ok (inr k) =>
    8%nat ::
    (if existsb rp_errored (k_responses k) then [9%nat] else []) ++
    (if existsb (fun r => 0 <? rp_redirects r) (k_responses k) then [10%nat] else []) ++
    (match k_responses k with [] => [11%nat] | _ => [] end)
  end.
Definition n_branches : nat := 12.

(* used by the stdlib sweep of the driver: urlsplit + .port + .hostname against CPython *)
Definition urlsplit_agrees (o : url_oracle) (u : ustr)
           (e : option (ustr * ustr * ustr * ustr * ustr * option N * ustr)) : bool :=
  match bind (urlsplit o u) (fun s => bind (url_port (u_netloc s)) (fun p => Ok (s, p))), e with
  | Exc _, None => true
  | Ok (s, p), Some (sc, nl, pa, q, fr, pt, hn) =>
    ustr_eqb (u_scheme s) sc && ustr_eqb (u_netloc s) nl && ustr_eqb (u_path s) pa &&
    ustr_eqb (u_query s) q && ustr_eqb (u_fragment s) fr && option_eqb N.eqb p pt &&
    ustr_eqb (url_hostname (u_netloc s)) hn
  | _, _ => false
  end.

(* run-length helper for long literals in generated case files *)
Definition rep (c n : N) : bytes := repeat c (N.to_nat n).
