(* Model of the hierarchical cooperative scheduler of src/hio/base/doing.py:
   Doist.do / enter / recur / exit / extend / remove, Doer.do, DoDoer.do /
   enter / recur / exit / extend / remove, as one fuelled big-step interpreter.

   Doers are numbered; id 0 is the root Doist.  A program is a table
   id -> definition (leaf with a script, or nest = DoDoer with child ids).
   Python generators are explicit states (GNew | GSusp pc | GDone); the five-way
   try/except/else/finally of Doer.do and DoDoer.do is written out as the events
   it produces.  The model follows the code after the repairs recorded in
   known_findings.json (D1 exit order after an interrupted pass, D2 failing
   enter inside extend, D33/D34 duplicates in extend/remove, D41 remove order
   during a pass) and is faithful to
   the open findings D3 (mid-pass extend order) and D35 (asap base in a DoDoer).

   No proofs here. *)
From Hio Require Import Base.Prelude Base.AMap Base.Time.

Definition id := N.

Section Sched.
Context {T : Type} `{Time T}.

Inductive ret := RNone | RFalse | RTrue.
Inductive outcome :=
| OYield (t : option T)      (* yields tock t (None = bare yield) *)
| OReturn (r : ret)          (* returns: generator finishes by itself *)
| ORaise                     (* raises an Exception *)
| OKbd.                      (* raises KeyboardInterrupt (a BaseException) *)

Inductive effect :=
| EExtend (target : id) (news : list id)   (* target.extend([...]) from inside the running doer *)
| ERemove (target : id) (who : list id).   (* target.remove([...]) *)

Record fstep := { f_es : list effect; f_out : outcome }.

(* how `done` is written when the generator returns r *)
Inductive kind :=
| KFunc       (* generator function (doify/doize/bound method): done := r unless r is None *)
| KDoer       (* Doer with plain recur: returns its own done, which is truthy *)
| KDoerGen.   (* Doer with generator recur: self.done := r, then returned *)

Inductive fdef :=
| FLeaf (k : kind) (script : list fstep)
| FNest (tock0 : T) (always : bool) (kids : list id).

Inductive ekind := Enter | Recur | Clean | Cease | Abort | Exit | ExtRet | RemRet | DoReturn | DoRaise.
Record ev := { e_kind : ekind; e_id : id; e_tyme : T }.

(* GRun: the generator is executing (between a send/next and the following yield).
   Python refuses to start, resume or close a running generator (ValueError:
   generator already executing); the model makes those operations no-ops, which
   is never exercised by the program class of the correspondence. *)
Inductive gstate := GNew | GSusp (pc : nat) | GRun (pc : nat) | GDone.

Inductive deed := DMark | DDeed (i : id) (retyme : T).

Record sched := { doers : list id; deeds : list deed }.

Record st := {
  tyme : T;
  defs : amap fdef;
  gens : amap gstate;
  dones : amap (option bool);
  scheds : amap sched;          (* 0 = root Doist, i = DoDoer i *)
  trace : list ev;              (* newest first *)
  oof : bool;                   (* fuel ran out somewhere: result meaningless *)
  rlive : bool;                 (* the root Doist is past its enter (its run loop is active) *)
}.

Inductive gres :=
| GYield (t : option T)
| GReturn
| GRaise (kbd : bool)
| GFuel.

(* ---------- small state helpers ---------- *)

Definition set_tyme s t := {| tyme := t; defs := defs s; gens := gens s; dones := dones s;
                              scheds := scheds s; trace := trace s; oof := oof s; rlive := rlive s |}.
Definition set_gen s i g := {| tyme := tyme s; defs := defs s; gens := set (gens s) i g; dones := dones s;
                               scheds := scheds s; trace := trace s; oof := oof s; rlive := rlive s |}.
Definition set_done s i d := {| tyme := tyme s; defs := defs s; gens := gens s; dones := set (dones s) i d;
                                scheds := scheds s; trace := trace s; oof := oof s; rlive := rlive s |}.
Definition set_sched s i c := {| tyme := tyme s; defs := defs s; gens := gens s; dones := dones s;
                                 scheds := set (scheds s) i c; trace := trace s; oof := oof s; rlive := rlive s |}.
Definition emit s k i := {| tyme := tyme s; defs := defs s; gens := gens s; dones := dones s;
                            scheds := scheds s;
                            trace := {| e_kind := k; e_id := i; e_tyme := tyme s |} :: trace s;
                            oof := oof s; rlive := rlive s |}.
Definition out_of_fuel s := {| tyme := tyme s; defs := defs s; gens := gens s; dones := dones s;
                               scheds := scheds s; trace := trace s; oof := true; rlive := rlive s |}.
Definition set_rlive s b := {| tyme := tyme s; defs := defs s; gens := gens s; dones := dones s;
                              scheds := scheds s; trace := trace s; oof := oof s; rlive := b |}.

Definition get_gen s i : gstate := match get (gens s) i with Some g => g | None => GNew end.
Definition get_done s i : option bool := match get (dones s) i with Some d => d | None => None end.
Definition get_sched s i : sched :=
  match get (scheds s) i with Some c => c | None => {| doers := []; deeds := [] |} end.
Definition set_deeds s i ds := set_sched s i {| doers := doers (get_sched s i); deeds := ds |}.
Definition set_doers s i l := set_sched s i {| doers := l; deeds := deeds (get_sched s i) |}.

Definition default_step : fstep := {| f_es := []; f_out := OReturn RTrue |}.

Definition memN (x : N) (l : list N) : bool := existsb (N.eqb x) l.

(* order-preserving dedupe, as dict.fromkeys does *)
Fixpoint dedupe (l : list N) (seen : list N) : list N :=
  match l with
  | [] => []
  | x :: r => if memN x seen then dedupe r seen else x :: dedupe r (x :: seen)
  end.

Fixpoint remove_first (x : N) (l : list N) : list N :=
  match l with
  | [] => []
  | y :: r => if N.eqb x y then r else y :: remove_first x r
  end.

Definition is_mark (d : deed) : bool := match d with DMark => true | _ => false end.

(* exit(): an interrupted pass leaves the deque as unrun ++ [mark] ++ rerun;
   rotate it back to enter order  rerun ++ unrun  (mark dropped) *)
Fixpoint split_mark (ds : list deed) (acc : list deed) : option (list deed * list deed) :=
  match ds with
  | [] => None
  | DMark :: r => Some (rev acc, r)
  | d :: r => split_mark r (d :: acc)
  end.
Definition unrotate (ds : list deed) : list deed :=
  match split_mark ds [] with
  | Some (unrun, rerun) => rerun ++ unrun
  | None => ds
  end.

(* done written by the scheduler when doer i of kind k returns r *)
Definition done_after (k : kind) (r : ret) (old : option bool) : option bool :=
  match k, r with
  | KDoerGen, RNone => None
  | _, RNone => old
  | _, RFalse => Some false
  | _, RTrue => Some true
  end.

(* a scheduler is running: its generator is suspended at a yield (for the root: past enter) *)
Definition live (s : st) (sid : id) : bool :=
  if N.eqb sid 0 then rlive s else
  match get_gen s sid with GSusp _ | GRun _ => true | _ => false end.

Definition startable (s : st) (i : id) : bool :=
  match get_gen s i with GNew | GDone => true | _ => false end.

Definition sched_tock (root_tock : T) (s : st) (sid : id) : T :=
  if N.eqb sid 0 then root_tock else
  match get (defs s) sid with
  | Some (FNest t _ _) => tabs t
  | _ => tzero
  end.

(* ---------- the interpreter ---------- *)

Section Interp.
Variable root_tock : T.

Fixpoint gen_start (fuel : nat) (s : st) (i : id) {struct fuel} : st * gres :=
  match fuel with
  | O => (out_of_fuel s, GFuel)
  | S f =>
    if negb (startable s i) then (s, GReturn) else
    match get (defs s) i with
    | None => (s, GReturn)
    | Some (FLeaf k script) =>
      run_step f (emit (set_gen s i (GRun 0)) Enter i) i k script 0
    | Some (FNest t0 always kids) =>
      let s1 := emit (set_gen s i (GRun 0)) Enter i in
      let '(s2, r) := enter_own f s1 i (doers (get_sched s1 i)) in
      match r with
      | GRaise kbd =>
        let s3 := if kbd then s2 else emit s2 Abort i in
        let s4 := close_own f s3 i in
        (set_gen (emit s4 Exit i) i GDone, GRaise kbd)
      | GFuel => (s2, GFuel)
      | _ => (set_gen s2 i (GSusp 1), GYield (Some (tabs t0)))
      end
    end
  end

(* one resumption of a leaf generator at program counter pc (Enter/Recur already emitted) *)
with run_step (fuel : nat) (s : st) (i : id) (k : kind) (script : list fstep) (pc : nat)
  {struct fuel} : st * gres :=
  match fuel with
  | O => (out_of_fuel s, GFuel)
  | S f =>
    let stp := nth pc script default_step in
    let '(s1, r) := run_effects f s i (f_es stp) in
    match r with
    | GFuel => (s1, GFuel)
    | GRaise kbd =>
      let s2 := if kbd then s1 else emit s1 Abort i in
      (set_gen (emit s2 Exit i) i GDone, GRaise kbd)
    | _ =>
      match f_out stp with
      | OYield t => (set_gen s1 i (GSusp (S pc)), GYield t)
      | OReturn r =>
        let s2 := emit (emit s1 Clean i) Exit i in
        (set_done (set_gen s2 i GDone) i (done_after k r (get_done s2 i)), GReturn)
      | ORaise => (set_gen (emit (emit s1 Abort i) Exit i) i GDone, GRaise false)
      | OKbd => (set_gen (emit s1 Exit i) i GDone, GRaise true)
      end
    end
  end

(* dog.send(tyme) on a suspended generator *)
with gen_send (fuel : nat) (s : st) (i : id) {struct fuel} : st * gres :=
  match fuel with
  | O => (out_of_fuel s, GFuel)
  | S f =>
    match get_gen s i, get (defs s) i with
    | GSusp pc, Some (FLeaf k script) => run_step f (emit (set_gen s i (GRun pc)) Recur i) i k script pc
    | GSusp pc, Some (FNest t0 always kids) =>
      let s1 := emit (set_gen s i (GRun pc)) Recur i in
      let '(s2, r) := recur_pass f s1 i in
      match r with
      | GRaise kbd =>
        let s3 := if kbd then s2 else emit s2 Abort i in
        let s4 := close_own f s3 i in
        (set_gen (emit s4 Exit i) i GDone, GRaise kbd)
      | GFuel => (s2, GFuel)
      | _ =>
        let empty := match deeds (get_sched s2 i) with [] => true | _ => false end in
        let s3 := set_done s2 i (Some empty) in
        if empty && negb always then
          let s4 := close_own f (emit s3 Clean i) i in
          (set_gen (emit s4 Exit i) i GDone, GReturn)
        else (set_gen s3 i (GSusp pc), GYield (Some (tabs t0)))
      end
    | _, _ => (s, GReturn)    (* send to a finished generator: StopIteration(None) *)
    end
  end

(* dog.close() *)
with gen_close (fuel : nat) (s : st) (i : id) {struct fuel} : st :=
  match fuel with
  | O => out_of_fuel s
  | S f =>
    match get_gen s i, get (defs s) i with
    | GSusp pc, Some (FLeaf _ _) => set_gen (emit (emit (set_gen s i (GRun pc)) Cease i) Exit i) i GDone
    | GSusp pc, Some (FNest _ _ _) =>
      let s1 := close_own f (emit (set_gen s i (GRun pc)) Cease i) i in
      set_gen (emit s1 Exit i) i GDone
    | _, _ => s
    end
  end

(* scheduler sid's exit() on its own deque *)
with close_own (fuel : nat) (s : st) (sid : id) {struct fuel} : st :=
  match fuel with
  | O => out_of_fuel s
  | S f =>
    let ds := unrotate (deeds (get_sched s sid)) in
    close_list f (set_deeds s sid []) (rev ds)
  end

(* close the given deeds in list order (already reversed by the caller) *)
with close_list (fuel : nat) (s : st) (ds : list deed) {struct fuel} : st :=
  match fuel with
  | O => out_of_fuel s
  | S f =>
    match ds with
    | [] => s
    | DMark :: r => close_list f s r
    | DDeed i _ :: r => close_list f (gen_close f s i) r
    end
  end

(* enter() of scheduler sid over its own doers, appending to its own deque *)
with enter_own (fuel : nat) (s : st) (sid : id) (ids : list id) {struct fuel} : st * gres :=
  match fuel with
  | O => (out_of_fuel s, GFuel)
  | S f =>
    match ids with
    | [] => (s, GReturn)
    | i :: rest =>
      let s0 := set_done s i (Some false) in
      let '(s1, r) := gen_start f s0 i in
      match r with
      | GYield _ =>
        let s2 := set_deeds s1 sid (deeds (get_sched s1 sid) ++ [DDeed i (tyme s1)]) in
        enter_own f s2 sid rest
      | GReturn => enter_own f s1 sid rest
      | GRaise kbd => (s1, GRaise kbd)
      | GFuel => (s1, GFuel)
      end
    end
  end

(* enter(doers=new) into a fresh local deque acc; on a failing enter the
   already entered new doers are exited (repair of D2) *)
with enter_local (fuel : nat) (s : st) (ids : list id) (acc : list deed) {struct fuel}
  : st * gres * list deed :=
  match fuel with
  | O => (out_of_fuel s, GFuel, acc)
  | S f =>
    match ids with
    | [] => (s, GReturn, acc)
    | i :: rest =>
      let s0 := set_done s i (Some false) in
      let '(s1, r) := gen_start f s0 i in
      match r with
      | GYield _ => enter_local f s1 rest (acc ++ [DDeed i (tyme s1)])
      | GReturn => enter_local f s1 rest acc
      | GRaise kbd => (close_list f s1 (rev acc), GRaise kbd, [])
      | GFuel => (s1, GFuel, acc)
      end
    end
  end

(* the effects of one step of doer `caller`, in order; stops at the first that raises *)
with run_effects (fuel : nat) (s : st) (caller : id) (es : list effect) {struct fuel} : st * gres :=
  match fuel with
  | O => (out_of_fuel s, GFuel)
  | S f =>
    match es with
    | [] => (s, GReturn)
    | e :: rest =>
    (* an effect on a scheduler that is not running (not yet past its enter, or already
       exited) is outside the modelled program class: the harness skips it as well *)
    if negb (live s (match e with EExtend t _ => t | ERemove t _ => t end))
    then run_effects f s caller rest else
    match e with
    | EExtend target news =>
      let present := doers (get_sched s target) in
      let news' := dedupe (filter (fun d => negb (memN d present)) news) [] in
      let '(s1, r, acc) := enter_local f s news' [] in
      match r with
      | GRaise kbd => (s1, GRaise kbd)
      | GFuel => (s1, GFuel)
      | _ =>
        let c := get_sched s1 target in
        let s2 := set_sched s1 target {| doers := doers c ++ news'; deeds := deeds c ++ acc |} in
        run_effects f (emit s2 ExtRet caller) caller rest
      end
    | ERemove target who =>
      let c := get_sched s target in
      let rdoers := dedupe (filter (fun d => memN d (doers c)) who) [] in
      let is_r d := match d with DDeed i _ => memN i rdoers | DMark => false end in
      let rdeeds := filter is_r (unrotate (deeds c)) in    (* enter order: found behind the marker first *)
      let keep := filter (fun d => negb (is_r d)) (deeds c) in
      let s1 := set_sched s target {| doers := fold_left (fun l d => remove_first d l) rdoers (doers c);
                                      deeds := keep |} in
      let s2 := close_list f s1 (rev rdeeds) in
      run_effects f (emit s2 RemRet caller) caller rest
    end
    end
  end

(* recur(): one pass of scheduler sid over its deque, up to the marker *)
with recur_pass (fuel : nat) (s : st) (sid : id) {struct fuel} : st * gres :=
  match fuel with
  | O => (out_of_fuel s, GFuel)
  | S f =>
    let s1 := set_deeds s sid (deeds (get_sched s sid) ++ [DMark]) in
    recur_loop f s1 sid
  end

with recur_loop (fuel : nat) (s : st) (sid : id) {struct fuel} : st * gres :=
  match fuel with
  | O => (out_of_fuel s, GFuel)
  | S f =>
    match deeds (get_sched s sid) with
    | [] => (s, GReturn)
    | DMark :: r => (set_deeds s sid r, GReturn)
    | DDeed i re :: r =>
      let s1 := set_deeds s sid r in
      if tleb re (tyme s1) then
        let '(s2, g) := gen_send f s1 i in
        match g with
        | GYield t =>
          let asap := match t with None => true | Some x => tfalsy x end in
          let re' := if asap then tadd (tyme s2) (sched_tock root_tock s2 sid)
                     else match t with Some x => tadd re x | None => re end in
          recur_loop f (set_deeds s2 sid (deeds (get_sched s2 sid) ++ [DDeed i re'])) sid
        | GReturn => recur_loop f s2 sid
        | GRaise kbd => (s2, GRaise kbd)
        | GFuel => (s2, GFuel)
        end
      else recur_loop f (set_deeds s1 sid (r ++ [DDeed i re])) sid
    end
  end.

(* ---------- Doist.do ---------- *)

(* the cycle loop; cycles bounds the number of passes (a separate budget from
   the recursion fuel of a single pass) *)
Fixpoint cycle_loop (cycles fuel : nat) (s : st) (limit : option T) (stop : T) : st :=
  match cycles with
  | O => out_of_fuel s
  | S c =>
    let '(s1, r) := recur_pass fuel s 0%N in
    match r with
    | GRaise true =>                         (* KeyboardInterrupt: break, exit, return *)
      emit (close_own fuel s1 0%N) DoReturn 0%N
    | GRaise false => emit (close_own fuel s1 0%N) DoRaise 0%N
    | GFuel => s1
    | _ =>
      let s2 := set_tyme s1 (tadd (tyme s1) root_tock) in     (* tick *)
      match deeds (get_sched s2 0%N) with
      | [] => emit (close_own fuel (set_done s2 0%N (Some true)) 0%N) DoReturn 0%N
      | _ =>
        let limited := match limit with Some l => negb (tfalsy l) | None => false end in
        if limited && tleb stop (tyme s2)
        then emit (close_own fuel s2 0%N) DoReturn 0%N
        else cycle_loop c fuel s2 limit stop
      end
    end
  end.

End Interp.

(* A program: root tock, limit, start tyme, root doers, definitions, initial
   doers of every DoDoer are its kids. *)
Record prog := {
  p_tock : T; p_limit : option T; p_tyme : T; p_doers : list id; p_defs : list (id * fdef);
}.

Definition init_scheds (p : prog) : amap sched :=
  (0%N, {| doers := p_doers p; deeds := [] |}) ::
  flat_map (fun '(i, d) => match d with
                           | FNest _ _ kids => [(i, {| doers := kids; deeds := [] |})]
                           | _ => [] end) (p_defs p).

Definition init_st (p : prog) : st :=
  {| tyme := p_tyme p; defs := p_defs p; gens := []; dones := [(0%N, Some false)];
     scheds := init_scheds p; trace := []; oof := false; rlive := false |}.

Definition do_run (cycles fuel : nat) (p : prog) : st :=
  let s0 := init_st p in
  let '(s1, r) := enter_own (p_tock p) fuel s0 0%N (p_doers p) in
  match r with
  | GRaise _ => emit (close_own (p_tock p) fuel s1 0%N) DoRaise 0%N
  | GFuel => s1
  | _ =>
    let limit := option_map tabs (p_limit p) in
    let stop := tadd (tyme s1) (match limit with Some l => l | None => tzero end) in
    cycle_loop (p_tock p) cycles fuel (set_rlive s1 true) limit stop
  end.

(* A further run of the same Doist: do(limit=..., tyme=...) without doers keeps .doers (incl. those added
   at runtime) and the (empty) deque, resets .done, optionally the tyme; `limit` is the effective limit
   (a new one, or the one kept from before). *)
Definition do_again (cycles fuel : nat) (tk : T) (limit : option T) (tyme' : option T) (s : st) : st :=
  let sa := match tyme' with Some t => set_tyme s t | None => s end in
  let s0 := set_done (set_rlive sa false) 0%N (Some false) in
  let '(s1, r) := enter_own tk fuel s0 0%N (doers (get_sched s0 0%N)) in
  match r with
  | GRaise _ => emit (close_own tk fuel s1 0%N) DoRaise 0%N
  | GFuel => s1
  | _ =>
    let lim := option_map tabs limit in
    let stop := tadd (tyme s1) (match lim with Some l => l | None => tzero end) in
    cycle_loop tk cycles fuel (set_rlive s1 true) lim stop
  end.

(* The same doer objects run under a NEW Doist (fresh .doers = the given root doers, empty deque, its own
   tyme): DoDoers keep their own doers lists and every doer its generator state; all doers are re-wound
   to the new Doist's tyme by its enter. *)
Definition do_fresh (cycles fuel : nat) (tk : T) (limit : option T) (tyme0 : T) (root_doers : list id) (s : st) : st :=
  let s0 := set_done (set_rlive (set_sched (set_tyme s tyme0) 0%N {| doers := root_doers; deeds := [] |}) false)
                     0%N (Some false) in
  let '(s1, r) := enter_own tk fuel s0 0%N root_doers in
  match r with
  | GRaise _ => emit (close_own tk fuel s1 0%N) DoRaise 0%N
  | GFuel => s1
  | _ =>
    let lim := option_map tabs limit in
    let stop := tadd (tyme s1) (match lim with Some l => l | None => tzero end) in
    cycle_loop tk cycles fuel (set_rlive s1 true) lim stop
  end.

(* ---------- the manual API: doist.enter(); n times doist.recur(); doist.exit() ----------
   Doist.recur() is one pass followed by tick(); a raise out of enter or recur is followed by the caller's
   doist.exit() (try/finally in the application) and propagates. *)
Fixpoint manual_recurs (n fuel : nat) (tk : T) (s : st) : st * bool :=
  match n with
  | O => (s, false)
  | S m =>
    let '(s1, r) := recur_pass tk fuel s 0%N in
    match r with
    | GRaise _ => (s1, true)
    | GFuel => (s1, true)
    | _ => manual_recurs m fuel tk (set_tyme s1 (tadd (tyme s1) tk))
    end
  end.

Definition manual_run (n fuel : nat) (p : prog) : st :=
  (* nothing sets the Doist's own .done on this path: it stays None *)
  let '(s1, r) := enter_own (p_tock p) fuel (set_done (init_st p) 0%N None) 0%N (p_doers p) in
  match r with
  | GRaise _ => emit (close_own (p_tock p) fuel s1 0%N) DoRaise 0%N
  | GFuel => s1
  | _ =>
    let '(s2, bad) := manual_recurs n fuel (p_tock p) (set_rlive s1 true) in
    if oof s2 then s2
    else emit (close_own (p_tock p) fuel s2 0%N) (if bad then DoRaise else DoReturn) 0%N
  end.

(* ---------- Doist.ado ----------
   In doing.py `ado` is a second, separately written copy of the body of `do`
   (enter, limit Tymer, the cycle loop with its two stop tests, exit in the
   finally clause) that awaits asyncio.sleep(0) after each pass.  The model keeps
   it as a second, separately written definition as well, so that "ado gives the
   same run as do" is a statement about two definitions (proved in
   Proofs/SchedAdo.v) and the correspondence checks each against its own code. *)
Definition await_sleep0 (s : st) : st := s.   (* other asyncio tasks run here; no scheduler state involved *)

Fixpoint acycle_loop (tk : T) (cycles fuel : nat) (s : st) (limit : option T) (stop : T) : st :=
  match cycles with
  | O => out_of_fuel s
  | S c =>
    let '(s1, r) := recur_pass tk fuel s 0%N in
    match r with
    | GRaise true => emit (close_own tk fuel s1 0%N) DoReturn 0%N
    | GRaise false => emit (close_own tk fuel s1 0%N) DoRaise 0%N
    | GFuel => s1
    | _ =>
      let s2 := await_sleep0 (set_tyme s1 (tadd (tyme s1) tk)) in
      match deeds (get_sched s2 0%N) with
      | [] => emit (close_own tk fuel (set_done s2 0%N (Some true)) 0%N) DoReturn 0%N
      | _ =>
        let limited := match limit with Some l => negb (tfalsy l) | None => false end in
        if limited && tleb stop (tyme s2)
        then emit (close_own tk fuel s2 0%N) DoReturn 0%N
        else acycle_loop tk c fuel s2 limit stop
      end
    end
  end.

Definition ado_run (cycles fuel : nat) (p : prog) : st :=
  let s0 := init_st p in
  let '(s1, r) := enter_own (p_tock p) fuel s0 0%N (p_doers p) in
  match r with
  | GRaise _ => emit (close_own (p_tock p) fuel s1 0%N) DoRaise 0%N
  | GFuel => s1
  | _ =>
    let limit := option_map tabs (p_limit p) in
    let stop := tadd (tyme s1) (match limit with Some l => l | None => tzero end) in
    acycle_loop (p_tock p) cycles fuel (set_rlive s1 true) limit stop
  end.

Definition ado_again (cycles fuel : nat) (tk : T) (limit : option T) (tyme' : option T) (s : st) : st :=
  let sa := match tyme' with Some t => set_tyme s t | None => s end in
  let s0 := set_done (set_rlive sa false) 0%N (Some false) in
  let '(s1, r) := enter_own tk fuel s0 0%N (doers (get_sched s0 0%N)) in
  match r with
  | GRaise _ => emit (close_own tk fuel s1 0%N) DoRaise 0%N
  | GFuel => s1
  | _ =>
    let lim := option_map tabs limit in
    let stop := tadd (tyme s1) (match lim with Some l => l | None => tzero end) in
    acycle_loop tk cycles fuel (set_rlive s1 true) lim stop
  end.

End Sched.

Arguments st T : clear implicits.
Arguments prog T : clear implicits.
Arguments ev T : clear implicits.
Arguments fdef T : clear implicits.
Arguments fstep T : clear implicits.
Arguments outcome T : clear implicits.
Arguments deed T : clear implicits.
