(* Proofs about Model/Idle.v. *)
From Hio Require Import Base.Prelude Model.Idle.
From Coq Require Import ZifyBool.
Local Open Scope Z_scope.

(* while open and not persisted, the deadline is exactly the latest traffic plus the configured tymeout *)
Definition Inv (T : Z) (c : conn) : Prop :=
  closed c = false ->
  (persisted c = false -> tmo c = T /\ sp c = last c + T /\ st c = last c) /\
  (persisted c = true -> tmo c = 0).

Lemma inv_accept T t0 : Inv T (accept T t0).
Proof. intros _. cbn. split; [auto|discriminate]. Qed.

Lemma inv_pass T now a c : Inv T c -> Inv T (pass now a c).
Proof.
  intros I. unfold pass. destruct (closed c) eqn:Ec; [exact I|].
  destruct ((0 <? tmo c) && expired now c) eqn:Ex; [intros H; discriminate H|].
  destruct (I Ec) as [I1 I2].
  intros _. destruct (persisted c) eqn:Ep.
  - specialize (I2 eq_refl).
    destruct a; cbn [has_traffic]; try destruct (0 <? chunks)%N; cbn; rewrite ?Ep; split; auto; discriminate.
  - destruct (I1 eq_refl) as (H1 & H2 & H3).
    destruct a; cbn [has_traffic]; try destruct (0 <? chunks)%N; cbn; rewrite ?Ep;
      split; try discriminate; auto; intros _; repeat split; auto; lia.
Qed.

Lemma inv_run T sched : forall c, Inv T c -> Inv T (run c sched).
Proof.
  induction sched as [|[now a] r IH]; intros c I; simpl; [exact I|]. apply IH, inv_pass, I.
Qed.

Lemma closed_pass now a c : closed c = true -> pass now a c = c.
Proof. intros H. unfold pass. now rewrite H. Qed.
Lemma closed_run sched : forall c, closed c = true -> closed (run c sched) = true.
Proof.
  induction sched as [|[now a] r IH]; intros c H; simpl; [exact H|].
  rewrite closed_pass by exact H. now apply IH.
Qed.

Lemma last_pass_open now a c :
  closed (pass now a c) = false -> last (pass now a c) = if has_traffic a then now else last c.
Proof.
  unfold pass. destruct (closed c) eqn:Ec; [intros H; congruence|].
  destruct ((0 <? tmo c) && expired now c); [intros H; discriminate H|].
  intros _. destruct a; cbn [has_traffic]; try destruct (0 <? chunks)%N; reflexivity.
Qed.

Lemma last_run sched : forall c,
  closed (run c sched) = false -> last (run c sched) = last_rx (last c) sched.
Proof.
  induction sched as [|[now a] r IH]; intros c H; simpl in *; [reflexivity|].
  rewrite IH by exact H. f_equal. apply last_pass_open.
  destruct (closed (pass now a c)) eqn:E; [|reflexivity].
  rewrite closed_run in H by exact E. discriminate.
Qed.

Lemma persisted_pass now a c : is_req a = false -> persisted (pass now a c) = persisted c.
Proof.
  intros H. unfold pass. destruct (closed c); [reflexivity|].
  destruct ((0 <? tmo c) && expired now c); [reflexivity|].
  destruct a; try discriminate; cbn [has_traffic]; try destruct (0 <? chunks)%N; reflexivity.
Qed.
Lemma persisted_run sched : forall c, no_req sched = true -> persisted (run c sched) = persisted c.
Proof.
  induction sched as [|[now a] r IH]; intros c H; simpl in *; [reflexivity|].
  apply andb_true_iff in H as [H1 H2]. rewrite IH by exact H2.
  apply persisted_pass. now apply negb_true_iff in H1.
Qed.

Lemma run_app s1 : forall s2 c, run c (s1 ++ s2) = run (run c s1) s2.
Proof. induction s1 as [|[n b] s1 IH]; intros s2 c; simpl; [reflexivity|apply IH]. Qed.

(* C12, first half: a non-persistent connection whose latest traffic (or accept) was at
   tyme u is closed by any service pass at a tyme >= u + T, whatever happened before *)
Theorem closes T t0 sched now a :
  0 < T -> no_req sched = true -> last_rx t0 sched + T <= now ->
  closed (pass now a (run (accept T t0) sched)) = true.
Proof.
  intros HT Hn Hl. set (c := run (accept T t0) sched).
  destruct (closed c) eqn:Ec; [now rewrite closed_pass|].
  assert (I : Inv T c) by apply inv_run, inv_accept.
  assert (Hp : persisted c = false) by (unfold c; now rewrite persisted_run).
  assert (Hlast : last c = last_rx t0 sched) by (unfold c; now rewrite last_run).
  destruct (I Ec) as [I1 _]. destruct (I1 Hp) as (H1 & H2 & _).
  unfold pass. rewrite Ec.
  assert (E : (0 <? tmo c) && expired now c = true).
  { unfold expired. apply andb_true_iff. split; lia. }
  now rewrite E.
Qed.

(* ... and it stays closed *)
Theorem closes_for_good T t0 sched now a rest :
  0 < T -> no_req sched = true -> last_rx t0 sched + T <= now ->
  closed (run (accept T t0) (sched ++ (now, a) :: rest)) = true.
Proof.
  intros HT Hn Hl. rewrite run_app. simpl. apply closed_run. now apply closes.
Qed.

(* ... and not earlier *)
Lemma safe_gen T sched : forall c,
  closed c = false -> Inv T c -> busy T (last c) sched -> closed (run c sched) = false.
Proof.
  induction sched as [|[now a] r IH]; intros c Ec I B; simpl in *; [exact Ec|].
  destruct B as [B1 B2].
  assert (Eo : closed (pass now a c) = false).
  { unfold pass. rewrite Ec. destruct (I Ec) as [I1 I2].
    destruct (persisted c) eqn:Ep.
    - rewrite (I2 eq_refl). cbn. destruct a; cbn [has_traffic]; try destruct (0 <? chunks)%N; cbn; exact Ec.
    - destruct (I1 eq_refl) as (H1 & H2 & _).
      assert (E : (0 <? tmo c) && expired now c = false).
      { unfold expired. apply andb_false_iff. right. lia. }
      rewrite E. destruct a; cbn [has_traffic]; try destruct (0 <? chunks)%N; cbn; exact Ec. }
  apply IH; [exact Eo|now apply inv_pass|].
  now rewrite last_pass_open.
Qed.

(* C12, second half: if every service pass comes less than T after the latest traffic
   before it (traffic in every tymeout window), the connection is never closed for idleness *)
Theorem safe T t0 sched : busy T t0 sched -> closed (run (accept T t0) sched) = false.
Proof. intros B. apply (safe_gen T); [reflexivity|apply inv_accept|exact B]. Qed.

(* every prefix too: never closed at any moment *)
Lemma busy_app T s1 : forall t s2, busy T t (s1 ++ s2) -> busy T t s1.
Proof.
  induction s1 as [|[now a] r IH]; intros t s2; simpl; [tauto|]. intros [H1 H2]. split; [exact H1|eauto].
Qed.
Theorem safe_always T t0 s1 s2 : busy T t0 (s1 ++ s2) -> closed (run (accept T t0) s1) = false.
Proof. intros B. apply safe. eapply busy_app, B. Qed.

(* a persistent connection, and a server with tymeout <= 0, never time out *)
Lemma never_gen sched : forall c,
  closed c = false -> tmo c <= 0 -> closed (run c sched) = false /\ tmo (run c sched) <= 0.
Proof.
  induction sched as [|[now a] r IH]; intros c Ec Ht; simpl; [auto|].
  apply IH.
  - unfold pass. rewrite Ec. replace (0 <? tmo c) with false by lia. cbn.
    destruct a; cbn [has_traffic]; try destruct (0 <? chunks)%N; cbn; exact Ec.
  - unfold pass. rewrite Ec. replace (0 <? tmo c) with false by lia. cbn.
    destruct a; cbn [has_traffic]; try destruct (0 <? chunks)%N; cbn; lia.
Qed.
Theorem disabled T t0 sched : T <= 0 -> closed (run (accept T t0) sched) = false.
Proof. intros H. apply never_gen; [reflexivity|exact H]. Qed.

Theorem persistent_never T t0 s1 k now s2 :
  closed (run (accept T t0) (s1 ++ [(now, Req k)])) = false ->
  closed (run (accept T t0) (s1 ++ (now, Req k) :: s2)) = false.
Proof.
  rewrite !run_app. simpl. set (c := run (accept T t0) s1). intros H.
  apply never_gen; [exact H|].
  unfold pass in *. destruct (closed c) eqn:Ec; [congruence|].
  destruct ((0 <? tmo c) && expired now c); [cbn in H; discriminate H|].
  cbn. lia.
Qed.

(* ---------- "traffic in every window", stated with witnesses ---------- *)
(* pass tymes never go backwards, starting from t *)
Fixpoint sorted_from (t : Z) (sched : list (Z * action)) : Prop :=
  match sched with
  | [] => True
  | (now, a) :: r => t <= now /\ sorted_from now r
  end.
(* for every pass there is an earlier traffic tyme (or the accept) less than T before it *)
Fixpoint windowed (T : Z) (seen : list Z) (sched : list (Z * action)) : Prop :=
  match sched with
  | [] => True
  | (now, a) :: r => (exists u, In u seen /\ now - u < T) /\
                     windowed T (if has_traffic a then now :: seen else seen) r
  end.

Lemma windowed_busy T sched : forall t lo seen,
  (forall u, In u seen -> u <= t) -> t <= lo -> sorted_from lo sched -> windowed T seen sched -> busy T t sched.
Proof.
  induction sched as [|[now a] r IH]; intros t lo seen Hs Hlo So W; simpl in *; [exact I|].
  destruct So as [S1 S2]. destruct W as [[u [Hu Hw]] W2]. split.
  - specialize (Hs u Hu). lia.
  - destruct (has_traffic a).
    + apply (IH now now (now :: seen)); auto; try lia.
      intros v [<-|Hv]; [lia|]. specialize (Hs v Hv). lia.
    + apply (IH t now seen); auto. lia.
Qed.

Theorem safe_windows T t0 sched :
  sorted_from t0 sched -> windowed T [t0] sched -> closed (run (accept T t0) sched) = false.
Proof.
  intros S W. apply safe. apply (windowed_busy T sched t0 t0 [t0]); auto; try lia.
  intros u [<-|[]]. lia.
Qed.
