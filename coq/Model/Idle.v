(* Model of the idle timeout of one connection of hio.core.http.serving.Server:
   the Remoter's tymer (hio.core.tcp.serving.Remoter.__init__/refresh over
   hio.base.tyming.Tymer), the check in http Server.serviceConnects
   (`ix.tymeout > 0.0 and ix.tymer.expired`), and Requestant.checkPersisted
   zeroing the Remoter's tymeout.  As the code is after the fix commits: the
   server's tymeout reaches the Remoter (D13), refresh restarts the tymer from
   the current tyme, RemoterTls refreshes like Remoter (so plain and TLS are
   the same model).  Virtual tyme is Z.  No proofs here. *)
From Hio Require Import Base.Prelude.
Local Open Scope Z_scope.

(* what the client does before one Server.service() pass *)
Inductive action :=
| Quiet                (* nothing *)
| Rx (chunks : N)      (* that many recv()s return bytes of an unfinished request head *)
| Req (chunks : N).    (* likewise, and the last one completes a persistent request *)

Definition has_traffic (a : action) : bool :=
  match a with Quiet => false | Rx k | Req k => (0 <? k)%N end.

Record conn := { st : Z;            (* tymer._start *)
                 sp : Z;            (* tymer._stop *)
                 tmo : Z;           (* remoter.tymeout *)
                 closed : bool;     (* closeConnection was called *)
                 persisted : bool;  (* requestant.persisted *)
                 last : Z }.        (* ghost: tyme of the latest received traffic (accept tyme at first) *)

(* Remoter(tymeout=T) created at tyme t0: Tymer(duration=T) started at t0 *)
Definition accept (T t0 : Z) : conn :=
  {| st := t0; sp := t0 + T; tmo := T; closed := false; persisted := false; last := t0 |}.

(* Remoter.refresh = tymer.start(): same duration, from now *)
Definition refresh (now : Z) (c : conn) : conn :=
  {| st := now; sp := now + (sp c - st c); tmo := tmo c; closed := closed c;
     persisted := persisted c; last := now |}.

Definition expired (now : Z) (c : conn) : bool := sp c <=? now.   (* tyme >= _stop *)

Definition close (c : conn) : conn :=
  {| st := st c; sp := sp c; tmo := tmo c; closed := true; persisted := persisted c; last := last c |}.

Definition persist (c : conn) : conn :=
  {| st := st c; sp := sp c; tmo := 0; closed := closed c; persisted := true; last := last c |}.

(* one Server.service() at tyme [now]: serviceConnects (timeout check) comes
   before serviceReceivesAllIx (refresh) and serviceReqs (checkPersisted) *)
Definition pass (now : Z) (a : action) (c : conn) : conn :=
  if closed c then c
  else if (0 <? tmo c) && expired now c then close c
  else
    let c1 := if has_traffic a then refresh now c else c in
    match a with Req _ => persist c1 | _ => c1 end.

Fixpoint run (c : conn) (sched : list (Z * action)) : conn :=
  match sched with
  | [] => c
  | (now, a) :: r => run (pass now a c) r
  end.

(* ---------- the property's vocabulary, as functions of the schedule alone ---------- *)
(* tyme of the latest pass with traffic (accept tyme when none) *)
Fixpoint last_rx (t : Z) (sched : list (Z * action)) : Z :=
  match sched with
  | [] => t
  | (now, a) :: r => last_rx (if has_traffic a then now else t) r
  end.
Definition is_req (a : action) : bool := match a with Req _ => true | _ => false end.
Definition no_req (sched : list (Z * action)) : bool := forallb (fun p => negb (is_req (snd p))) sched.
(* every pass comes less than T after the latest traffic before it *)
Fixpoint busy (T t : Z) (sched : list (Z * action)) : Prop :=
  match sched with
  | [] => True
  | (now, a) :: r => now < t + T /\ busy T (if has_traffic a then now else t) r
  end.

(* ---------- correspondence ---------- *)
Record case := { k_T : Z; k_t0 : Z; k_sched : list (Z * action);
                 (* per pass: closed, remoter.tymeout, and tymer start/stop while open and not persisted (else 0 0) *)
                 k_obs : list (bool * Z * Z * Z) }.

Definition view (c : conn) : bool * Z * Z * Z :=
  if closed c || persisted c then (closed c, tmo c, 0, 0) else (closed c, tmo c, st c, sp c).

Fixpoint trace (c : conn) (sched : list (Z * action)) : list (bool * Z * Z * Z) :=
  match sched with
  | [] => []
  | (now, a) :: r => let c1 := pass now a c in view c1 :: trace c1 r
  end.

Definition obs_eqb (x y : bool * Z * Z * Z) : bool :=
  match x, y with
  | (c1, t1, a1, b1), (c2, t2, a2, b2) => Bool.eqb c1 c2 && Z.eqb t1 t2 && Z.eqb a1 a2 && Z.eqb b1 b2
  end.

Definition check_case (k : case) : bool :=
  list_eqb obs_eqb (trace (accept (k_T k) (k_t0 k)) (k_sched k)) (k_obs k).

(* branch classifier *)
Definition branch (now : Z) (a : action) (c : conn) : nat :=
  let armed := 0 <? tmo c in
  let edge := now =? sp c - 1 in
  (if closed c then 0
   else if armed && expired now c then 1
   else match a with
        | Quiet => if persisted c then 2 else if armed then 3 else 4
        | Rx _ => if persisted c then 5 else if armed then (if edge then 6 else 7) else 8
        | Req _ => if persisted c then 9 else 10
        end)%nat.
Fixpoint branches (c : conn) (sched : list (Z * action)) : list nat :=
  match sched with
  | [] => []
  | (now, a) :: r => branch now a c :: branches (pass now a c) r
  end.
Definition n_branches : nat := 11.
Definition case_branches (k : case) : list nat := branches (accept (k_T k) (k_t0 k)) (k_sched k).
