(* Model of the transmit side of hio.core.memo.memoing.Memoer
   (gramit, _serviceOnceTxGrams, serviceTxGramsOnce, serviceTxGrams) on top of
   the datagram send of hio.core.udp.udping.Peer.send / uxd.uxding.Peer.send
   (identical errno handling), as the code is after the two D24 repairs:
     - the remainder is stored in .txbs whenever the gram was not dropped,
       also when send accepted nothing;
     - the service loops also run while .txbs holds a remainder.
   Destinations are N.  One kernel sendto result is consumed per send call;
   an exhausted script means "accepts everything" (KAll). *)
From Hio Require Import Base.Prelude.

Inductive errno :=
| EAGAIN | EWOULDBLOCK | ENOBUFS | ENOMEM                      (* Peer.send returns 0 *)
| ECONNREFUSED | ENOENT | ECONNRESET | ENETRESET | ENETUNREACH
| EHOSTUNREACH | ENETDOWN | EHOSTDOWN | ETIMEDOUT | ETIME       (* Memoer drops the gram *)
| EMSGSIZE | EPERM | EINVAL | EPIPE | EBADF.                   (* re-raised *)

(* result of one socket.sendto call *)
Inductive kres :=
| KAcc (n : nat)      (* accepted min n len bytes *)
| KAll                (* accepted the whole datagram *)
| KErr (e : errno).   (* raised OSError(e) *)

(* what Peer.send makes of it *)
Inductive sres := SCnt (n : nat) | SFull | SRaise (e : errno).

Definition would_block (e : errno) : bool :=
  match e with EAGAIN | EWOULDBLOCK | ENOBUFS | ENOMEM => true | _ => false end.

Definition unreachable (e : errno) : bool :=
  match e with
  | ECONNREFUSED | ENOENT | ECONNRESET | ENETRESET | ENETUNREACH
  | EHOSTUNREACH | ENETDOWN | EHOSTDOWN | ETIMEDOUT | ETIME => true
  | _ => false
  end.

Definition peer_send (k : kres) : sres :=
  match k with
  | KAcc n => SCnt n
  | KAll => SFull
  | KErr e => if would_block e then SCnt 0 else SRaise e
  end.

Definition dst := N.
Record state := { txgs : list (bytes * dst);       (* deque of (gram, dst) *)
                  txbs : bytes * option dst;       (* (remainder, dst) ; dst None = idle *)
                  opened : bool }.

Definition init : state := {| txgs := []; txbs := ([], None); opened := true |}.

(* what the transport saw / what was discarded *)
Inductive event :=
| Sent (d : dst) (b : bytes)    (* bytes accepted by one send call (may be empty) *)
| Drop (d : dst) (b : bytes)    (* unsent remainder discarded: destination unreachable *)
| Lost (d : dst) (b : bytes).   (* newly dequeued gram gone because an unexpected error escaped *)

(* send attempt of remainder g to d; fresh = g was just popped from txgs.
   Returns new txbs, events, and the value returned / exception raised. *)
Definition attempt (g : bytes) (d : dst) (fresh : bool) (old : bytes * option dst) (r : sres)
  : (bytes * option dst) * list event * res bool :=
  let finish (cnt : nat) :=
      let k := Nat.min cnt (length g) in
      let g' := skipn k g in
      match g' with
      | [] => (([], None), [Sent d (firstn k g)], Ok true)
      | _ => ((g', Some d), [Sent d (firstn k g)], Ok false)
      end in
  match r with
  | SCnt n => finish n
  | SFull => finish (length g)
  | SRaise e =>
    if unreachable e then (([], None), [Drop d g], Ok true)
    else (old, if fresh then [Lost d g] else [], Exc OSErr)
  end.

(* _serviceOnceTxGrams: consumes one kernel result iff it reaches send *)
Definition next (ks : list kres) : kres * list kres :=
  match ks with [] => (KAll, []) | k :: ks' => (k, ks') end.

Definition once (s : state) (ks : list kres) : state * list kres * list event * res bool :=
  match txbs s with
  | (g, Some d) =>
    let (k, ks') := next ks in
    let '(b, ev, r) := attempt g d false (txbs s) (peer_send k) in
    ({| txgs := txgs s; txbs := b; opened := opened s |}, ks', ev, r)
  | (_, None) =>
    match txgs s with
    | [] => (s, ks, [], Ok false)
    | (g, d) :: q =>
      let (k, ks') := next ks in
      let '(b, ev, r) := attempt g d true (txbs s) (peer_send k) in
      ({| txgs := q; txbs := b; opened := opened s |}, ks', ev, r)
    end
  end.

Definition pending (s : state) : bool :=
  match txgs s with
  | _ :: _ => true
  | [] => match snd (txbs s) with Some _ => true | None => false end
  end.

(* serviceTxGrams: while opened and pending: if not once(): break.
   Every iteration that continues has completed or dropped a gram, so
   fuel = number of grams pending + 1 is enough (see MemoTxProofs.service_fuel). *)
Fixpoint service_loop (fuel : nat) (s : state) (ks : list kres)
  : state * list kres * list event * option exn :=
  match fuel with
  | O => (s, ks, [], Some RuntimeErr)   (* out of fuel: unreachable *)
  | S f =>
    if opened s && pending s then
      let '(s', ks', ev, r) := once s ks in
      match r with
      | Exc k => (s', ks', ev, Some k)
      | Ok false => (s', ks', ev, None)
      | Ok true =>
        let '(s'', ks'', ev', x) := service_loop f s' ks' in (s'', ks'', ev ++ ev', x)
      end
    else (s, ks, [], None)
  end.

Definition grams_pending (s : state) : nat :=
  length (txgs s) + match snd (txbs s) with Some _ => 1 | None => 0 end.

Definition service (s : state) (ks : list kres) := service_loop (S (grams_pending s)) s ks.

Definition service_once (s : state) (ks : list kres) : state * list kres * list event * option exn :=
  if opened s && pending s then
    let '(s', ks', ev, r) := once s ks in
    (s', ks', ev, match r with Exc k => Some k | Ok _ => None end)
  else (s, ks, [], None).

Inductive op :=
| Gramit (g : bytes) (d : dst)
| Service
| ServiceOnce
| SetOpened (b : bool).

Definition step (s : state) (ks : list kres) (o : op) : state * list kres * list event * option exn :=
  match o with
  | Gramit g d => ({| txgs := txgs s ++ [(g, d)]; txbs := txbs s; opened := opened s |}, ks, [], None)
  | Service => service s ks
  | ServiceOnce => service_once s ks
  | SetOpened b => ({| txgs := txgs s; txbs := txbs s; opened := b |}, ks, [], None)
  end.

(* a raised exception propagates to the caller of that op; the run goes on
   with the next op (the driver catches and records it) *)
Fixpoint run (s : state) (ks : list kres) (ops : list op)
  : state * list kres * list event * list (option exn) :=
  match ops with
  | [] => (s, ks, [], [])
  | o :: ops' =>
    let '(s', ks', ev, x) := step s ks o in
    let '(s'', ks'', ev', xs) := run s' ks' ops' in
    (s'', ks'', ev ++ ev', x :: xs)
  end.

(* ---- correspondence ---- *)
(* observed: per op the exception kind (or none), after the whole run the
   list of non-empty (dst, bytes) chunks the fake socket accepted, txgs and txbs. *)
Record case := { c_txbs0 : bytes * option dst;   (* .txbs handed to the constructor: (remainder, dst) or ([], None) *)
                 c_ops : list op;
                 c_script : list kres;
                 c_excs : list (option exn);
                 c_accepted : list (dst * bytes);
                 c_txgs : list (bytes * dst);
                 c_txbs : bytes * option dst }.

Definition sent_chunks (ev : list event) : list (dst * bytes) :=
  flat_map (fun e => match e with Sent d (x :: b) => [(d, x :: b)] | _ => [] end) ev.

Definition check_case (c : case) : bool :=
  let '(s, _, ev, xs) := run {| txgs := []; txbs := c_txbs0 c; opened := true |} (c_script c) (c_ops c) in
  list_eqb (option_eqb exn_eqb) xs (c_excs c) &&
  list_eqb (pair_eqb N.eqb bytes_eqb) (sent_chunks ev) (c_accepted c) &&
  list_eqb (pair_eqb bytes_eqb N.eqb) (txgs s) (c_txgs c) &&
  pair_eqb bytes_eqb (option_eqb N.eqb) (txbs s) (c_txbs c).

(* branch ids of the events and outcomes of a run *)
Definition ev_branch (e : event) : nat :=
  match e with
  | Sent _ [] => 0 | Sent _ _ => 1 | Drop _ _ => 2 | Lost _ _ => 3
  end.
Definition case_branches (c : case) : list nat :=
  let '(s, _, ev, xs) := run {| txgs := []; txbs := c_txbs0 c; opened := true |} (c_script c) (c_ops c) in
  map ev_branch ev
  ++ (if existsb (fun x => match x with Some _ => true | None => false end) xs then [4] else [])
  ++ (match snd (txbs s) with Some _ => [5] | None => [6] end)
  ++ (match txgs s with [] => [7] | _ => [8] end).
Definition n_branches : nat := 9.
