(* C14, general theorem, layer 6: the request target and the request line. *)
From Hio Require Import Base.Prelude Model.HttpReqUrl Model.HttpTotal Model.HttpReq
     Proofs.HttpReqProofs Proofs.HttpReqCodec Proofs.HttpReqQuery Proofs.HttpReqLines.
From Coq Require Import String ZifyBool.
Local Open Scope N_scope.

Ltac Zify.zify_post_hook ::= Z.to_euclidean_division_equations.

(* characters that can occur in a target built by the client *)
Definition tchar (c : N) : bool := always_safe c || mem_n c [47; 37; 43; 63; 61; 38].

Lemma tchar_facts : forall c, tchar c = true ->
  c < 128 /\ is_uspace c = false /\ is_c0_space c = false /\ mem_n c [9; 13; 10] = false /\
  N.eqb c 58 = false /\ N.eqb c 35 = false /\ N.eqb c 10 = false.
Proof.
  assert (H : forall c, c < 128 -> (negb (tchar c) || (negb (is_uspace c) && negb (is_c0_space c) && negb (mem_n c [9; 13; 10])
              && negb (N.eqb c 58) && negb (N.eqb c 35) && negb (N.eqb c 10))) = true).
  { apply all_below_spec. vm_compute. reflexivity. }
  intros c Hc.
  assert (Hlt : c < 128).
  { unfold tchar in Hc. apply orb_true_iff in Hc. destruct Hc as [Hc|Hc]; [now apply always_safe_ascii|].
    apply mem_n_in in Hc. cbn in Hc. lia. }
  specialize (H c Hlt). rewrite Hc in H. cbn [negb orb] in H.
  repeat (apply andb_true_iff in H; destruct H as [H ?]).
  repeat match goal with X : negb _ = true |- _ => apply negb_true_iff in X end.
  repeat split; assumption.
Qed.

Lemma filter_id {A} (p : A -> bool) l : forallb p l = true -> filter p l = l.
Proof.
  induction l as [|x l IH]; intros H; [reflexivity|]. cbn [forallb] in H. apply andb_true_iff in H.
  destruct H as [Hx Hl]. cbn [filter]. rewrite Hx. f_equal. now apply IH.
Qed.

Lemma partition1_notin c : forall s, mem_n c s = false -> partition1 c s = (s, false, []).
Proof.
  induction s as [|x s IH]; intros H; [reflexivity|].
  unfold mem_n in H. cbn [existsb] in H. apply orb_false_iff in H. destruct H as [Hx Hs].
  cbn [partition1]. rewrite N.eqb_sym in Hx. rewrite Hx, IH by exact Hs. reflexivity.
Qed.

Lemma forallb_notin (p : N -> bool) c s : forallb p s = true -> p c = false -> mem_n c s = false.
Proof.
  intros H Hc. destruct (mem_n c s) eqn:E; [|reflexivity]. apply mem_n_in in E.
  rewrite forallb_forall in H. specialize (H c E). congruence.
Qed.

(* urlsplit of an origin-form target *)
Lemma urlsplit_target o t' :
  starts_with [47] t' = false -> forallb tchar (47 :: t') = true ->
  urlsplit o (47 :: t') =
  Ok {| u_scheme := []; u_netloc := []; u_path := fst (fst (partition1 63 (47 :: t')));
        u_query := snd (partition1 63 (47 :: t')); u_fragment := [] |}.
Proof.
  intros Hs Ht. set (t := 47 :: t') in *.
  assert (Hall : forall c, In c t -> tchar c = true) by (now apply forallb_forall).
  assert (H1 : drop_while is_c0_space t = t) by reflexivity.
  assert (H2 : filter (fun c => negb (mem_n c [9; 13; 10])) t = t).
  { apply filter_id. apply forallb_forall. intros c Hc. apply negb_true_iff. now apply tchar_facts, Hall. }
  assert (H3 : partition1 58 t = (t, false, [])).
  { apply partition1_notin. apply (forallb_notin tchar); [exact Ht|reflexivity]. }
  assert (H4 : partition1 35 t = (t, false, [])).
  { apply partition1_notin. apply (forallb_notin tchar); [exact Ht|reflexivity]. }
  assert (H5 : starts_with [47; 47] t = false).
  { unfold t. cbn [starts_with]. rewrite N.eqb_refl. cbn [andb]. exact Hs. }
  unfold urlsplit. rewrite H1, H2, H3.
  cbv beta iota zeta. unfold t at 1. cbv beta iota zeta. cbn [andb]. cbv beta iota zeta.
  rewrite H5. cbv beta iota zeta.
  cbn [andb mem_n existsb xorb negb]. rewrite H4. cbv beta iota zeta.
  destruct (partition1 63 t) as [[pa hq] qu]. cbn [is_ascii_str forallb negb andb fst snd]. reflexivity.
Qed.

Lemma url_site_target o t' :
  starts_with [47] t' = false -> forallb tchar (47 :: t') = true ->
  url_site o (47 :: t') =
  Ok ({| u_scheme := []; u_netloc := []; u_path := fst (fst (partition1 63 (47 :: t')));
         u_query := snd (partition1 63 (47 :: t')); u_fragment := [] |}, None).
Proof.
  intros Hs Ht. unfold url_site. rewrite urlsplit_target by assumption. reflexivity.
Qed.

(* ---------- the target of a well formed request ---------- *)
Lemma qchar_tchar c : qchar [47] c = true -> tchar c = true.
Proof.
  unfold qchar, tchar, mem_n. cbn [existsb]. intros H.
  destruct (always_safe c); [reflexivity|]. cbn [orb] in *.
  destruct (N.eqb c 47); [reflexivity|]. destruct (N.eqb c 37); [reflexivity|]. discriminate.
Qed.

Lemma pchar_tchar c : pchar c = true -> tchar c = true.
Proof.
  unfold pchar, tchar, mem_n. cbn [existsb]. intros H.
  destruct (always_safe c); [reflexivity|]. cbn [orb] in *.
  destruct (N.eqb c 37); [now rewrite orb_true_r|]. destruct (N.eqb c 43); [now rewrite !orb_true_r|]. discriminate.
Qed.

Lemma forallb_impl {A} (p q : A -> bool) l : (forall x, p x = true -> q x = true) -> forallb p l = true -> forallb q l = true.
Proof. intros H Hp. rewrite forallb_forall in *. auto. Qed.

Lemma piece_tchar kv : pair_ok kv = true -> forallb tchar (piece kv) = true.
Proof.
  unfold pair_ok, piece. intros H. apply andb_true_iff in H. destruct H as [Hk Hv].
  rewrite forallb_app. cbn [forallb].
  rewrite (forallb_impl pchar tchar _ pchar_tchar (quote_plus_chars _ Hk)).
  rewrite (forallb_impl pchar tchar _ pchar_tchar (quote_plus_chars _ Hv)). reflexivity.
Qed.

Lemma join_tchar : forall ps, Forall (fun p => forallb tchar p = true) ps -> forallb tchar (join [38] ps) = true.
Proof.
  induction ps as [|p ps IH]; intros H; [reflexivity|]. inversion H as [|? ? Hp Hps]; subst.
  destruct ps as [|q ps']; [exact Hp|].
  change (join [38] (p :: q :: ps')) with (p ++ [38] ++ join [38] (q :: ps')).
  rewrite !forallb_app, Hp, IH by exact Hps. reflexivity.
Qed.

Lemma enc_pairs_tchar l : forallb pair_ok l = true -> forallb tchar (enc_pairs l) = true.
Proof.
  intros H. unfold enc_pairs. apply join_tchar. rewrite Forall_map, Forall_forall.
  rewrite forallb_forall in H. intros kv Hin. apply (piece_tchar kv). now apply H.
Qed.

Lemma quote_path_cons47 p : quote_path (47 :: p) = 47 :: quote_path p.
Proof. reflexivity. Qed.

Lemma enc1_head c : c <> 47 -> exists b bs, utf8_enc1 c = b :: bs /\ b <> 47.
Proof.
  intros Hc. unfold utf8_enc1.
  destruct (c <? 128) eqn:E1; [exists c, []; split; [reflexivity|exact Hc]|].
  destruct (c <? 2048) eqn:E2; [eexists; eexists; split; [reflexivity|lia]|].
  destruct ((55296 <=? c) && (c <=? 57343)) eqn:E3; [eexists; eexists; split; [reflexivity|lia]|].
  destruct (c <? 65536) eqn:E4; eexists; eexists; (split; [reflexivity|lia]).
Qed.

Lemma quote_path_head c p x : c <> 47 -> starts_with [47] (quote_path (c :: p) ++ x) = false.
Proof.
  intros Hc. unfold quote_path, quote, utf8_enc. cbn [flat_map].
  destruct (enc1_head c Hc) as [b [bs [E Hb]]]. rewrite E. cbn [app flat_map].
  unfold quote_byte at 1. destruct (always_safe b || mem_n b [47]) eqn:Es.
  - cbn [app starts_with]. apply N.eqb_neq in Hb. rewrite N.eqb_sym, Hb. reflexivity.
  - reflexivity.
Qed.

Record target_facts (r : request) : Prop := {
  tf_shape : exists t', target r = 47 :: t' /\ starts_with [47] t' = false;
  tf_chars : forallb tchar (target r) = true;
  tf_split : fst (fst (partition1 63 (target r))) = quote_path (q_path r) /\
             snd (partition1 63 (target r)) = enc_pairs (q_qargs r) }.

Lemma target_ok r : wf_path (q_path r) = true -> forallb pair_ok (q_qargs r) = true -> target_facts r.
Proof.
  intros Hp Hq. unfold wf_path in Hp. apply andb_true_iff in Hp. destruct Hp as [Htext Hp].
  destruct (q_path r) as [|c0 p] eqn:Ep; [discriminate|].
  destruct (N.eq_dec c0 47) as [->|Hne].
  2:{ exfalso. destruct c0 as [|pc]; [discriminate|].
      repeat (destruct pc as [pc|pc|]; try discriminate). congruence. }
  apply andb_true_iff in Hp. destruct Hp as [Hnn Hno].
  assert (Hqp : forallb tchar (quote_path (47 :: p)) = true).
  { apply (forallb_impl (qchar [47]) tchar _ qchar_tchar). apply quote_chars. exact Htext. }
  assert (H63 : mem_n 63 (quote_path (47 :: p)) = false).
  { apply quote_notin; [exact Htext|reflexivity]. }
  split; unfold target; rewrite Ep.
  - rewrite quote_path_cons47. eexists. split; [reflexivity|].
    destruct p as [|c p'].
    + cbn [quote_path quote utf8_enc flat_map app]. destruct (enc_pairs (q_qargs r)); reflexivity.
    + apply quote_path_head. cbn [starts_with] in Hnn. apply negb_true_iff in Hnn.
      rewrite andb_true_r in Hnn. apply N.eqb_neq in Hnn. congruence.
  - rewrite forallb_app, Hqp. cbn [andb].
    destruct (enc_pairs (q_qargs r)) as [|x y] eqn:E; [reflexivity|].
    cbv iota. rewrite <- E. change (forallb tchar (63 :: enc_pairs (q_qargs r))) with (tchar 63 && forallb tchar (enc_pairs (q_qargs r))).
    change (tchar 63) with true. cbn [andb]. now apply enc_pairs_tchar.
  - destruct (enc_pairs (q_qargs r)) as [|x y] eqn:E.
    + rewrite app_nil_r, partition1_notin by exact H63. split; reflexivity.
    + rewrite partition1_sep by exact H63. split; reflexivity.
Qed.

(* ---------- the request line ---------- *)
Lemma methods_facts m : existsb (ustr_eqb m) METHODS = true ->
  no_ws m = true /\ m <> [] /\ mem_n 10 m = false.
Proof.
  intros H. apply existsb_exists in H. destruct H as [x [Hin He]]. apply ustr_eqb_eq in He. subst x.
  cbn in Hin. repeat (destruct Hin as [<-|Hin]; [repeat split; (reflexivity || discriminate)|]). destruct Hin.
Qed.

Lemma tchar_no_ws t : forallb tchar t = true -> no_ws t = true /\ mem_n 10 t = false.
Proof.
  intros H. split.
  - unfold no_ws. eapply forallb_impl; [|exact H]. intros c Hc. apply negb_true_iff. now apply tchar_facts.
  - apply (forallb_notin tchar); [exact H|reflexivity].
Qed.

Lemma request_line_start o r :
  existsb (ustr_eqb (q_method r)) METHODS = true -> target_facts r ->
  request_line o (start_line r) =
  Ok (q_method r, false,
      {| u_scheme := []; u_netloc := []; u_path := quote_path (q_path r);
         u_query := enc_pairs (q_qargs r); u_fragment := [] |})
  /\ nth 1 (split_ws (start_line r)) [] = target r
  /\ mem_n 10 (start_line r) = false.
Proof.
  intros Hm [[t' [Et Hs]] Hc [Hp Hq]].
  destruct (methods_facts _ Hm) as [Hmw [Hmn Hml]].
  destruct (tchar_no_ws _ Hc) as [Htw Htl].
  assert (Hsplit : split_ws (start_line r) = [q_method r; target r; str "HTTP/1.1"]).
  { unfold start_line. apply split_ws_three; try assumption; try reflexivity; try discriminate.
    rewrite Et. discriminate. }
  split; [|split].
  - unfold request_line. rewrite Hsplit.
    destruct (start_line r) as [|x y] eqn:E.
    { exfalso. unfold start_line in E. destruct (q_method r); [congruence|discriminate]. }
    cbn [nth]. change (starts_with (str "HTTP/") (str "HTTP/1.1")) with true.
    change (starts_with (str "HTTP/1.") (str "HTTP/1.1")) with true.
    change (starts_with (str "HTTP/1.0") (str "HTTP/1.1")) with false.
    cbn [negb]. rewrite Hm. cbn [negb].
    rewrite Et. rewrite url_site_target; [|exact Hs|rewrite <- Et; exact Hc].
    cbn [bind fst]. rewrite <- Et, Hp, Hq. reflexivity.
  - rewrite Hsplit. reflexivity.
  - unfold start_line. rewrite mem_n_app, Hml. cbn [orb]. unfold mem_n. cbn [existsb].
    fold (mem_n 10 (target r ++ 32 :: str "HTTP/1.1")). rewrite mem_n_app, Htl. reflexivity.
Qed.
