(* C04, arbitrary depth — whole runs: do_run of a static regrouping TREE computes
   tspec_run; with Proofs/SchedTreeSim.v the leaf view of the nested run equals
   the leaf view of the flat run. *)
From Coq Require Import Permutation.
From Hio Require Import Base.Prelude Base.AMap Base.Time Model.Sched
  Proofs.SchedEqs Proofs.SchedFrame Proofs.SchedFlatDefs Proofs.SchedFlatRun Proofs.SchedFlatTop
  Proofs.SchedTreeDefs Proofs.SchedTreeRun Proofs.SchedTreeSim.

Section TTop.
Context {T : Type} `{Time T}.

(* ---------- tables with one entry per group ---------- *)

Lemma gtabt_leaf {V} (h : id -> list (gtree T) -> V) l r : gtabt h (TLeaf l :: r) = gtabt h r.
Proof. reflexivity. Qed.
Lemma gtabt_group {V} (h : id -> list (gtree T) -> V) n kids r :
  gtabt h (TGroup n kids :: r) = (n, h n kids) :: gtabt h kids ++ gtabt h r.
Proof. reflexivity. Qed.
Lemma gnest_leaf (l : leaf T) r : gnest_ids (TLeaf l :: r) = gnest_ids r.
Proof. reflexivity. Qed.
Lemma gnest_group n (kids r : list (gtree T)) : gnest_ids (TGroup n kids :: r) = n :: gnest_ids kids ++ gnest_ids r.
Proof. reflexivity. Qed.

Lemma keys_gtabt {V} (h : id -> list (gtree T) -> V) : forall gs, map fst (gtabt h gs) = gnest_ids gs.
Proof.
  induction gs as [|l r IH|n kids r IHk IH] using gtrees_ind; [reflexivity| |].
  - now rewrite gtabt_leaf, gnest_leaf.
  - rewrite gtabt_group, gnest_group. cbn [map fst]. now rewrite map_app, IHk, IH.
Qed.

Lemma get_mid {V} (pre : amap V) n v rest : NoDup (map fst (pre ++ (n, v) :: rest)) -> get (pre ++ (n, v) :: rest) n = Some v.
Proof.
  induction pre as [|[k w] pre IH]; cbn [app map fst get]; intro N.
  - now rewrite N.eqb_refl.
  - apply NoDup_cons_iff in N as [Nk N].
    destruct (N.eqb n k) eqn:E; [|now apply IH].
    apply N.eqb_eq in E. subst k. exfalso. apply Nk. rewrite map_app. apply in_or_app. right. now left.
Qed.

(* every group of the forest is found in the table under its own id *)
Fixpoint look1 {V} (h : id -> list (gtree T) -> V) (tab : amap V) (g : gtree T) : Prop :=
  match g with
  | TLeaf _ => True
  | TGroup n kids => get tab n = Some (h n kids) /\ all (look1 h tab) kids
  end.

Lemma looks_zip {V} (h : id -> list (gtree T) -> V) : forall gs pre post,
  NoDup (map fst (pre ++ gtabt h gs ++ post)) -> all (look1 h (pre ++ gtabt h gs ++ post)) gs.
Proof.
  induction gs as [|l r IH|n kids r IHk IH] using gtrees_ind; intros pre post N.
  - exact I.
  - cbn [all look1]. split; [exact I|]. rewrite gtabt_leaf in *. now apply IH.
  - cbn [all look1]. rewrite gtabt_group in *. split; [split|].
    + cbn [app] in *. now apply get_mid.
    + specialize (IHk (pre ++ [(n, h n kids)]) (gtabt h r ++ post)).
      replace ((pre ++ [(n, h n kids)]) ++ gtabt h kids ++ gtabt h r ++ post)
        with (pre ++ ((n, h n kids) :: gtabt h kids ++ gtabt h r) ++ post) in IHk
        by (rewrite <- !app_assoc; cbn [app]; now rewrite <- !app_assoc).
      now apply IHk.
    + specialize (IH (pre ++ (n, h n kids) :: gtabt h kids) post).
      replace ((pre ++ (n, h n kids) :: gtabt h kids) ++ gtabt h r ++ post)
        with (pre ++ ((n, h n kids) :: gtabt h kids ++ gtabt h r) ++ post) in IH
        by (rewrite <- !app_assoc; cbn [app]; now rewrite <- !app_assoc).
      now apply IH.
Qed.

Lemma scheds_tnest_defs (z0 : T) : forall (gs : list (gtree T)),
  flat_map sched_of_def (tnest_defs z0 gs) =
  gtabt (fun _ kids => {| doers := map gt_top kids; deeds := [] |}) gs.
Proof.
  unfold tnest_defs. induction gs as [|l r IH|n kids r IHk IH] using gtrees_ind; [reflexivity| |].
  - now rewrite !gtabt_leaf.
  - rewrite !gtabt_group.
    change (flat_map sched_of_def ((n, FNest z0 false (map gt_top kids)) :: ?l)) with
      (sched_of_def (n, FNest z0 false (map gt_top kids)) ++ flat_map sched_of_def l).
    rewrite flat_map_app. cbn [sched_of_def app].
    f_equal. f_equal; [exact IHk|exact IH].
Qed.

Lemma gflatten_leaf' (l : leaf T) r : gflatten (TLeaf l :: r) = l :: gflatten r.
Proof. reflexivity. Qed.
Lemma gflatten_group' n (kids r : list (gtree T)) : gflatten (TGroup n kids :: r) = gflatten kids ++ gflatten r.
Proof. reflexivity. Qed.

Lemma gts_ids_perm : forall (gs : list (gtree T)), Permutation (gts_ids gs) (map lf_id (gflatten gs) ++ gnest_ids gs).
Proof.
  induction gs as [|l r IH|n kids r IHk IH] using gtrees_ind; [constructor| |].
  - rewrite gts_ids_leaf, gflatten_leaf', gnest_leaf. cbn [map app]. now constructor.
  - rewrite gts_ids_group, gflatten_group', gnest_group, map_app.
    set (Lk := map lf_id (gflatten kids)) in *. set (Lr := map lf_id (gflatten r)) in *.
    set (Nk := gnest_ids kids) in *. set (Nr := gnest_ids r) in *.
    apply Permutation_trans with (n :: (Lk ++ Lr) ++ (Nk ++ Nr)); [|apply Permutation_middle].
    apply perm_skip.
    apply Permutation_trans with ((Lk ++ Nk) ++ (Lr ++ Nr)); [now apply Permutation_app|].
    rewrite <- !app_assoc. apply Permutation_app_head. rewrite !app_assoc. apply Permutation_app_tail.
    apply Permutation_app_comm.
Qed.

Variables (tk : T) (limit : option T) (t0 z0 : T).

Section TProg.
Variable gs : list (gtree T).
Hypothesis WF : wf_tree gs.

Let p := tnest_prog tk limit t0 z0 gs.
Let ids := map lf_id (gflatten gs).
Let vis := 0%N :: ids.

Lemma tnd_parts : ~ In 0%N (ids ++ gnest_ids gs) /\ NoDup ids /\ NoDup (gnest_ids gs) /\
  (forall x, In x ids -> ~ In x (gnest_ids gs)) /\ NoDup (ids ++ gnest_ids gs).
Proof.
  destruct WF as [ND _]. apply NoDup_cons_iff in ND as [N0 ND].
  split; [exact N0|]. split; [eapply NoDup_app_l; exact ND|]. split; [eapply NoDup_app_r; exact ND|].
  split; [apply NoDup_app_disj; exact ND|exact ND].
Qed.

Lemma keys_leaf_defs (ls : list (leaf T)) : map fst (map leaf_def ls) = map lf_id ls.
Proof. rewrite map_map. reflexivity. Qed.

Lemma defs_look : all (look1 (fun _ kids => FNest z0 false (map gt_top kids)) (defs (init_st p))) gs.
Proof.
  destruct tnd_parts as (_ & _ & _ & _ & ND).
  cbn [init_st defs p tnest_prog p_defs]. unfold tnest_defs.
  rewrite <- (app_nil_r (gtabt _ gs)). apply looks_zip.
  rewrite app_nil_r, map_app, keys_leaf_defs, keys_gtabt. exact ND.
Qed.

Lemma scheds_look :
  all (look1 (fun _ kids => {| doers := map gt_top kids; deeds := [] |}) (scheds (init_st p))) gs.
Proof.
  destruct WF as [ND _].
  cbn [init_st scheds]. unfold init_scheds. fold (@sched_of_def T).
  change (p_defs p) with (map leaf_def (gflatten gs) ++ tnest_defs z0 gs).
  rewrite flat_map_app, scheds_leaf_defs, scheds_tnest_defs. cbn [app].
  set (root := (0%N, {| doers := p_doers p; deeds := [] |})).
  change (root :: gtabt (fun _ kids => {| doers := map gt_top kids; deeds := [] |}) gs)
    with ([root] ++ gtabt (fun _ kids => {| doers := map gt_top kids; deeds := ([] : list (deed T)) |}) gs).
  rewrite <- (app_nil_r (gtabt _ gs)). apply looks_zip.
  rewrite app_nil_r, map_app, keys_gtabt. cbn [map fst root app].
  apply NoDup_cons_iff in ND as [N0 ND]. constructor.
  - intro X. apply N0. apply in_or_app. now right.
  - eapply NoDup_app_r; exact ND.
Qed.

Lemma tleaf_in_init l : In l (gflatten gs) -> leaf_in (defs (init_st p)) l.
Proof.
  intro Hin. destruct tnd_parts as (_ & NDi & _). split.
  - cbn [init_st defs p tnest_prog p_defs]. apply get_app_some. now apply get_leaf_defs.
  - destruct WF as [_ P]. rewrite forallb_forall in P. now apply P.
Qed.

Lemma g_wf_from D : forall gs',
  all (look1 (fun _ kids => FNest z0 false (map gt_top kids)) D) gs' ->
  (forall l, In l (gflatten gs') -> leaf_in D l /\ In (lf_id l) vis) ->
  (forall n, In n (gnest_ids gs') -> ~ In n vis) ->
  all (g_wf1 vis z0 D) gs'.
Proof.
  induction gs' as [|l r IH|n kids r IHk IH] using gtrees_ind; intros Lk Hl Hn.
  - exact I.
  - cbn [all g_wf1 look1] in *. split; [apply Hl; rewrite gflatten_leaf'; now left|].
    apply IH; [apply Lk| |exact Hn]. intros l' Hl'. apply Hl. rewrite gflatten_leaf'. now right.
  - cbn [all g_wf1 look1] in *. destruct Lk as [[Dn Lkk] Lr]. split; [split; [|split]|].
    + apply Hn. rewrite gnest_group. now left.
    + eexists. exact Dn.
    + apply IHk; [exact Lkk| |].
      * intros l' Hl'. apply Hl. rewrite gflatten_group'. apply in_or_app. now left.
      * intros m Hm. apply Hn. rewrite gnest_group. right. apply in_or_app. now left.
    + apply IH; [exact Lr| |].
      * intros l' Hl'. apply Hl. rewrite gflatten_group'. apply in_or_app. now right.
      * intros m Hm. apply Hn. rewrite gnest_group. right. apply in_or_app. now right.
Qed.

Lemma g_st_from (s : st T) : forall gs',
  all (look1 (fun _ kids => {| doers := map gt_top kids; deeds := [] |}) (scheds s)) gs' ->
  all (g_st1 s) gs'.
Proof.
  induction gs' as [|l r IH|n kids r IHk IH] using gtrees_ind; intro Lk.
  - exact I.
  - cbn [all g_st1 look1] in *. split; [exact I|]. apply IH, Lk.
  - cbn [all g_st1 look1] in *. destruct Lk as [[Dn Lkk] Lr]. unfold get_sched. rewrite Dn.
    split; [split; [reflexivity|split; [reflexivity|auto]]|auto].
Qed.

Lemma gs_wf_init_t : all (g_wf1 vis z0 (defs (init_st p))) gs /\ all (g_st1 (init_st p)) gs.
Proof.
  destruct tnd_parts as (N0 & NDi & NDn & Disj & _). split.
  - apply g_wf_from; [exact defs_look| |].
    + intros l Hl. split; [now apply tleaf_in_init|]. right. now apply in_map.
    + intros n Hn [Heq|Hin]; [subst n; apply N0; apply in_or_app; now right|exact (Disj n Hin Hn)].
  - apply g_st_from. exact scheds_look.
Qed.

Lemma nd_gts_ids : NoDup (0%N :: gts_ids gs).
Proof.
  destruct WF as [ND _]. eapply Permutation_NoDup; [|exact ND].
  apply perm_skip. symmetry. apply gts_ids_perm.
Qed.

Lemma ok_init_t : out_ok vis (init_st p) out0.
Proof.
  split; [reflexivity|]. intros i _. unfold get_done, out0, upd; cbn [init_st dones get o_dn].
  destruct (N.eqb i 0); reflexivity.
Qed.

Lemma view_ok_t (s : st T) (o : out T) : out_ok vis s o -> leaf_view ids s = view_of ids (tyme s, o).
Proof.
  intros [E D]. unfold leaf_view, view_of; cbn [fst snd]. f_equal. f_equal.
  - rewrite filter_rev'. f_equal. exact E.
  - apply map_ext_in. intros i Hi. now apply D.
Qed.

Theorem tree_run_spec cycles f :
  oof (do_run cycles f p) = false ->
  exists r, tspec_run tk (tabs z0) cycles limit t0 gs = Some r /\
            leaf_view ids (do_run cycles f p) = view_of ids r.
Proof.
  intro O. unfold do_run in *.
  change (p_tock p) with tk in *. change (p_doers p) with (map gt_top gs) in *. change (p_limit p) with limit in *.
  destruct (enter_own tk f (init_st p) 0%N (map gt_top gs)) as [s1 r] eqn:Ee.
  assert (O1 : oof s1 = false).
  { destruct r; try exact O.
    - apply oof_cycle_loop in O. exact O.
    - apply oof_cycle_loop in O. exact O.
    - rewrite oof_emit in O. now apply oof_close_own in O. }
  destruct gs_wf_init_t as [W St].
  assert (GN : forall x, In x (gts_ids gs) -> get_gen (init_st p) x = GNew) by reflexivity.
  assert (V0 : In 0%N vis) by now left.
  destruct (enter_all vis tk z0 f) as [En _].
  destruct (En 0%N gs (init_st p) out0 s1 r Ee O1 GN W St nd_gts_ids ok_init_t)
    as (its & o1 & He & -> & Dq & G & OK & F).
  change (tyme (init_st p)) with t0 in He.
  assert (T1 : tyme s1 = t0) by (destruct F as (-> & _); reflexivity).
  destruct (tenter_wf vis z0 t0 (defs (init_st p)) gs out0 its o1 He) as [Sub Wf].
  assert (R : Rept vis z0 (set_rlive s1 true) its o1).
  { split; [exact Dq|]. split; [apply ts_ok_rlive; exact G|].
    split; [change (defs (set_rlive s1 true)) with (defs s1); destruct F as (_ & -> & _); auto|].
    split; [eapply subl_NoDup; [apply subl_keep; exact Sub|exact nd_gts_ids]|].
    destruct OK as [E D]. split; assumption. }
  rewrite T1 in O |- *.
  destruct (cycle_spec_t vis tk z0 V0 cycles f (set_rlive s1 true) its o1 _ _ O R)
    as (t' & o' & Hs & Ht & OK').
  change (tyme (set_rlive s1 true)) with (tyme s1) in Hs. rewrite T1 in Hs.
  exists (t', o'). split.
  - unfold tspec_run. rewrite He. exact Hs.
  - rewrite (view_ok_t _ _ OK'). now rewrite Ht.
Qed.

End TProg.

(* ---------- flat vs tree ---------- *)

Lemma gflatten_tleaves (ls : list (leaf T)) : gflatten (map TLeaf ls) = ls.
Proof. induction ls as [|l ls IH]; [reflexivity|]. cbn [map]. now rewrite gflatten_leaf', IH. Qed.
Lemma gnest_tleaves (ls : list (leaf T)) : gnest_ids (map TLeaf ls) = [].
Proof. induction ls as [|l ls IH]; [reflexivity|]. cbn [map]. now rewrite gnest_leaf. Qed.
Lemma tnest_defs_tleaves (ls : list (leaf T)) : tnest_defs z0 (map TLeaf ls) = [].
Proof. unfold tnest_defs. induction ls as [|l ls IH]; [reflexivity|]. cbn [map]. now rewrite gtabt_leaf. Qed.

Lemma flat_prog_tleaves (ls : list (leaf T)) :
  flat_prog tk limit t0 ls = tnest_prog tk limit t0 z0 (map TLeaf ls).
Proof.
  unfold flat_prog, tnest_prog. rewrite gflatten_tleaves, tnest_defs_tleaves, app_nil_r, map_map. reflexivity.
Qed.

Lemma wf_tleaves (gs : list (gtree T)) : wf_tree gs -> wf_tree (map TLeaf (gflatten gs)).
Proof.
  intros [ND P]. split; [|now rewrite gflatten_tleaves].
  rewrite gflatten_tleaves, gnest_tleaves, app_nil_r.
  apply NoDup_cons_iff in ND as [N0 ND]. constructor.
  - intro X. apply N0. apply in_or_app. now left.
  - eapply NoDup_app_l; exact ND.
Qed.

Theorem flatten_deep_run (gs : list (gtree T)) c1 f1 c2 f2 :
  flat_laws tk z0 -> wf_tree gs ->
  forallb no_asap_then_positive (tgrouped_leaves gs) = true ->
  oof (do_run c1 f1 (tnest_prog tk limit t0 z0 gs)) = false ->
  oof (do_run c2 f2 (flat_prog tk limit t0 (gflatten gs))) = false ->
  leaf_view (map lf_id (gflatten gs)) (do_run c1 f1 (tnest_prog tk limit t0 z0 gs)) =
  leaf_view (map lf_id (gflatten gs)) (do_run c2 f2 (flat_prog tk limit t0 (gflatten gs))).
Proof.
  intros (L1 & L2 & L3) WF Hy O1 O2.
  rewrite flat_prog_tleaves in *.
  destruct (tree_run_spec gs WF c1 f1 O1) as (r1 & S1 & V1).
  destruct (tree_run_spec (map TLeaf (gflatten gs)) (wf_tleaves gs WF) c2 f2 O2) as (r2 & S2 & V2).
  rewrite gflatten_tleaves in V2. rewrite V1, V2. f_equal.
  exact (tspec_run_sim tk (tabs z0) L1 L2 L3 c1 c2 limit t0 gs r1 r2 Hy S1 S2).
Qed.

End TTop.
