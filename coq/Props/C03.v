(* C03 — see manifest.d/C03.json: what is proved for the scheduler model so far is
   the lifecycle invariant (Props/C01.v); this file restates the part of it that
   C03 relies on, so that the check of C03 fails when the model or that proof breaks.
   The property itself is decided by the correspondence and the direct oracle of
   harness/drivers/c03.py on every run. *)
From Hio Require Import Base.Prelude Base.AMap Base.Time Model.Sched Proofs.SchedLife Proofs.SchedTop.

Theorem C03_lifecycles_core :
  forall (T : Type) (TT : Time T) (cycles fuel : nat) (p : prog T) (j : id),
    life_ok (get_gen (do_run cycles fuel p) j) (events j (do_run cycles fuel p)).
Proof. intros. apply do_run_lifecycles. Qed.
Print Assumptions C03_lifecycles_core.
