"""C11 — closing a TCP endpoint releases every socket it opened.

The real hio.core.tcp Server / ServerTls / Client / ClientTls are driven over a fake `socket` module
(a shim put into the hio module namespace for the duration of one case) whose socket objects count
close() calls.  A case is an event sequence; after every event the set of socket ids that were
created for the endpoint and not yet closed is observed and compared with the Gallina model
(coq/Model/TcpSock.v), and the property is checked directly: after every `close` nothing is open
(server), and a client never holds more than one open socket and none after `close`.
"""
import errno as _errno
import socket as _socket
import ssl as _ssl

from harness.core import coq_N, coq_list, coq_bool, coq_res, exn_kind

PROP = "C11"
COQ_REQUIRES = ["Hio.Model.TcpSock"]
COQ_CHECK = "TcpSock.check_case"
COQ_CASE_TYPE = "TcpSock.case"
COQ_BRANCHES = ("TcpSock.case_branches", "TcpSock.n_branches")
SHARD = 150
RULE = ("event sequences over a plain or TLS tcp Server (listen backlog bl 1, 2, 3 or the default 128; batches of 0-6 accepted "
        "connections, so bursts exceed bl; reopen incl. failing bind / serviceAccepts / serviceAxes / "
        "serviceCxes / serviceConnects with batches of accepted connections from 4 peer addresses, each fine / "
        "malformed / already reset by the peer (getpeername raises ENOTCONN or ECONNABORTED), and with a TLS handshake script (WANT_READ / WANT_WRITE / ok / SSL EOF / other SSLError / OSError ECONNABORTED / ECONNRESET / ETIMEDOUT / EPIPE / non-OSError exception); receive outcomes "
        "data/eof/reset/unexpected error; removeIx / closeIx / close) and over a plain or TLS Client (open / reopen / "
        "close / accept and serviceConnect with connect_ex outcomes ok/in-progress/refused/raise, timer expiry, TLS "
        "handshake outcomes); a case is non-trivial when at least one socket is held outside `ixes` (pending "
        "handshake, replaced, cut off, queued in axes) or was replaced at the time of a close (server), or at least "
        "two sockets were created (client)")
MODELLED = ["socket objects (fake socket module: ids in creation order, close() counted; TLS wrap keeps the id of the "
            "wrapped socket, as SSLSocket takes over the descriptor)",
            "dict iteration order (ordered association list: overwrite in place, new key appended)",
            "Tymer expiry of the client reconnect timer (an input bit of the event)",
            "CPython's refcount finaliser closing unreachable sockets is not credited: explicit close() only"]

NCA = 4
HS = ["want", "wantw", "ok", "eof", "ssl", "os", "reset", "timedout", "pipe", "exc"]
HS_W = [5, 1, 5, 1, 1, 1, 1.2, 0.6, 0.6, 0.4]
RECV = ["data", "eof", "reset", "err"]
COUT = ["ok", "inprog", "refused", "raise"]


def ca_of(k):
    return ("10.0.0.%d" % (k + 1), 40000 + k)


# --------------------------------------------------------------------------- fake socket world

class World:
    """All fake sockets of one case; ids in creation order."""

    def __init__(self, port=56000):
        self.socks = []          # cores
        self.port = port
        self.bindfail = False
        self.connect_outcome = "inprog"
        self.hs_outcome = "want"
        self.send_cap = None
        self.send_fail = None

    def new_core(self, **kw):
        c = Core(self, len(self.socks), **kw)
        self.socks.append(c)
        return c

    def open_ids(self):
        return [c.id for c in self.socks if c.closes == 0]


class Core:
    def __init__(self, world, id, peer=None, name=None, badpeer=False, hs=None, role="new"):
        self.world, self.id, self.role = world, id, role
        self.closes = 0
        self.shutdowns = 0
        self.peer, self.name, self.badpeer = peer, name, badpeer
        self.hs = list(hs or [])
        self.next_recv = None
        self.queue = []          # listen socket: pending (ca index, bad, hs)
        self.tls = False
        self.sent = bytearray()
        self.chunks = []         # scripted recv chunks (used by C12)
        self.dead = False        # the peer has reset / the connection failed: shutdown() raises from now on


class FakeSock:
    """Plain fake socket (listen, accepted or client)."""

    def __init__(self, core):
        self.core = core

    def __bool__(self):
        return True

    # --- option plumbing
    def setsockopt(self, *a): pass
    def getsockopt(self, *a): return 1 << 20
    def setblocking(self, x): pass
    def settimeout(self, x): pass
    def fileno(self): return -1 if self.core.closes else 1000 + self.core.id

    def bind(self, ha):
        if self.core.world.bindfail:
            raise OSError(_errno.EADDRINUSE, "Address already in use")
        self.core.name = (ha[0] or "0.0.0.0", ha[1])

    def listen(self, bl): pass

    def getsockname(self):
        return self.core.name

    def getpeername(self):
        if self.core.badpeer == "gone":      # reset by the peer before the server looked at it
            e = _errno.ENOTCONN if self.core.id % 2 else _errno.ECONNABORTED
            raise OSError(e, "Transport endpoint is not connected" if self.core.id % 2 else "Software caused connection abort")
        if self.core.badpeer:
            return ("192.0.2.99", 9)
        return self.core.peer

    def accept(self):
        c = self.core
        if c.closes:
            raise OSError(_errno.EBADF, "Bad file descriptor")
        if not c.queue:
            raise BlockingIOError(_errno.EAGAIN, "Resource temporarily unavailable")
        item = c.queue.pop(0)
        k, bad, hs = item[:3]
        n = c.world.new_core(peer=ca_of(k), name=("127.0.0.1", c.world.port), badpeer=bad, hs=hs, role="accepted")
        n.chunks.extend(item[3] if len(item) > 3 else [])   # bytes already in flight (C12)
        return FakeSock(n), ca_of(k)

    def connect_ex(self, ha):
        o = self.core.world.connect_outcome
        if o == "raise":
            raise OSError(_errno.ENETUNREACH, "Network is unreachable")
        if o == "ok":
            self.core.peer = ha
            self.core.name = ("127.0.0.1", 50000 + self.core.id)
            return 0
        if o == "refused":
            return _errno.ECONNREFUSED
        if o == "einval":
            return _errno.EINVAL
        return _errno.EINPROGRESS

    def shutdown(self, how):
        self.core.shutdowns += 1
        if self.core.peer is None or self.core.badpeer == "gone" or self.core.dead:
            # never connected, or the peer has reset the connection: the kernel refuses the shutdown
            raise OSError(_errno.ENOTCONN, "Transport endpoint is not connected")

    def close(self):
        self.core.closes += 1

    def _wouldblock(self):
        if self.core.tls:
            return _ssl.SSLWantReadError(_ssl.SSL_ERROR_WANT_READ, "The operation did not complete (read)")
        return BlockingIOError(_errno.EAGAIN, "Resource temporarily unavailable")

    def recv(self, bs):
        c = self.core
        if c.chunks:
            return c.chunks.pop(0)
        o, c.next_recv = c.next_recv, None
        if o is None:
            raise self._wouldblock()
        if o == "data":
            return b"x"
        if o == "eof":
            return b""
        c.dead = True
        if o == "reset":
            raise ConnectionResetError(_errno.ECONNRESET, "Connection reset by peer")
        raise OSError(_errno.EIO, "Input/output error")

    def send(self, data):
        fail = self.core.world.send_fail     # the peer is gone: every send fails with this errno
        if fail:
            raise OSError(fail, "send failed")
        cap = self.core.world.send_cap      # None: the kernel takes everything; 0: would block; n: takes at most n
        if cap is None:
            n = len(data)
        elif cap == 0:
            if self.core.tls:
                raise _ssl.SSLWantWriteError(_ssl.SSL_ERROR_WANT_WRITE, "The operation did not complete (write)")
            raise BlockingIOError(_errno.EAGAIN, "Resource temporarily unavailable")
        else:
            n = min(cap, len(data))
        self.core.sent.extend(data[:n])
        return n

    # --- TLS side (only reached through FakeContext.wrap_socket)
    def do_handshake(self):
        c = self.core
        if c.role == "accepted":
            o = c.hs.pop(0) if c.hs else "want"     # accepted socket: scripted
        else:
            o = c.world.hs_outcome                  # client socket: outcome of the current event
        if o == "want":
            raise _ssl.SSLWantReadError(_ssl.SSL_ERROR_WANT_READ, "The operation did not complete (read)")
        if o == "wantw":
            raise _ssl.SSLWantWriteError(_ssl.SSL_ERROR_WANT_WRITE, "The operation did not complete (write)")
        if o == "ok":
            return
        if o == "reset":
            raise ConnectionResetError(_errno.ECONNRESET, "Connection reset by peer")
        if o == "timedout":
            raise TimeoutError(_errno.ETIMEDOUT, "Connection timed out")
        if o == "pipe":
            raise BrokenPipeError(_errno.EPIPE, "Broken pipe")
        if o == "eof":
            raise _ssl.SSLError(_ssl.SSL_ERROR_EOF, "EOF occurred in violation of protocol")
        if o == "ssl":
            raise _ssl.SSLError(_ssl.SSL_ERROR_SSL, "tlsv1 alert unknown ca")
        if o == "os":
            raise OSError(_errno.ECONNABORTED, "Software caused connection abort")
        raise RuntimeError("unexpected failure in do_handshake")


class FakeContext:
    """Stands in for ssl.SSLContext: wrap_socket hands the descriptor (the core) to a new object."""
    verify_mode = _ssl.CERT_NONE
    check_hostname = False

    def wrap_socket(self, sock, server_side=False, do_handshake_on_connect=True, server_hostname=None, **kw):
        sock.core.tls = True
        return FakeSock(sock.core)

    def load_default_certs(self, *a, **k): pass
    def load_verify_locations(self, *a, **k): pass
    def load_cert_chain(self, *a, **k): pass


class SockShim:
    """Proxy of the socket module whose `socket` constructor makes fakes."""

    def __init__(self, world):
        self._world = world

    def __getattr__(self, name):
        return getattr(_socket, name)

    def socket(self, *a, **k):
        return FakeSock(self._world.new_core())


class patched:
    """Context manager: put the shim into hio.core.tcp.serving / clienting."""

    def __init__(self, world):
        self.world = world

    def __enter__(self):
        from hio.core.tcp import serving, clienting
        self.mods = (serving, clienting)
        self.saved = [m.socket for m in self.mods]
        shim = SockShim(self.world)
        for m in self.mods:
            m.socket = shim
        return self.world

    def __exit__(self, *a):
        for m, s in zip(self.mods, self.saved):
            m.socket = s
        return False


# --------------------------------------------------------------------------- cases

def directed():
    C = lambda k, bad=False, hs=(): [k, bad, list(hs)]
    return [
        # plain server: accept, replace same address, cutoff, error removal, close
        {"kind": "server", "evs": [["reopen", False], ["axes", [C(0), C(1)]], ["axes", [C(0)]], ["recv", 1, "eof"],
                                   ["recv", 0, "err"], ["axes", [C(2)]], ["close"]]},
        # D11 witness (plain): the replaced connection must be closed by close
        {"kind": "server", "evs": [["reopen", False], ["axes", [C(0)]], ["axes", [C(0)]], ["close"]]},
        # accepted socket already reset by the peer when serviceAxes looks at it (getpeername raises): closed and
        # skipped, the rest of the batch is serviced (seeded change C11-9 witness: TLS)
        {"kind": "server", "evs": [["reopen", False], ["axes", [C(0), C(1, "gone"), C(2)]], ["connects", [C(1, "gone")]],
                                   ["close"]]},
        {"kind": "tls", "evs": [["reopen", False], ["axes", [C(0, False, ["ok"]), C(1, "gone", ["ok"]), C(2, False, ["want"])]],
                                ["cxes"], ["connects", [C(0, "gone"), C(3, "gone")]], ["close"]]},
        {"kind": "tls", "evs": [["reopen", False], ["accepts", [C(2, "gone")]], ["close"], ["reopen", False],
                                ["connects", [C(2, "gone"), C(2, True), C(1, "gone")]], ["axes", []], ["close"]]},
        # more accepted connections waiting than the listen backlog bl: a burst in one pass, and repeated
        # serviceAccepts before serviceAxes; every one of them is serviced or closed (seeded change C11-11 witness)
        {"kind": "server", "bl": 2, "evs": [["reopen", False], ["axes", [C(0), C(1), C(2)]], ["close"]]},
        {"kind": "server", "bl": 1, "evs": [["reopen", False], ["accepts", [C(0)]], ["accepts", [C(1)]], ["accepts", [C(2), C(3)]],
                                            ["close"]]},
        {"kind": "tls", "bl": 2, "evs": [["reopen", False], ["accepts", [C(0, False, ["ok"]), C(1, False, ["want"])]],
                                         ["connects", [C(2, False, ["ok"]), C(3, False, ["ok"])]], ["cxes"], ["close"]]},
        {"kind": "tls", "bl": 3, "evs": [["reopen", False], ["accepts", [C(0), C(1)]], ["accepts", [C(2), C(3)]], ["reopen", False],
                                         ["connects", [C(0, False, ["ok"]), C(1), C(2), C(3, False, ["ok"])]], ["close"]]},
        # connections accepted but not serviced yet, one of them already reset by its peer (its shutdown() raises
        # ENOTCONN), then close / reopen: all of them are closed and .axes is empty (seeded change C11-12 witness)
        {"kind": "server", "evs": [["reopen", False], ["accepts", [C(0), C(1, "gone"), C(2), C(3)]], ["close"]]},
        {"kind": "tls", "evs": [["reopen", False], ["accepts", [C(0, "gone"), C(1, False, ["ok"])]], ["reopen", False],
                                ["connects", [C(2, False, ["ok"])]], ["close"]]},
        {"kind": "server", "evs": [["reopen", False], ["axes", [C(0), C(1, True), C(2, "gone"), C(3)]], ["close"]]},
        # established and pending connections whose peers reset them: shutdown() raises at close time
        {"kind": "tls", "evs": [["reopen", False], ["connects", [C(0, False, ["ok"]), C(1, False, ["ok"]), C(2, False, ["want"])]],
                                ["recv", 0, "reset"], ["recv", 1, "eof"], ["accepts", [C(3, "gone")]], ["close"]]},
        # established connections with output still queued whose peers are gone (send() fails with EPIPE / ECONNRESET /
        # EIO) when the server closes, reopens, closes or removes one: sockets are released whatever send does
        # (seeded change C11-15 witness)
        {"kind": "server", "txfail": 32, "evs": [["reopen", False], ["axes", [C(0), C(1), C(2)]], ["close"]]},
        {"kind": "server", "txfail": 32, "evs": [["reopen", False], ["axes", [C(0), C(1)]], ["closeix", 0], ["removeix", 1],
                                                  ["axes", [C(2)]], ["reopen", False], ["close"]]},
        {"kind": "tls", "txfail": 32, "evs": [["reopen", False], ["connects", [C(0, False, ["ok"]), C(1, False, ["ok"])]],
                                               ["close"]]},
        {"kind": "server", "txfail": 104, "evs": [["reopen", False], ["axes", [C(0), C(1)]], ["close"]]},
        {"kind": "server", "txfail": 5, "evs": [["reopen", False], ["axes", [C(0), C(1)]], ["recv", 0, "eof"], ["close"]]},
        # malformed accepted socket and queued axes
        {"kind": "server", "evs": [["reopen", False], ["axes", [C(0), C(1, True), C(2)]], ["close"]]},
        {"kind": "server", "evs": [["reopen", False], ["accepts", [C(0), C(1)]], ["close"], ["reopen", False],
                                   ["axes", [C(3)]], ["close"]]},
        # not open: AttributeError; bind failure; removeIx/closeIx of absent and present
        {"kind": "server", "evs": [["axes", [C(0)]], ["reopen", True], ["reopen", False], ["axes", [C(0), C(1)]],
                                   ["removeix", 2], ["removeix", 0], ["closeix", 1], ["closeix", 3], ["recv", 1, "data"],
                                   ["reopen", False], ["recv", 0, "data"], ["close"]]},
        {"kind": "server", "evs": [["reopen", False], ["axes", [C(0), C(1)]], ["recv", 0, "reset"], ["recv", 0, "err"],
                                   ["recv", 1, "data"], ["connects", [C(1)]], ["close"], ["close"]]},
        # D10 witness (TLS): pending handshakes at close
        {"kind": "tls", "evs": [["reopen", False], ["connects", [C(0, False, ["want", "want"]), C(1, False, ["ok"])]],
                                ["close"]]},
        # TLS: replaced while pending, replaced when handshake completes, aborted, exception
        {"kind": "tls", "evs": [["reopen", False], ["axes", [C(0, False, ["want", "ok"])]], ["cxes"],
                                ["axes", [C(0, False, ["want", "want", "want"])]], ["axes", [C(0, False, ["ok"])]],
                                ["cxes"], ["connects", [C(0, False, ["ok"])]], ["close"]]},
        {"kind": "tls", "evs": [["reopen", False], ["connects", [C(0, False, ["eof"]), C(1, False, ["ssl"]),
                                                                  C(2, False, ["os"]), C(3, False, ["want", "exc"])]],
                                ["cxes"], ["cxes"], ["connects", [C(1, False, ["ok"])]], ["recv", 1, "err"], ["close"]]},
        # every way a handshake can fail (seeded change C11-2 witness: OSError other than ECONNABORTED): abort = close + forget
        {"kind": "tls", "evs": [["reopen", False], ["connects", [C(0, False, ["reset"]), C(1, False, ["want", "timedout"]),
                                                                  C(2, False, ["wantw", "pipe"]), C(3, False, ["wantw", "os"])]],
                                ["cxes"], ["close"]]},
        {"kind": "tls", "evs": [["reopen", False], ["connects", [C(0, False, ["wantw", "wantw", "ok"])]], ["cxes"], ["cxes"],
                                ["connects", [C(0, False, ["pipe"]), C(1, False, ["timedout"])]], ["recv", 0, "data"],
                                ["close"]]},
        {"kind": "tls", "evs": [["reopen", False], ["connects", [C(0, True, ["ok"]), C(1, False, ["ok"])]],
                                ["connects", []], ["recv", 1, "eof"], ["removeix", 1], ["close"], ["cxes"]]},
        # clients
        {"kind": "client", "evs": [["open"], ["accept", "inprog"], ["accept", "refused"], ["accept", "ok"], ["reopen"],
                                   ["accept", "raise"], ["close"], ["accept", "ok"], ["close"], ["close"]]},
        {"kind": "client", "evs": [["svc", "inprog", True], ["svc", "inprog", False], ["svc", "refused", True],
                                   ["svc", "ok", True], ["svc", "inprog", True], ["reopen"], ["reopen"], ["close"]]},
        {"kind": "clienttls", "evs": [["open"], ["connect", "inprog", "want"], ["connect", "ok", "want"],
                                      ["connect", "ok", "ok"], ["reopen"], ["connect", "ok", "eof"],
                                      ["connect", "ok", "ssl"], ["connect", "refused", "ok"], ["connect", "ok", "exc"],
                                      ["svc", "ok", "os", True], ["svc", "ok", "reset", False], ["connect", "ok", "pipe"],
                                      ["connect", "ok", "timedout"], ["connect", "ok", "wantw"],
                                      ["svc", "ok", "want", True], ["svc", "ok", "ok", False],
                                      ["close"]]},
    ]


def _gen_conns(rng, tls):
    out = []
    for _ in range(rng.choice([0, 1, 1, 1, 2, 2, 3, 3, 4, 6])):
        k = rng.randrange(rng.choice([2, NCA]))
        bad = rng.choices([False, True, "gone"], [0.84, 0.06, 0.10])[0]
        hs = []
        if tls:
            n = rng.choice([0, 1, 1, 2, 3])
            hs = [rng.choices(HS, HS_W)[0] for _ in range(n)]
        out.append([k, bad, hs])
    return out


def _gen_server(rng, tls):
    evs = []
    if rng.random() < 0.9:
        evs.append(["reopen", False])
    for _ in range(rng.choice([3, 5, 8, 12, 18])):
        r = rng.random()
        if r < 0.30:
            evs.append(["connects", _gen_conns(rng, tls)])
        elif r < 0.45:
            evs.append(["axes", _gen_conns(rng, tls)])
        elif r < 0.53:
            evs.append(["accepts", _gen_conns(rng, tls)])
        elif r < 0.60 and tls:
            evs.append(["cxes"])
        elif r < 0.78:
            evs.append(["recv", rng.randrange(NCA), rng.choices(RECV, [3, 2, 2, 2])[0]])
        elif r < 0.84:
            evs.append(["removeix", rng.randrange(NCA)])
        elif r < 0.88:
            evs.append(["closeix", rng.randrange(NCA)])
        elif r < 0.94:
            evs.append(["reopen", rng.random() < 0.2])
        else:
            evs.append(["close"])
    evs.append(["close"])
    case = {"kind": "tls" if tls else "server", "evs": evs}
    bl = rng.choice([0, 0, 1, 2, 3])
    if bl:
        case["bl"] = bl
    tf = rng.choice([0, 0, _errno.EPIPE, _errno.EPIPE, _errno.ECONNRESET, _errno.EIO, _errno.EAGAIN])
    if tf:
        case["txfail"] = tf
    return case


def _gen_client(rng, tls):
    evs = []
    for _ in range(rng.choice([3, 5, 8, 12])):
        r = rng.random()
        if r < 0.08:
            evs.append(["open"])        # raw open: may leak if a socket is already held (outside the property)
        elif r < 0.22:
            evs.append(["reopen"])
        elif r < 0.32:
            evs.append(["close"])
        elif r < 0.65:
            o = rng.choice(COUT)
            evs.append(["connect", o, rng.choice(HS)] if tls else ["accept", o])
        else:
            o = rng.choice(COUT)
            evs.append(["svc", o, rng.choice(HS), rng.random() < 0.5] if tls else ["svc", o, rng.random() < 0.5])
    evs.append(["close"])
    return {"kind": "clienttls" if tls else "client", "evs": evs}


def generate(rng, tier):
    n = 500 if tier == "quick" else 9000
    out = []
    for i in range(n):
        r = rng.random()
        if r < 0.35:
            out.append(_gen_server(rng, False))
        elif r < 0.75:
            out.append(_gen_server(rng, True))
        elif r < 0.87:
            out.append(_gen_client(rng, False))
        else:
            out.append(_gen_client(rng, True))
    return out


# --------------------------------------------------------------------------- implementation driver

def _res(f):
    try:
        r = f()
        return ["ok", bool(r)]
    except Exception as ex:
        return ["exc", exn_kind(ex)]


def _run_server(case):
    from hio.core.tcp import serving
    from hio.base import tyming
    tls = case["kind"] == "tls"
    world = World()
    tymist = tyming.Tymist(tyme=0.0, tock=1.0)
    results, opens, outside, queued = [], [], [], []
    with patched(world):
        kw = dict(ha=("127.0.0.1", world.port), tymth=tymist.tymen())
        if case.get("bl"):
            kw["bl"] = int(case["bl"])     # listen backlog: must not bound what the server keeps track of
        srv = serving.ServerTls(context=FakeContext(), **kw) if tls else serving.Server(**kw)

        def enqueue(conns):
            if srv.ss is not None:
                srv.ss.core.queue.extend([k, bad, list(hs)] for k, bad, hs in conns)

        for ev in case["evs"]:
            op = ev[0]
            # sockets open and not reachable through ixes just before the event (for non-triviality)
            if op == "close":
                inix = {ix.cs.core.id for ix in srv.ixes.values() if ix.cs}
                ssid = {srv.ss.core.id} if srv.ss else set()
                outside.append(sorted(set(world.open_ids()) - inix - ssid))
            if case.get("txfail") and op in ("reopen", "close", "closeix", "removeix"):
                # every established connection has output queued and its peer is gone (send() fails with that errno):
                # closing must release the sockets whatever a send would do
                for ix in srv.ixes.values():
                    if ix.cs:
                        ix.tx(b"unsent")
                world.send_fail = int(case["txfail"])
            if op == "reopen":
                world.bindfail = bool(ev[1])
                r = _res(srv.reopen)
                world.bindfail = False
            elif op == "accepts":
                enqueue(ev[1]); r = _res(srv.serviceAccepts)
            elif op == "axes":
                enqueue(ev[1]); r = _res(srv.serviceAxes)
            elif op == "cxes":
                r = _res(srv.serviceCxes) if tls else ["ok", False]
            elif op == "connects":
                enqueue(ev[1]); r = _res(srv.serviceConnects)
            elif op == "recv":
                ix = srv.ixes.get(ca_of(ev[1]))
                if ix is not None and ix.cs:
                    ix.cs.core.next_recv = ev[2]
                r = _res(srv.serviceReceivesAllIx)
                for c in world.socks:
                    c.next_recv = None
            elif op == "removeix":
                r = _res(lambda: srv.removeIx(ca_of(ev[1])))
            elif op == "closeix":
                r = _res(lambda: srv.closeIx(ca_of(ev[1])))
            elif op == "close":
                r = _res(srv.close)
            else:
                raise ValueError(op)
            world.send_fail = None
            results.append(r)
            opens.append(world.open_ids())
            if op == "close":
                queued.append(len(srv.axes))
    return {"results": results, "opens": opens, "created": len(world.socks), "outside_at_close": outside,
            "queued_after_close": queued}


def _run_client(case):
    from hio.core.tcp import clienting
    from hio.base import tyming
    tls = case["kind"] == "clienttls"
    world = World()
    tymist = tyming.Tymist(tyme=0.0, tock=1.0)
    results, opens = [], []
    with patched(world):
        kw = dict(ha=("127.0.0.1", world.port), tymth=tymist.tymen(), tymeout=1.0, reconnectable=True)
        cli = clienting.ClientTls(context=FakeContext(), **kw) if tls else clienting.Client(**kw)

        def set_timer(expired):
            if expired:
                tymist.tyme = cli.tymer._stop + 1.0
            else:
                cli.tymer.start()      # restart from now: not expired (tymeout 1.0)

        for ev in case["evs"]:
            op = ev[0]
            if op == "open":
                r = _res(cli.open)
            elif op == "reopen":
                r = _res(cli.reopen)
            elif op == "close":
                r = _res(cli.close)
            elif op == "accept":
                world.connect_outcome = ev[1]
                r = _res(cli.accept)
            elif op == "connect":
                world.connect_outcome, world.hs_outcome = ev[1], ev[2]
                r = _res(cli.connect)
            elif op == "svc":
                world.connect_outcome = ev[1]
                if tls:
                    world.hs_outcome = ev[2]
                set_timer(ev[-1])
                r = _res(cli.serviceConnect)
            else:
                raise ValueError(op)
            results.append(r)
            opens.append(world.open_ids())
    return {"results": results, "opens": opens, "created": len(world.socks), "outside_at_close": []}


def run_impl(case):
    if case["kind"] in ("server", "tls"):
        return _run_server(case)
    return _run_client(case)


# --------------------------------------------------------------------------- oracle

def _wellformed_client(case, obs):
    """Raw open() is only within the property when no socket is held (it is the first half of reopen)."""
    held = 0
    for ev, op in zip(case["evs"], obs["opens"]):
        if ev[0] == "open" and held:
            return False
        held = len(op)
    return True


def oracle(case, obs):
    evs = case["evs"]
    if case["kind"] in ("server", "tls"):
        for i, ev in enumerate(evs):
            if ev[0] == "close" and obs["opens"][i]:
                return (f"after close (event {i}) sockets {obs['opens'][i]} of {obs['created']} created are still open "
                        f"(close() never called on them)")
        if any(obs.get("queued_after_close", [])):
            return f"after close .axes still holds accepted connections: {obs['queued_after_close']}"
        return None
    if not _wellformed_client(case, obs):
        return None
    for i, ev in enumerate(evs):
        if len(obs["opens"][i]) > 1:
            return f"client holds {len(obs['opens'][i])} open sockets {obs['opens'][i]} after event {i} {ev}"
        if ev[0] == "close" and obs["opens"][i]:
            return f"after client close (event {i}) socket {obs['opens'][i]} is still open"
    return None


def classify(case, obs, why):
    return None


def nontrivial(case, obs):
    if case["kind"] in ("server", "tls"):
        return any(obs["outside_at_close"])
    return obs["created"] >= 2


# --------------------------------------------------------------------------- Gallina emitter

def _conn(c):
    k, bad, hs = c
    kind = "TcpSock.AGone" if bad == "gone" else ("TcpSock.ABad" if bad else "TcpSock.AOk")
    return "(%s, %s, %s)" % (coq_N(k), kind, coq_list(["TcpSock.H" + h.capitalize() for h in hs], "TcpSock.hs"))


def _conns(cs):
    return coq_list([_conn(c) for c in cs], "N * TcpSock.ak * list TcpSock.hs")


def _sev(ev):
    op = ev[0]
    if op == "reopen":
        return f"(TcpSock.Reopen {coq_bool(ev[1])})"
    if op == "accepts":
        return f"(TcpSock.SvcAccepts {_conns(ev[1])})"
    if op == "axes":
        return f"(TcpSock.SvcAxes {_conns(ev[1])})"
    if op == "cxes":
        return "TcpSock.SvcCxes"
    if op == "connects":
        return f"(TcpSock.SvcConnects {_conns(ev[1])})"
    if op == "recv":
        return f"(TcpSock.Recv {coq_N(ev[1])} TcpSock.R{ev[2].capitalize()})"
    if op == "removeix":
        return f"(TcpSock.RemoveIx {coq_N(ev[1])})"
    if op == "closeix":
        return f"(TcpSock.CloseIx {coq_N(ev[1])})"
    return "TcpSock.Close"


def _cev(ev, tls):
    op = ev[0]
    co = lambda o: "TcpSock.C" + o.capitalize()
    ho = lambda h: "TcpSock.H" + h.capitalize()
    if op == "open":
        return "TcpSock.COpen"
    if op == "reopen":
        return "TcpSock.CReopen"
    if op == "close":
        return "TcpSock.CClose"
    if op == "accept":
        return f"(TcpSock.CAccept {co(ev[1])})"
    if op == "connect":
        return f"(TcpSock.CConnect {co(ev[1])} {ho(ev[2])})"
    if tls:
        return f"(TcpSock.CSvc {co(ev[1])} {ho(ev[2])} {coq_bool(ev[3])})"
    return f"(TcpSock.CSvc {co(ev[1])} TcpSock.HOk {coq_bool(ev[2])})"


def to_coq(case, obs):
    kind = case["kind"]
    tls = kind in ("tls", "clienttls")
    if kind in ("server", "tls"):
        evs = "(TcpSock.SrvEvs %s)" % coq_list([_sev(e) for e in case["evs"]], "TcpSock.sev")
    else:
        evs = "(TcpSock.CliEvs %s)" % coq_list([_cev(e, tls) for e in case["evs"]], "TcpSock.cev")
    return ("{| TcpSock.k_tls := %s; TcpSock.k_evs := %s; TcpSock.k_results := %s; TcpSock.k_opens := %s |}" % (
        coq_bool(tls), evs,
        coq_list([coq_res(r, coq_bool) for r in obs["results"]], "res bool"),
        coq_list([coq_list([coq_N(i) for i in o], "N") for o in obs["opens"]], "list N")))


def shrink(case):
    evs = case["evs"]
    for i in range(len(evs)):
        yield dict(case, evs=evs[:i] + evs[i + 1:])
    for i, ev in enumerate(evs):
        if ev[0] in ("axes", "accepts", "connects") and len(ev[1]) > 1:
            for j in range(len(ev[1])):
                yield dict(case, evs=evs[:i] + [[ev[0], ev[1][:j] + ev[1][j + 1:]]] + evs[i + 1:])


def distribution(cases, obs):
    kinds = {}
    for c in cases:
        kinds[c["kind"]] = kinds.get(c["kind"], 0) + 1
    over = 0
    for c in cases:
        if c.get("bl") and any(e[0] in ("axes", "accepts", "connects") and len(e[1]) > c["bl"] for e in c["evs"]):
            over += 1
    return {"kinds": kinds, "output_queued_and_send_failing_at_close": sum(1 for c in cases if c.get("txfail")),
            "small_backlog": sum(1 for c in cases if c.get("bl")), "burst_larger_than_backlog": over}


# --------------------------------------------------------------------------- real-kernel run (extra)

def _sock_fds():
    import os
    n = 0
    for f in os.listdir("/proc/self/fd"):
        try:
            if os.readlink(f"/proc/self/fd/{f}").startswith("socket:"):
                n += 1
        except OSError:
            pass
    return n


def _free_port():
    s = _socket.socket(_socket.AF_INET, _socket.SOCK_STREAM)
    s.bind(("127.0.0.1", 0))
    p = s.getsockname()[1]
    s.close()
    return p


def _real_round(tls, rng, see_reset=None):
    """One scenario over real loopback sockets.  Every socket object the server ever held is kept
    referenced (so CPython's finaliser cannot hide a missing close()).  Returns None, a failure text, or
    "skip: ..." (inconclusive: an awaited condition was not reached within the wall-clock cap; never a verdict).
    The verdict itself only looks at state after srv.close() has returned: fileno() of every socket object that
    accept() returned or the server registered, len(.axes), and the process's socket descriptor count once the
    clients are closed too - none of which depends on how far the scenario got."""
    import time
    from hio.core.tcp import serving
    before = _sock_fds()
    port = _free_port()
    kw = dict(host="127.0.0.1", port=port)
    srv = serving.ServerTls(certify=_ssl.CERT_NONE, **kw) if tls else serving.Server(**kw)
    kept, clients = {}, []
    accept0 = srv.accept

    def accept():      # keep every socket object the kernel hands to the server, also those it never registers
        cs, ca = accept0()
        if cs is not None:
            kept[id(cs)] = cs
        return cs, ca
    srv.accept = accept

    def keep():
        for d in ([srv.ixes] + ([srv.cxes] if tls else [])):
            for rm in d.values():
                if rm.cs is not None:
                    kept[id(rm.cs)] = rm.cs

    CAP = 20.0      # generous wall-clock cap for every awaited condition; not reached = round inconclusive
    acc = [0]

    def accept_counting():
        cs, ca = accept()
        if cs is not None:
            acc[0] += 1
        return cs, ca
    srv.accept = accept_counting

    def service_until(cond, cap=CAP):
        """Service the server until cond() holds; False when the cap ran out first."""
        t0 = time.monotonic()
        while True:
            srv.serviceConnects()
            keep()
            if cond():
                return True
            if time.monotonic() - t0 > cap:
                return False
            time.sleep(0.002)

    def service(n=3):
        for _ in range(n):
            srv.serviceConnects()
            keep()

    def connect(lport=None):
        c = _socket.socket(_socket.AF_INET, _socket.SOCK_STREAM)
        c.setsockopt(_socket.SOL_SOCKET, _socket.SO_REUSEADDR, 1)
        c.settimeout(CAP)
        if lport:
            c.bind(("127.0.0.1", lport))
        c.connect(("127.0.0.1", port))
        clients.append(c)
        return c

    def reset(c):
        c.setsockopt(_socket.SOL_SOCKET, _socket.SO_LINGER, __import__("struct").pack("ii", 1, 0))
        c.close()
        clients.remove(c)

    def accepted(n):
        return lambda: acc[0] >= n

    try:
        if not srv.reopen():
            return "skip: cannot bind"
        n_plain = rng.randint(1, 3)
        for _ in range(n_plain):
            connect()
        if not service_until(accepted(n_plain)):
            return f"skip: {n_plain} connections not accepted within {CAP} s"
        # clients that reset their connection before the server gets to service the accept; the kernel may or may
        # not still hand such a connection to accept(), so this wait is short and its outcome does not matter
        base = acc[0]
        n_rst = rng.randint(1, 2)
        for _ in range(n_rst):
            reset(connect())
        service_until(accepted(base + n_rst), cap=0.5)
        # a client on a fixed local port resets its connection and connects again from the same address
        lport = _free_port()
        for _ in range(rng.randint(1, 3)):
            base = acc[0]
            c = connect(lport)
            if not service_until(accepted(base + 1)):
                return f"skip: connection from the fixed port not accepted within {CAP} s"
            reset(c)
            if see_reset if see_reset is not None else rng.random() < 0.5:
                time.sleep(0.005)
                service()      # TLS: do_handshake may now fail with ECONNRESET in the middle of the handshake
        base = acc[0]
        c = None
        t0 = time.monotonic()
        while c is None:       # the kernel lets the address be reused once it has seen the reset
            try:
                c = connect(lport)
            except OSError as ex:
                if time.monotonic() - t0 > CAP:
                    return f"skip: could not reconnect from the fixed port within {CAP} s ({ex})"
                time.sleep(0.01)
        if not service_until(accepted(base + 1)):
            return f"skip: reconnection from the fixed port not accepted within {CAP} s"
        if rng.random() < 0.6:
            # accepted but not serviced when the server closes, the first of them already reset by its peer
            base = acc[0]
            c = connect(); connect()
            reset(c)
            t0 = time.monotonic()
            while acc[0] < base + 1 and time.monotonic() - t0 < 2.0:
                srv.serviceAccepts()
                time.sleep(0.002)
        held_before_close = len(kept)
        if rng.random() < 0.5:
            srv.reopen(); service(1)
        srv.close()
        if len(srv.axes):
            return f"{'TLS' if tls else 'plain'} server over loopback: {len(srv.axes)} accepted connections left in .axes after close"
        not_closed = [s for s in kept.values() if s.fileno() != -1]
        for c in clients:
            c.close()
        clients.clear()
        after = _sock_fds()
        if not_closed:
            return (f"{'TLS' if tls else 'plain'} server over loopback: {len(not_closed)} of {held_before_close} sockets "
                    f"the server held were never closed (fileno still valid after close)")
        if after != before:
            return f"{'TLS' if tls else 'plain'} server over loopback: {after - before} socket descriptor(s) still open after close"
        if held_before_close < n_plain + 2:
            return f"skip: only {held_before_close} connections were seen"
        return None
    finally:
        for c in clients:
            try:
                c.close()
            except OSError:
                pass
        for s in kept.values():
            try:
                s.close()
            except OSError:
                pass
        try:
            srv.close()
        except Exception:
            pass


def _real_client_round(rng):
    """Client against a listening and a refusing port: reopen/refused-reconnect never leaves a socket behind."""
    from hio.core.tcp import clienting
    before = _sock_fds()
    dead = _free_port()
    cli = clienting.Client(host="127.0.0.1", port=dead)
    seen = {}
    try:
        cli.reopen()
        for _ in range(rng.randint(3, 8)):
            if cli.cs is not None:
                seen[id(cli.cs)] = cli.cs
            r = rng.random()
            if r < 0.6:
                cli.accept()          # refused -> reopen
            elif r < 0.8:
                cli.reopen()
            else:
                cli.close()
            if cli.cs is not None:
                seen[id(cli.cs)] = cli.cs
            opened = [s for s in seen.values() if s.fileno() != -1]
            if len(opened) > 1:
                return f"client over loopback holds {len(opened)} open sockets"
        cli.close()
        left = [s for s in seen.values() if s.fileno() != -1]
        if left:
            return f"client over loopback: {len(left)} sockets still open after close"
        if _sock_fds() != before:
            return "client over loopback: descriptor count differs after close"
        return None
    finally:
        for s in seen.values():
            try:
                s.close()
            except OSError:
                pass


def extra(tier, ctx):
    import random
    rng = random.Random(ctx.seed * 7919 + 11)
    rounds = 4 if tier == "quick" else 60
    done = skipped = 0
    for i in range(rounds):
        for tls, see in ((False, None), (True, None), (True, True)):   # last: peer reset seen in the middle of every handshake
            try:
                why = _real_round(tls, rng, see)
            except Exception as ex:   # environment trouble is not a verdict
                ctx.notes.append(f"real-kernel round raised {type(ex).__name__}: {ex}")
                skipped += 1
                continue
            if why is None:
                done += 1
            elif why.startswith("skip"):
                skipped += 1
                ctx.notes.append(f"real-kernel round {i} ({'TLS' if tls else 'plain'}) inconclusive: {why[6:]}")
            else:
                ctx.violations.append({"kind": "real-kernel", "why": why, "case": {"tls": tls, "round": i}})
                return {"real_kernel_rounds": done, "real_kernel_skipped": skipped}
        try:
            why = _real_client_round(rng)
        except Exception as ex:
            ctx.notes.append(f"real-kernel client round raised {type(ex).__name__}: {ex}")
            why = "skip"
        if why and not why.startswith("skip"):
            ctx.violations.append({"kind": "real-kernel", "why": why, "case": {"client": True, "round": i}})
            break
    return {"real_kernel_rounds": done, "real_kernel_skipped": skipped}
