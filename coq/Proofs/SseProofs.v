(* Stability of the event-stream stage; fragmentation independence. *)
From Hio Require Import Base.Prelude Model.HttpLine Model.Chunk Model.Sse
  Proofs.HttpLineProofs Proofs.ChunkProofs.
From Coq Require Import ZifyBool.

Lemma sse_shrinks s b s' b' o : sse_stage s b = Step s' b' o -> length b' < length b.
Proof.
  unfold sse_stage. destruct (line_stage ESse (fst s) b) as [|k r l|e] eqn:E; try discriminate.
  apply line_shrinks in E. destruct (sse_line (snd s) l). intros H; inversion H; subst; exact E.
Qed.

Lemma sse_stable_step s b s' b' o c :
  sse_stage s b = Step s' b' o -> sse_stage s (b ++ c) = Step s' (b' ++ c) o.
Proof.
  unfold sse_stage. destruct (line_stage ESse (fst s) b) as [|k r l|e] eqn:E; try discriminate.
  rewrite (line_stable_step _ _ _ _ _ _ c E). destruct (sse_line (snd s) l).
  intros H; inversion H; subst; reflexivity.
Qed.

Lemma sse_stable_fail s b e c : sse_stage s b = Fail e -> sse_stage s (b ++ c) = Fail e.
Proof.
  unfold sse_stage. destruct (line_stage ESse (fst s) b) as [|k r l|e'] eqn:E; try discriminate.
  - destruct (sse_line (snd s) l); discriminate.
  - rewrite (line_stable_fail _ _ _ _ c E). auto.
Qed.

Lemma sse_start_stuck : stuck sse_stage sse_start.
Proof. reflexivity. Qed.

Theorem sse_feeds_concat reads :
  feeds sse_stage sse_start reads = feed sse_stage sse_start (concat reads).
Proof.
  apply feeds_concat.
  - exact sse_shrinks.
  - exact sse_stable_step.
  - exact sse_stable_fail.
  - exact sse_start_stuck.
Qed.
