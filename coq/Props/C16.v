(* C16 — no client-sent bytes can make the HTTP server's service loop raise
   (WSGI Server and BareServer); malformed input only closes that connection
   and the others keep being served; no response bytes make the HTTP client's
   service loop raise, malformed responses are reported through the error flag.
   Statements only; proofs are in Proofs/HttpTotalProofs.v.  The model
   (Model/HttpTotal.v) is of the tree *after* the fix commits listed in
   findings.d/C16.json. *)
From Hio Require Import Base.Prelude Model.HttpReqUrl Model.HttpTotal Proofs.HttpTotalProofs.
From Coq Require Import String.
Local Open Scope N_scope.

(* For every byte sequence, every way of cutting it into reads, every
   end-of-stream position, both servers, every outcome of the external checks
   (ipaddress / NFKC / json.loads) and from every connection state: servicing
   does not raise — for any exception kind. *)
Theorem C16_server_total : forall kind o (rs : list rnd) c k, server_run kind o c rs <> Exc k.
Proof. intros. apply server_run_total. Qed.
Print Assumptions C16_server_total.

(* Every raising site of the request path raises HTTPExc only (the kind
   parseMessage catches), and the fuel of the model never runs out. *)
Theorem C16_request_sites : forall o s b,
  req_parse o s b <> POut /\ (forall k, req_parse o s b = PFail k -> k = HTTPExc).
Proof. exact req_parse_spec. Qed.
Print Assumptions C16_request_sites.

(* A request that fails to parse closes its own connection, and what was
   served before stays served. *)
Theorem C16_malformed_closes : forall kind o c r s k,
  c_closed c = false -> (kind = Wsgi -> c_cutoff c = false) -> c_pst c = Some s ->
  req_parse o s (c_buf c ++ r_data r) = PFail k ->
  exists c', server_round kind o c r = Ok c' /\ c_closed c' = true /\ c_served c' = c_served c.
Proof. exact server_round_fail. Qed.
Print Assumptions C16_malformed_closes.

(* Two connections in the same service loop: whatever bytes arrive on the
   first, the loop completes and the second ends exactly as if it were served
   alone (an exception from the first would have ended service() before). *)
Theorem C16_sibling_unaffected : forall kind o (rs : list (rnd * rnd)) a b,
  exists a' b', pair_run kind o (a, b) rs = Ok (a', b')
                /\ server_run kind o a (map fst rs) = Ok a'
                /\ server_run kind o b (map snd rs) = Ok b'.
Proof. intros. apply pair_run_independent. Qed.
Print Assumptions C16_sibling_unaffected.

(* Requests already handed to the application are never lost by later bytes. *)
Theorem C16_served_monotone : forall kind o c r c',
  server_round kind o c r = Ok c' -> exists z, c_served c' = c_served c ++ z.
Proof. exact server_round_served. Qed.
Print Assumptions C16_served_monotone.

(* The reply path of the bare server (Steward.respond -> CustomResponder.build:
   json.dumps of the echoed request, then .encode('utf-8')): for every parsed
   request, body and JSON value json.loads can produce - strings with lone
   surrogates, NUL, non-BMP characters, any nesting - and whether or not
   json.dumps hits the recursion limit, building the reply does not raise. *)
Theorem C16_reply_total : forall rec_hit ri body data k, respond_site rec_hit ri body data <> Exc k.
Proof. exact respond_site_total. Qed.
Print Assumptions C16_reply_total.

(* because json.dumps with ensure_ascii (the default the code relies on) yields
   ASCII for every value ... *)
Theorem C16_dumps_ascii : forall v, forallb (fun c => c <? 128) (dumps true v) = true.
Proof. exact dumps_ascii. Qed.
Print Assumptions C16_dumps_ascii.

(* ... whereas with ensure_ascii=False the same path raises on a lone surrogate
   (what json.loads makes of "\ud83d"): the default is load-bearing. *)
Theorem C16_reply_raw_refuted : exists v, build_reply false false v = Exc UnicodeErr.
Proof. exists (JStr [55357]). reflexivity. Qed.
Print Assumptions C16_reply_raw_refuted.

(* Client: for every response byte sequence, fragmentation, close position,
   request method, redirect / dictable setting, external outcomes and from
   every client state, servicing does not raise. *)
Theorem C16_client_total : forall cf o n (rs : list rnd) k e, client_run cf o n k rs <> Exc e.
Proof. intros. apply client_run_total. Qed.
Print Assumptions C16_client_total.

Theorem C16_response_sites : forall m closed sl sevt fuel chk s st0 body0 b,
  (2 * List.length b + qweight s < fuel)%nat ->
  resp_run fuel m closed sl sevt chk s st0 body0 b <> QOut /\
  (forall k pi bd b', resp_run fuel m closed sl sevt chk s st0 body0 b = QFail k pi bd b' -> k = HTTPExc).
Proof. intros. apply resp_run_spec. assumption. Qed.
Print Assumptions C16_response_sites.

(* A response that fails to parse (or a redirect that cannot be followed) is
   delivered with its error flag set, unless it is an event stream (which
   delivers no response entries at all). *)
Theorem C16_malformed_errored : forall cf o n k queued errored pi body buf cut closed dead,
  pi_sse pi = false ->
  (errored = true /\ cf_redirectable cf && pi_redirect pi = false) \/
  (cf_redirectable cf && pi_redirect pi = true /\ redirect_site o n (pi_location pi) = Exc HTTPExc) ->
  exists k' r, client_ended cf o n k queued errored pi body buf cut closed dead = Ok k'
               /\ k_responses k' = k_responses k ++ [r] /\ rp_errored r = true
               /\ rp_status r = pi_status pi /\ k_waited k' = false.
Proof. exact client_ended_errored. Qed.
Print Assumptions C16_malformed_errored.

(* ---------- non-vacuity: the sites do raise, the catch clauses are load-bearing ---------- *)
Definition o0 : url_oracle := {| ip6_ok := fun _ => false; nfkc_bad := fun _ => false |}.
Definition n0 : net_oracle := {| resolves := fun _ => false |}.
Definition one (s : string) : list rnd := [{| r_data := str s; r_eof := false |}; {| r_data := []; r_eof := false |}].
Definition crlf (s : string) : string := s.   (* strings below carry \r\n as characters 013 010 *)
Definition CRLF : string := String (Ascii.ascii_of_N 13) (String (Ascii.ascii_of_N 10) EmptyString).

Example C16_sites_raise :
  urlsplit o0 (str "http://[::1/x") = Exc ValueErr /\
  bind (urlsplit o0 (str "http://h:99999/x")) (fun s => url_port (u_netloc s)) = Exc ValueErr /\
  url_site o0 (str "http://h:ab/x") = Exc HTTPExc /\
  py_int (str "1_0") = Some 10%Z /\ py_int (str "abc") = None /\
  chunk_size (str "-5") = Exc HTTPExc /\ chunk_size (str " 1f;x=y") = Ok 31.
Proof. vm_compute. repeat split. Qed.

(* D15 / D18 witnesses: a header line without ': ' and an absolute url with a
   bad port close the connection, on both servers, nothing served, no raise *)
Example C16_example_server :
  let bad1 := ("GET / HTTP/1.1" ++ CRLF ++ "Host:x" ++ CRLF ++ CRLF)%string in
  let bad2 := ("GET http://h:99999/x HTTP/1.1" ++ CRLF ++ CRLF)%string in
  let good := ("POST /p HTTP/1.1" ++ CRLF ++ "Transfer-Encoding: chunked" ++ CRLF ++ CRLF
               ++ "3;a=b" ++ CRLF ++ "abc" ++ CRLF ++ "0" ++ CRLF ++ CRLF)%string in
  forall kind,
  (exists c, server_run kind o0 (conn0 []) (one bad1) = Ok c /\ c_closed c = true /\ c_served c = []) /\
  (exists c, server_run kind o0 (conn0 []) (one bad2) = Ok c /\ c_closed c = true /\ c_served c = []) /\
  (exists c, server_run kind o0 (conn0 []) (one good) = Ok c /\ c_closed c = false /\
             map sv_body (c_served c) = [str "abc"]).
Proof.
  intros bad1 bad2 good kind. destruct kind; vm_compute; repeat split; eexists; repeat split.
Qed.

(* a response with a bad status line, one with a header without ': ', and a
   redirect without Location are delivered errored; 100 Continue is skipped *)
Example C16_example_client :
  let cf := {| cf_method := MGet; cf_redirectable := true; cf_dictable := false;
               cf_json := [] |} in
  let run s := match client_run cf o0 n0 (client0 1) (one s) with
               | Ok k => map (fun r => (rp_status r, rp_errored r, rp_body r)) (k_responses k)
               | Exc _ => [] end in
  run ("HTTP/1.1 abc OK" ++ CRLF ++ CRLF)%string = [(0, true, [])] /\
  run ("HTTP/1.1 200 OK" ++ CRLF ++ "Content-Length:2" ++ CRLF ++ CRLF ++ "hi")%string = [(200, true, [])] /\
  run ("HTTP/1.1 302 Found" ++ CRLF ++ "Content-Length: 0" ++ CRLF ++ CRLF)%string = [(302, true, [])] /\
  run ("HTTP/1.1 100 Continue" ++ CRLF ++ CRLF ++ "HTTP/1.1 200 OK" ++ CRLF ++ "Content-Length: 2" ++ CRLF ++ CRLF ++ "hi")%string
    = [(200, false, str "hi")].
Proof. vm_compute. repeat split. Qed.
