(* C24 — keyed durable stores match a dictionary model (statements only). *)
From Hio Require Import Base.Prelude Model.Lmdb Model.IoSub Proofs.LmdbProofs.

Theorem C24_pin_then_get : forall (d : db bytes) k v, db_get (fst (db_put true d k v)) k = Some v.
Proof. intros. now apply db_get_put_same. Qed.
Print Assumptions C24_pin_then_get.
