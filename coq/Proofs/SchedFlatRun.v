(* C04 — Model/Sched.v on static grouped leaf programs computes the structural
   specification of Proofs/SchedFlatDefs.v: enter, one recur pass, exit, for a
   scheduler whose deque holds live leaves and (one level of) tock-z0 groups. *)
From Coq Require Import Permutation.
From Hio Require Import Base.Prelude Base.AMap Base.Time Model.Sched
  Proofs.SchedEqs Proofs.SchedFrame Proofs.SchedLife Proofs.SchedFlatDefs.

Section Run.
Context {T : Type} `{Time T}.
Implicit Types s a b : st T.

(* ---------- reading the state through the primitive updates ---------- *)

Lemma memN_In x l : memN x l = true <-> In x l.
Proof.
  unfold memN. rewrite existsb_exists. split.
  - intros [y [Hy E]]. apply N.eqb_eq in E. now subst.
  - intro Hx. exists x. split; [assumption|apply N.eqb_refl].
Qed.
Lemma memN_nIn x l : memN x l = false <-> ~ In x l.
Proof. rewrite <- memN_In. destruct (memN x l); split; congruence. Qed.

Lemma sched_set_gen s i g j : get_sched (set_gen s i g) j = get_sched s j. Proof. reflexivity. Qed.
Lemma sched_set_done s i d j : get_sched (set_done s i d) j = get_sched s j. Proof. reflexivity. Qed.
Lemma sched_emit s k i j : get_sched (emit s k i) j = get_sched s j. Proof. reflexivity. Qed.
Lemma deeds_set_deeds_same s i d : deeds (get_sched (set_deeds s i d) i) = d.
Proof. unfold set_deeds, get_sched, set_sched; cbn [scheds]. now rewrite get_set_same. Qed.
Lemma doers_set_deeds_same s i d : doers (get_sched (set_deeds s i d) i) = doers (get_sched s i).
Proof. unfold set_deeds, set_sched. unfold get_sched at 1; cbn [scheds]. now rewrite get_set_same. Qed.
Lemma sched_set_deeds_other s i d j : j <> i -> get_sched (set_deeds s i d) j = get_sched s j.
Proof. intro Hne. unfold set_deeds, get_sched, set_sched; cbn [scheds]. now rewrite get_set_other. Qed.
Lemma gen_set_deeds s i d j : get_gen (set_deeds s i d) j = get_gen s j. Proof. reflexivity. Qed.
Lemma done_set_done_same s i d : get_done (set_done s i d) i = d.
Proof. unfold get_done, set_done; cbn [dones]. now rewrite get_set_same. Qed.
Lemma done_set_done_other s i d j : j <> i -> get_done (set_done s i d) j = get_done s j.
Proof. intro Hne. unfold get_done, set_done; cbn [dones]. now rewrite get_set_other. Qed.

(* ---------- frames ---------- *)

(* s' agrees with s on generators outside Xg and on deques outside Xs *)
Definition frame (Xg Xs : list id) s s' : Prop :=
  tyme s' = tyme s /\ defs s' = defs s /\
  (forall j, ~ In j Xg -> get_gen s' j = get_gen s j) /\
  (forall j, ~ In j Xs -> get_sched s' j = get_sched s j).

Lemma frame_refl Xg Xs s : frame Xg Xs s s.
Proof. repeat split; reflexivity. Qed.
Lemma frame_trans Xg Xs a b (c : st T) : frame Xg Xs a b -> frame Xg Xs b c -> frame Xg Xs a c.
Proof.
  intros (T1 & D1 & G1 & S1) (T2 & D2 & G2 & S2). repeat split; try congruence.
  - intros j Hj. now rewrite G2, G1.
  - intros j Hj. now rewrite S2, S1.
Qed.
Lemma frame_weaken Xg Xs Yg Ys a b : incl Xg Yg -> incl Xs Ys -> frame Xg Xs a b -> frame Yg Ys a b.
Proof.
  intros Ig Is (T1 & D1 & G1 & S1). repeat split; try assumption.
  - intros j Hj. apply G1. intro. apply Hj. now apply Ig.
  - intros j Hj. apply S1. intro. apply Hj. now apply Is.
Qed.
Lemma frame_emit Xg Xs a s k i : frame Xg Xs a s -> frame Xg Xs a (emit s k i).
Proof. intros (T1 & D1 & G1 & S1). repeat split; assumption. Qed.
Lemma frame_done Xg Xs a s i d : frame Xg Xs a s -> frame Xg Xs a (set_done s i d).
Proof. intros (T1 & D1 & G1 & S1). repeat split; assumption. Qed.
Lemma frame_gen Xg Xs a s i g : In i Xg -> frame Xg Xs a s -> frame Xg Xs a (set_gen s i g).
Proof.
  intros Hi (T1 & D1 & G1 & S1). repeat split; try assumption.
  intros j Hj. rewrite gen_set_gen_other; [now apply G1|]. intro; subst; contradiction.
Qed.
Lemma frame_deeds Xg Xs a s i d : In i Xs -> frame Xg Xs a s -> frame Xg Xs a (set_deeds s i d).
Proof.
  intros Hi (T1 & D1 & G1 & S1). repeat split; try assumption.
  intros j Hj. rewrite sched_set_deeds_other; [now apply S1|]. intro; subst; contradiction.
Qed.

Lemma sched_tock_frame Xg Xs (tk : T) a b sid : frame Xg Xs a b -> sched_tock tk b sid = sched_tock tk a sid.
Proof. intros (_ & D1 & _). unfold sched_tock. now rewrite D1. Qed.

(* ---------- the observable part of a state ---------- *)

Variable vis : list id.      (* the root (0) and the leaves *)

Definition keep (e : ev T) : bool := memN (e_id e) vis.
Definition out_ok s (o : out T) : Prop :=
  filter keep (trace s) = o_ev o /\ forall i, In i vis -> get_done s i = o_dn o i.

Lemma ok_gen s o i g : out_ok s o -> out_ok (set_gen s i g) o.
Proof. intros [E D]. split; assumption. Qed.
Lemma ok_deeds s o i d : out_ok s o -> out_ok (set_deeds s i d) o.
Proof. intros [E D]. split; assumption. Qed.
Lemma ok_emit_vis s o k i : In i vis -> out_ok s o -> out_ok (emit s k i) (o_emit o k i (tyme s)).
Proof.
  intros Hi [E D]. split; [|assumption].
  unfold emit, o_emit; cbn [trace o_ev filter]. unfold keep at 1; cbn [e_id].
  apply memN_In in Hi. rewrite Hi. now rewrite E.
Qed.
Lemma ok_emit_invis s o k i : ~ In i vis -> out_ok s o -> out_ok (emit s k i) o.
Proof.
  intros Hi [E D]. split; [|assumption].
  unfold emit; cbn [trace filter]. unfold keep at 1; cbn [e_id].
  apply memN_nIn in Hi. now rewrite Hi.
Qed.
Lemma ok_done_vis s o i d : out_ok s o -> out_ok (set_done s i d) (o_done o i d).
Proof.
  intros [E D]. split; [assumption|]. intros j Hj. unfold o_done, upd; cbn [o_dn].
  destruct (N.eqb j i) eqn:Eq.
  - apply N.eqb_eq in Eq. subst. apply done_set_done_same.
  - apply N.eqb_neq in Eq. rewrite done_set_done_other by assumption. now apply D.
Qed.
Lemma ok_done_invis s o i d : ~ In i vis -> out_ok s o -> out_ok (set_done s i d) o.
Proof.
  intros Hi [E D]. split; [assumption|]. intros j Hj.
  rewrite done_set_done_other; [now apply D|]. intro; subst; contradiction.
Qed.

Variable tk : T.

(* ---------- fuel: a final state that is not out of fuel never was ---------- *)

Lemma oof_steps a b : steps a b -> oof b = false -> oof a = false.
Proof. intros S Hb. destruct (oof a) eqn:E; [|reflexivity]. rewrite (steps_oof a b S E) in Hb. discriminate. Qed.

Lemma oof_recur_loop f s sid s' r : recur_loop tk f s sid = (s', r) -> oof s' = false -> oof s = false.
Proof.
  intros E. apply oof_steps. destruct (frame_all tk f) as (_ & _ & _ & _ & _ & _ & _ & _ & _ & _ & Irl).
  eapply Irl; [apply st_refl|exact E].
Qed.
Lemma oof_enter_own f s sid ids s' r : enter_own tk f s sid ids = (s', r) -> oof s' = false -> oof s = false.
Proof.
  intros E. apply oof_steps. destruct (frame_all tk f) as (_ & _ & _ & _ & _ & _ & Ieo & _).
  eapply Ieo; [apply st_refl|exact E].
Qed.
Lemma oof_close_list f s ds : oof (close_list tk f s ds) = false -> oof s = false.
Proof.
  apply oof_steps. destruct (frame_all tk f) as (_ & _ & _ & _ & _ & Ili & _).
  apply Ili. apply st_refl.
Qed.
Lemma oof_close_own f s sid : oof (close_own tk f s sid) = false -> oof s = false.
Proof.
  apply oof_steps. destruct (frame_all tk f) as (_ & _ & _ & _ & Ico & _).
  apply Ico. apply st_refl.
Qed.

(* ---------- one leaf ---------- *)

Definition leaf_in (D : amap (fdef T)) (l : leaf T) : Prop :=
  get D (lf_id l) = Some (FLeaf (lf_kind l) (lf_script l)) /\ pure_leaf l = true.

Definition lv_ok s (v : lv T) : Prop := get_gen s (lv_id v) = GSusp (v_pc v).
Definition lv_deed (v : lv T) : deed T := DDeed (lv_id v) (v_re v).

Lemma pure_nth (l : leaf T) pc : pure_leaf l = true -> pure_step (nth pc (lf_script l) default_step) = true.
Proof.
  unfold pure_leaf. intro P. destruct (nth_in_or_default pc (lf_script l) default_step) as [Hin|Hd].
  - rewrite forallb_forall in P. now apply P.
  - rewrite Hd. reflexivity.
Qed.

(* run_step of a static step, explicitly *)
Lemma run_step_pure f s i k sc pc s' r :
  run_step tk f s i k sc pc = (s', r) -> oof s' = false ->
  pure_step (nth pc sc default_step) = true ->
  match f_out (nth pc sc default_step) with
  | OYield t => s' = set_gen s i (GSusp (S pc)) /\ r = GYield t
  | OReturn rr =>
    s' = (let s2 := emit (emit s Clean i) Exit i in
          set_done (set_gen s2 i GDone) i (done_after k rr (get_done s2 i))) /\ r = GReturn
  | _ => False
  end.
Proof.
  intros E O P.
  destruct f as [|f]; [rewrite run_step_O in E; inversion E; subst; discriminate|].
  rewrite run_step_S in E. cbv zeta in E.
  unfold pure_step in P.
  destruct (f_es (nth pc sc default_step)) eqn:Ees; [|discriminate].
  destruct f as [|f].
  - rewrite run_effects_O in E. inversion E; subst; discriminate.
  - rewrite run_effects_S in E.
    destruct (f_out (nth pc sc default_step)); try discriminate; inversion E; subst; split; reflexivity.
Qed.

Lemma leaf_send f s i pc k sc s' r :
  gen_send tk f s i = (s', r) -> oof s' = false ->
  get_gen s i = GSusp pc -> get (defs s) i = Some (FLeaf k sc) ->
  pure_step (nth pc sc default_step) = true ->
  match f_out (nth pc sc default_step) with
  | OYield t => s' = set_gen (emit (set_gen s i (GRun pc)) Recur i) i (GSusp (S pc)) /\ r = GYield t
  | OReturn rr =>
    s' = (let s2 := emit (emit (emit (set_gen s i (GRun pc)) Recur i) Clean i) Exit i in
          set_done (set_gen s2 i GDone) i (done_after k rr (get_done s2 i))) /\ r = GReturn
  | _ => False
  end.
Proof.
  intros E O G D P.
  destruct f as [|f]; [rewrite gen_send_O in E; inversion E; subst; discriminate|].
  rewrite gen_send_S, G, D in E.
  exact (run_step_pure _ _ _ _ _ _ _ _ E O P).
Qed.

Lemma leaf_start f s i k sc s' r :
  gen_start tk f s i = (s', r) -> oof s' = false ->
  get_gen s i = GNew -> get (defs s) i = Some (FLeaf k sc) ->
  pure_step (nth 0 sc default_step) = true ->
  match f_out (nth 0 sc default_step) with
  | OYield t => s' = set_gen (emit (set_gen s i (GRun 0)) Enter i) i (GSusp 1) /\ r = GYield t
  | OReturn rr =>
    s' = (let s2 := emit (emit (emit (set_gen s i (GRun 0)) Enter i) Clean i) Exit i in
          set_done (set_gen s2 i GDone) i (done_after k rr (get_done s2 i))) /\ r = GReturn
  | _ => False
  end.
Proof.
  intros E O G D P.
  destruct f as [|f]; [rewrite gen_start_O in E; inversion E; subst; discriminate|].
  rewrite gen_start_S in E. unfold startable in E. rewrite G in E. cbn [negb] in E. rewrite D in E.
  exact (run_step_pure _ _ _ _ _ _ _ _ E O P).
Qed.

Lemma leaf_close f s i pc k sc :
  oof (gen_close tk f s i) = false ->
  get_gen s i = GSusp pc -> get (defs s) i = Some (FLeaf k sc) ->
  gen_close tk f s i = set_gen (emit (emit (set_gen s i (GRun pc)) Cease i) Exit i) i GDone.
Proof.
  intros O G D.
  destruct f as [|f]; [rewrite gen_close_O in O; discriminate|].
  rewrite gen_close_S, G, D. reflexivity.
Qed.

(* ---------- one deed of a recur pass that is a leaf ---------- *)

Lemma ok_return s o (l : leaf T) r i :
  i = lf_id l -> In i vis -> out_ok s o ->
  out_ok (let s2 := emit (emit s Clean i) Exit i in
          set_done (set_gen s2 i GDone) i (done_after (lf_kind l) r (get_done s2 i)))
         (o_return o l r (tyme s)).
Proof.
  intros -> V OK. cbv zeta. unfold o_return.
  assert (OK2 : out_ok (emit (emit s Clean (lf_id l)) Exit (lf_id l))
                       (o_emit (o_emit o Clean (lf_id l) (tyme s)) Exit (lf_id l) (tyme s))).
  { apply (ok_emit_vis (emit s Clean (lf_id l)) _ Exit (lf_id l) V). now apply ok_emit_vis. }
  destruct OK2 as [E2 D2].
  rewrite <- (D2 (lf_id l) V).
  apply ok_done_vis. apply ok_gen. split; assumption.
Qed.

Lemma loop_leaf_step f s sid (v : lv T) rest s' r o :
  recur_loop tk (S f) s sid = (s', r) -> oof s' = false ->
  deeds (get_sched s sid) = lv_deed v :: rest ->
  lv_ok s v -> leaf_in (defs s) (v_leaf v) -> In (lv_id v) vis -> out_ok s o ->
  exists s2 ov o',
    (if tleb (v_re v) (tyme s) then lv_step (sched_tock tk s sid) (tyme s) v o else (Some v, o)) = (ov, o') /\
    recur_loop tk f s2 sid = (s', r) /\
    deeds (get_sched s2 sid) = rest ++ match ov with Some v' => [lv_deed v'] | None => [] end /\
    match ov with Some v' => lv_ok s2 v' /\ v_leaf v' = v_leaf v | None => True end /\
    out_ok s2 o' /\ frame [lv_id v] [sid] s s2.
Proof.
  intros E O Dq G [D P] V OK.
  rewrite recur_loop_S, Dq in E. unfold lv_deed in E. cbv zeta in E.
  change (tyme (set_deeds s sid rest)) with (tyme s) in E.
  destruct (tleb (v_re v) (tyme s)) eqn:Due.
  - destruct (gen_send tk f (set_deeds s sid rest) (lv_id v)) as [s2 g] eqn:Es.
    assert (O2 : oof s2 = false).
    { destruct g; try (inversion E; subst; assumption);
        apply oof_recur_loop in E; assumption. }
    pose proof (leaf_send _ _ _ _ _ _ _ _ Es O2 G D (pure_nth _ _ P)) as L.
    unfold lv_step. fold (lv_stp v) in L.
    destruct (f_out (lv_stp v)) as [x|rr| |] eqn:Fo; try contradiction.
    + destruct L as [-> ->].
      eexists _, _, _. split; [reflexivity|]. split; [exact E|].
      split; [rewrite deeds_set_deeds_same; rewrite !sched_set_gen, sched_emit, sched_set_gen, deeds_set_deeds_same; reflexivity|].
      split; [split; [|reflexivity]|split].
      * unfold lv_ok; cbn [v_leaf v_pc lv_id]. rewrite gen_set_deeds. apply gen_set_gen_same.
      * apply ok_deeds, ok_gen. apply (ok_emit_vis (set_gen (set_deeds s sid rest) (lv_id v) (GRun (v_pc v))) o Recur (lv_id v) V).
        apply ok_gen, ok_deeds. exact OK.
      * apply frame_deeds; [now left|]. apply frame_gen; [now left|]. apply frame_emit.
        apply frame_gen; [now left|]. apply frame_deeds; [now left|]. apply frame_refl.
    + destruct L as [-> ->].
      eexists _, _, _. split; [reflexivity|]. split; [exact E|].
      split; [rewrite app_nil_r; cbv zeta; rewrite sched_set_done, sched_set_gen, !sched_emit, sched_set_gen; apply deeds_set_deeds_same|].
      split; [exact I|split].
      * apply (ok_return (emit (set_gen (set_deeds s sid rest) (lv_id v) (GRun (v_pc v))) Recur (lv_id v)) _ (v_leaf v) rr (lv_id v) eq_refl V).
        apply (ok_emit_vis (set_gen (set_deeds s sid rest) (lv_id v) (GRun (v_pc v))) o Recur (lv_id v) V).
        apply ok_gen, ok_deeds. exact OK.
      * cbv zeta. apply frame_done. apply frame_gen; [now left|]. do 3 apply frame_emit.
        apply frame_gen; [now left|]. apply frame_deeds; [now left|]. apply frame_refl.
  - eexists _, (Some v), o. split; [reflexivity|]. split; [exact E|].
    split; [apply deeds_set_deeds_same|].
    split; [split; [exact G|reflexivity]|split].
    + apply ok_deeds, ok_deeds. exact OK.
    + apply frame_deeds; [now left|]. apply frame_deeds; [now left|]. apply frame_refl.
Qed.

(* ---------- a recur pass over a deque of leaves (scheduler sid, own tock b) ---------- *)

Lemma lv_ok_frame Xg Xs s s' (v : lv T) : frame Xg Xs s s' -> ~ In (lv_id v) Xg -> lv_ok s v -> lv_ok s' v.
Proof. intros (_ & _ & G & _) Hn L. unfold lv_ok. now rewrite G. Qed.

Lemma lvs_ok_frame Xg Xs s s' (U : list (lv T)) :
  frame Xg Xs s s' -> (forall v, In v U -> ~ In (lv_id v) Xg) -> Forall (lv_ok s) U -> Forall (lv_ok s') U.
Proof.
  intros F Hn L. rewrite Forall_forall in *. intros v Hv.
  eapply lv_ok_frame; [exact F|now apply Hn|now apply L].
Qed.

Lemma lvs_loop sid (b : T) : forall (U : list (lv T)) f s P o s' r,
  recur_loop tk f s sid = (s', r) -> oof s' = false ->
  deeds (get_sched s sid) = map lv_deed U ++ DMark :: P ->
  Forall (lv_ok s) U -> Forall (fun v => leaf_in (defs s) (v_leaf v)) U -> NoDup (map lv_id U) ->
  Forall (fun v => In (lv_id v) vis) U ->
  out_ok s o -> sched_tock tk s sid = b ->
  exists U' o', lvs_pass b (tyme s) U o = (U', o') /\
    r = GReturn /\ deeds (get_sched s' sid) = P ++ map lv_deed U' /\
    Forall (lv_ok s') U' /\ out_ok s' o' /\ frame (map lv_id U) [sid] s s'.
Proof.
  induction U as [|v U IH]; intros f s P o s' r E O Dq G D ND V OK B.
  - cbn [map app] in Dq.
    destruct f as [|f]; [rewrite recur_loop_O in E; inversion E; subst; discriminate|].
    rewrite recur_loop_S, Dq in E. inversion E; subst s' r.
    exists [], o. split; [reflexivity|]. split; [reflexivity|].
    split; [rewrite deeds_set_deeds_same; now rewrite app_nil_r|].
    split; [constructor|]. split; [now apply ok_deeds|].
    apply frame_deeds; [now left|apply frame_refl].
  - cbn [map app] in Dq.
    destruct f as [|f]; [rewrite recur_loop_O in E; inversion E; subst; discriminate|].
    apply Forall_cons_iff in G as [Gv GU]. apply Forall_cons_iff in D as [Dv DU].
    cbn [map] in ND. apply NoDup_cons_iff in ND as [NDv NDU]. apply Forall_cons_iff in V as [Vv VU].
    destruct (loop_leaf_step f s sid v _ s' r o E O Dq Gv Dv Vv OK)
      as (s2 & ov & o1 & Hst & E2 & Dq2 & Hov & OK2 & F2).
    assert (FU : Forall (lv_ok s2) U).
    { eapply lvs_ok_frame; [exact F2| |exact GU].
      intros u Hu [Heq|[]]. apply NDv. rewrite Heq. now apply in_map. }
    assert (DU2 : Forall (fun v => leaf_in (defs s2) (v_leaf v)) U).
    { destruct F2 as (_ & -> & _). exact DU. }
    assert (B2 : sched_tock tk s2 sid = b) by (rewrite (sched_tock_frame _ _ _ _ _ _ F2); exact B).
    assert (T2 : tyme s2 = tyme s) by (destruct F2 as (-> & _); reflexivity).
    rewrite <- app_assoc in Dq2. cbn [app] in Dq2.
    destruct (IH f s2 _ o1 s' r E2 O Dq2 FU DU2 NDU VU OK2 B2) as (U' & o' & Hp & -> & Dq' & G' & OK' & F').
    rewrite T2 in Hp. rewrite B in Hst.
    assert (FF : frame (lv_id v :: map lv_id U) [sid] s s').
    { eapply frame_trans.
      - eapply frame_weaken; [| |exact F2]; [intros x [->|[]]; now left|apply incl_refl].
      - eapply frame_weaken; [| |exact F']; [apply incl_tl, incl_refl|apply incl_refl]. }
    cbn [lvs_pass map].
    destruct (tleb (v_re v) (tyme s)).
    + rewrite Hst, Hp. destruct ov as [v'|].
      * destruct Hov as [Gv' Lv'].
        eexists _, _. split; [reflexivity|]. split; [reflexivity|].
        split; [rewrite Dq', <- app_assoc; reflexivity|].
        split; [|split; assumption].
        constructor; [|exact G'].
        eapply lv_ok_frame; [exact F'| |exact Gv'].
        unfold lv_id. rewrite Lv'. exact NDv.
      * eexists _, _. split; [reflexivity|]. split; [reflexivity|].
        split; [rewrite Dq', app_nil_r; reflexivity|]. split; [exact G'|split; assumption].
    + inversion Hst; subst ov o1. rewrite Hp. destruct Hov as [Gv' _].
      eexists _, _. split; [reflexivity|]. split; [reflexivity|].
      split; [rewrite Dq', <- app_assoc; reflexivity|].
      split; [|split; assumption].
      constructor; [|exact G'].
      eapply lv_ok_frame; [exact F'|exact NDv|exact Gv'].
Qed.

(* ---------- a group: a DoDoer with tock z0, always = false, over leaves ---------- *)

Variable z0 : T.

Lemma oof_set_gen s i g : oof (set_gen s i g) = oof s. Proof. reflexivity. Qed.
Lemma oof_emit s k i : oof (emit s k i) = oof s. Proof. reflexivity. Qed.
Lemma oof_set_done s i d : oof (set_done s i d) = oof s. Proof. reflexivity. Qed.
Lemma oof_set_deeds s i d : oof (set_deeds s i d) = oof s. Proof. reflexivity. Qed.

Lemma close_own_empty f s n :
  oof (close_own tk f s n) = false -> deeds (get_sched s n) = [] -> close_own tk f s n = set_deeds s n [].
Proof.
  intros O Hd. destruct f as [|f]; [rewrite close_own_O in O; discriminate|].
  rewrite close_own_S in *. rewrite Hd in *. cbn [unrotate split_mark rev] in *.
  destruct f as [|f]; [rewrite close_list_O in O; discriminate|].
  now rewrite close_list_S.
Qed.

Lemma sched_tock_nest s n kids0 : n <> 0%N -> get (defs s) n = Some (FNest z0 false kids0) -> sched_tock tk s n = tabs z0.
Proof.
  intros Hn D. unfold sched_tock. destruct (N.eqb n 0) eqn:E; [apply N.eqb_eq in E; contradiction|].
  now rewrite D.
Qed.

Lemma group_send f s n npc kids0 (kids : list (lv T)) o s' r :
  gen_send tk f s n = (s', r) -> oof s' = false ->
  get_gen s n = GSusp npc -> get (defs s) n = Some (FNest z0 false kids0) ->
  deeds (get_sched s n) = map lv_deed kids -> Forall (lv_ok s) kids ->
  Forall (fun v => leaf_in (defs s) (v_leaf v)) kids -> NoDup (map lv_id kids) ->
  Forall (fun v => In (lv_id v) vis) kids -> ~ In n vis -> n <> 0%N ->
  out_ok s o ->
  exists kids' o', lvs_pass (tabs z0) (tyme s) kids o = (kids', o') /\
    out_ok s' o' /\ frame (n :: map lv_id kids) [n] s s' /\
    match kids' with
    | [] => r = GReturn /\ get_gen s' n = GDone
    | _ => r = GYield (Some (tabs z0)) /\ get_gen s' n = GSusp npc /\
           deeds (get_sched s' n) = map lv_deed kids' /\ Forall (lv_ok s') kids'
    end.
Proof.
  intros E O G D Dq K DK ND V NV N0 OK.
  assert (NK : forall v, In v kids -> ~ In (lv_id v) [n]).
  { intros v Hv [Heq|[]]. rewrite Forall_forall in V. apply NV. rewrite Heq. now apply V. }
  destruct f as [|f]; [rewrite gen_send_O in E; inversion E; subst; discriminate|].
  rewrite gen_send_S, G, D in E. cbv zeta in E.
  set (s1 := emit (set_gen s n (GRun npc)) Recur n) in *.
  destruct (recur_pass tk f s1 n) as [s2 g] eqn:Ep.
  assert (O2 : oof s2 = false).
  { destruct g; cbv beta iota zeta in E.
    1,2: destruct (deeds (get_sched s2 n)); cbn [andb negb] in E; inversion E; subst s';
      rewrite ?oof_set_gen, ?oof_emit in O; [apply oof_close_own in O|]; exact O.
    - inversion E; subst s'. rewrite oof_set_gen, oof_emit in O. apply oof_close_own in O.
      destruct kbd; exact O.
    - inversion E; subst; exact O. }
  destruct f as [|f]; [rewrite recur_pass_O in Ep; inversion Ep; subst; discriminate|].
  rewrite recur_pass_S in Ep. cbv zeta in Ep.
  set (s1' := set_deeds s1 n (deeds (get_sched s1 n) ++ [DMark])) in *.
  assert (F1 : frame [n] [n] s s1').
  { unfold s1', s1. apply frame_deeds; [now left|]. apply frame_emit. apply frame_gen; [now left|]. apply frame_refl. }
  assert (OK1 : out_ok s1' o).
  { unfold s1', s1. apply ok_deeds. apply ok_emit_invis; [exact NV|]. now apply ok_gen. }
  assert (Dq1 : deeds (get_sched s1' n) = map lv_deed kids ++ DMark :: []).
  { unfold s1'. rewrite deeds_set_deeds_same. unfold s1. rewrite sched_emit, sched_set_gen. now rewrite Dq. }
  assert (K1 : Forall (lv_ok s1') kids) by (eapply lvs_ok_frame; [exact F1|exact NK|exact K]).
  assert (B1 : sched_tock tk s1' n = tabs z0) by (eapply sched_tock_nest; [exact N0|exact D]).
  destruct (lvs_loop n (tabs z0) kids f s1' [] o s2 g Ep O2 Dq1 K1 DK ND V OK1 B1)
    as (kids' & o' & Hp & -> & Dq2 & K2 & OK2 & F2).
  change (tyme s1') with (tyme s) in Hp. cbn [app] in Dq2.
  exists kids', o'. split; [exact Hp|].
  assert (F12 : frame (n :: map lv_id kids) [n] s s2).
  { eapply frame_trans.
    - eapply frame_weaken; [| |exact F1]; [intros x [->|[]]; now left|apply incl_refl].
    - eapply frame_weaken; [| |exact F2]; [apply incl_tl, incl_refl|apply incl_refl]. }
  cbv beta iota zeta in E. rewrite Dq2 in E.
  destruct kids' as [|v' kids'']; cbn [map andb negb] in E.
  - inversion E; subst s' r; clear E.
    rewrite oof_set_gen, oof_emit in O.
    rewrite close_own_empty in * by (try exact O; rewrite sched_emit, sched_set_done; exact Dq2).
    split; [|split].
    + apply ok_gen. apply ok_emit_invis; [exact NV|]. apply ok_deeds. apply ok_emit_invis; [exact NV|].
      apply ok_done_invis; [exact NV|exact OK2].
    + apply frame_gen; [now left|]. apply frame_emit. apply frame_deeds; [now left|].
      apply frame_emit. apply frame_done. exact F12.
    + split; [reflexivity|]. apply gen_set_gen_same.
  - inversion E; subst s' r; clear E.
    split; [|split].
    + apply ok_gen. apply ok_done_invis; [exact NV|exact OK2].
    + apply frame_gen; [now left|]. apply frame_done. exact F12.
    + split; [reflexivity|]. split; [apply gen_set_gen_same|].
      split; [rewrite sched_set_gen, sched_set_done; exact Dq2|].
      eapply lvs_ok_frame; [| |exact K2].
      * apply (frame_gen [n] [n] (set_done s2 n (Some false)) (set_done s2 n (Some false)) n (GSusp npc)); [now left|apply frame_refl].
      * intros v Hv [Heq|[]]. apply NV. rewrite Heq.
        apply lvs_pass_subl in Hp. apply (subl_map lf_id) in Hp. rewrite <- !lv_id_map in Hp.
        rewrite Forall_forall in V.
        pose proof (subl_In _ _ (lv_id v) Hp (in_map lv_id _ _ Hv)) as Hin.
        apply in_map_iff in Hin as (u & Hu & Hin). rewrite <- Hu. now apply V.
Qed.

(* ---------- a recur pass of the root over leaves and groups ---------- *)

Definition it_deed (it : aitem T) : deed T :=
  match it with ALeaf v => lv_deed v | AGroup n _ re _ => DDeed n re end.
Definition it_ok s (it : aitem T) : Prop :=
  match it with
  | ALeaf v => lv_ok s v
  | AGroup n npc _ kids =>
    get_gen s n = GSusp npc /\ deeds (get_sched s n) = map lv_deed kids /\ Forall (lv_ok s) kids
  end.
Definition it_ids (it : aitem T) : list id :=
  match it with ALeaf v => [lv_id v] | AGroup n _ _ kids => n :: map lv_id kids end.
Definition its_ids (its : list (aitem T)) : list id := flat_map it_ids its.
Definition it_wf (D : amap (fdef T)) (it : aitem T) : Prop :=
  match it with
  | ALeaf v => leaf_in D (v_leaf v) /\ In (lv_id v) vis
  | AGroup n _ _ kids =>
    ~ In n vis /\ (exists kids0, get D n = Some (FNest z0 false kids0)) /\
    Forall (fun v => leaf_in D (v_leaf v)) kids /\ Forall (fun v => In (lv_id v) vis) kids
  end.

Lemma it_ok_frame Xg Xs s s' it :
  frame Xg Xs s s' -> (forall x, In x (it_ids it) -> ~ In x Xg /\ ~ In x Xs) -> it_ok s it -> it_ok s' it.
Proof.
  intros F Hn. destruct it as [v|n npc re kids]; cbn [it_ok it_ids] in *.
  - apply (lv_ok_frame _ _ _ _ _ F). apply Hn. now left.
  - intros (G & Dq & K). destruct (Hn n (or_introl eq_refl)) as [Ng Ns].
    pose proof F as (_ & _ & FG & FS).
    split; [now rewrite FG|]. split; [now rewrite FS|].
    eapply lvs_ok_frame; [exact F| |exact K].
    intros v Hv. apply Hn. right. now apply in_map.
Qed.

Lemma its_ok_frame Xg Xs s s' U :
  frame Xg Xs s s' -> (forall x, In x (its_ids U) -> ~ In x Xg /\ ~ In x Xs) ->
  Forall (it_ok s) U -> Forall (it_ok s') U.
Proof.
  intros F Hn L. rewrite Forall_forall in *. intros it Hit.
  eapply it_ok_frame; [exact F| |now apply L].
  intros x Hx. apply Hn. unfold its_ids. apply in_flat_map. now exists it.
Qed.

Lemma NoDup_app_disj {A} (l1 l2 : list A) : NoDup (l1 ++ l2) -> forall x, In x l1 -> ~ In x l2.
Proof.
  induction l1 as [|a l1 IH]; intros N x Hx; [destruct Hx|].
  cbn [app] in N. apply NoDup_cons_iff in N as [Na N]. destruct Hx as [->|Hx].
  - intro Hx2. apply Na. apply in_or_app. now right.
  - now apply IH.
Qed.

Lemma NoDup_app_r {A} (l1 l2 : list A) : NoDup (l1 ++ l2) -> NoDup l2.
Proof. induction l1 as [|a l1 IH]; cbn [app]; intro N; [assumption|]. apply NoDup_cons_iff in N as [_ N]. auto. Qed.
Lemma NoDup_app_l {A} (l1 l2 : list A) : NoDup (l1 ++ l2) -> NoDup l1.
Proof.
  induction l1 as [|a l1 IH]; cbn [app]; intro N; [constructor|]. apply NoDup_cons_iff in N as [Na N].
  constructor; [|auto]. intro. apply Na. apply in_or_app. now left.
Qed.

Lemma its_wf_defs D D' U : D' = D -> Forall (it_wf D) U -> Forall (it_wf D') U.
Proof. now intros ->. Qed.

Ltac incl_tac :=
  let x := fresh "x" in let Hx := fresh "Hx" in
  intros x Hx; unfold its_ids in Hx |- *; cbn [flat_map it_ids In app] in Hx |- *;
  rewrite ?in_app_iff in Hx; rewrite ?in_app_iff; cbn [In] in Hx |- *; tauto.

Lemma its_loop : forall (U : list (aitem T)) f s P o s' r,
  recur_loop tk f s 0%N = (s', r) -> oof s' = false ->
  deeds (get_sched s 0%N) = map it_deed U ++ DMark :: P ->
  Forall (it_ok s) U -> Forall (it_wf (defs s)) U -> NoDup (0%N :: its_ids U) ->
  out_ok s o ->
  exists U' o', its_pass tk (tabs z0) (tyme s) U o = (U', o') /\
    r = GReturn /\ deeds (get_sched s' 0%N) = P ++ map it_deed U' /\
    Forall (it_ok s') U' /\ out_ok s' o' /\ frame (its_ids U) (0%N :: its_ids U) s s'.
Proof.
  induction U as [|it U IH]; intros f s P o s' r E O Dq G W ND OK.
  - cbn [map app] in Dq.
    destruct f as [|f]; [rewrite recur_loop_O in E; inversion E; subst; discriminate|].
    rewrite recur_loop_S, Dq in E. inversion E; subst s' r.
    exists [], o. split; [reflexivity|]. split; [reflexivity|].
    split; [rewrite deeds_set_deeds_same; now rewrite app_nil_r|].
    split; [constructor|]. split; [now apply ok_deeds|].
    apply frame_deeds; [now left|apply frame_refl].
  - cbn [map app] in Dq.
    destruct f as [|f]; [rewrite recur_loop_O in E; inversion E; subst; discriminate|].
    apply Forall_cons_iff in G as [Gi GU]. apply Forall_cons_iff in W as [Wi WU].
    apply NoDup_cons_iff in ND as [N0 ND]. unfold its_ids in ND, N0. cbn [flat_map] in ND, N0. fold (its_ids U) in ND, N0.
    pose proof (NoDup_app_disj _ _ ND) as Disj.
    assert (NDU : NoDup (0%N :: its_ids U)).
    { constructor; [intro; apply N0; apply in_or_app; now right|]. eapply NoDup_app_r; exact ND. }
    destruct it as [v|n npc re kids].
    + (* a root leaf *)
      cbn [it_deed it_ok it_wf it_ids] in *. destruct Wi as [Dv Vv].
      destruct (loop_leaf_step f s 0%N v _ s' r o E O Dq Gi Dv Vv OK)
        as (s2 & ov & o1 & Hst & E2 & Dq2 & Hov & OK2 & F2).
      assert (FU : Forall (it_ok s2) U).
      { eapply its_ok_frame; [exact F2| |exact GU].
        intros x Hx. split; intros [Heq|[]]; subst x.
        - apply (Disj (lv_id v)); [now left|exact Hx].
        - apply N0. apply in_or_app. now right. }
      assert (WU2 : Forall (it_wf (defs s2)) U) by (destruct F2 as (_ & -> & _); exact WU).
      assert (T2 : tyme s2 = tyme s) by (destruct F2 as (-> & _); reflexivity).
      rewrite <- app_assoc in Dq2. cbn [app] in Dq2.
      destruct (IH f s2 _ o1 s' r E2 O Dq2 FU WU2 NDU OK2) as (U' & o' & Hp & -> & Dq' & G' & OK' & F').
      rewrite T2 in Hp. change (sched_tock tk s 0%N) with tk in Hst.
      assert (FF : frame (lv_id v :: its_ids U) (0%N :: lv_id v :: its_ids U) s s').
      { eapply frame_trans.
        - eapply frame_weaken; [| |exact F2]; incl_tac.
        - eapply frame_weaken; [| |exact F']; incl_tac. }
      cbn [its_pass map flat_map it_ids app].
      destruct (tleb (v_re v) (tyme s)).
      * rewrite Hst, Hp. destruct ov as [v'|].
        -- destruct Hov as [Gv' Lv'].
           eexists _, _. split; [reflexivity|]. split; [reflexivity|].
           split; [rewrite Dq', <- app_assoc; reflexivity|].
           split; [|split; assumption].
           constructor; [|exact G']. cbn [it_ok].
           eapply lv_ok_frame; [exact F'| |exact Gv'].
           unfold lv_id. rewrite Lv'. apply (Disj (lv_id v)). now left.
        -- eexists _, _. split; [reflexivity|]. split; [reflexivity|].
           split; [rewrite Dq', app_nil_r; reflexivity|]. split; [exact G'|split; assumption].
      * inversion Hst; subst ov o1. rewrite Hp. destruct Hov as [Gv' _].
        eexists _, _. split; [reflexivity|]. split; [reflexivity|].
        split; [rewrite Dq', <- app_assoc; reflexivity|].
        split; [|split; assumption].
        constructor; [|exact G']. cbn [it_ok].
        eapply lv_ok_frame; [exact F'| |exact Gv']. apply (Disj (lv_id v)). now left.
    + (* a group *)
      cbn [it_deed it_ok it_wf it_ids] in *.
      destruct Gi as (Gn & Dqn & Kn). destruct Wi as (NV & [kids0 Dn] & DK & VK).
      assert (Nn0 : n <> 0%N) by (intro; subst n; apply N0; now left).
      assert (NDk : NoDup (map lv_id kids)).
      { apply NoDup_app_l in ND. now apply NoDup_cons_iff in ND as [_ ND]. }
      rewrite recur_loop_S, Dq in E. cbv zeta in E.
      set (rest := map it_deed U ++ DMark :: P) in *.
      change (tyme (set_deeds s 0%N rest)) with (tyme s) in E.
      cbn [its_pass map flat_map it_ids app].
      destruct (tleb re (tyme s)) eqn:Due.
      * destruct (gen_send tk f (set_deeds s 0%N rest) n) as [s2 g] eqn:Es.
        assert (O2 : oof s2 = false).
        { destruct g; try (inversion E; subst; assumption); apply oof_recur_loop in E; assumption. }
        assert (F0 : frame [] [0%N] s (set_deeds s 0%N rest)) by (apply frame_deeds; [now left|apply frame_refl]).
        assert (Dqn0 : deeds (get_sched (set_deeds s 0%N rest) n) = map lv_deed kids)
          by (rewrite sched_set_deeds_other by exact Nn0; exact Dqn).
        destruct (group_send f (set_deeds s 0%N rest) n npc kids0 kids o s2 g Es O2 Gn Dn Dqn0 Kn DK NDk VK NV Nn0
                    (ok_deeds _ _ _ _ OK)) as (kids' & o1 & Hk & OK2 & F2 & Hcase).
        change (tyme (set_deeds s 0%N rest)) with (tyme s) in Hk.
        assert (Hsub : forall x, In x (map lv_id kids') -> In x (map lv_id kids)).
        { intros x. rewrite !lv_id_map. apply subl_In. apply subl_map. eapply lvs_pass_subl; exact Hk. }
        assert (F02 : frame (n :: map lv_id kids) [0%N; n] s s2).
        { eapply frame_trans; [eapply frame_weaken; [| |exact F0]; incl_tac
                              |eapply frame_weaken; [| |exact F2]; incl_tac]. }
        assert (Dq0 : deeds (get_sched s2 0%N) = rest).
        { destruct F2 as (_ & _ & _ & FS). rewrite FS; [apply deeds_set_deeds_same|].
          intros [Heq|[]]. now apply Nn0. }
        assert (HU : forall x, In x (its_ids U) -> ~ In x (n :: map lv_id kids) /\ ~ In x [0%N; n]).
        { intros x Hx. split.
          - intro Hin. apply (Disj x Hin Hx).
          - intros [Heq|[Heq|[]]]; subst x.
            + apply N0, in_or_app; now right.
            + apply (Disj n); [now left|exact Hx]. }
        assert (FU : Forall (it_ok s2) U) by (eapply its_ok_frame; [exact F02|exact HU|exact GU]).
        assert (WU2 : Forall (it_wf (defs s2)) U) by (destruct F02 as (_ & -> & _); exact WU).
        assert (T2 : tyme s2 = tyme s) by (destruct F02 as (-> & _); reflexivity).
        rewrite Hk.
        destruct kids' as [|v' kids''].
        -- destruct Hcase as [-> Gd]. unfold rest in Dq0.
           destruct (IH f s2 P o1 s' r E O Dq0 FU WU2 NDU OK2) as (U' & o' & Hp & -> & Dq' & G' & OK' & F').
           rewrite T2 in Hp. rewrite Hp.
           eexists _, _. split; [reflexivity|]. split; [reflexivity|]. split; [exact Dq'|].
           split; [exact G'|]. split; [exact OK'|].
           eapply frame_trans; [eapply frame_weaken; [| |exact F02]; incl_tac
                               |eapply frame_weaken; [| |exact F']; incl_tac].
        -- destruct Hcase as (-> & Gs & Dqs & Ks). cbv beta iota zeta in E.
           change (sched_tock tk s2 0%N) with tk in E. rewrite T2 in E.
           set (re' := if tfalsy (tabs z0) then tadd (tyme s) tk else tadd re (tabs z0)) in *.
           set (s3 := set_deeds s2 0%N (deeds (get_sched s2 0%N) ++ [DDeed n re'])) in *.
           assert (F3 : frame [] [0%N] s2 s3) by (apply frame_deeds; [now left|apply frame_refl]).
           assert (Dq3 : deeds (get_sched s3 0%N) = map it_deed U ++ DMark :: (P ++ [DDeed n re'])).
           { unfold s3. rewrite deeds_set_deeds_same, Dq0. unfold rest. now rewrite <- app_assoc. }
           assert (FU3 : Forall (it_ok s3) U).
           { eapply its_ok_frame; [exact F3| |exact FU]. intros x Hx. split; [intros []|].
             intros [Heq|[]]. subst x. apply N0, in_or_app; now right. }
           destruct (IH f s3 _ o1 s' r E O Dq3 FU3 WU2 NDU (ok_deeds _ _ _ _ OK2))
             as (U' & o' & Hp & -> & Dq' & G' & OK' & F').
           change (tyme s3) with (tyme s2) in Hp. rewrite T2 in Hp. rewrite Hp.
           eexists _, _. split; [reflexivity|]. split; [reflexivity|].
           split; [rewrite Dq', <- app_assoc; reflexivity|].
           split; [|split; [exact OK'|]].
           ++ constructor; [|exact G'].
              eapply it_ok_frame; [exact F'| |].
              ** intros x Hx. cbn [it_ids] in Hx.
                 assert (Hin : In x (n :: map lv_id kids)).
                 { destruct Hx as [<-|Hx]; [now left|right; now apply Hsub]. }
                 split; [exact (Disj x Hin)|].
                 intros [Heq|Hx2]; [|exact (Disj x Hin Hx2)].
                 subst x. apply N0, in_or_app. now left.
              ** cbn [it_ok]. split; [exact Gs|]. split.
                 --- unfold s3. rewrite sched_set_deeds_other by exact Nn0. exact Dqs.
                 --- exact Ks.
           ++ eapply frame_trans; [eapply frame_weaken; [| |exact F02]; incl_tac|].
              eapply frame_trans; [eapply frame_weaken; [| |exact F3]; incl_tac|].
              eapply frame_weaken; [| |exact F']; incl_tac.
      * (* not due: rotated to the back untouched *)
        set (s3 := set_deeds (set_deeds s 0%N rest) 0%N (rest ++ [DDeed n re])) in *.
        assert (F3 : frame [] [0%N] s s3).
        { unfold s3. apply frame_deeds; [now left|]. apply frame_deeds; [now left|]. apply frame_refl. }
        assert (Dq3 : deeds (get_sched s3 0%N) = map it_deed U ++ DMark :: (P ++ [DDeed n re])).
        { unfold s3. rewrite deeds_set_deeds_same. unfold rest. now rewrite <- app_assoc. }
        assert (H0 : forall x, In x (its_ids U) -> ~ In x [] /\ ~ In x [0%N]).
        { intros x Hx. split; [intros []|]. intros [Heq|[]]. subst x. apply N0, in_or_app; now right. }
        assert (FU3 : Forall (it_ok s3) U) by (eapply its_ok_frame; [exact F3|exact H0|exact GU]).
        destruct (IH f s3 _ o s' r E O Dq3 FU3 WU NDU (ok_deeds _ _ _ _ (ok_deeds _ _ _ _ OK)))
          as (U' & o' & Hp & -> & Dq' & G' & OK' & F').
        change (tyme s3) with (tyme s) in Hp. rewrite Hp.
        eexists _, _. split; [reflexivity|]. split; [reflexivity|].
        split; [rewrite Dq', <- app_assoc; reflexivity|].
        split; [|split; [exact OK'|]].
        -- constructor; [|exact G'].
           eapply it_ok_frame; [exact F'| |].
           ++ intros x Hx. cbn [it_ids] in Hx. split; [exact (Disj x Hx)|].
              intros [Heq|Hx2]; [|exact (Disj x Hx Hx2)].
              subst x. apply N0, in_or_app. now left.
           ++ eapply (it_ok_frame [] [0%N] s s3 (AGroup n npc re kids)); [exact F3| |cbn [it_ok]; auto].
              intros x Hx. split; [intros []|]. intros [Heq|[]]. subst x. apply N0, in_or_app. now left.
        -- eapply frame_trans; [eapply frame_weaken; [| |exact F3]; incl_tac|].
           eapply frame_weaken; [| |exact F']; incl_tac.
Qed.

(* ---------- recur pass of the root ---------- *)

Lemma root_pass (U : list (aitem T)) f s o s' r :
  recur_pass tk f s 0%N = (s', r) -> oof s' = false ->
  deeds (get_sched s 0%N) = map it_deed U ->
  Forall (it_ok s) U -> Forall (it_wf (defs s)) U -> NoDup (0%N :: its_ids U) ->
  out_ok s o ->
  exists U' o', its_pass tk (tabs z0) (tyme s) U o = (U', o') /\
    r = GReturn /\ deeds (get_sched s' 0%N) = map it_deed U' /\
    Forall (it_ok s') U' /\ out_ok s' o' /\ frame (its_ids U) (0%N :: its_ids U) s s'.
Proof.
  intros E O Dq G W ND OK.
  destruct f as [|f]; [rewrite recur_pass_O in E; inversion E; subst; discriminate|].
  rewrite recur_pass_S in E. cbv zeta in E.
  set (s1 := set_deeds s 0%N (deeds (get_sched s 0%N) ++ [DMark])) in *.
  assert (F1 : frame [] [0%N] s s1) by (apply frame_deeds; [now left|apply frame_refl]).
  assert (Dq1 : deeds (get_sched s1 0%N) = map it_deed U ++ DMark :: []).
  { unfold s1. rewrite deeds_set_deeds_same. now rewrite Dq. }
  assert (G1 : Forall (it_ok s1) U).
  { eapply its_ok_frame; [exact F1| |exact G]. intros x Hx. split; [intros []|].
    intros [Heq|[]]. subst x. apply NoDup_cons_iff in ND as [N0 _]. contradiction. }
  destruct (its_loop U f s1 [] o s' r E O Dq1 G1 W ND (ok_deeds _ _ _ _ OK))
    as (U' & o' & Hp & -> & Dq' & G' & OK' & F').
  exists U', o'. split; [exact Hp|]. split; [reflexivity|]. split; [exact Dq'|].
  split; [exact G'|]. split; [exact OK'|].
  eapply frame_trans; [eapply frame_weaken; [| |exact F1]; incl_tac|exact F'].
Qed.

(* ---------- enter ---------- *)

Lemma oof_gen_start_enter f s0 i sid rest s' r :
  (let '(s1, g) := gen_start tk f s0 i in
   match g with
   | GYield _ => enter_own tk f (set_deeds s1 sid (deeds (get_sched s1 sid) ++ [DDeed i (tyme s1)])) sid rest
   | GReturn => enter_own tk f s1 sid rest
   | GRaise kbd => (s1, GRaise kbd)
   | GFuel => (s1, GFuel)
   end) = (s', r) -> oof s' = false -> oof (fst (gen_start tk f s0 i)) = false.
Proof.
  destruct (gen_start tk f s0 i) as [s1 g]. cbn [fst].
  destruct g; intros E O; try (inversion E; subst; assumption); apply oof_enter_own in E; assumption.
Qed.

Lemma enter_leaf_step f s sid (l : leaf T) rest s' r o :
  enter_own tk (S f) s sid (lf_id l :: rest) = (s', r) -> oof s' = false ->
  get_gen s (lf_id l) = GNew -> leaf_in (defs s) l -> In (lf_id l) vis -> out_ok s o ->
  exists s2 ov o', lf_enter (tyme s) l o = (ov, o') /\
    enter_own tk f s2 sid rest = (s', r) /\
    deeds (get_sched s2 sid) = deeds (get_sched s sid) ++ match ov with Some v => [lv_deed v] | None => [] end /\
    match ov with Some v => lv_ok s2 v /\ v_leaf v = l | None => True end /\
    out_ok s2 o' /\ frame [lf_id l] [sid] s s2.
Proof.
  intros E O G [D P] V OK.
  rewrite enter_own_S in E. cbv zeta in E.
  pose proof (oof_gen_start_enter _ _ _ _ _ _ _ E O) as O1.
  destruct (gen_start tk f (set_done s (lf_id l) (Some false)) (lf_id l)) as [s1 g] eqn:Es. cbn [fst] in O1.
  pose proof (leaf_start _ _ _ _ _ _ _ Es O1 G D (pure_nth _ _ P)) as L.
  assert (OK0 : out_ok (emit (set_gen (set_done s (lf_id l) (Some false)) (lf_id l) (GRun 0)) Enter (lf_id l))
                       (o_emit (o_done o (lf_id l) (Some false)) Enter (lf_id l) (tyme s))).
  { apply (ok_emit_vis (set_gen (set_done s (lf_id l) (Some false)) (lf_id l) (GRun 0)) _ Enter (lf_id l) V).
    apply ok_gen. now apply ok_done_vis. }
  unfold lf_enter.
  destruct (f_out (nth 0 (lf_script l) default_step)) as [x|rr| |] eqn:Fo; try contradiction.
  - destruct L as [-> ->].
    eexists _, _, _. split; [reflexivity|]. split; [exact E|].
    split; [rewrite deeds_set_deeds_same; reflexivity|].
    split; [split; [|reflexivity]|split].
    + unfold lv_ok; cbn [v_leaf v_pc lv_id]. rewrite gen_set_deeds. apply gen_set_gen_same.
    + apply ok_deeds, ok_gen. exact OK0.
    + apply frame_deeds; [now left|]. apply frame_gen; [now left|]. apply frame_emit.
      apply frame_gen; [now left|]. apply frame_done. apply frame_refl.
  - destruct L as [-> ->].
    eexists _, _, _. split; [reflexivity|]. split; [exact E|].
    split; [rewrite app_nil_r; reflexivity|].
    split; [exact I|split].
    + apply (ok_return _ _ l rr (lf_id l) eq_refl V OK0).
    + cbv zeta. apply frame_done. apply frame_gen; [now left|]. do 3 apply frame_emit.
      apply frame_gen; [now left|]. apply frame_done. apply frame_refl.
Qed.

Lemma lfs_enter_own sid : forall (ls : list (leaf T)) f s o s' r,
  enter_own tk f s sid (map lf_id ls) = (s', r) -> oof s' = false ->
  Forall (fun l => get_gen s (lf_id l) = GNew) ls -> Forall (leaf_in (defs s)) ls ->
  NoDup (map lf_id ls) -> Forall (fun l => In (lf_id l) vis) ls ->
  out_ok s o ->
  exists vs o', lfs_enter (tyme s) ls o = (vs, o') /\ r = GReturn /\
    deeds (get_sched s' sid) = deeds (get_sched s sid) ++ map lv_deed vs /\
    Forall (lv_ok s') vs /\ out_ok s' o' /\ frame (map lf_id ls) [sid] s s'.
Proof.
  induction ls as [|l ls IH]; intros f s o s' r E O G D ND V OK.
  - cbn [map] in E.
    destruct f as [|f]; [rewrite enter_own_O in E; inversion E; subst; discriminate|].
    rewrite enter_own_S in E. inversion E; subst s' r.
    exists [], o. split; [reflexivity|]. split; [reflexivity|].
    split; [now rewrite app_nil_r|]. split; [constructor|]. split; [exact OK|apply frame_refl].
  - cbn [map] in E, ND.
    destruct f as [|f]; [rewrite enter_own_O in E; inversion E; subst; discriminate|].
    apply Forall_cons_iff in G as [Gl GU]. apply Forall_cons_iff in D as [Dl DU].
    apply NoDup_cons_iff in ND as [NDl NDU]. apply Forall_cons_iff in V as [Vl VU].
    destruct (enter_leaf_step f s sid l _ s' r o E O Gl Dl Vl OK)
      as (s2 & ov & o1 & Hst & E2 & Dq2 & Hov & OK2 & F2).
    assert (GU2 : Forall (fun l => get_gen s2 (lf_id l) = GNew) ls).
    { rewrite Forall_forall in *. intros u Hu. destruct F2 as (_ & _ & FG & _).
      rewrite FG; [now apply GU|]. intros [Heq|[]]. apply NDl. rewrite Heq. now apply in_map. }
    assert (DU2 : Forall (leaf_in (defs s2)) ls) by (destruct F2 as (_ & -> & _); exact DU).
    assert (T2 : tyme s2 = tyme s) by (destruct F2 as (-> & _); reflexivity).
    destruct (IH f s2 o1 s' r E2 O GU2 DU2 NDU VU OK2) as (vs & o' & Hp & -> & Dq' & G' & OK' & F').
    rewrite T2 in Hp.
    assert (FF : frame (lf_id l :: map lf_id ls) [sid] s s').
    { eapply frame_trans.
      - eapply frame_weaken; [| |exact F2]; [intros x [->|[]]; now left|apply incl_refl].
      - eapply frame_weaken; [| |exact F']; [apply incl_tl, incl_refl|apply incl_refl]. }
    cbn [lfs_enter map]. rewrite Hst, Hp. rewrite Dq', Dq2, <- app_assoc.
    destruct ov as [v|].
    + destruct Hov as [Gv Lv].
      eexists _, _. split; [reflexivity|]. split; [reflexivity|]. split; [reflexivity|].
      split; [|split; assumption].
      constructor; [|exact G'].
      eapply lv_ok_frame; [exact F'| |exact Gv]. unfold lv_id. rewrite Lv. exact NDl.
    + eexists _, _. split; [reflexivity|]. split; [reflexivity|]. split; [reflexivity|].
      split; [exact G'|split; assumption].
Qed.

Definition g_ids (g : gitem T) : list id :=
  match g with GLeaf l => [lf_id l] | GGroup n kids => n :: map lf_id kids end.
Definition gs_ids (gs : list (gitem T)) : list id := flat_map g_ids gs.
Definition g_wf (D : amap (fdef T)) (g : gitem T) : Prop :=
  match g with
  | GLeaf l => leaf_in D l /\ In (lf_id l) vis
  | GGroup n kids =>
    ~ In n vis /\ (exists kids0, get D n = Some (FNest z0 false kids0)) /\
    Forall (leaf_in D) kids /\ Forall (fun l => In (lf_id l) vis) kids
  end.
(* before enter: the DoDoer's doers are its kids, its deque is empty *)
Definition g_st s (g : gitem T) : Prop :=
  match g with
  | GLeaf _ => True
  | GGroup n kids => doers (get_sched s n) = map lf_id kids /\ deeds (get_sched s n) = []
  end.

Lemma group_start f s n kids0 (kids : list (leaf T)) o s' r :
  gen_start tk f s n = (s', r) -> oof s' = false ->
  get_gen s n = GNew -> get (defs s) n = Some (FNest z0 false kids0) ->
  doers (get_sched s n) = map lf_id kids -> deeds (get_sched s n) = [] ->
  Forall (fun l => get_gen s (lf_id l) = GNew) kids -> Forall (leaf_in (defs s)) kids ->
  NoDup (map lf_id kids) -> Forall (fun l => In (lf_id l) vis) kids -> ~ In n vis ->
  out_ok s o ->
  exists kids' o', lfs_enter (tyme s) kids o = (kids', o') /\ r = GYield (Some (tabs z0)) /\
    get_gen s' n = GSusp 1 /\ deeds (get_sched s' n) = map lv_deed kids' /\
    Forall (lv_ok s') kids' /\ out_ok s' o' /\ frame (n :: map lf_id kids) [n] s s'.
Proof.
  intros E O G D Do Dq GK DK ND V NV OK.
  assert (NK : forall l, In l kids -> lf_id l <> n).
  { intros l Hl Heq. rewrite Forall_forall in V. apply NV. rewrite <- Heq. now apply V. }
  destruct f as [|f]; [rewrite gen_start_O in E; inversion E; subst; discriminate|].
  rewrite gen_start_S in E. unfold startable in E. rewrite G in E. cbn [negb] in E. rewrite D in E.
  cbv zeta in E.
  set (s1 := emit (set_gen s n (GRun 0)) Enter n) in *.
  change (doers (get_sched s1 n)) with (doers (get_sched s n)) in E. rewrite Do in E.
  destruct (enter_own tk f s1 n (map lf_id kids)) as [s2 g] eqn:Ee.
  assert (O2 : oof s2 = false).
  { destruct g; inversion E; subst s'; rewrite ?oof_set_gen, ?oof_emit in O; try exact O.
    apply oof_close_own in O. destruct kbd; exact O. }
  assert (F1 : frame [n] [n] s s1).
  { unfold s1. apply frame_emit. apply frame_gen; [now left|]. apply frame_refl. }
  assert (GK1 : Forall (fun l => get_gen s1 (lf_id l) = GNew) kids).
  { rewrite Forall_forall in *. intros l Hl. unfold s1. rewrite gen_emit, gen_set_gen_other; [now apply GK|now apply NK]. }
  assert (OK1 : out_ok s1 o) by (unfold s1; apply ok_emit_invis; [exact NV|now apply ok_gen]).
  destruct (lfs_enter_own n kids f s1 o s2 g Ee O2 GK1 DK ND V OK1)
    as (kids' & o' & Hp & -> & Dq2 & K2 & OK2 & F2).
  change (tyme s1) with (tyme s) in Hp. change (get_sched s1 n) with (get_sched s n) in Dq2.
  rewrite Dq in Dq2. cbn [app] in Dq2.
  inversion E; subst s' r; clear E.
  exists kids', o'. split; [exact Hp|]. split; [reflexivity|].
  split; [apply gen_set_gen_same|]. split; [rewrite sched_set_gen; exact Dq2|].
  split; [|split].
  - eapply lvs_ok_frame; [| |exact K2].
    + apply (frame_gen [n] [n] s2 s2 n (GSusp 1)); [now left|apply frame_refl].
    + intros v Hv [Heq|[]]. apply lfs_enter_subl in Hp.
      apply (NK (v_leaf v)); [|now symmetry].
      eapply subl_In; [exact Hp|now apply in_map].
  - now apply ok_gen.
  - apply frame_gen; [now left|].
    eapply frame_trans.
    + eapply frame_weaken; [| |exact F1]; [intros x [->|[]]; now left|apply incl_refl].
    + eapply frame_weaken; [| |exact F2]; [apply incl_tl, incl_refl|apply incl_refl].
Qed.

Lemma gs_st_frame Xg Xs s s' (gs : list (gitem T)) :
  frame Xg Xs s s' -> (forall x, In x (gs_ids gs) -> ~ In x Xs) -> Forall (g_st s) gs -> Forall (g_st s') gs.
Proof.
  intros F Hn L. rewrite Forall_forall in *. intros g Hg. specialize (L g Hg).
  destruct g as [l|n kids]; cbn [g_st] in *; [exact I|].
  destruct F as (_ & _ & _ & FS). rewrite FS; [exact L|].
  apply Hn. unfold gs_ids. apply in_flat_map. exists (GGroup n kids). split; [exact Hg|now left].
Qed.

Ltac incl_gs :=
  let x := fresh "x" in let Hx := fresh "Hx" in
  intros x Hx; unfold gs_ids in Hx |- *; cbn [flat_map g_ids In app] in Hx |- *;
  rewrite ?in_app_iff in Hx; rewrite ?in_app_iff; cbn [In] in Hx |- *; tauto.

Lemma gs_enter_own : forall (gs : list (gitem T)) f s o s' r,
  enter_own tk f s 0%N (map g_top gs) = (s', r) -> oof s' = false ->
  (forall x, In x (gs_ids gs) -> get_gen s x = GNew) ->
  Forall (g_wf (defs s)) gs -> Forall (g_st s) gs ->
  NoDup (0%N :: gs_ids gs) -> out_ok s o ->
  exists its o', gs_enter (tyme s) gs o = (its, o') /\ r = GReturn /\
    deeds (get_sched s' 0%N) = deeds (get_sched s 0%N) ++ map it_deed its /\
    Forall (it_ok s') its /\ out_ok s' o' /\ frame (gs_ids gs) (0%N :: gs_ids gs) s s'.
Proof.
  induction gs as [|g gs IH]; intros f s o s' r E O GN W St ND OK.
  - cbn [map] in E.
    destruct f as [|f]; [rewrite enter_own_O in E; inversion E; subst; discriminate|].
    rewrite enter_own_S in E. inversion E; subst s' r.
    exists [], o. split; [reflexivity|]. split; [reflexivity|].
    split; [now rewrite app_nil_r|]. split; [constructor|]. split; [exact OK|apply frame_refl].
  - cbn [map] in E.
    destruct f as [|f]; [rewrite enter_own_O in E; inversion E; subst; discriminate|].
    apply Forall_cons_iff in W as [Wg WU]. apply Forall_cons_iff in St as [Sg SU].
    apply NoDup_cons_iff in ND as [N0 ND]. unfold gs_ids in ND, N0, GN. cbn [flat_map] in ND, N0, GN.
    fold (gs_ids gs) in ND, N0, GN.
    pose proof (NoDup_app_disj _ _ ND) as Disj.
    assert (NDU : NoDup (0%N :: gs_ids gs)).
    { constructor; [intro; apply N0; apply in_or_app; now right|]. eapply NoDup_app_r; exact ND. }
    destruct g as [l|n kids]; cbn [g_top g_wf g_st g_ids] in *.
    + destruct Wg as [Dl Vl].
      assert (Gl : get_gen s (lf_id l) = GNew) by (apply GN; now left).
      destruct (enter_leaf_step f s 0%N l _ s' r o E O Gl Dl Vl OK)
        as (s2 & ov & o1 & Hst & E2 & Dq2 & Hov & OK2 & F2).
      assert (GN2 : forall x, In x (gs_ids gs) -> get_gen s2 x = GNew).
      { intros x Hx. destruct F2 as (_ & _ & FG & _). rewrite FG; [apply GN; now right|].
        intros [Heq|[]]. subst x. apply (Disj (lf_id l)); [now left|exact Hx]. }
      assert (WU2 : Forall (g_wf (defs s2)) gs) by (destruct F2 as (_ & -> & _); exact WU).
      assert (SU2 : Forall (g_st s2) gs).
      { eapply gs_st_frame; [exact F2| |exact SU]. intros x Hx [Heq|[]]. subst x.
        apply N0, in_or_app. now right. }
      assert (T2 : tyme s2 = tyme s) by (destruct F2 as (-> & _); reflexivity).
      destruct (IH f s2 o1 s' r E2 O GN2 WU2 SU2 NDU OK2) as (its & o' & Hp & -> & Dq' & G' & OK' & F').
      rewrite T2 in Hp. cbn [gs_enter]. rewrite Hst, Hp. rewrite Dq', Dq2, <- app_assoc.
      assert (FF : frame (gs_ids (GLeaf l :: gs)) (0%N :: gs_ids (GLeaf l :: gs)) s s').
      { eapply frame_trans; [eapply frame_weaken; [| |exact F2]; incl_gs
                            |eapply frame_weaken; [| |exact F']; incl_gs]. }
      destruct ov as [v|].
      * destruct Hov as [Gv Lv].
        eexists _, _. split; [reflexivity|]. split; [reflexivity|]. split; [reflexivity|].
        split; [|split; assumption].
        constructor; [|exact G']. cbn [it_ok].
        eapply lv_ok_frame; [exact F'| |exact Gv]. unfold lv_id. rewrite Lv. apply (Disj (lf_id l)). now left.
      * eexists _, _. split; [reflexivity|]. split; [reflexivity|]. split; [reflexivity|].
        split; [exact G'|split; assumption].
    + destruct Wg as (NV & [kids0 Dn] & DK & VK). destruct Sg as [Do Dq].
      assert (Nn0 : n <> 0%N) by (intro; subst n; apply N0; now left).
      assert (NDk : NoDup (map lf_id kids)).
      { apply NoDup_app_l in ND. now apply NoDup_cons_iff in ND as [_ ND]. }
      rewrite enter_own_S in E. cbv zeta in E.
      set (s0 := set_done s n (Some false)) in *.
      pose proof (oof_gen_start_enter _ _ _ _ _ _ _ E O) as O1.
      destruct (gen_start tk f s0 n) as [s1 g] eqn:Es. cbn [fst] in O1.
      assert (GK : Forall (fun l => get_gen s0 (lf_id l) = GNew) kids).
      { rewrite Forall_forall. intros l Hl. unfold s0. rewrite gen_set_done. apply GN. right. apply in_or_app. left. now apply in_map. }
      assert (Gn : get_gen s0 n = GNew) by (unfold s0; rewrite gen_set_done; apply GN; now left).
      destruct (group_start f s0 n kids0 kids o s1 g Es O1 Gn Dn Do Dq GK DK NDk VK NV
                  (ok_done_invis _ _ _ _ NV OK)) as (kids' & o1 & Hk & -> & Gs & Dqs & Ks & OK1 & F1).
      change (tyme s0) with (tyme s) in Hk.
      assert (Hsub : forall x, In x (map lv_id kids') -> In x (map lf_id kids)).
      { intros x. rewrite lv_id_map. apply subl_In. apply subl_map. eapply lfs_enter_subl; exact Hk. }
      assert (F01 : frame (n :: map lf_id kids) [n] s s1).
      { eapply frame_trans; [|exact F1]. unfold s0. apply frame_done. apply frame_refl. }
      assert (T1 : tyme s1 = tyme s) by (destruct F01 as (-> & _); reflexivity).
      rewrite T1 in E.
      set (s2 := set_deeds s1 0%N (deeds (get_sched s1 0%N) ++ [DDeed n (tyme s)])) in *.
      assert (F2 : frame (n :: map lf_id kids) [0%N; n] s s2).
      { unfold s2. apply frame_deeds; [now left|]. eapply frame_weaken; [| |exact F01]; [apply incl_refl|incl_gs]. }
      assert (Dq2 : deeds (get_sched s2 0%N) = deeds (get_sched s 0%N) ++ [DDeed n (tyme s)]).
      { unfold s2. rewrite deeds_set_deeds_same. destruct F01 as (_ & _ & _ & FS). rewrite FS; [reflexivity|].
        intros [Heq|[]]. now apply Nn0. }
      assert (GN2 : forall x, In x (gs_ids gs) -> get_gen s2 x = GNew).
      { intros x Hx. destruct F2 as (_ & _ & FG & _). rewrite FG; [apply GN; right; apply in_or_app; now right|].
        intro Hin. exact (Disj x Hin Hx). }
      assert (WU2 : Forall (g_wf (defs s2)) gs) by (destruct F2 as (_ & -> & _); exact WU).
      assert (SU2 : Forall (g_st s2) gs).
      { eapply gs_st_frame; [exact F2| |exact SU]. intros x Hx [Heq|[Heq|[]]]; subst x.
        - apply N0, in_or_app. now right.
        - apply (Disj n); [now left|exact Hx]. }
      destruct (IH f s2 o1 s' r E O GN2 WU2 SU2 NDU (ok_deeds _ _ _ _ OK1)) as (its & o' & Hp & -> & Dq' & G' & OK' & F').
      change (tyme s2) with (tyme s1) in Hp. rewrite T1 in Hp.
      cbn [gs_enter]. rewrite Hk, Hp. rewrite Dq', Dq2, <- app_assoc.
      eexists _, _. split; [reflexivity|]. split; [reflexivity|]. split; [reflexivity|].
      split; [|split; [exact OK'|]].
      * constructor; [|exact G'].
        eapply it_ok_frame; [exact F'| |].
        -- intros x Hx. cbn [it_ids] in Hx.
           assert (Hin : In x (n :: map lf_id kids)).
           { destruct Hx as [<-|Hx]; [now left|right; now apply Hsub]. }
           split; [exact (Disj x Hin)|].
           intros [Heq|Hx2]; [|exact (Disj x Hin Hx2)].
           subst x. apply N0, in_or_app. now left.
        -- cbn [it_ok]. split; [exact Gs|]. split; [|exact Ks].
           unfold s2. rewrite sched_set_deeds_other by exact Nn0. exact Dqs.
      * eapply frame_trans; [eapply frame_weaken; [| |exact F2]; incl_gs
                            |eapply frame_weaken; [| |exact F']; incl_gs].
Qed.

(* ---------- exit ---------- *)

Lemma close_list_deed f s i (re : T) r :
  close_list tk (S f) s (DDeed i re :: r) = close_list tk f (gen_close tk f s i) r.
Proof. now rewrite close_list_S. Qed.

Lemma lvs_close_list : forall (vs : list (lv T)) f s o,
  oof (close_list tk f s (map lv_deed vs)) = false ->
  Forall (lv_ok s) vs -> Forall (fun v => leaf_in (defs s) (v_leaf v)) vs -> NoDup (map lv_id vs) ->
  Forall (fun v => In (lv_id v) vis) vs -> out_ok s o ->
  out_ok (close_list tk f s (map lv_deed vs)) (lvs_close (tyme s) vs o) /\
  frame (map lv_id vs) [] s (close_list tk f s (map lv_deed vs)).
Proof.
  induction vs as [|v vs IH]; intros f s o O G D ND V OK.
  - cbn [map] in *. destruct f as [|f]; [rewrite close_list_O in O; discriminate|].
    rewrite close_list_S. split; [exact OK|apply frame_refl].
  - cbn [map] in *. destruct f as [|f]; [rewrite close_list_O in O; discriminate|].
    apply Forall_cons_iff in G as [Gv GU]. apply Forall_cons_iff in D as [[Dv Pv] DU].
    apply NoDup_cons_iff in ND as [NDv NDU]. apply Forall_cons_iff in V as [Vv VU].
    change (lv_deed v :: map lv_deed vs) with (DDeed (lv_id v) (v_re v) :: map lv_deed vs) in *.
    rewrite close_list_deed in *.
    pose proof (oof_close_list _ _ _ O) as O1.
    rewrite (leaf_close _ _ _ _ _ _ O1 Gv Dv) in *.
    set (s1 := set_gen (emit (emit (set_gen s (lv_id v) (GRun (v_pc v))) Cease (lv_id v)) Exit (lv_id v)) (lv_id v) GDone) in *.
    assert (F1 : frame [lv_id v] [] s s1).
    { unfold s1. apply frame_gen; [now left|]. do 2 apply frame_emit. apply frame_gen; [now left|]. apply frame_refl. }
    assert (OK1 : out_ok s1 (o_emit (o_emit o Cease (lv_id v) (tyme s)) Exit (lv_id v) (tyme s))).
    { unfold s1. apply ok_gen.
      apply (ok_emit_vis (emit (set_gen s (lv_id v) (GRun (v_pc v))) Cease (lv_id v)) _ Exit (lv_id v) Vv).
      apply (ok_emit_vis (set_gen s (lv_id v) (GRun (v_pc v))) _ Cease (lv_id v) Vv). now apply ok_gen. }
    assert (GU1 : Forall (lv_ok s1) vs).
    { eapply lvs_ok_frame; [exact F1| |exact GU]. intros u Hu [Heq|[]]. apply NDv. rewrite Heq. now apply in_map. }
    destruct (IH f s1 _ O GU1 DU NDU VU OK1) as [OK' F'].
    split; [exact OK'|].
    eapply frame_trans.
    + eapply frame_weaken; [| |exact F1]; [intros x [->|[]]; now left|apply incl_refl].
    + eapply frame_weaken; [| |exact F']; [apply incl_tl, incl_refl|apply incl_refl].
Qed.

Lemma split_mark_lvs (vs : list (lv T)) : forall acc, split_mark (map lv_deed vs) acc = None.
Proof. induction vs as [|v vs IH]; intro acc; cbn [map split_mark lv_deed]; [reflexivity|apply IH]. Qed.
Lemma split_mark_its (its : list (aitem T)) : forall acc, split_mark (map it_deed its) acc = None.
Proof.
  induction its as [|it its IH]; intro acc; cbn [map split_mark]; [reflexivity|].
  destruct it; cbn [it_deed lv_deed]; apply IH.
Qed.

Lemma lv_id_rev (vs : list (lv T)) : map lv_id (rev vs) = rev (map lv_id vs).
Proof. apply map_rev. Qed.

Lemma group_close f s n npc kids0 (kids : list (lv T)) o :
  oof (gen_close tk f s n) = false ->
  get_gen s n = GSusp npc -> get (defs s) n = Some (FNest z0 false kids0) ->
  deeds (get_sched s n) = map lv_deed kids -> Forall (lv_ok s) kids ->
  Forall (fun v => leaf_in (defs s) (v_leaf v)) kids -> NoDup (map lv_id kids) ->
  Forall (fun v => In (lv_id v) vis) kids -> ~ In n vis ->
  out_ok s o ->
  out_ok (gen_close tk f s n) (lvs_close (tyme s) (rev kids) o) /\
  frame (n :: map lv_id kids) [n] s (gen_close tk f s n).
Proof.
  intros O G D Dq K DK ND V NV OK.
  assert (NK : forall v, In v kids -> ~ In (lv_id v) [n]).
  { intros v Hv [Heq|[]]. rewrite Forall_forall in V. apply NV. rewrite Heq. now apply V. }
  destruct f as [|f]; [rewrite gen_close_O in O; discriminate|].
  rewrite gen_close_S, G, D in *. cbv zeta in *.
  set (s1 := emit (set_gen s n (GRun npc)) Cease n) in *.
  rewrite oof_set_gen, oof_emit in O.
  destruct f as [|f]; [rewrite close_own_O in O; discriminate|].
  rewrite close_own_S in *. cbv zeta in *.
  change (get_sched s1 n) with (get_sched s n) in *. rewrite Dq in *.
  unfold unrotate in *. rewrite split_mark_lvs in *. rewrite <- map_rev in *.
  set (s2 := set_deeds s1 n []) in *.
  assert (F2 : frame [n] [n] s s2).
  { unfold s2, s1. apply frame_deeds; [now left|]. apply frame_emit. apply frame_gen; [now left|]. apply frame_refl. }
  assert (OK2 : out_ok s2 o).
  { unfold s2, s1. apply ok_deeds. apply ok_emit_invis; [exact NV|]. now apply ok_gen. }
  assert (K2 : Forall (lv_ok s2) (rev kids)).
  { apply Forall_rev. eapply lvs_ok_frame; [exact F2|exact NK|exact K]. }
  assert (ND2 : NoDup (map lv_id (rev kids))) by (rewrite lv_id_rev; now apply NoDup_rev).
  destruct (lvs_close_list (rev kids) f s2 o O K2 (Forall_rev DK) ND2 (Forall_rev V) OK2) as [OK' F'].
  change (tyme s2) with (tyme s) in OK'.
  split.
  - apply ok_gen. apply ok_emit_invis; [exact NV|exact OK'].
  - apply frame_gen; [now left|]. apply frame_emit.
    eapply frame_trans.
    + eapply frame_weaken; [| |exact F2]; [intros x [->|[]]; now left|apply incl_refl].
    + eapply frame_weaken; [| |exact F']; [|intros x []].
      intros x Hx. right. rewrite lv_id_rev in Hx. now apply in_rev.
Qed.

Lemma its_close_list : forall (its : list (aitem T)) f s o,
  oof (close_list tk f s (map it_deed its)) = false ->
  Forall (it_ok s) its -> Forall (it_wf (defs s)) its -> NoDup (0%N :: its_ids its) -> out_ok s o ->
  out_ok (close_list tk f s (map it_deed its)) (its_close (tyme s) its o) /\
  frame (its_ids its) (its_ids its) s (close_list tk f s (map it_deed its)).
Proof.
  induction its as [|it its IH]; intros f s o O G W ND OK.
  - cbn [map] in *. destruct f as [|f]; [rewrite close_list_O in O; discriminate|].
    rewrite close_list_S. split; [exact OK|apply frame_refl].
  - cbn [map] in *. destruct f as [|f]; [rewrite close_list_O in O; discriminate|].
    apply Forall_cons_iff in G as [Gi GU]. apply Forall_cons_iff in W as [Wi WU].
    apply NoDup_cons_iff in ND as [N0 ND]. unfold its_ids in ND, N0. cbn [flat_map] in ND, N0. fold (its_ids its) in ND, N0.
    pose proof (NoDup_app_disj _ _ ND) as Disj.
    assert (NDU : NoDup (0%N :: its_ids its)).
    { constructor; [intro; apply N0; apply in_or_app; now right|]. eapply NoDup_app_r; exact ND. }
    destruct it as [v|n npc re kids]; cbn [it_deed it_ok it_wf it_ids its_close] in *.
    + destruct Wi as [[Dv Pv] Vv].
      change (lv_deed v :: map it_deed its) with (DDeed (lv_id v) (v_re v) :: map it_deed its) in *.
      rewrite close_list_deed in *.
      pose proof (oof_close_list _ _ _ O) as O1.
      rewrite (leaf_close _ _ _ _ _ _ O1 Gi Dv) in *.
      set (s1 := set_gen (emit (emit (set_gen s (lv_id v) (GRun (v_pc v))) Cease (lv_id v)) Exit (lv_id v)) (lv_id v) GDone) in *.
      assert (F1 : frame [lv_id v] [] s s1).
      { unfold s1. apply frame_gen; [now left|]. do 2 apply frame_emit. apply frame_gen; [now left|]. apply frame_refl. }
      assert (OK1 : out_ok s1 (o_emit (o_emit o Cease (lv_id v) (tyme s)) Exit (lv_id v) (tyme s))).
      { unfold s1. apply ok_gen.
        apply (ok_emit_vis (emit (set_gen s (lv_id v) (GRun (v_pc v))) Cease (lv_id v)) _ Exit (lv_id v) Vv).
        apply (ok_emit_vis (set_gen s (lv_id v) (GRun (v_pc v))) _ Cease (lv_id v) Vv). now apply ok_gen. }
      assert (GU1 : Forall (it_ok s1) its).
      { eapply its_ok_frame; [exact F1| |exact GU]. intros x Hx. split; [|intros []].
        intros [Heq|[]]. subst x. apply (Disj (lv_id v)); [now left|exact Hx]. }
      destruct (IH f s1 _ O GU1 WU NDU OK1) as [OK' F'].
      split; [exact OK'|].
      eapply frame_trans; [eapply frame_weaken; [| |exact F1]; incl_tac
                          |eapply frame_weaken; [| |exact F']; incl_tac].
    + destruct Gi as (Gn & Dqn & Kn). destruct Wi as (NV & [kids0 Dn] & DK & VK).
      assert (NDk : NoDup (map lv_id kids)).
      { apply NoDup_app_l in ND. now apply NoDup_cons_iff in ND as [_ ND]. }
      rewrite close_list_deed in *.
      pose proof (oof_close_list _ _ _ O) as O1.
      destruct (group_close f s n npc kids0 kids o O1 Gn Dn Dqn Kn DK NDk VK NV OK) as [OK1 F1].
      set (s1 := gen_close tk f s n) in *.
      assert (GU1 : Forall (it_ok s1) its).
      { eapply its_ok_frame; [exact F1| |exact GU]. intros x Hx. split.
        - intro Hin. exact (Disj x Hin Hx).
        - intros [Heq|[]]. subst x. apply (Disj n); [now left|exact Hx]. }
      assert (WU1 : Forall (it_wf (defs s1)) its) by (destruct F1 as (_ & -> & _); exact WU).
      assert (T1 : tyme s1 = tyme s) by (destruct F1 as (-> & _); reflexivity).
      destruct (IH f s1 _ O GU1 WU1 NDU OK1) as [OK' F']. rewrite T1 in OK'.
      split; [exact OK'|].
      eapply frame_trans; [eapply frame_weaken; [| |exact F1]; incl_tac
                          |eapply frame_weaken; [| |exact F']; incl_tac].
Qed.

Lemma its_ids_rev (its : list (aitem T)) : NoDup (0%N :: its_ids its) -> NoDup (0%N :: its_ids (rev its)).
Proof.
  apply Permutation_NoDup. apply perm_skip. unfold its_ids.
  apply Permutation_flat_map. apply Permutation_rev.
Qed.

Lemma root_close f s (its : list (aitem T)) o :
  oof (close_own tk f s 0%N) = false ->
  deeds (get_sched s 0%N) = map it_deed its ->
  Forall (it_ok s) its -> Forall (it_wf (defs s)) its -> NoDup (0%N :: its_ids its) -> out_ok s o ->
  out_ok (close_own tk f s 0%N) (its_close (tyme s) (rev its) o) /\
  tyme (close_own tk f s 0%N) = tyme s.
Proof.
  intros O Dq G W ND OK.
  destruct f as [|f]; [rewrite close_own_O in O; discriminate|].
  rewrite close_own_S in *. cbv zeta in *. rewrite Dq in *.
  unfold unrotate in *. rewrite split_mark_its in *. rewrite <- map_rev in *.
  set (s1 := set_deeds s 0%N []) in *.
  assert (F1 : frame [] [0%N] s s1) by (apply frame_deeds; [now left|apply frame_refl]).
  assert (G1 : Forall (it_ok s1) (rev its)).
  { apply Forall_rev. eapply its_ok_frame; [exact F1| |exact G]. intros x Hx. split; [intros []|].
    intros [Heq|[]]. subst x. apply NoDup_cons_iff in ND as [N0 _]. contradiction. }
  destruct (its_close_list (rev its) f s1 o O G1 (Forall_rev W) (its_ids_rev _ ND) (ok_deeds _ _ _ _ OK)) as [OK' F'].
  split; [exact OK'|]. destruct F' as (-> & _). reflexivity.
Qed.

(* ---------- what a pass keeps (static well-formedness) ---------- *)

Lemma its_pass_wf (zb : T) t D : forall (U : list (aitem T)) o U' o',
  its_pass tk zb t U o = (U', o') ->
  subl (its_ids U') (its_ids U) /\ (Forall (it_wf D) U -> Forall (it_wf D) U').
Proof.
  induction U as [|it U IH]; intros o U' o' E; cbn [its_pass] in E.
  - inversion E; subst. split; [apply subl_nil|auto].
  - unfold its_ids. cbn [flat_map]. fold (its_ids U).
    destruct it as [v|n npc re kids].
    + destruct (tleb (v_re v) t).
      * destruct (lv_step tk t v o) as [ov o1] eqn:Es.
        destruct (its_pass tk zb t U o1) as [r' o2] eqn:Ep. destruct (IH _ _ _ Ep) as [S W].
        inversion E; subst. destruct ov as [v'|].
        -- pose proof (lv_step_leaf _ _ _ _ _ _ Es) as Lv.
           split.
           ++ unfold its_ids at 1. cbn [flat_map it_ids app]. unfold lv_id at 1 2. rewrite Lv. now apply subl_keep.
           ++ intro F. apply Forall_cons_iff in F as [Fi FU]. constructor; [|auto].
              cbn [it_wf] in *. unfold lv_id in *. now rewrite Lv.
        -- split; [now apply subl_skip|]. intro F. apply Forall_cons_iff in F as [_ FU]. auto.
      * destruct (its_pass tk zb t U o) as [r' o2] eqn:Ep. destruct (IH _ _ _ Ep) as [S W].
        inversion E; subst. split.
        -- unfold its_ids at 1. cbn [flat_map it_ids app]. now apply subl_keep.
        -- intro F. apply Forall_cons_iff in F as [Fi FU]. constructor; auto.
    + destruct (tleb re t).
      * destruct (lvs_pass zb t kids o) as [kids' o1] eqn:Ek.
        destruct (its_pass tk zb t U o1) as [r' o2] eqn:Ep. destruct (IH _ _ _ Ep) as [S W].
        pose proof (lvs_pass_subl _ _ _ _ _ _ Ek) as Sk.
        inversion E; subst. destruct kids' as [|v' kids''].
        -- split.
           ++ apply (subl_app [] _ (its_ids r') _); [apply subl_nil_l|exact S].
           ++ intro F. apply Forall_cons_iff in F as [_ FU]. auto.
        -- split.
           ++ unfold its_ids at 1. cbn [flat_map]. fold (its_ids r'). apply subl_app; [|exact S].
              cbn [it_ids]. apply subl_keep. rewrite !lv_id_map. now apply subl_map.
           ++ intro F. apply Forall_cons_iff in F as [Fi FU]. constructor; [|auto].
              cbn [it_wf] in *. destruct Fi as (NV & Dn & DK & VK).
              split; [exact NV|]. split; [exact Dn|].
              rewrite <- (Forall_map v_leaf (leaf_in D)) in *.
              rewrite <- (Forall_map v_leaf (fun l => In (lf_id l) vis)) in *.
              split; eapply subl_Forall; eassumption.
      * destruct (its_pass tk zb t U o) as [r' o2] eqn:Ep. destruct (IH _ _ _ Ep) as [S W].
        inversion E; subst. split.
        -- unfold its_ids at 1. cbn [flat_map]. fold (its_ids r'). apply subl_app; [apply subl_refl|exact S].
        -- intro F. apply Forall_cons_iff in F as [Fi FU]. constructor; auto.
Qed.

(* ---------- the cycle loop ---------- *)

Definition Rep s (its : list (aitem T)) (o : out T) : Prop :=
  deeds (get_sched s 0%N) = map it_deed its /\ Forall (it_ok s) its /\
  Forall (it_wf (defs s)) its /\ NoDup (0%N :: its_ids its) /\ out_ok s o.

Lemma close_own_oof_fwd f s i : oof s = true -> oof (close_own tk f s i) = true.
Proof.
  apply steps_oof. destruct (frame_all tk f) as (_ & _ & _ & _ & Ico & _). apply Ico. apply st_refl.
Qed.
Lemma recur_pass_oof_fwd f s sid s1 r : recur_pass tk f s sid = (s1, r) -> oof s = true -> oof s1 = true.
Proof.
  intro E. apply steps_oof. destruct (frame_all tk f) as (_ & _ & _ & _ & _ & _ & _ & _ & _ & Irp & _).
  eapply Irp; [apply st_refl|exact E].
Qed.

(* what Doist.do does after one pass *)
Definition after_pass (c f : nat) (s1 : st T) (r : @gres T) (limit : option T) (stop : T) : st T :=
  match r with
  | GRaise true => emit (close_own tk f s1 0%N) DoReturn 0%N
  | GRaise false => emit (close_own tk f s1 0%N) DoRaise 0%N
  | GFuel => s1
  | _ =>
    let s2 := set_tyme s1 (tadd (tyme s1) tk) in
    match deeds (get_sched s2 0%N) with
    | [] => emit (close_own tk f (set_done s2 0%N (Some true)) 0%N) DoReturn 0%N
    | _ =>
      if limited limit && tleb stop (tyme s2)
      then emit (close_own tk f s2 0%N) DoReturn 0%N
      else cycle_loop tk c f s2 limit stop
    end
  end.

Lemma cycle_loop_S c f s limit stop :
  cycle_loop tk (S c) f s limit stop =
  after_pass c f (fst (recur_pass tk f s 0%N)) (snd (recur_pass tk f s 0%N)) limit stop.
Proof. cbn [cycle_loop]. destruct (recur_pass tk f s 0%N) as [s1 r]. reflexivity. Qed.

Lemma cycle_loop_oof_fwd c : forall f s limit stop, oof s = true -> oof (cycle_loop tk c f s limit stop) = true.
Proof.
  induction c as [|c IH]; intros f s limit stop O; [reflexivity|].
  rewrite cycle_loop_S. destruct (recur_pass tk f s 0%N) as [s1 r] eqn:E. cbn [fst snd].
  pose proof (recur_pass_oof_fwd _ _ _ _ _ E O) as O1.
  unfold after_pass. destruct r as [t| |[|]|]; cbv zeta;
    try (rewrite oof_emit; apply close_own_oof_fwd; exact O1); try exact O1.
  all: destruct (deeds _); [rewrite oof_emit; apply close_own_oof_fwd; exact O1|];
    destruct (_ && _); [rewrite oof_emit; apply close_own_oof_fwd; exact O1|apply IH; exact O1].
Qed.

Lemma after_pass_oof c f s1 r limit stop : oof (after_pass c f s1 r limit stop) = false -> oof s1 = false.
Proof.
  intro O. destruct (oof s1) eqn:O1; [|reflexivity]. exfalso.
  assert (X : oof (after_pass c f s1 r limit stop) = true); [|congruence].
  unfold after_pass. destruct r as [t| |[|]|]; cbv zeta;
    try (rewrite oof_emit; apply close_own_oof_fwd; exact O1); try exact O1.
  all: destruct (deeds _); [rewrite oof_emit; apply close_own_oof_fwd; exact O1|];
    destruct (_ && _); [rewrite oof_emit; apply close_own_oof_fwd; exact O1|apply cycle_loop_oof_fwd; exact O1].
Qed.

Lemma it_ok_tyme s t it : it_ok s it -> it_ok (set_tyme s t) it.
Proof. destruct it; cbn [it_ok]; auto. Qed.
Lemma ok_tyme s t o : out_ok s o -> out_ok (set_tyme s t) o.
Proof. intros [E D]. split; assumption. Qed.

Hypothesis vis0 : In 0%N vis.

Lemma cycle_spec : forall c f s its o limit stop,
  oof (cycle_loop tk c f s limit stop) = false -> Rep s its o ->
  exists t' o', spec_cycles tk (tabs z0) c (tyme s) its o limit stop = Some (t', o') /\
    tyme (cycle_loop tk c f s limit stop) = t' /\ out_ok (cycle_loop tk c f s limit stop) o'.
Proof.
  induction c as [|c IH]; intros f s its o limit stop O (Dq & G & W & ND & OK); [discriminate|].
  rewrite cycle_loop_S in *. destruct (recur_pass tk f s 0%N) as [s1 r] eqn:E. cbn [fst snd] in *.
  pose proof (after_pass_oof _ _ _ _ _ _ O) as O1.
  destruct (root_pass its f s o s1 r E O1 Dq G W ND OK) as (its' & o1 & Hp & -> & Dq1 & G1 & OK1 & F1).
  assert (T1 : tyme s1 = tyme s) by (destruct F1 as (-> & _); reflexivity).
  destruct (its_pass_wf (tabs z0) (tyme s) (defs s) its o its' o1 Hp) as [Sub Wf].
  assert (W1 : Forall (it_wf (defs s1)) its') by (destruct F1 as (_ & -> & _); auto).
  assert (ND1 : NoDup (0%N :: its_ids its')) by (eapply subl_NoDup; [apply subl_keep; exact Sub|exact ND]).
  cbn [spec_cycles]. rewrite Hp.
  unfold after_pass in *. cbv zeta in *. rewrite T1 in *.
  set (s2 := set_tyme s1 (tadd (tyme s) tk)) in *.
  change (deeds (get_sched s2 0%N)) with (deeds (get_sched s1 0%N)) in *. rewrite Dq1 in *.
  change (tyme s2) with (tadd (tyme s) tk) in *.
  destruct its' as [|it its''].
  - cbn [map] in *. rewrite oof_emit in O.
    rewrite close_own_empty in * by (try exact O; rewrite sched_set_done; exact Dq1).
    eexists _, _. split; [reflexivity|]. split; [reflexivity|].
    apply (ok_emit_vis (set_deeds (set_done s2 0%N (Some true)) 0%N []) _ DoReturn 0%N vis0).
    apply ok_deeds. apply ok_done_vis. apply ok_tyme. exact OK1.
  - cbn [map] in O |- *.
    destruct (limited limit && tleb stop (tadd (tyme s) tk)).
    + rewrite oof_emit in O.
      assert (G2 : Forall (it_ok s2) (it :: its'')).
      { rewrite Forall_forall in *. intros x Hx. apply it_ok_tyme. now apply G1. }
      destruct (root_close f s2 (it :: its'') o1 O Dq1 G2 W1 ND1 (ok_tyme _ _ _ OK1)) as [OK' T'].
      eexists _, _. split; [reflexivity|]. split; [exact T'|].
      pose proof (ok_emit_vis (close_own tk f s2 0%N) _ DoReturn 0%N vis0 OK') as X.
      rewrite T' in X. exact X.
    + apply (IH f s2 (it :: its'') o1 limit stop); [exact O|].
      split; [exact Dq1|]. split; [|split; [exact W1|split; [exact ND1|apply ok_tyme; exact OK1]]].
      rewrite Forall_forall in *. intros x Hx. apply it_ok_tyme. now apply G1.
Qed.

(* ---------- what enter produces (static well-formedness) ---------- *)

Lemma gs_enter_wf t D : forall (gs : list (gitem T)) o its o',
  gs_enter t gs o = (its, o') ->
  subl (its_ids its) (gs_ids gs) /\ (Forall (g_wf D) gs -> Forall (it_wf D) its).
Proof.
  induction gs as [|g gs IH]; intros o its o' E; cbn [gs_enter] in E.
  - inversion E; subst. split; [apply subl_nil|auto].
  - unfold gs_ids. cbn [flat_map]. fold (gs_ids gs).
    destruct g as [l|n kids].
    + destruct (lf_enter t l o) as [ov o1] eqn:El.
      destruct (gs_enter t gs o1) as [r' o2] eqn:Ep. destruct (IH _ _ _ Ep) as [S W].
      inversion E; subst. destruct ov as [v|].
      * pose proof (lf_enter_leaf _ _ _ _ _ El) as Lv. split.
        -- unfold its_ids at 1. cbn [flat_map it_ids g_ids app]. unfold lv_id. rewrite Lv. now apply subl_keep.
        -- intro F. apply Forall_cons_iff in F as [Fi FU]. constructor; [|auto].
           cbn [it_wf g_wf] in *. unfold lv_id. now rewrite Lv.
      * split; [now apply subl_skip|]. intro F. apply Forall_cons_iff in F as [_ FU]. auto.
    + destruct (lfs_enter t kids o) as [kids' o1] eqn:Ek.
      destruct (gs_enter t gs o1) as [r' o2] eqn:Ep. destruct (IH _ _ _ Ep) as [S W].
      pose proof (lfs_enter_subl _ _ _ _ _ Ek) as Sk.
      inversion E; subst. split.
      * unfold its_ids at 1. cbn [flat_map]. fold (its_ids r'). apply subl_app; [|exact S].
        cbn [it_ids g_ids]. apply subl_keep. rewrite lv_id_map. now apply subl_map.
      * intro F. apply Forall_cons_iff in F as [Fi FU]. constructor; [|auto].
        cbn [it_wf g_wf] in *. destruct Fi as (NV & Dn & DK & VK).
        split; [exact NV|]. split; [exact Dn|].
        rewrite <- (Forall_map v_leaf (leaf_in D)).
        rewrite <- (Forall_map v_leaf (fun l => In (lf_id l) vis)).
        split; eapply subl_Forall; eassumption.
Qed.

Lemma Rep_rlive s its o (v : bool) : Rep s its o -> Rep (set_rlive s v) its o.
Proof.
  intros (Dq & G & W & ND & OK). split; [exact Dq|]. split; [|split; [exact W|split; [exact ND|]]].
  - rewrite Forall_forall in *. intros it Hit. specialize (G it Hit). destruct it; exact G.
  - destruct OK as [E D]. split; assumption.
Qed.

Lemma oof_cycle_loop c f s limit stop : oof (cycle_loop tk c f s limit stop) = false -> oof s = false.
Proof.
  intro O. destruct (oof s) eqn:Os; [|reflexivity].
  rewrite (cycle_loop_oof_fwd c f s limit stop Os) in O. discriminate.
Qed.

End Run.
