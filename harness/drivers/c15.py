"""C15 — server-sent events are delivered exactly regardless of line endings and splits.

Drives the real httping.EventSource directly ("plain") and through clienting.Respondent with a text/event-stream
response whose body is close-delimited ("until") or chunked ("chunked")."""
import re
from harness.core import coq_N, coq_list, coq_bool, coq_option, exn_kind
from harness.drivers import c17 as K

PROP = "C15"
COQ_REQUIRES = ["Hio.Model.HttpLine", "Hio.Model.Chunk", "Hio.Model.Sse"]
COQ_CHECK = "Sse.check_case"
COQ_CASE_TYPE = "Sse.case"
COQ_BRANCHES = ("Sse.case_branches", "Sse.n_branches")
SHARD = 120
RULE = ("event streams of 0-6 blocks: optional id (also empty, with NUL), event name, 0-3 data lines (empty values, no "
        "colon, no space after colon, two spaces), retry (digits, leading zeros, empty, '+5', '1_0', ' 20', "
        "non-ASCII digits, 4300/4301 digits), comments, unknown fields, UTF-8 text; every line ends in CRLF, LF or CR "
        "chosen per line (uniform or mixed), streams end with or without the final blank line, possibly on a lone "
        "CR; delivered plain to EventSource, or to Respondent as a close-delimited or chunked (random chunk "
        "boundaries) text/event-stream response; reads: random cuts, every byte, inside every CRLF, whole.  "
        "Non-trivial: >= 2 events, >= 2 terminator kinds and >= 1 cut between the CR and LF of a CRLF")
MODELLED = ["UTF-8 decoding (events are compared as UTF-8 bytes; generated streams are valid UTF-8)",
            "int() of an ASCII digit string up to 4300 digits (as decimal value)",
            "collections.deque of event dicts (as list)",
            "Respondent head parsing and chunk framing on this path are covered by the C13/C17 models; here the head is a fixed prefix"]

h, unh = K.h, K.unh
HEAD_UNTIL = b"HTTP/1.1 200 OK\r\nContent-Type: text/event-stream\r\n\r\n"
HEAD_CHUNKED = b"HTTP/1.1 200 OK\r\nContent-Type: text/event-stream\r\nTransfer-Encoding: chunked\r\n\r\n"


# ----------------------------------------------------------------------------- reference (WHATWG, whole stream)

def sse_ref(stream):
    """Interpret a complete byte stream by the WHATWG event-stream algorithm.  Returns (events, last id buffer, retry)."""
    text = stream.decode("utf-8", errors="replace")
    lines = re.split("\r\n|\n|\r", text)[:-1]          # only terminated lines
    data, etype, lastid, retry, events = "", "", None, None, []
    for line in lines:
        if line == "":
            if data != "":
                if data.endswith("\n"):
                    data = data[:-1]
                events.append({"id": lastid, "name": etype, "data": data})
            data, etype = "", ""
            continue
        if line.startswith(":"):
            continue
        if ":" in line:
            field, value = line.split(":", 1)
            if value.startswith(" "):
                value = value[1:]
        else:
            field, value = line, ""
        if field == "event":
            etype = value
        elif field == "data":
            data += value + "\n"
        elif field == "id":
            if "\x00" not in value:
                lastid = value
        elif field == "retry":
            if value != "" and all(c in "0123456789" for c in value) and len(value) <= 4300:
                retry = int(value)
    return events, lastid, retry


# ----------------------------------------------------------------------------- implementation

def _events(evs):
    return [{"id": e["id"], "name": e["name"], "data": e["data"]} for e in evs]


def run_plain(reads):
    from hio.core.http import httping
    es = httping.EventSource()
    err = None
    for frag in reads:
        es.raw.extend(frag)
        if err:
            continue
        try:
            es.parse()
        except Exception as ex:  # noqa
            err = exn_kind(ex)
    return {"events": _events(es.events), "leid": es.leid, "retry": es.retry, "err": err, "left": h(es.raw)}


def run_respondent(head, reads, close):
    from hio.core.http import clienting
    p = clienting.Respondent(msg=bytearray(), method="GET")
    err = None

    def pump():
        nonlocal err
        if err or p.parser is None:
            return
        try:
            p.parse()
        except Exception as ex:  # noqa
            err = exn_kind(ex)
            return
        if p.parser is None and p.errored:
            err = "HTTPExc"

    p.msg.extend(head)
    pump()
    for frag in reads:
        p.msg.extend(frag)
        pump()
    if close:
        p.close()
        pump()
    es = p.eventSource
    return {"events": _events(p.events), "leid": es.leid, "retry": es.retry, "err": err, "left": h(es.raw),
            "resp_leid": p.leid, "resp_retry": p.retry, "ended": bool(p.ended)}


def run_mode(mode, reads):
    if mode == "plain":
        return run_plain(reads)
    if mode == "until":
        return run_respondent(HEAD_UNTIL, reads, True)
    return run_respondent(HEAD_CHUNKED, reads, False)


def run_impl(case):
    return run_mode(case["mode"], [unh(x) for x in case["reads"]])


def _canon(o):
    return {"events": o["events"], "leid": o["leid"], "retry": o["retry"], "err": o["err"],
            "left": None if o["err"] else o["left"]}


# ----------------------------------------------------------------------------- oracle

def body_of(case):
    if case["mode"] == "chunked":
        return b"".join(unh(c) for c in case["chunks"])
    return b"".join(unh(x) for x in case["reads"])


def oracle(case, obs):
    reads = [unh(x) for x in case["reads"]]
    whole = run_mode(case["mode"], [b"".join(reads)])
    if _canon(whole) != _canon(obs) and case["mode"] != "chunked":
        return f"result depends on fragmentation: split {_canon(obs)} vs whole {_canon(whole)}"
    if case["mode"] == "chunked" and (whole["events"], whole["leid"], whole["retry"], whole["err"]) != \
            (obs["events"], obs["leid"], obs["retry"], obs["err"]):
        return f"result depends on fragmentation: split {_canon(obs)} vs whole {_canon(whole)}"
    if case.get("expect_error"):
        return None if obs["err"] == "HTTPExc" else f"over-long line not rejected: err={obs['err']}"
    if obs["err"] is not None:
        return f"event stream rejected: {obs['err']}"
    evs, lastid, retry = sse_ref(body_of(case))
    if obs["events"] != evs:
        return f"events {obs['events']} differ from the stream's events {evs}"
    if obs["leid"] != lastid:
        return f"last event id {obs['leid']!r}, stream says {lastid!r}"
    if obs["retry"] != retry:
        return f"retry {obs['retry']!r}, stream says {retry!r}"
    if case["mode"] != "plain":
        if lastid is not None and obs["resp_leid"] != lastid:
            return f"Respondent.leid {obs['resp_leid']!r}, stream says {lastid!r}"
        if retry is not None and obs["resp_retry"] != retry:
            return f"Respondent.retry {obs['resp_retry']!r}, stream says {retry!r}"
    return None


# ----------------------------------------------------------------------------- generation

TEXTS = ["x", "hello world", "", " lead", "a:b", "{\"k\": 1}", "caf\u00e9", "\u4f60\u597d", "\U0001f600", "tab\there", ":colon"]
RETRIES = ["5", "007", "3000", "", "+5", "1_0", " 20", "2 ", "1.5", "-1", "\uff12", "\u0663", "9" * 30]


def _line(rng, text):
    return text


def _gen_block(rng):
    lines = []
    n = rng.random()
    if n < 0.25:
        lines.append(":" + rng.choice(["", " keepalive", "x:y"]))
    if rng.random() < 0.4:
        v = rng.choice(["1", "42", "", "a b", "\u00e9", "nul\x00id", "7"])
        lines.append(rng.choice(["id: " + v, "id:" + v, "id"]) if v else rng.choice(["id", "id:", "id: "]))
    if rng.random() < 0.4:
        lines.append(rng.choice(["event: ", "event:"]) + rng.choice(["update", "msg", "", "\u00fcber"]))
    for _ in range(rng.choice([0, 1, 1, 1, 2, 3])):
        t = rng.choice(TEXTS)
        lines.append(rng.choice(["data: " + t, "data:" + t, "data:  " + t, "data" if t == "" else "data: " + t]))
    if rng.random() < 0.25:
        lines.append("retry" + rng.choice([": ", ":"]) + rng.choice(RETRIES))
    if rng.random() < 0.15:
        lines.append(rng.choice(["foo: bar", "Data: x", "datax", "retry", " data: x", "event"]))
    rng.shuffle(lines)
    return lines


def _gen_stream(rng):
    style = rng.choice(["crlf", "lf", "cr", "mixed", "mixed", "mixed"])
    eols = {"crlf": ["\r\n"], "lf": ["\n"], "cr": ["\r"], "mixed": ["\r\n", "\n", "\r"]}[style]
    out = ""
    for _ in range(rng.choice([0, 1, 2, 2, 3, 3, 4, 4, 6])):
        for ln in _gen_block(rng):
            out += ln + rng.choice(eols)
        r = rng.random()
        if r < 0.85:
            out += rng.choice(eols)                      # the blank line
            if rng.random() < 0.1:
                out += rng.choice(eols)                  # a second blank line
    if rng.random() < 0.3:
        out += rng.choice(["data: pending", "da", "data: x\r", "id: 9\r", "\r"])
    return out.encode("utf-8")


def _gen_case(rng):
    body = _gen_stream(rng)
    mode = rng.choice(["plain", "plain", "until", "chunked", "chunked"])
    if mode == "chunked":
        if not body:
            body = b"data: x\n\n"
        pts = sorted(set(rng.randrange(1, len(body)) for _ in range(rng.choice([0, 1, 2, 4]))) if len(body) > 1 else [])
        if rng.random() < 0.3:
            pts = sorted(set(pts + [i + 1 for i in range(len(body) - 1) if body[i:i + 2] == b"\r\n"]))
        chunks = K.cut(body, pts)
        from_hex = lambda n: b"%x" % n
        wire = b"".join(from_hex(len(c)) + b"\r\n" + c + b"\r\n" for c in chunks) + b"0\r\n\r\n"
        return {"mode": mode, "chunks": [h(c) for c in chunks], "reads": [h(x) for x in K.cut(wire, K._rand_cuts(rng, wire))]}
    cuts = K._rand_cuts(rng, body) if body else []
    inside = [i + 1 for i in range(len(body) - 1) if body[i:i + 2] == b"\r\n"]
    if inside and rng.random() < 0.6:
        cuts = list(cuts) + [rng.choice(inside)]
    return {"mode": mode, "reads": [h(x) for x in K.cut(body, cuts)] if body else [h(b"")]}


def _chunked_case(chunks, cuts=None):
    wire = b"".join(b"%x\r\n" % len(c) + c + b"\r\n" for c in chunks) + b"0\r\n\r\n"
    return {"mode": "chunked", "chunks": [h(c) for c in chunks],
            "reads": [h(x) for x in K.cut(wire, cuts if cuts is not None else [])]}


def directed():
    out = []
    s = ("id: 1\r\nevent: a\r\ndata: x\r\ndata: y\r\n\r\n" ": c\ndata\n\ndata:\n\n" "retry: 007\rid\rdata:  two\r\r"
         "data: caf\u00e9\r\nretry: +5\nretry: 1_0\r\nid: nul\x00\nfoo\n\r\n" "event: dropped\n\n" "data: tail").encode("utf-8")
    for cuts in ([], list(range(1, len(s))), K.interesting_cuts(s)):
        out.append({"mode": "plain", "reads": [h(x) for x in K.cut(s, cuts)]})
        out.append({"mode": "until", "reads": [h(x) for x in K.cut(s, cuts)]})
    out.append(_chunked_case([s[:7], s[7:8], s[8:40], s[40:]]))
    out.append(_chunked_case([s[:7], s[7:8], s[8:40], s[40:]], list(range(1, 60))))
    # D14 witnesses: CRLF split between reads / chunks; mixed terminators
    out.append({"mode": "plain", "reads": [h(b"data: x\r"), h(b"\n\r"), h(b"\ndata: y\r\n\r\n")]})
    out.append(_chunked_case([b"data: x\r", b"\n\r", b"\ndata: y\r\n\r\n"]))
    out.append({"mode": "plain", "reads": [h(b"data: a\ndata: b\r\n\r\n")]})
    out.append({"mode": "plain", "reads": [h(b"data: a\r\rdata: b\r\r")]})
    out.append({"mode": "plain", "reads": [h(b"data: a\r"), h(b"\r")]})
    # D36 / D37 witnesses
    out.append({"mode": "plain", "reads": [h(b"data\n\ndata:\n\nevent: e\n\n")]})
    out.append({"mode": "plain", "reads": [h(b"retry: +5\nretry: 1_0\nretry:  20\nretry: \xef\xbc\x92\ndata: x\n\n")]})
    out.append({"mode": "plain", "reads": [h(b"retry: " + b"1" * 4300 + b"\ndata: x\n\n")]})
    out.append({"mode": "plain", "reads": [h(b"retry: 12\nretry: " + b"1" * 4301 + b"\ndata: x\n\n")]})
    out.append({"mode": "plain", "reads": [h(b"")]})
    out.append({"mode": "until", "reads": [h(b"")]})
    # line-length limit
    long_ok = b"data: " + b"z" * 65530 + b"\r\n\r\n"
    long_bad = b"data: " + b"z" * 65531 + b"\r\n\r\n"
    out.append({"mode": "plain", "reads": [h(long_ok)]})
    out.append({"mode": "plain", "reads": [h(long_ok[:65537]), h(long_ok[65537:])]})
    out.append({"mode": "plain", "reads": [h(long_bad)], "expect_error": True})
    out.append({"mode": "until", "reads": [h(long_bad[:65538]), h(long_bad[65538:])], "expect_error": True})
    return out


def generate(rng, tier):
    n = 700 if tier == "quick" else 7000
    return [_gen_case(rng) for _ in range(n)]


# ----------------------------------------------------------------------------- Gallina

def _u8(s):
    return K.coq_hexbytes(h(s.encode("utf-8"))) if s else "(@nil N)"


def coq_event(e):
    return "{| Sse.ev_id := %s; Sse.ev_name := %s; Sse.ev_data := %s |}" % (
        coq_option(e["id"], _u8, "bytes"), _u8(e["name"]), _u8(e["data"]))


def to_coq(case, obs):
    mode = "Sse.MChunked" if case["mode"] == "chunked" else "Sse.MPlain"
    err = obs["err"] is not None
    return ("{| Sse.c_mode := %s; Sse.c_reads := %s; Sse.c_events := %s; Sse.c_leid := %s; Sse.c_retry := %s; "
            "Sse.c_err := %s; Sse.c_left := %s |}" % (
                mode, coq_list([K.coq_hexbytes(x) for x in case["reads"]], "bytes"),
                coq_list([coq_event(e) for e in obs["events"]], "Sse.event"),
                coq_option(obs["leid"], _u8, "bytes"), coq_option(obs["retry"], coq_N, "N"),
                coq_bool(err), K.coq_hexbytes("" if err else obs["left"])))


def nontrivial(case, obs):
    reads = [unh(x) for x in case["reads"]]
    body = body_of(case)
    kinds = set(re.findall(b"\r\n|\n|\r", body))
    wire = b"".join(reads)
    pos, inside = 0, False
    for r in reads[:-1]:
        pos += len(r)
        if wire[pos - 1:pos + 1] == b"\r\n":
            inside = True
    if case["mode"] == "chunked":
        pos = 0
        for c in case["chunks"][:-1]:
            pos += len(unh(c))
            if body[pos - 1:pos + 1] == b"\r\n":
                inside = True
    return len(obs.get("events", [])) >= 2 and len(kinds) >= 2 and inside


def classify(case, obs, why):
    return None


def shrink(case):
    if case["mode"] == "chunked":
        return
    reads = case["reads"]
    if len(reads) > 1:
        for i in range(len(reads) - 1):
            yield dict(case, reads=reads[:i] + [reads[i] + reads[i + 1]] + reads[i + 2:])


def distribution(cases, obs):
    modes, nev, term = {}, 0, {"crlf": 0, "lf": 0, "cr": 0}
    for c, o in zip(cases, obs):
        modes[c["mode"]] = modes.get(c["mode"], 0) + 1
        if isinstance(o, dict) and "events" in o:
            nev += len(o["events"])
        b = body_of(c)
        for t in re.findall(b"\r\n|\n|\r", b[:4000]):
            term[{b"\r\n": "crlf", b"\n": "lf", b"\r": "cr"}[t]] += 1
    return {"modes": modes, "events_delivered": nev, "terminators": term}


def extra(tier, ctx):
    """Every string of length <= 7 (thorough 8) over {d, :, space, CR, LF} prefixed by 'data' lines: EventSource bytewise
    vs whole vs the reference."""
    import itertools
    n, L = 0, (6 if tier == "quick" else 7)
    alphabet = b"d:\r\n "
    for t in itertools.product(alphabet, repeat=L):
        s = b"data:a\r" + bytes(t) + b"\n\n"
        n += 1
        ref = sse_ref(s)
        whole = run_plain([s])
        split = run_plain([bytes([x]) for x in s])
        got = (whole["events"], whole["leid"], whole["retry"])
        if _canon(whole) != _canon(split) or got != ref:
            ctx.violations.append({"kind": "oracle", "why": f"stream {s!r}: whole {got}, bytewise {_canon(split)}, reference {ref}",
                                   "case": {"mode": "plain", "reads": [h(bytes([x])) for x in s]}})
            return {"sse_strings_swept": n}
    return {"sse_strings_swept": n, "sse_sweep": f"'data:a\\r' + every string of length {L} over {alphabet!r} + '\\n\\n', whole and bytewise vs reference"}
