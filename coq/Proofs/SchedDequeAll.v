(* The holding invariant [Hold] is preserved by all eleven interpreter functions
   ([hold_all]); the local lists are threaded as the extra parameter:
     gen_start / run_step / gen_send hand the doer back in hand iff they yield,
     gen_close / close_list consume the deeds in hand,
     enter_local returns its acc in hand (nothing when it raised).
   [I s E] = "out of fuel, or Hold s E". *)
From Hio Require Import Base.Prelude Base.AMap Base.Time Model.Sched Proofs.SchedEqs Proofs.SchedFrame Proofs.SchedLife
  Proofs.SchedDeque Proofs.SchedDequeHold Proofs.SchedDequeFam.

Section All.
Context {T : Type} `{Time T}.
Implicit Types s a b : st T.
Variable tk : T.

(* a doer on the call stack stays there across nested calls *)
Lemma keep_all f j :
  (forall s i s' r, running s j -> gen_start tk f s i = (s', r) -> running s' j) /\
  (forall s i s' r, running s j -> gen_send tk f s i = (s', r) -> running s' j) /\
  (forall s i, running s j -> running (close_own tk f s i) j) /\
  (forall s sid ids s' r, running s j -> enter_own tk f s sid ids = (s', r) -> running s' j) /\
  (forall s ids acc s' r acc', running s j -> enter_local tk f s ids acc = (s', r, acc') -> running s' j) /\
  (forall s c es s' r, running s j -> run_effects tk f s c es = (s', r) -> running s' j) /\
  (forall s sid s' r, running s j -> recur_pass tk f s sid = (s', r) -> running s' j).
Proof.
  destruct (framej_all tk j f) as (Fst & Frs & Fsd & Fcl & Fco & Fli & Feo & Fel & Fef & Frp & Frl).
  repeat split; intros.
  - eapply running_noj; [eassumption|]. eapply Fst; [eassumption|apply noj_refl|eassumption].
  - eapply running_noj; [eassumption|]. eapply Fsd; [eassumption|apply noj_refl|eassumption].
  - eapply running_noj; [eassumption|]. eapply Fco; [eassumption|apply noj_refl].
  - eapply running_noj; [eassumption|]. eapply Feo; [eassumption|apply noj_refl|eassumption].
  - eapply running_noj; [eassumption|]. eapply Fel; [eassumption|apply noj_refl|eassumption].
  - eapply running_noj; [eassumption|]. eapply Fef; [eassumption|apply noj_refl|eassumption].
  - eapply running_noj; [eassumption|]. eapply Frp; [eassumption|apply noj_refl|eassumption].
Qed.

Lemma defs_all f :
  (forall s i s' r, gen_start tk f s i = (s', r) -> defs s' = defs s) /\
  (forall s i s' r, gen_send tk f s i = (s', r) -> defs s' = defs s) /\
  (forall s ds, defs (close_list tk f s ds) = defs s) /\
  (forall s ids acc s' r acc', enter_local tk f s ids acc = (s', r, acc') -> defs s' = defs s) /\
  (forall s c es s' r, run_effects tk f s c es = (s', r) -> defs s' = defs s).
Proof.
  destruct (frame_all tk f) as (Fst & Frs & Fsd & Fcl & Fco & Fli & Feo & Fel & Fef & Frp & Frl).
  repeat split; intros; apply steps_defs.
  - eapply Fst; [apply st_refl|eassumption].
  - eapply Fsd; [apply st_refl|eassumption].
  - apply Fli, st_refl.
  - eapply Fel; [apply st_refl|eassumption].
  - eapply Fef; [apply st_refl|eassumption].
Qed.

Lemma own_keep s s' sid : own s sid -> defs s' = defs s -> (running s sid -> running s' sid) -> own s' sid.
Proof. intros [Hz|[R N]] D K; [now left|right]. split; [now apply K|now rewrite D]. Qed.

Lemma own_push s sid X : own s sid ->
  sid = 0%N \/ (isnest (defs s) sid = true /\ (running s sid \/ (is_susp s sid /\ anc s X sid))).
Proof. intros [Hz|[R N]]; [now left|right; split; [exact N|now left]]. Qed.

Lemma hold_La s X : Hold s X -> forall sid, sid <> 0%N -> startable s sid = true -> dq s sid = [].
Proof.
  intros Hh sid Hz St. destruct (dq s sid) eqn:Q; [reflexivity|].
  destruct (h_live _ _ _ _ Hh sid Hz) as [_ Hs]; [rewrite Q; discriminate|].
  unfold startable in St. unfold startg in Hs. rewrite St in Hs. discriminate.
Qed.

Definition eout (r : @gres T) (i : id) (X : list id) : list id := match r with GYield _ => i :: X | _ => X end.
Definition lout (r : @gres T) (acc : list (deed T)) (X : list id) : list id :=
  match r with GRaise _ => X | _ => dids acc ++ X end.

Definition hold_at (f : nat) : Prop :=
  (forall s X i s' r, I s X -> gen_start tk f s i = (s', r) -> I s' (eout r i X)) /\
  (forall s X i k sc pc s' r, I s X -> running s i -> get (defs s) i = Some (FLeaf k sc) ->
        run_step tk f s i k sc pc = (s', r) -> I s' (eout r i X)) /\
  (forall s X i s' r, I s (i :: X) -> gen_send tk f s i = (s', r) -> I s' (eout r i X)) /\
  (forall s X i, I s (i :: X) -> I (gen_close tk f s i) X) /\
  (forall s X sid, I s X -> I (close_own tk f s sid) X) /\
  (forall s X (ds : list (deed T)), I s (dids ds ++ X) -> I (close_list tk f s ds) X) /\
  (forall s X sid ids s' r, I s X -> own s sid -> enter_own tk f s sid ids = (s', r) -> I s' X) /\
  (forall s X ids (acc : list (deed T)) s' r acc', I s (dids acc ++ X) ->
        enter_local tk f s ids acc = (s', r, acc') -> I s' (lout r acc' X)) /\
  (forall s X c es s' r, I s X -> Forall (eff_ok (defs s)) es -> run_effects tk f s c es = (s', r) -> I s' X) /\
  (forall s X sid s' r, I s X -> own s sid -> recur_pass tk f s sid = (s', r) -> I s' X) /\
  (forall s X sid s' r, I s X -> own s sid -> recur_loop tk f s sid = (s', r) -> I s' X).

(* the three endings of a generator *)
Lemma i_yield s i pc X : I s X -> running s i -> I (set_gen s i (GSusp pc)) (i :: X).
Proof. intros HI [pc' R]. revert HI. apply I_map; [reflexivity|]. intro Hh. eapply g_yield; eassumption. Qed.

Lemma i_leaf_finish s i k sc X : I s X -> get (defs s) i = Some (FLeaf k sc) -> I (set_gen s i GDone) X.
Proof.
  intros HI D. revert HI. apply I_map; [reflexivity|]. intro Hh.
  apply g_finish; [exact Hh|eapply leaf_dq; eassumption].
Qed.

Lemma i_nest_end f s i X :
  (forall s X sid, I s X -> I (close_own tk f s sid) X) ->
  I s X -> I (set_gen (emit (close_own tk f s i) Exit i) i GDone) X.
Proof.
  intros Ico HI. pose proof (Ico _ _ i HI) as I4.
  destruct (oof (close_own tk f s i)) eqn:O4; [left; exact O4|].
  pose proof (close_own_empty tk f s i O4) as Q.
  revert I4. apply I_map; [reflexivity|]. intro Hh.
  apply g_finish; [apply hold_emit; exact Hh|exact Q].
Qed.

Ltac by_oof f O :=
  left; eapply steps_oof; [|exact O];
  destruct (frame_all tk f) as (?G1 & ?G2 & ?G3 & ?G4 & ?G5 & ?G6 & ?G7 & ?G8 & ?G9 & ?G10 & ?G11);
  eauto 3 using st_refl.

Lemma hold_all : forall f, hold_at f.
Proof.
  induction f as [|f IH].
  - unfold hold_at. repeat match goal with |- _ /\ _ => split end; intros;
      try match goal with E : _ = _ |- _ => cbn in E; inversion E; subst; clear E end; cbn; now left.
  - destruct IH as (Ist & Irs & Isd & Icl & Ico & Ili & Ieo & Iel & Ief & Irp & Irl).
    unfold hold_at. repeat match goal with |- _ /\ _ => split end.
    + (* gen_start *)
      intros s X i s' r HI E. destruct HI as [O|Hh]; [by_oof (S f) O|].
      rewrite gen_start_S in E.
      destruct (startable s i) eqn:St; cbn [negb] in E; [|fin; right; exact Hh].
      destruct (get (defs s) i) as [[k sc|t0 al kids]|] eqn:D; [| |fin; right; exact Hh].
      * eapply Irs; [| | |exact E].
        -- right. apply hold_emit, g_start; [exact Hh|rewrite D; discriminate].
        -- exists 0%nat. apply gen_set_gen_same.
        -- exact D.
      * cbv zeta in E.
        set (s1 := emit (set_gen s i (GRun 0)) Enter i) in *.
        assert (R1 : running s1 i) by (exists 0%nat; apply gen_set_gen_same).
        assert (I1 : I s1 X) by (right; apply hold_emit, g_start; [exact Hh|rewrite D; discriminate]).
        destruct (enter_own tk f s1 i _) as [s2 r0] eqn:Ee.
        assert (I2 : I s2 X).
        { eapply Ieo; [exact I1| |exact Ee]. right. split; [exact R1|].
          unfold isnest. change (defs s1) with (defs s). now rewrite D. }
        assert (R2 : running s2 i).
        { destruct (keep_all f i) as (_ & _ & _ & K & _). eapply K; eassumption. }
        destruct r0; fin; cbn [eout].
        -- now apply i_yield.
        -- now apply i_yield.
        -- apply i_nest_end; [exact Ico|]. destruct kbd; [exact I2|apply i_emit; exact I2].
        -- exact I2.
    + (* run_step *)
      intros s X i k sc pc s' r HI R D E. destruct HI as [O|Hh]; [by_oof (S f) O|].
      rewrite run_step_S in E. cbv zeta in E.
      destruct (run_effects tk f s i _) as [s1 r0] eqn:Ee.
      assert (I1 : I s1 X).
      { eapply Ief; [right; exact Hh| |exact Ee]. exact (w_eff _ (h_w _ _ _ _ Hh) i k sc pc D). }
      assert (R1 : running s1 i).
      { destruct (keep_all f i) as (_ & _ & _ & _ & _ & K & _). eapply K; eassumption. }
      assert (D1 : get (defs s1) i = Some (FLeaf k sc)).
      { destruct (defs_all f) as (_ & _ & _ & _ & K). now rewrite (K _ _ _ _ _ Ee). }
      destruct r0; [| |destruct kbd|]; cbv beta iota zeta in E;
        try (destruct (f_out _)); fin; cbn [eout];
        try (now apply i_yield); try exact I1;
        repeat first [exact I1 | exact D1 | apply i_done | apply i_emit | eapply i_leaf_finish].
    + (* gen_send *)
      intros s X i s' r HI E. destruct HI as [O|Hh]; [by_oof (S f) O|].
      rewrite gen_send_S in E.
      destruct (get_gen s i) eqn:G;
        try (fin; cbn [eout]; right; eapply hold_drop; [|exact Hh]; intros [pc0 Hp]; congruence).
      destruct (get (defs s) i) as [[k sc|t0 al kids]|] eqn:D.
      * eapply Irs; [| | |exact E].
        -- right. apply hold_emit. eapply g_resume; eassumption.
        -- exists pc. apply gen_set_gen_same.
        -- exact D.
      * cbv zeta in E.
        set (s1 := emit (set_gen s i (GRun pc)) Recur i) in *.
        assert (R1 : running s1 i) by (exists pc; apply gen_set_gen_same).
        assert (I1 : I s1 X) by (right; apply hold_emit; eapply g_resume; eassumption).
        destruct (recur_pass tk f s1 i) as [s2 r0] eqn:Ee.
        assert (I2 : I s2 X).
        { eapply Irp; [exact I1| |exact Ee]. right. split; [exact R1|].
          unfold isnest. change (defs s1) with (defs s). now rewrite D. }
        assert (R2 : running s2 i).
        { destruct (keep_all f i) as (_ & _ & _ & _ & _ & _ & K). eapply K; eassumption. }
        destruct r0; cbv beta iota zeta in E.
        -- match type of E with (if ?c then _ else _) = _ => destruct c end; fin; cbn [eout].
           ++ apply i_nest_end; [exact Ico|]. apply i_emit, i_done. exact I2.
           ++ apply i_yield; [apply i_done; exact I2|exact R2].
        -- match type of E with (if ?c then _ else _) = _ => destruct c end; fin; cbn [eout].
           ++ apply i_nest_end; [exact Ico|]. apply i_emit, i_done. exact I2.
           ++ apply i_yield; [apply i_done; exact I2|exact R2].
        -- fin. cbn [eout]. apply i_nest_end; [exact Ico|]. destruct kbd; [exact I2|apply i_emit; exact I2].
        -- fin. exact I2.
      * exfalso. apply (h_def _ _ _ _ Hh i); [rewrite G; reflexivity|exact D].
    + (* gen_close *)
      intros s X i HI. destruct HI as [O|Hh]; [by_oof (S f) O|].
      rewrite gen_close_S.
      destruct (get_gen s i) eqn:G;
        try (right; apply (hold_drop s i X); [intros [pc0 Hp]; congruence|exact Hh]).
      destruct (get (defs s) i) as [[k sc|t0 al kids]|] eqn:D.
      * eapply i_leaf_finish; [|exact D]. apply i_emit, i_emit. right. eapply g_resume; eassumption.
      * cbv zeta. apply i_nest_end; [exact Ico|]. apply i_emit. right. eapply g_resume; eassumption.
      * exfalso. apply (h_def _ _ _ _ Hh i); [rewrite G; reflexivity|exact D].
    + (* close_own *)
      intros s X sid HI. rewrite close_own_S. cbv zeta. apply Ili.
      revert HI. apply I_map; [reflexivity|]. apply hold_clear.
    + (* close_list *)
      intros s X ds HI. rewrite close_list_S. destruct ds as [|[|i re] r].
      * exact HI.
      * apply Ili. exact HI.
      * apply Ili. apply Icl. exact HI.
    + (* enter_own *)
      intros s X sid ids s' r HI O E. rewrite enter_own_S in E.
      destruct ids as [|i rest]; [fin; exact HI|]. cbv zeta in E.
      destruct (gen_start tk f _ i) as [s1 r0] eqn:Eg.
      assert (I1 : I s1 (eout r0 i X)) by (eapply Ist; [apply i_done; exact HI|exact Eg]).
      assert (O1 : own s1 sid).
      { apply (own_keep (set_done s i (Some false))); [exact O| |].
        - destruct (defs_all f) as (K & _). eapply K; exact Eg.
        - intro R. destruct (keep_all f sid) as (K & _). eapply K; eassumption. }
      destruct r0; fin.
      * eapply Ieo; [| |exact E]; [|exact O1].
        revert I1. apply I_map; [reflexivity|]. intro Hh1.
        apply (hold_append s1 sid [DDeed i (tyme s1)] X); [exact O1|exact Hh1].
      * eapply Ieo; [exact I1|exact O1|exact E].
      * exact I1.
      * exact I1.
    + (* enter_local *)
      intros s X ids acc s' r acc' HI E. rewrite enter_local_S in E.
      destruct ids as [|i rest]; [fin; exact HI|]. cbv zeta in E.
      destruct (gen_start tk f _ i) as [s1 r0] eqn:Eg.
      assert (I1 : I s1 (eout r0 i (dids acc ++ X))) by (eapply Ist; [apply i_done; exact HI|exact Eg]).
      destruct r0; fin.
      * eapply Iel; [|exact E]. revert I1. apply I_map; [reflexivity|]. apply hold_incl.
        intros j Hj. cbn [eout] in Hj. rewrite dids_app. cbn [dids flat_map app].
        destruct Hj as [Hj|Hj]; [apply in_or_app; left; apply in_or_app; right; now left|].
        apply in_app_or in Hj. destruct Hj as [Hj|Hj]; apply in_or_app; [left; apply in_or_app; now left|now right].
      * eapply Iel; [exact I1|exact E].
      * cbn [lout]. apply Ili. revert I1. apply I_map; [reflexivity|]. apply hold_incl.
        intros j Hj. cbn [eout] in Hj. apply in_app_or in Hj. apply in_or_app.
        destruct Hj as [Hj|Hj]; [left; now apply dids_rev_in|now right].
      * exact I1.
    + (* run_effects *)
      intros s X c es s' r HI Fe E. destruct HI as [O|Hh]; [by_oof (S f) O|].
      rewrite run_effects_S in E.
      destruct es as [|e rest]; [fin; right; exact Hh|].
      inversion Fe as [|e0 rest0 He Hrest]; subst e0 rest0.
      destruct (negb (live s match e with EExtend t _ => t | ERemove t _ => t end)) eqn:Lv;
        [eapply Ief; [right; exact Hh|exact Hrest|exact E]|].
      apply negb_false_iff in Lv.
      destruct e as [t news|t who]; cbv zeta in E.
      * (* extend *)
        destruct (enter_local tk f s _ []) as [[s1 r0] acc] eqn:Ee.
        assert (I1 : I s1 (lout r0 acc X)) by (eapply Iel; [|exact Ee]; right; exact Hh).
        assert (D1 : defs s1 = defs s).
        { destruct (defs_all f) as (_ & _ & _ & K & _). eapply K; exact Ee. }
        assert (Push : Hold s1 (dids acc ++ X) ->
                       Hold (set_sched s1 t {| doers := doers (get_sched s1 t) ++ dedupe (filter (fun d => negb (memN d (doers (get_sched s t)))) news) [];
                                               deeds := deeds (get_sched s1 t) ++ acc |}) X).
        { intro Hh1. eapply hold_push; [reflexivity|exact Hh1|].
          destruct (N.eq_dec t 0) as [Hz|Hz]; [now left|right].
          destruct He as [He|He]; [contradiction|]. split; [now rewrite D1|].
          unfold live in Lv. rewrite (proj2 (N.eqb_neq t 0) Hz) in Lv.
          destruct (get_gen s t) eqn:Gt; try discriminate.
          - right. apply (fam_keeps s s1 X t).
            + destruct (fam_all tk s (h_w _ _ _ _ Hh) (hold_La s X Hh) f) as (_ & _ & _ & _ & _ & _ & K & _).
              eapply K; [apply fam_refl; exact (hold_La s X Hh)| |exact Ee]. intros j [].
            + now exists pc.
            + eapply (h_anc _ _ _ _ Hh). exact Gt.
          - left. destruct (keep_all f t) as (_ & _ & _ & _ & K & _). eapply K; [|exact Ee]. now exists pc. }
        destruct r0; fin.
        -- eapply Ief; [| |exact E].
           ++ apply i_emit. revert I1. apply I_map; [reflexivity|]. exact Push.
           ++ change (Forall (eff_ok (defs s1)) rest). rewrite D1. exact Hrest.
        -- eapply Ief; [| |exact E].
           ++ apply i_emit. revert I1. apply I_map; [reflexivity|]. exact Push.
           ++ change (Forall (eff_ok (defs s1)) rest). rewrite D1. exact Hrest.
        -- exact I1.
        -- left. destruct (fuel_all tk f) as (_ & _ & _ & _ & K & _). eapply K; exact Ee.
      * (* remove *)
        eapply Ief; [| |exact E].
        -- apply i_emit. apply Ili. right. apply hold_remove. exact Hh.
        -- match goal with |- Forall (eff_ok (defs (emit (close_list tk f ?a ?b) _ _))) _ =>
             change (Forall (eff_ok (defs (close_list tk f a b))) rest) end.
           destruct (defs_all f) as (_ & _ & K & _). rewrite K. exact Hrest.
    + (* recur_pass *)
      intros s X sid s' r HI O E. rewrite recur_pass_S in E. cbv zeta in E.
      eapply Irl; [| |exact E]; [|exact O].
      revert HI. apply I_map; [reflexivity|]. intro Hh. apply (hold_append s sid [DMark] X); [exact O|exact Hh].
    + (* recur_loop *)
      intros s X sid s' r HI O E. rewrite recur_loop_S in E.
      destruct (deeds (get_sched s sid)) as [|[|i re] rest] eqn:Q.
      * fin. exact HI.
      * fin. revert HI. apply I_map; [reflexivity|]. intro Hh. exact (hold_pop s sid DMark rest X Q Hh).
      * cbv zeta in E.
        assert (I1 : I (set_deeds s sid rest) (i :: X)).
        { revert HI. apply I_map; [reflexivity|]. intro Hh. exact (hold_pop s sid (DDeed i re) rest X Q Hh). }
        destruct (tleb re (tyme (set_deeds s sid rest))).
        -- destruct (gen_send tk f _ i) as [s2 g] eqn:Eg.
           assert (I2 : I s2 (eout g i X)) by (eapply Isd; [exact I1|exact Eg]).
           assert (O2 : own s2 sid).
           { apply (own_keep (set_deeds s sid rest)); [exact O| |].
             - destruct (defs_all f) as (_ & K & _). eapply K; exact Eg.
             - intro R. destruct (keep_all f sid) as (_ & K & _). eapply K; eassumption. }
           destruct g; fin.
           ++ eapply Irl; [| |exact E]; [|exact O2].
              revert I2. apply I_map; [reflexivity|]. intro Hh2.
              match goal with |- Hold (set_deeds _ _ (_ ++ [?d])) _ => apply (hold_append s2 sid [d] X) end;
                [exact O2|exact Hh2].
           ++ eapply Irl; [exact I2|exact O2|exact E].
           ++ exact I2.
           ++ exact I2.
        -- eapply Irl; [| |exact E]; [|exact O].
           revert I1. apply I_map; [reflexivity|]. intro Hh1.
           unfold set_deeds at 1. eapply (hold_push _ sid _ [DDeed i re] X); [|exact Hh1|].
           ++ cbn [deeds]. rewrite dq_deeds_same. reflexivity.
           ++ apply own_push. exact O.
Qed.

End All.
