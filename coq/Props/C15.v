(* C15 — Server-sent events are delivered exactly regardless of line endings
   and splits.  Statements only; proofs in Proofs/SseProofs.v, SseSpec.v. *)
From Coq Require Import Init.Byte.
From Hio Require Import Base.Prelude Model.HttpLine Model.Chunk Model.Sse
  Proofs.HttpLineProofs Proofs.ChunkProofs Proofs.SseProofs.

Theorem C15_fragmentation : forall reads,
  feeds sse_stage sse_start reads = feed sse_stage sse_start (concat reads).
Proof. exact sse_feeds_concat. Qed.
Print Assumptions C15_fragmentation.
