(* Model of the WSGI side of hio.core.http.serving (src/hio/core/http/serving.py):
   Responder (start / build / write with length clamp / service / reset) and the
   per-connection reuse of one Responder by Server.serviceReqs / serviceReps
   across pipelined requests, AFTER the fixes 781564a (start leaves .chunkable alone, build chunks
   only while no Content-Length is in force), 0c426c9 (reset honours chunkable;
   serviceReqs passes it on reuse) and a0b4364 (serviceReps looks at the
   requestant only while it has not been re-armed).

   Also here: an independent reader of HTTP/1.x response streams (status line,
   header lines, body by Content-Length / chunked / until close).  It shares
   nothing with the writer except the decimal parser.

   Requests are abstract: version, Connection header value, "body framing is
   valid".  The request bytes themselves are rendered by the harness and parsed
   by the real Requestant.  No proofs here. *)
From Hio Require Import Base.Prelude.
From Coq Require Import Strings.String Strings.Ascii.

Local Open Scope N_scope.

(* ---------- byte-string helpers ---------- *)
Definition bs (s : string) : bytes := List.map N_of_ascii (list_ascii_of_string s).

Definition crlf : bytes := [13; 10].
Definition is_nil {A} (l : list A) : bool := match l with [] => true | _ => false end.
Definition len (s : bytes) : N := N.of_nat (List.length s).

Definition is_upper (c : N) : bool := (65 <=? c) && (c <=? 90).
Definition is_lower (c : N) : bool := (97 <=? c) && (c <=? 122).
Definition to_lower (c : N) : N := if is_upper c then c + 32 else c.
Definition to_upper (c : N) : N := if is_lower c then c - 32 else c.
Definition lower (s : bytes) : bytes := List.map to_lower s.

(* bytes.title() *)
Fixpoint title_from (cased : bool) (s : bytes) : bytes :=
  match s with
  | [] => []
  | c :: s' =>
    if is_lower c then (if cased then c else to_upper c) :: title_from true s'
    else if is_upper c then (if cased then to_lower c else c) :: title_from true s'
    else c :: title_from false s'
  end.
Definition title : bytes -> bytes := title_from false.

Fixpoint prefix_eqb (p s : bytes) : bool :=
  match p, s with
  | [], _ => true
  | a :: p', b :: s' => N.eqb a b && prefix_eqb p' s'
  | _ :: _, [] => false
  end.
(* Python `sub in s` *)
Fixpoint contains (sub s : bytes) : bool :=
  prefix_eqb sub s || match s with [] => false | _ :: s' => contains sub s' end.

(* decimal digits only (Python int() is more liberal: out of the modelled domain) *)
Fixpoint dec_acc (acc : N) (s : bytes) : option N :=
  match s with
  | [] => Some acc
  | c :: s' => if (48 <=? c) && (c <=? 57) then dec_acc (acc * 10 + (c - 48)) s' else None
  end.
Definition parse_dec (s : bytes) : option N := if is_nil s then None else dec_acc 0 s.

(* "{0:x}".format(n) *)
Definition hexdigit (d : N) : N := if d <? 10 then 48 + d else 87 + d.
Fixpoint to_hex_f (f : nat) (n : N) : bytes :=
  match f with
  | O => []
  | S f' => if n <? 16 then [hexdigit n] else to_hex_f f' (n / 16) ++ [hexdigit (n mod 16)]
  end.
Definition to_hex (n : N) : bytes := to_hex_f (S (N.to_nat n)) n.

(* ---------- headers: CIMultiDict as ordered pair list ---------- *)
Definition header := (bytes * bytes)%type.
Definition name_is (lname : bytes) (h : header) : bool := bytes_eqb (lower (fst h)) lname.

Fixpoint hfind (lname : bytes) (hs : list header) : option bytes :=
  match hs with
  | [] => None
  | h :: hs' => if name_is lname h then Some (snd h) else hfind lname hs'
  end.
Definition hmem (lname : bytes) (hs : list header) : bool :=
  match hfind lname hs with Some _ => true | None => false end.
(* d[name] = v : replace the first occurrence in place, drop the others, append when absent *)
Fixpoint hset (lname v : bytes) (hs : list header) : list header :=
  match hs with
  | [] => [(lname, v)]
  | h :: hs' => if name_is lname h
                then (lname, v) :: List.filter (fun h' => negb (name_is lname h')) hs'
                else h :: hset lname v hs'
  end.

Definition s_content_length := bs "content-length".
Definition s_transfer_encoding := bs "transfer-encoding".
Definition s_chunked := bs "chunked".
Definition s_server := bs "server".
Definition s_date := bs "date".
Definition s_server_value := bs "Ioflo WSGI Server".
Definition s_http11 := bs "HTTP/1.1 ".
Definition s_200 := bs "200 OK".
Definition s_http1_prefix := bs "HTTP/1.".
Definition s_close := bs "close".
Definition s_keep_alive := bs "keep-alive".
Definition s_colon_sp : bytes := [58; 32].

(* ---------- Responder ---------- *)
Record rstate := {
  chunkable : bool; started : bool; headed : bool; chunked : bool; ended : bool;
  status : bytes; headers : list header; length_ : option N; size : N }.

Definition init (ck : bool) : rstate :=
  {| chunkable := ck; started := false; headed := false; chunked := false; ended := false;
     status := s_200; headers := []; length_ := None; size := 0 |}.

(* Responder.reset(environ, chunkable=None) *)
Definition reset (r : rstate) (ck : option bool) : rstate :=
  {| chunkable := match ck with Some b => b | None => chunkable r end;
     started := false; headed := false; chunked := false; ended := false;
     status := s_200; headers := []; length_ := None; size := 0 |}.

(* Responder.start(status, headers, exc_info): [again] = exc_info given (PEP 3333 replacement of a
   response whose head was not sent yet; once it was sent the application's exception is re-raised).
   Status, headers and the derived length are replaced as a whole; .chunkable (what the connection
   allows) is not touched. *)
Definition start_core (r : rstate) (st : bytes) (hs : list header) : res rstate :=
  match hfind s_content_length hs with
  | Some v =>
    match parse_dec v with
    | Some n => Ok {| chunkable := chunkable r; started := true; headed := headed r; chunked := chunked r;
                      ended := ended r; status := st; headers := hs; length_ := Some n; size := size r |}
    | None => Exc ValueErr
    end
  | None => Ok {| chunkable := chunkable r; started := true; headed := headed r; chunked := chunked r;
                  ended := ended r; status := st; headers := hs; length_ := None; size := size r |}
  end.
Definition start (r : rstate) (st : bytes) (hs : list header) (again : bool) : res rstate :=
  if again then (if headed r then Exc OtherErr else start_core r st hs)
  else if started r then Exc AssertErr else start_core r st hs.

Definition is_none {A} (o : option A) : bool := match o with None => true | Some _ => false end.

Definition header_line (h : header) : bytes := title (fst h) ++ s_colon_sp ++ snd h ++ crlf.

(* the header list Responder.build ends up with, and whether it chose chunking *)
Definition built_headers (date : bytes) (ck : bool) (hs : list header) : list header * bool :=
  let hs1 := if hmem s_server hs then hs else hs ++ [(s_server, s_server_value)] in
  let hs2 := if hmem s_date hs1 then hs1 else hs1 ++ [(s_date, date)] in
  let ch := ck && match hfind s_transfer_encoding hs2 with
                  | None => true
                  | Some v => bytes_eqb v s_chunked
                  end in
  (if ch then hset s_transfer_encoding s_chunked hs2 else hs2, ch).

Definition build (date : bytes) (r : rstate) : rstate * bytes :=
  let (hs, ch) := built_headers date (chunkable r && is_none (length_ r)) (headers r) in
  ({| chunkable := chunkable r; started := started r; headed := headed r;
      chunked := if ch then true else chunked r; ended := ended r;
      status := status r; headers := hs; length_ := length_ r; size := size r |},
   s_http11 ++ status r ++ crlf ++ List.concat (List.map header_line hs) ++ crlf).

Definition pack_chunk (msg : bytes) : bytes := to_hex (len msg) ++ crlf ++ msg ++ crlf.

Definition set_headed (r : rstate) : rstate :=
  {| chunkable := chunkable r; started := started r; headed := true; chunked := chunked r;
     ended := ended r; status := status r; headers := headers r; length_ := length_ r; size := size r |}.
Definition set_size (r : rstate) (n : N) : rstate :=
  {| chunkable := chunkable r; started := started r; headed := headed r; chunked := chunked r;
     ended := ended r; status := status r; headers := headers r; length_ := length_ r; size := n |}.
Definition set_ended (r : rstate) : rstate :=
  {| chunkable := chunkable r; started := started r; headed := headed r; chunked := chunked r;
     ended := true; status := status r; headers := headers r; length_ := length_ r; size := size r |}.

(* Responder.write: returns the bytes handed to incomer.tx *)
Definition write (date : bytes) (r : rstate) (msg : bytes) : res (rstate * bytes) :=
  if negb (started r) then Exc AssertErr else
  let (r1, head) := if headed r then (r, []) else
                      let (r', h) := build date r in (set_headed r', h) in
  let msg1 := if chunked r1 then pack_chunk msg else msg in
  match length_ r1 with
  | Some L =>
    let sz := size r1 + len msg1 in
    (* msg[:length - size] with a negative stop drops the excess from the end *)
    let msg2 := if L <? sz then firstn (N.to_nat (len msg1 - (sz - L))) msg1 else msg1 in
    Ok (set_size r1 (size r1 + len msg2), head ++ msg2)
  | None => Ok (r1, head ++ msg1)
  end.

(* Responder.service stepped until .ended over the app's iterator:
   empty yields are skipped, a non-empty yield is written and ends the response
   early once the declared length is reached, StopIteration writes b'' *)
Fixpoint run_pieces (date : bytes) (r : rstate) (ps : list bytes) : res (rstate * bytes) :=
  if ended r then Ok (r, []) else
  match ps with
  | [] => match write date r [] with
          | Ok (r', o) => Ok (set_ended r', o)
          | Exc k => Exc k
          end
  | p :: ps' =>
    if is_nil p then run_pieces date r ps' else
    match write date r p with
    | Exc k => Exc k
    | Ok (r1, o1) =>
      let r2 := match length_ r1 with
                | Some L => if L <=? size r1 then set_ended r1 else r1
                | None => r1
                end in
      match run_pieces date r2 ps' with
      | Ok (r3, o3) => Ok (r3, o1 ++ o3)
      | Exc k => Exc k
      end
    end
  end.

(* ---------- requests, apps, the connection ---------- *)
Record req := { r_v11 : bool;            (* HTTP/1.1 (or 1.x, x >= 1) vs HTTP/1.0 *)
                r_conn : option bytes;   (* Connection header value *)
                r_ok : bool }.           (* false: unusable Content-Length -> HTTPException *)
Record app := { a_status : bytes; a_headers : list header; a_pieces : list bytes;
                a_first : option (bytes * list header) }.   (* an abandoned first start_response call *)

(* Requestant.checkPersisted (for requests whose framing is valid) *)
Definition persisted (q : req) : bool :=
  let conn := match r_conn q with Some c => lower c | None => [] end in
  if r_v11 q then negb (contains s_close conn) else contains s_keep_alive conn.

(* one accepted connection: the Responder is created for the first request and
   reset for every later one; a non persistent request closes the connection after
   its response is sent, a request that fails to parse closes it at once *)
Fixpoint serve (date : bytes) (rs : option rstate) (conn : list (req * app)) : res (bytes * bool) :=
  match conn with
  | [] => Ok ([], false)
  | (q, a) :: rest =>
    if negb (r_ok q) then Ok ([], true) else
    let ck := r_v11 q in
    let r0 := match rs with None => init ck | Some r => reset r (Some ck) end in
    match (match a_first a with
           | None => start r0 (a_status a) (a_headers a) false
           | Some (st1, hs1) =>
             match start r0 st1 hs1 false with
             | Ok r0' => start r0' (a_status a) (a_headers a) true
             | Exc k => Exc k
             end
           end) with
    | Exc k => Exc k
    | Ok r1 =>
      match run_pieces date r1 (a_pieces a) with
      | Exc k => Exc k
      | Ok (r2, out) =>
        if persisted q then
          match serve date (Some r2) rest with
          | Ok (o, c) => Ok (out ++ o, c)
          | Exc k => Exc k
          end
        else Ok (out, true)
      end
    end
  end.

(* ---------- the independent reader ---------- *)
Inductive framing := ByLength | ByChunks | ByClose.
Record response := { p_status : bytes;
                     p_headers : list header;   (* names lower-cased, values OWS-stripped *)
                     p_body : bytes;
                     p_framing : framing }.

(* split at the first CR LF *)
Fixpoint split_crlf (s : bytes) : option (bytes * bytes) :=
  match s with
  | [] => None
  | c :: s' =>
    match s' with
    | d :: s'' =>
      if (c =? 13) && (d =? 10) then Some ([], s'')
      else match split_crlf s' with Some (l, r) => Some (c :: l, r) | None => None end
    | [] => None
    end
  end.

Fixpoint split_at (x : N) (s : bytes) : option (bytes * bytes) :=
  match s with
  | [] => None
  | c :: s' => if c =? x then Some ([], s')
               else match split_at x s' with Some (l, r) => Some (c :: l, r) | None => None end
  end.

Definition is_ows (c : N) : bool := (c =? 32) || (c =? 9).
Fixpoint drop_ows (s : bytes) : bytes :=
  match s with c :: s' => if is_ows c then drop_ows s' else s | [] => [] end.
Definition strip_ows (s : bytes) : bytes := rev (drop_ows (rev (drop_ows s))).

Fixpoint read_headers (fuel : nat) (s : bytes) : option (list header * bytes) :=
  match fuel with
  | O => None
  | S f =>
    match split_crlf s with
    | None => None
    | Some (line, rest) =>
      if is_nil line then Some ([], rest) else
      match split_at 58 line with
      | None => None
      | Some (n, v) =>
        match read_headers f rest with
        | Some (hs, r) => Some ((lower n, strip_ows v) :: hs, r)
        | None => None
        end
      end
    end
  end.

Definition hexval (c : N) : option N :=
  if (48 <=? c) && (c <=? 57) then Some (c - 48)
  else if (97 <=? c) && (c <=? 102) then Some (c - 87)
  else if (65 <=? c) && (c <=? 70) then Some (c - 55)
  else None.
Fixpoint hex_acc (acc : N) (s : bytes) : option N :=
  match s with
  | [] => Some acc
  | c :: s' => match hexval c with Some d => hex_acc (acc * 16 + d) s' | None => None end
  end.
Definition of_hex (s : bytes) : option N := if is_nil s then None else hex_acc 0 s.

(* chunk-size CRLF data CRLF ... 0 CRLF trailers CRLF; no chunk extensions *)
Fixpoint read_chunks (fuel : nat) (s : bytes) : option (bytes * bytes) :=
  match fuel with
  | O => None
  | S f =>
    match split_crlf s with
    | None => None
    | Some (line, rest) =>
      match of_hex line with
      | None => None
      | Some n =>
        if n =? 0 then
          match read_headers (S (List.length rest)) rest with
          | Some (_, r) => Some ([], r)
          | None => None
          end
        else if len rest <? n then None
        else
          match skipn (N.to_nat n) rest with
          | 13 :: 10 :: rest' =>
            match read_chunks f rest' with
            | Some (b, r) => Some (firstn (N.to_nat n) rest ++ b, r)
            | None => None
            end
          | _ => None
          end
      end
    end
  end.

(* one response from the front of s; eof = the peer has closed after s.
   A body without Content-Length and without chunking is readable only up to
   the close: on an open connection such a response is not self-delimiting. *)
Definition read_response (s : bytes) (eof : bool) : option (response * bytes) :=
  match split_crlf s with
  | None => None
  | Some (line, s1) =>
    match split_at 32 line with
    | None => None
    | Some (ver, st) =>
      if negb (prefix_eqb s_http1_prefix ver) then None else
      match read_headers (S (List.length s1)) s1 with
      | None => None
      | Some (hs, s2) =>
        let te := match hfind s_transfer_encoding hs with Some v => lower v | None => [] end in
        if bytes_eqb te s_chunked then
          match read_chunks (S (List.length s2)) s2 with
          | Some (b, r) => Some ({| p_status := st; p_headers := hs; p_body := b; p_framing := ByChunks |}, r)
          | None => None
          end
        else
          match hfind s_content_length hs with
          | Some v =>
            match parse_dec v with
            | None => None
            | Some n =>
              if len s2 <? n then None
              else Some ({| p_status := st; p_headers := hs; p_body := firstn (N.to_nat n) s2;
                            p_framing := ByLength |}, skipn (N.to_nat n) s2)
            end
          | None =>
            if eof then Some ({| p_status := st; p_headers := hs; p_body := s2; p_framing := ByClose |}, [])
            else None
          end
      end
    end
  end.

Fixpoint read_all (fuel : nat) (s : bytes) (eof : bool) : option (list response) :=
  if is_nil s then Some [] else
  match fuel with
  | O => None
  | S f =>
    match read_response s eof with
    | None => None
    | Some (r, rest) =>
      match read_all f rest eof with
      | Some l => Some (r :: l)
      | None => None
      end
    end
  end.
Definition read_stream (s : bytes) (eof : bool) : option (list response) := read_all (S (List.length s)) s eof.

(* ---------- what the application said ---------- *)
Definition declared (a : app) : option N :=
  match hfind s_content_length (a_headers a) with Some v => parse_dec v | None => None end.
Definition app_body (a : app) : bytes :=
  match declared a with
  | Some n => firstn (N.to_nat n) (List.concat (a_pieces a))
  | None => List.concat (a_pieces a)
  end.
Definition norm_header (h : header) : header := (lower (fst h), snd h).

(* the requests that get answered: up to and including the first non persistent one *)
Fixpoint answered (conn : list (req * app)) : list (req * app) :=
  match conn with
  | [] => []
  | (q, a) :: rest => if negb (r_ok q) then [] else
                      if persisted q then (q, a) :: answered rest else [(q, a)]
  end.
Fixpoint closes (conn : list (req * app)) : bool :=
  match conn with
  | [] => false
  | (q, a) :: rest => if negb (r_ok q) then true else if persisted q then closes rest else true
  end.

(* ---------- well-formed inputs (booleans; used by check_case and as theorem hypotheses) ---------- *)
Definition no_crlf (s : bytes) : bool := forallb (fun c => negb ((c =? 13) || (c =? 10))) s.
Definition wf_name (n : bytes) : bool :=
  negb (is_nil n) && forallb (fun c => negb ((c =? 13) || (c =? 10) || (c =? 58) || (c =? 32) || (c =? 9))) n.
Definition wf_value (v : bytes) : bool := no_crlf v && bytes_eqb (strip_ows v) v.
Definition wf_header (h : header) : bool :=
  wf_name (fst h) && wf_value (snd h) && negb (name_is s_transfer_encoding h).
Definition total (a : app) : N := len (List.concat (a_pieces a)).
Definition first_ok (a : app) : bool :=
  match a_first a with
  | None => true
  | Some (_, hs1) => match hfind s_content_length hs1 with
                     | None => true
                     | Some v => negb (is_none (parse_dec v))
                     end
  end.
Definition wf_app (a : app) : bool :=
  first_ok a && no_crlf (a_status a) && forallb wf_header (a_headers a) &&
  match hfind s_content_length (a_headers a) with
  | None => true
  | Some v => match parse_dec v with Some n => n <=? total a | None => false end
  end.
Definition wf_date (d : bytes) : bool := wf_value d.
Definition wf_conn (conn : list (req * app)) : bool := forallb (fun qa => r_ok (fst qa) && wf_app (snd qa)) conn.

(* D21b, open: an HTTP/1.0 keep-alive request answered without Content-Length *)
Definition unframed_open (qa : req * app) : bool :=
  negb (r_v11 (fst qa)) && persisted (fst qa) && negb (hmem s_content_length (a_headers (snd qa))).
Definition framed_conn (conn : list (req * app)) : bool := forallb (fun qa => negb (unframed_open qa)) (answered conn).

(* what an independent reader must get back for one answered request *)
Definition expected (date : bytes) (qa : req * app) : response :=
  let (q, a) := qa in
  let (hs, ch) := built_headers date (r_v11 q && negb (hmem s_content_length (a_headers a))) (a_headers a) in
  {| p_status := a_status a; p_headers := List.map norm_header hs; p_body := app_body a;
     p_framing := if ch then ByChunks else if hmem s_content_length (a_headers a) then ByLength else ByClose |}.

Definition framing_eqb (x y : framing) : bool :=
  match x, y with ByLength, ByLength | ByChunks, ByChunks | ByClose, ByClose => true | _, _ => false end.
Definition header_eqb (x y : header) : bool := bytes_eqb (fst x) (fst y) && bytes_eqb (snd x) (snd y).
Definition response_eqb (x y : response) : bool :=
  bytes_eqb (p_status x) (p_status y) && list_eqb header_eqb (p_headers x) (p_headers y) &&
  bytes_eqb (p_body x) (p_body y) && framing_eqb (p_framing x) (p_framing y).

(* ---------- correspondence ---------- *)
Record case := { c_date : bytes; c_conn : list (req * app); c_out : bytes; c_closed : bool }.

(* the model reproduces the observed stream and close flag; and, on well-formed
   framed input, the independent reader applied to the OBSERVED bytes returns
   exactly what the applications said *)
Definition check_case (c : case) : bool :=
  match serve (c_date c) None (c_conn c) with
  | Exc _ => false
  | Ok (out, cl) =>
    bytes_eqb out (c_out c) && Bool.eqb cl (c_closed c) &&
    (if wf_conn (c_conn c) && wf_date (c_date c) && framed_conn (c_conn c) then
       match read_stream (c_out c) (c_closed c) with
       | Some rs => list_eqb response_eqb rs (List.map (expected (c_date c)) (answered (c_conn c)))
       | None => false
       end
     else true)
  end.

(* branch ids, per request of a case:
   0 malformed request closes   1 length-framed exact   2 length-framed clamped
   3 chunked   4 unframed then closed   5 unframed on a kept connection (D21b)
   6 responder created   7 responder reused   8 request after the close (unanswered)
   9 response replaced by a second start_response call *)
Definition n_branches : nat := 10.
Fixpoint branches (first : bool) (conn : list (req * app)) : list nat :=
  match conn with
  | [] => []
  | (q, a) :: rest =>
    if negb (r_ok q) then 0%nat :: List.map (fun _ => 8%nat) rest else
    (match a_first a with Some _ => [9%nat] | None => [] end) ++
    (if first then 6%nat else 7%nat) ::
    (match declared a with
     | Some n => if n <? total a then 2%nat else 1%nat
     | None => if r_v11 q then 3%nat else if persisted q then 5%nat else 4%nat
     end) ::
    (if persisted q then branches false rest else List.map (fun _ => 8%nat) rest)
  end.
Definition case_branches (c : case) : list nat := branches true (c_conn c).
