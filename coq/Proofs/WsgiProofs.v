(* Lemmas about Model/Wsgi.v *)
From Hio Require Import Base.Prelude Base.ListFacts Model.Wsgi.
From Coq Require Import ZifyBool.
Local Open Scope N_scope.

(* the connection is closed exactly when an unparsable or a non persistent
   request was reached *)
Lemma serve_closed date : forall conn rs out cl,
  serve date rs conn = Ok (out, cl) -> cl = closes conn.
Proof.
  induction conn as [|[q a] rest IH]; intros rs out cl H; cbn [serve closes] in *.
  - now inversion H.
  - destruct (negb (r_ok q)); [now inversion H|].
    match goal with H : match ?X with Ok _ => _ | Exc _ => _ end = _ |- _ => destruct X as [r1|]; [|discriminate] end.
    destruct (run_pieces _ _ _) as [[r2 o]|]; [|discriminate].
    destruct (persisted q).
    + destruct (serve date (Some r2) rest) as [[o' c']|] eqn:E; [|discriminate].
      inversion H; subst. eapply IH; eauto.
    + now inversion H.
Qed.

(* ------------------------------------------------------------------ *)
(* Part A: the stateful Responder emits a purely functional encoding   *)

Lemma reset_init r ck : reset r (Some ck) = init ck.
Proof. reflexivity. Qed.

Definition head_of (date : bytes) (r : rstate) : bytes := snd (build date r).
Definition eff_chunked (date : bytes) (r : rstate) : bool :=
  if headed r then chunked r
  else snd (built_headers date (chunkable r && is_none (length_ r)) (headers r)) || chunked r.

Lemma run_ended date r ps : ended r = true -> run_pieces date r ps = Ok (r, []).
Proof. intros H. destruct ps; cbn [run_pieces]; now rewrite H. Qed.

Lemma write_nolen date r msg :
  started r = true -> length_ r = None ->
  exists r', write date r msg =
             Ok (r', (if headed r then [] else head_of date r)
                     ++ (if eff_chunked date r then pack_chunk msg else msg))
    /\ started r' = true /\ length_ r' = None /\ headed r' = true
    /\ chunked r' = eff_chunked date r /\ ended r' = ended r.
Proof.
  intros Hs Hl. unfold write, eff_chunked, head_of. rewrite Hs. cbn [negb].
  destruct (headed r) eqn:Hh.
  - rewrite Hl. exists r. repeat split; auto.
  - unfold build. destruct (built_headers date (chunkable r && is_none (length_ r)) (headers r)) as [hs ch].
    cbn [set_headed length_ chunked headed started ended size snd fst chunkable status headers].
    rewrite Hl.
    eexists. split; [reflexivity|]. cbn. repeat split; auto.
    all: destruct ch, (chunked r); reflexivity.
Qed.

Lemma clamp_firstn (msg : bytes) (L sz0 : N) :
  (if L <? sz0 + len msg then firstn (N.to_nat (len msg - (sz0 + len msg - L))) msg else msg)
  = firstn (N.to_nat (L - sz0)) msg.
Proof.
  unfold len. destruct (L <? sz0 + N.of_nat (length msg)) eqn:E.
  - f_equal. lia.
  - symmetry. apply firstn_all2. lia.
Qed.

Lemma write_len date r msg L :
  started r = true -> length_ r = Some L -> chunked r = false ->
  exists r', write date r msg =
             Ok (r', (if headed r then [] else head_of date r) ++ firstn (N.to_nat (L - size r)) msg)
    /\ started r' = true /\ length_ r' = Some L /\ chunked r' = false
    /\ headed r' = true /\ ended r' = ended r
    /\ size r' = size r + N.min (len msg) (L - size r).
Proof.
  intros Hs Hl Hch. unfold write, head_of. rewrite Hs. cbn [negb].
  assert (Hsz : forall m : bytes, len (firstn (N.to_nat (L - size r)) m) = N.min (len m) (L - size r)).
  { intros m. unfold len. rewrite firstn_length. lia. }
  destruct (headed r) eqn:Hh.
  - rewrite Hch, Hl. rewrite clamp_firstn. eexists. split; [reflexivity|].
    cbn [set_size started length_ chunkable chunked headed ended size]. rewrite Hsz. repeat split; auto.
  - unfold build. rewrite Hl. cbn [is_none]. rewrite andb_false_r. unfold built_headers. cbn [andb].
    cbn [set_headed length_ chunked headed started ended size snd fst chunkable status headers].
    rewrite Hch. rewrite clamp_firstn. eexists. split; [reflexivity|].
    cbn [set_size started length_ chunkable chunked headed ended size]. rewrite Hsz. repeat split; auto.
Qed.

Lemma concat_nil_cons (ps : list bytes) : List.concat ([] :: ps) = List.concat ps.
Proof. reflexivity. Qed.

Lemma is_nil_true {A} (l : list A) : is_nil l = true -> l = [].
Proof. destruct l; [reflexivity|discriminate]. Qed.

Lemma run_len date L : forall ps r,
  started r = true -> ended r = false -> length_ r = Some L ->
  chunked r = false ->
  size r <= L -> (headed r = true -> size r < L) ->
  exists r', run_pieces date r ps =
             Ok (r', (if headed r then [] else head_of date r)
                     ++ firstn (N.to_nat (L - size r)) (List.concat ps)).
Proof.
  induction ps as [|p ps IH]; intros r Hs He Hl Hch Hle Hlt; cbn [run_pieces]; rewrite He.
  - destruct (write_len date r [] L Hs Hl Hch) as (r' & Hw & _). rewrite Hw.
    eexists. cbn [List.concat]. now rewrite !firstn_nil.
  - destruct (is_nil p) eqn:Hp.
    { apply is_nil_true in Hp. subst p. rewrite concat_nil_cons. now apply IH. }
    destruct (write_len date r p L Hs Hl Hch) as (r1 & Hw & Hs1 & Hl1 & Hch1 & Hh1 & He1 & Hz1).
    rewrite Hw, Hl1. cbn [List.concat]. rewrite firstn_app.
    destruct (L <=? size r1) eqn:Hend.
    + rewrite run_ended by reflexivity.
      eexists. f_equal. f_equal. rewrite app_nil_r. f_equal.
      replace (N.to_nat (L - size r) - length p)%nat with 0%nat by (unfold len in Hz1; lia).
      now rewrite firstn_O, app_nil_r.
    + assert (Hlen : len p < L - size r) by lia.
      destruct (IH r1 Hs1 (eq_trans He1 He) Hl1 Hch1) as (r3 & Hr); [lia | intros _; lia |].
      rewrite Hr, Hh1. exists r3. f_equal. f_equal. rewrite <- app_assoc. f_equal.
      cbn [List.app]. f_equal. f_equal. unfold len in *. lia.
Qed.

Definition nonnil (p : bytes) : bool := negb (is_nil p).
Definition chunk_body (ps : list bytes) : bytes :=
  List.concat (List.map pack_chunk (List.filter nonnil ps)) ++ pack_chunk [].

Lemma run_nolen date : forall ps r,
  started r = true -> ended r = false -> length_ r = None ->
  exists r', run_pieces date r ps =
             Ok (r', (if headed r then [] else head_of date r)
                     ++ (if eff_chunked date r then chunk_body ps else List.concat ps)).
Proof.
  induction ps as [|p ps IH]; intros r Hs He Hl; cbn [run_pieces]; rewrite He.
  - destruct (write_nolen date r [] Hs Hl) as (r' & Hw & _). rewrite Hw.
    eexists. reflexivity.
  - destruct (is_nil p) eqn:Hp.
    { destruct (IH r Hs He Hl) as (r' & Hr). rewrite Hr. exists r'.
      apply is_nil_true in Hp. subst p. unfold chunk_body. cbn [List.filter nonnil is_nil negb].
      reflexivity. }
    destruct (write_nolen date r p Hs Hl) as (r1 & Hw & Hs1 & Hl1 & Hh1 & Hch1 & He1).
    rewrite Hw, Hl1.
    destruct (IH r1 Hs1 (eq_trans He1 He) Hl1) as (r3 & Hr). rewrite Hr, Hh1.
    exists r3. f_equal. f_equal. rewrite <- app_assoc. f_equal. cbn [List.app].
    assert (E : eff_chunked date r1 = eff_chunked date r).
    { unfold eff_chunked at 1. now rewrite Hh1. }
    rewrite E. unfold chunk_body. cbn [List.filter]. change (nonnil p) with (negb (is_nil p)). rewrite Hp. cbn [negb List.map List.concat].
    destruct (eff_chunked date r); [|reflexivity]. now rewrite <- app_assoc.
Qed.

(* the head and body of the response to request q by application a *)
Definition enc_head (date : bytes) (q : req) (a : app) : bytes :=
  let ck := r_v11 q && negb (hmem s_content_length (a_headers a)) in
  s_http11 ++ a_status a ++ crlf
  ++ List.concat (List.map header_line (fst (built_headers date ck (a_headers a)))) ++ crlf.
Definition enc_body (date : bytes) (q : req) (a : app) : bytes :=
  match declared a with
  | Some L => firstn (N.to_nat L) (List.concat (a_pieces a))
  | None =>
    if snd (built_headers date (r_v11 q && negb (hmem s_content_length (a_headers a))) (a_headers a))
    then chunk_body (a_pieces a) else List.concat (a_pieces a)
  end.
Definition encode (date : bytes) (qa : req * app) : bytes :=
  enc_head date (fst qa) (snd qa) ++ enc_body date (fst qa) (snd qa).

(* content-length header present implies it parses (part of wf_app) *)
Definition cl_ok (a : app) : Prop :=
  match hfind s_content_length (a_headers a) with
  | Some v => parse_dec v <> None
  | None => True
  end.

(* a second start_response call (exc_info, head not sent yet) replaces the first one as a whole *)
Lemma start_twice r0 st1 hs1 st hs r' :
  started r0 = false -> headed r0 = false ->
  start r0 st1 hs1 false = Ok r' -> start r' st hs true = start r0 st hs false.
Proof.
  unfold start, start_core. intros Hs Hh. rewrite Hs.
  destruct (hfind s_content_length hs1) as [v|]; [destruct (parse_dec v); [|discriminate]|];
    intros E; inversion E; subst; cbn [headed chunkable chunked ended size]; rewrite Hh; reflexivity.
Qed.

Definition started_state (q : req) (a : app) (rs : option rstate) : res rstate :=
  let r0 := match rs with None => init (r_v11 q) | Some r => reset r (Some (r_v11 q)) end in
  match a_first a with
  | None => start r0 (a_status a) (a_headers a) false
  | Some (st1, hs1) =>
    match start r0 st1 hs1 false with
    | Ok r0' => start r0' (a_status a) (a_headers a) true
    | Exc k => Exc k
    end
  end.

Lemma started_state_last q a rs :
  first_ok a = true ->
  started_state q a rs = start (init (r_v11 q)) (a_status a) (a_headers a) false.
Proof.
  intros Hf. unfold started_state.
  assert (E0 : match rs with None => init (r_v11 q) | Some r => reset r (Some (r_v11 q)) end = init (r_v11 q)).
  { destruct rs; reflexivity. }
  rewrite E0. unfold first_ok in Hf. destruct (a_first a) as [[st1 hs1]|]; [|reflexivity].
  destruct (start (init (r_v11 q)) st1 hs1 false) as [r'|k] eqn:E.
  - eapply start_twice; [reflexivity | reflexivity | exact E].
  - exfalso. unfold start, start_core, init in E. cbn [started] in E.
    destruct (hfind s_content_length hs1) as [v|]; [|discriminate].
    destruct (parse_dec v); [discriminate | discriminate].
Qed.

Lemma respond_spec date q a rs :
  cl_ok a -> first_ok a = true ->
  exists r1 r2,
    started_state q a rs = Ok r1
    /\ run_pieces date r1 (a_pieces a) = Ok (r2, encode date (q, a)).
Proof.
  intros Hcl Hf. rewrite started_state_last by assumption.
  unfold init, start, start_core, cl_ok, encode, enc_head, enc_body, declared, hmem in *.
  cbn [started headed chunked ended size chunkable fst snd].
  destruct (hfind s_content_length (a_headers a)) as [v|] eqn:Hfd.
  - destruct (parse_dec v) as [L|] eqn:Hd; [|congruence].
    eexists.
    edestruct (run_len date L (a_pieces a)) as (r2 & Hr); cycle 6.
    { exists r2. split; [reflexivity|]. rewrite Hr.
      cbn [headed size]. unfold head_of, build. cbn [chunkable headers status andb negb length_ is_none].
      rewrite !Bool.andb_false_r.
      destruct (built_headers date false (a_headers a)) as [hs ch] eqn:Eb.
      cbn [fst snd]. rewrite N.sub_0_r. reflexivity. }
    all: cbn [started ended length_ chunkable chunked size headed]; try reflexivity; try lia; try discriminate.
  - eexists.
    edestruct (run_nolen date (a_pieces a)) as (r2 & Hr); cycle 3.
    { exists r2. split; [reflexivity|]. rewrite Hr.
      cbn [headed]. unfold head_of, eff_chunked, build. cbn [chunkable headers status headed chunked negb length_ is_none].
      rewrite !Bool.andb_true_r, Bool.orb_false_r.
      destruct (built_headers date (r_v11 q) (a_headers a)) as [hs ch] eqn:Eb.
      cbn [fst snd]. reflexivity. }
    all: reflexivity.
Qed.

(* the whole connection: the stream is the concatenation of the encodings of the
   answered requests, independently of the Responder being created or reused *)
Lemma serve_spec date : forall conn rs,
  (forall qa, In qa conn -> cl_ok (snd qa) /\ first_ok (snd qa) = true) ->
  serve date rs conn = Ok (List.concat (List.map (encode date) (answered conn)), closes conn).
Proof.
  induction conn as [|[q a] rest IH]; intros rs Hcl; cbn [serve answered closes].
  - reflexivity.
  - destruct (negb (r_ok q)); [reflexivity|].
    destruct (Hcl (q, a) (or_introl eq_refl)) as [Hc1 Hc2].
    destruct (respond_spec date q a rs Hc1 Hc2) as (r1 & r2 & Hst & Hrun).
    unfold started_state in Hst. cbv zeta in Hst. rewrite Hst, Hrun.
    destruct (persisted q).
    + rewrite IH by (intros qa Hin; apply Hcl; now right).
      cbn [List.map List.concat]. reflexivity.
    + cbn [List.map List.concat]. now rewrite app_nil_r.
Qed.

(* the stream does not depend on an abandoned first start_response call *)
Definition forget_first (qa : req * app) : req * app :=
  (fst qa, {| a_status := a_status (snd qa); a_headers := a_headers (snd qa); a_pieces := a_pieces (snd qa);
              a_first := None |}).

Lemma answered_forget conn : answered (List.map forget_first conn) = List.map forget_first (answered conn).
Proof.
  induction conn as [|[q a] rest IH]; [reflexivity|]. cbn [List.map answered forget_first fst snd].
  destruct (negb (r_ok q)); [reflexivity|]. destruct (persisted q); cbn [List.map]; [now rewrite IH | reflexivity].
Qed.

Lemma closes_forget conn : closes (List.map forget_first conn) = closes conn.
Proof.
  induction conn as [|[q a] rest IH]; [reflexivity|]. cbn [List.map closes forget_first fst snd].
  destruct (negb (r_ok q)); [reflexivity|]. destruct (persisted q); [exact IH | reflexivity].
Qed.

Lemma serve_forgets_first date conn rs :
  (forall qa, In qa conn -> cl_ok (snd qa) /\ first_ok (snd qa) = true) ->
  serve date rs conn = serve date rs (List.map forget_first conn).
Proof.
  intros H. rewrite serve_spec by assumption. rewrite serve_spec.
  - rewrite answered_forget, closes_forget.
    assert (E : List.map (encode date) (List.map forget_first (answered conn)) = List.map (encode date) (answered conn)).
    { rewrite map_map. apply map_ext. intros [q a]. reflexivity. }
    now rewrite E.
  - intros qa Hin. apply in_map_iff in Hin as ([q a] & <- & Hin). destruct (H _ Hin) as [A _].
    split; [exact A | reflexivity].
Qed.
