(* Enter order, regime A (the enter phase; programs without extend() and without
   remove() in a first resumption): entering a doer touches neither the doers
   that were live before nor their deques nor the root deque, and only doers
   that were startable get an Enter ([famx_all]); every deque is filled in enter
   order ([sorta_all]). *)
From Coq Require Import Sorting.Sorted.
From Hio Require Import Base.Prelude Base.AMap Base.Time Model.Sched Proofs.SchedEqs Proofs.SchedFrame Proofs.SchedLife
  Proofs.SchedDeque Proofs.SchedDequeHold Proofs.SchedDequeFam Proofs.SchedDequeAll Proofs.SchedDequeUniq
  Proofs.SchedDequeEffects Proofs.SchedDequeEpos Proofs.SchedDequeSortB.

Section SortA.
Context {T : Type} `{Time T}.
Implicit Types s a b : st T.
Variable tk : T.

(* the class: W and no extend() anywhere *)
Definition WX (d : amap (fdef T)) : Prop := W d /\ XF d.

Lemma step0_empty d i k sc : WX d -> get d i = Some (FLeaf k sc) -> f_es (nth 0 sc default_step) = [].
Proof.
  intros [Hw [_ Hx]] D. pose proof (w_nr0 _ Hw i k sc D) as Nr. pose proof (Hx i k sc 0%nat D) as Ne.
  destruct (f_es (nth 0 sc default_step)) as [|e es]; [reflexivity|exfalso].
  inversion Nr; inversion Ne; subst. destruct e; [contradiction|discriminate].
Qed.

Record FX a s : Prop := {
  fx_gen : forall j, startable a j = false -> get_gen s j = get_gen a j;
  fx_dq : forall x, startable a x = false \/ x = 0%N -> dq s x = dq a x;
  fx_fresh : forall sid, sid <> 0%N -> startable a sid = true -> forall j, In j (qids s sid) -> startable a j = true;
  fx_defs : defs s = defs a;
  fx_ent : exists seg, trace s = seg ++ trace a /\
                       forall e, In e seg -> e_kind e = Enter -> startable a (e_id e) = true }.

Lemma fx_refl a : (forall sid, sid <> 0%N -> startable a sid = true -> dq a sid = []) -> FX a a.
Proof.
  intro La. split; try reflexivity; auto.
  - intros sid Hz St j Hj. unfold qids in Hj. rewrite (La sid Hz St) in Hj. contradiction.
  - exists []. split; [reflexivity|intros e []].
Qed.
Lemma fx_same a s s' : (forall j, get_gen s' j = get_gen s j) -> (forall x, dq s' x = dq s x) -> defs s' = defs s ->
  trace s' = trace s -> FX a s -> FX a s'.
Proof.
  intros Hg Hq Hd Ht [A B C D E]. split.
  - intros j Sj. rewrite Hg. now apply A.
  - intros x Hx. rewrite Hq. now apply B.
  - intros sid Hz St j Hj. unfold qids in Hj. rewrite Hq in Hj. eapply C; eassumption.
  - congruence.
  - destruct E as (seg & Tr & F). exists seg. split; [congruence|exact F].
Qed.
Lemma fx_done a s i d : FX a s -> FX a (set_done s i d). Proof. now apply fx_same. Qed.
Lemma fx_oof a s : FX a s -> FX a (out_of_fuel s). Proof. now apply fx_same. Qed.
Lemma fx_if a s1 s2 (c : bool) : FX a s1 -> FX a s2 -> FX a (if c then s1 else s2). Proof. destruct c; auto. Qed.
Lemma fx_emit a s k i : (k = Enter -> startable a i = true) -> FX a s -> FX a (emit s k i).
Proof.
  intros Hk [A B C D (seg & Tr & F)]. split; try assumption.
  eexists (_ :: seg). split; [cbn [trace emit]; now rewrite Tr|].
  intros e [He|Hin] Ke; [subst e; now apply Hk|now apply F].
Qed.
Lemma fx_gen_fresh a s i g : startable a i = true -> FX a s -> FX a (set_gen s i g).
Proof.
  intros St [A B C D E]. split; try assumption.
  intros j Sj. rewrite gen_set_gen_other; [now apply A|]. intro Heq. subst j. congruence.
Qed.
Lemma fx_sched a s sid c' :
  sid <> 0%N -> startable a sid = true ->
  (forall j, In j (dids (deeds c')) -> startable a j = true) ->
  FX a s -> FX a (set_sched s sid c').
Proof.
  intros Hz St Fr [A B C D E]. split; try assumption.
  - intros x Hx. rewrite dq_set_other; [now apply B|]. intro Heq. subst x. destruct Hx; congruence.
  - intros x Hzx Sx j Hj. destruct (N.eq_dec x sid) as [Heq|Hne].
    + subst x. unfold qids in Hj. rewrite dq_set_same in Hj. now apply Fr.
    + unfold qids in Hj. rewrite dq_set_other in Hj by exact Hne. eapply C; eassumption.
Qed.

Lemma fx_startable a s i : FX a s -> startable s i = true -> startable a i = true.
Proof.
  intros F St. destruct (startable a i) eqn:Sa; [reflexivity|].
  unfold startable in *. rewrite (fx_gen _ _ F i Sa) in St. congruence.
Qed.

Section Ref.
Variable a : st T.
Hypothesis Wa : WX (defs a).
Hypothesis La : forall sid, sid <> 0%N -> startable a sid = true -> dq a sid = [].

Definition famx_at (f : nat) : Prop :=
  (forall s i s' r, FX a s -> gen_start tk f s i = (s', r) -> FX a s') /\
  (forall s i k sc s' r, FX a s -> startable a i = true -> get (defs a) i = Some (FLeaf k sc) ->
                         run_step tk f s i k sc 0 = (s', r) -> FX a s') /\
  (forall s i, FX a s -> startable a i = true -> FX a (gen_close tk f s i)) /\
  (forall s sid, FX a s -> startable a sid = true -> sid <> 0%N -> FX a (close_own tk f s sid)) /\
  (forall s (ds : list (deed T)), FX a s -> (forall j, In j (dids ds) -> startable a j = true) -> FX a (close_list tk f s ds)) /\
  (forall s sid ids s' r, FX a s -> startable a sid = true -> sid <> 0%N ->
                          enter_own tk f s sid ids = (s', r) -> FX a s').

Lemma nestx_ne0 s i t0 al kids : FX a s -> get (defs s) i = Some (FNest t0 al kids) -> i <> 0%N.
Proof. intros F D Heq. subst i. rewrite (fx_defs _ _ F), (proj1 (proj2 Wa)) in D. discriminate. Qed.

Lemma famx_all : forall f, famx_at f.
Proof.
  induction f as [|f IH].
  - unfold famx_at. repeat match goal with |- _ /\ _ => split end; intros;
      try match goal with E : _ = (_, _) |- _ => cbn in E; inversion E; subst; clear E end; cbn;
      apply fx_oof; assumption.
  - destruct IH as (Ist & Irs & Icl & Ico & Ili & Ieo).
    unfold famx_at. repeat match goal with |- _ /\ _ => split end.
    + (* gen_start *)
      intros s i s' r F E. rewrite gen_start_S in E.
      destruct (startable s i) eqn:St; cbn [negb] in E; [|fin; assumption].
      pose proof (fx_startable _ _ i F St) as Sa.
      destruct (get (defs s) i) as [[k sc|t0 al kids]|] eqn:D; [| |fin; assumption].
      * eapply Irs; [| | |exact E].
        -- apply fx_emit; [intros _; exact Sa|]. now apply fx_gen_fresh.
        -- exact Sa.
        -- rewrite <- (fx_defs _ _ F). exact D.
      * pose proof (nestx_ne0 _ _ _ _ _ F D) as Hz. cbv zeta in E.
        destruct (enter_own tk f _ i _) as [s2 r0] eqn:Ee.
        assert (F2 : FX a s2).
        { eapply Ieo; [| | |exact Ee]; [|exact Sa|exact Hz]. apply fx_emit; [intros _; exact Sa|]. now apply fx_gen_fresh. }
        destruct r0; fin; try assumption; try (apply fx_gen_fresh; assumption).
        apply fx_gen_fresh; [exact Sa|]. apply fx_emit; [discriminate|]. apply Ico; [|exact Sa|exact Hz].
        apply fx_if; [assumption|apply fx_emit; [discriminate|assumption]].
    + (* run_step at pc 0: no effects *)
      intros s i k sc s' r F Sa D E. rewrite run_step_S in E. cbv zeta in E.
      rewrite (step0_empty _ i k sc Wa D) in E.
      destruct f as [|f'].
      * cbn in E. fin. now apply fx_oof.
      * rewrite run_effects_S in E. cbv beta iota zeta in E.
        destruct (f_out _); fin;
          repeat first [assumption | apply fx_done | (apply fx_emit; [discriminate|]) | apply fx_gen_fresh].
    + (* gen_close *)
      intros s i F Sa. rewrite gen_close_S.
      destruct (get_gen s i) eqn:G; try assumption.
      destruct (get (defs s) i) as [[k sc|t0 al kids]|] eqn:D; [| |assumption].
      * repeat first [assumption | (apply fx_emit; [discriminate|]) | apply fx_gen_fresh].
      * cbv zeta. pose proof (nestx_ne0 _ _ _ _ _ F D) as Hz.
        apply fx_gen_fresh; [exact Sa|]. apply fx_emit; [discriminate|]. apply Ico; [|exact Sa|exact Hz].
        repeat first [assumption | (apply fx_emit; [discriminate|]) | apply fx_gen_fresh].
    + (* close_own *)
      intros s sid F Sa Hz. rewrite close_own_S. cbv zeta. apply Ili.
      * unfold set_deeds. apply fx_sched; [exact Hz|exact Sa|intros j []|exact F].
      * intros j Hj. apply (proj1 (dids_rev_in _ _)) in Hj. apply (proj1 (dids_unrotate_in _ _)) in Hj.
        exact (fx_fresh _ _ F sid Hz Sa j Hj).
    + (* close_list *)
      intros s ds F Fr. rewrite close_list_S. destruct ds as [|[|i re] r]; [assumption| |].
      * apply Ili; [exact F|exact Fr].
      * apply Ili; [apply Icl; [exact F|apply Fr; now left]|]. intros j Hj. apply Fr. now right.
    + (* enter_own *)
      intros s sid ids s' r F Sa Hz E. rewrite enter_own_S in E.
      destruct ids as [|i rest]; [fin; assumption|]. cbv zeta in E.
      destruct (gen_start tk f _ i) as [s1 r0] eqn:Eg.
      assert (F1 : FX a s1) by (eapply Ist; [apply fx_done; exact F|exact Eg]).
      destruct r0; fin; try assumption.
      * eapply Ieo; [| | |exact E]; try assumption.
        unfold set_deeds. apply fx_sched; [exact Hz|exact Sa| |exact F1]. cbn [deeds].
        intros j Hj. rewrite dids_app in Hj. apply in_app_or in Hj. destruct Hj as [Hj|[Hj|[]]].
        -- exact (fx_fresh _ _ F1 sid Hz Sa j Hj).
        -- subst j. apply (fx_startable _ (set_done s i (Some false))); [apply fx_done; exact F|].
           eapply gen_start_yield; exact Eg.
      * eapply Ieo; [| | |exact E]; assumption.
Qed.

End Ref.

End SortA.
