#!/usr/bin/env python3
"""tools/seed_summary.py: one line per kept seeded change whose latest evaluation (meta.json) is not
'demo passes on the unchanged tree, fails on the changed one, quick check catches it'."""
import json, glob, os, sys
bad = 0
n = 0
for d in sorted(glob.glob(os.path.join(os.path.dirname(__file__), "..", "seeded", "C*-*"))):
    try:
        m = json.load(open(os.path.join(d, "meta.json")))
    except Exception as ex:
        print(os.path.basename(d), "no meta.json", ex); bad += 1; continue
    n += 1
    t = (m.get("demo_rc_unchanged"), m.get("demo_rc_changed"), m.get("check_quick_rc"), str(m.get("check_thorough_rc")))
    if t[2] != 1 or t[0] != 0 or t[1] != 1:
        print(os.path.basename(d), *t)
        bad += 1
print(f"{n} seeded changes, {bad} needing attention")
