"""C27 — Namer: name/address registry stays a one-to-one bijection."""
from harness.core import coq_N, coq_list, coq_bool, coq_res, exn_kind

PROP = "C27"
COQ_REQUIRES = ["Hio.Base.AMap", "Hio.Model.Namer"]
COQ_CHECK = "Namer.check_ccase"
COQ_CASE_TYPE = "Namer.ccase"
COQ_BRANCHES = ("Namer.ccase_branches", "Namer.n_branches")
RULE = ("a constructor call Namer(entries=[...]) (empty, consistent, with repeated pairs, with conflicting names or addresses, "
        "with falsy members; as list, tuple, generator or dict items) followed by "
        "op sequences (add/rem/changeAddrAtName/changeNameAtAddr/clear) over 4 names x 4 addresses plus falsy "
        "(None and '') arguments; directed stream hits every model branch; a case is non-trivial when at least one "
        "op was rejected (NamerError) or reported no change and at least one succeeded")
MODELLED = ["Python dict (as association list with unique keys)", "str equality of names/addresses (as N equality)"]

# the two value domains overlap on purpose ("alpha", "beta", "x" are both a name and an address): names and
# addresses live in separate maps, an entry of one never touches an equal key of the other
import pathlib
NAMES = [None, "alpha", "beta", "gamma", "x", ["n", 1], ("n", 7)]
ADDRS = [None, "/tmp/a", "alpha", "beta", "x", ["127.0.0.1", 5000], pathlib.PurePosixPath("/run/p")]
OBJECT = 6          # index 6 is a hashable key that is not a str: a tuple name, an os.PathLike address -- kept as given
UNHASHABLE = 5      # index 5 is an unhashable value (a list, e.g. a (host, port) pair that came back from JSON):
                    # every operation must refuse it (TypeError) without changing anything; such cases are outside
                    # the Coq model (names/addresses are N there) and are decided by the oracle alone
# index 0 is falsy; the harness alternates None and "" for it


def directed():
    return [
        {"ops": [["add", 1, 1], ["add", 1, 1], ["add", 1, 2], ["add", 2, 1], ["add", 0, 1], ["add", 1, 0]]},
        {"ops": [["add", 1, 1], ["add", 2, 2], ["rem", 1, 0], ["rem", 0, 2], ["rem", 0, 0], ["rem", 3, 0], ["rem", 0, 3]]},
        {"ops": [["add", 1, 1], ["add", 2, 2], ["rem", 1, 2], ["rem", 1, 1], ["rem", 2, 2]]},
        {"ops": [["add", 1, 1], ["add", 2, 2], ["chga", 1, 3], ["chga", 1, 3], ["chga", 1, 2], ["chga", 3, 4], ["chga", 0, 1], ["chga", 1, 0]]},
        {"ops": [["add", 1, 1], ["add", 2, 2], ["chgn", 1, 3], ["chgn", 1, 3], ["chgn", 1, 2], ["chgn", 4, 4], ["chgn", 0, 1], ["chgn", 1, 0]]},
        {"ops": [["add", 1, 1], ["clear", 0, 0], ["add", 2, 1], ["chga", 2, 2], ["chgn", 2, 1], ["rem", 1, 2]]},
        # constructor: consistent, repeated pair, two names for one address, two addresses for one name, falsy member
        {"entries": [[1, 1], [2, 2]], "ops": [["rem", 1, 0], ["add", 3, 1], ["chga", 2, 1]]},
        {"entries": [[1, 1], [1, 1], [2, 2]], "ops": [["rem", 0, 1], ["rem", 2, 0]]},
        {"entries": [[1, 1], [2, 1]], "ops": [["rem", 1, 0], ["rem", 2, 0]]},
        {"entries": [[1, 1], [1, 2]], "ops": [["rem", 1, 0]]},
        {"entries": [[1, 1], [0, 2]], "ops": []},
        {"entries": [[1, 1], [2, 0]], "ops": [], "form": "tuple"},
        {"entries": [[3, 4], [4, 3]], "ops": [["chgn", 4, 4], ["chga", 4, 4]], "form": "items"},
        # unhashable arguments: refused without any change (oracle only)
        {"entries": [[1, 1], [2, 2]], "ops": [["chga", 1, 5], ["chgn", 1, 5], ["add", 3, 5], ["add", 5, 3], ["rem", 5, 0], ["rem", 0, 5], ["rem", 1, 5], ["chga", 1, 3]]},
    ]


def _entries(rng):
    r = rng.random()
    if r < 0.45:
        return []
    k = rng.choice([1, 2, 2, 3, 4, 5])
    hi = rng.choice([2, 3, 4])
    out = []
    for _ in range(k):
        a = rng.randint(0, hi) if rng.random() < 0.06 else rng.randint(1, hi)
        b = rng.randint(0, hi) if rng.random() < 0.06 else rng.randint(1, hi)
        out.append([a, b])
    return out


def generate(rng, tier):
    n = 600 if tier == "quick" else 12000
    out = []
    for _ in range(n):
        k = rng.choice([2, 4, 8, 12, 20])
        ops = []
        for _ in range(k):
            kind = rng.choices(["add", "rem", "chga", "chgn", "clear"], [5, 3, 3, 3, 0.3])[0]
            hi = rng.choice([2, 3, 4])
            a = rng.randint(0, hi) if rng.random() < 0.15 else rng.randint(1, hi)
            b = rng.randint(0, hi) if rng.random() < 0.15 else rng.randint(1, hi)
            if rng.random() < 0.05:
                a = OBJECT
            if rng.random() < 0.05:
                b = OBJECT
            if rng.random() < 0.004:
                a = UNHASHABLE
            if rng.random() < 0.004:
                b = UNHASHABLE
            ops.append([kind, a, b])
        out.append({"ops": ops, "entries": _entries(rng), "form": rng.choice(["list", "tuple", "gen", "items"])})
    return out


def _falsy(i):
    return None if i % 2 == 0 else ""


def _fresh(v):
    """An object equal to v but not the same object: names and addresses reach a registry from decoded messages
    and parsed configuration, so a key given to an operation is never the very object stored earlier."""
    if isinstance(v, str):
        w = v.encode("utf-8").decode("utf-8")
        return w
    if isinstance(v, pathlib.PurePath):
        return pathlib.PurePosixPath(str(v))
    if isinstance(v, tuple):
        return tuple(list(v))
    return list(v) if isinstance(v, list) else v


def _construct(case):
    """Namer(entries=...) in the form the case asks for; the k-th falsy member alternates None and ''."""
    from hio.help.naming import Namer
    ents = [(_fresh(NAMES[a]) if a else _falsy(k), _fresh(ADDRS[b]) if b else _falsy(k + 1)) for k, (a, b) in enumerate(case.get("entries", []))]
    form = case.get("form", "list")
    if not ents and form != "items":
        return Namer() if form == "list" else Namer(entries=tuple(ents) if form == "tuple" else iter(ents))
    if form == "tuple":
        return Namer(entries=tuple(ents))
    if form == "gen":
        return Namer(entries=(e for e in ents))
    if form == "items":
        return Namer(entries=dict_items_like(ents))
    return Namer(entries=list(ents))


class dict_items_like:
    """an iterable of (name, addr) duples that is not a list/tuple (documented: 'iterable of duples')"""
    def __init__(self, ents):
        self.ents = ents
    def __iter__(self):
        return iter(self.ents)


def run_impl(case):
    from hio.help.naming import Namer
    from hio import hioing
    try:
        # other registries live in the same process, before and after this one: they share nothing with it
        decoy = Namer(entries=[("zz-decoy", "/zz/decoy"), (_fresh(NAMES[1]), "/zz/other")])
        nm = _construct(case)
        decoy2 = Namer(entries=[(_fresh(NAMES[2]), _fresh(ADDRS[1]))])
    except Exception as ex:
        return {"raised": exn_kind(ex), "results": [], "abn": [], "nba": []}
    results = []
    lookup = [None]

    def probe(when):
        """the lookup entry points answer from the registry as it is now: getAddr/getName/countNameAddr agree with
        the two maps after every step (for present and for absent keys)"""
        if lookup[0]:
            return
        abn_, nba_ = nm.addrByName, nm.nameByAddr
        for k in range(1, 5):
            if nm.getAddr(_fresh(NAMES[k])) != abn_.get(NAMES[k]):
                lookup[0] = f"{when}: getAddr({NAMES[k]!r}) = {nm.getAddr(NAMES[k])!r} but addrByName has {abn_.get(NAMES[k])!r}"
            if nm.getName(_fresh(ADDRS[k])) != nba_.get(ADDRS[k]):
                lookup[0] = f"{when}: getName({ADDRS[k]!r}) = {nm.getName(ADDRS[k])!r} but nameByAddr has {nba_.get(ADDRS[k])!r}"
        if nm.countNameAddr != len(abn_) or len(abn_) != len(nba_):
            lookup[0] = f"{when}: countNameAddr = {nm.countNameAddr}, maps hold {len(abn_)} / {len(nba_)} entries"
    probe("after construction")
    for i, (kind, a, b) in enumerate(case["ops"]):
        # first operand is a name (add/rem/chga) or an address (chgn)
        if i:
            probe(f"after op {i - 1} {case['ops'][i - 1]}")
        try:
            if kind == "add":
                r = nm.addNameAddr(name=_fresh(NAMES[a]) if a else _falsy(i), addr=_fresh(ADDRS[b]) if b else _falsy(i + 1))
            elif kind == "rem":
                r = nm.remNameAddr(name=_fresh(NAMES[a]) if a else _falsy(i), addr=_fresh(ADDRS[b]) if b else _falsy(i + 1))
            elif kind == "chga":
                r = nm.changeAddrAtName(name=_fresh(NAMES[a]) if a else _falsy(i), addr=_fresh(ADDRS[b]) if b else _falsy(i + 1))
            elif kind == "chgn":
                r = nm.changeNameAtAddr(addr=_fresh(ADDRS[a]) if a else _falsy(i), name=_fresh(NAMES[b]) if b else _falsy(i + 1))
            else:
                nm.clearAllNameAddr(); r = False
            results.append(["ok", bool(r)])
        except Exception as ex:
            results.append(["exc", exn_kind(ex)])
    decoy.clearAllNameAddr(); decoy2.addNameAddr(name="yy-decoy", addr=_fresh(ADDRS[2])); Namer(); Namer(entries=[("q", "/q")])
    probe("after the last op")
    def idx(table, v):      # -1: the registry holds something that was never given to it in this form
        return next((n for n, w in enumerate(table) if type(w) is type(v) and w == v), -1)
    abn = sorted([idx(NAMES, k), idx(ADDRS, v)] for k, v in nm.addrByName.items())
    nba = sorted([idx(ADDRS, k), idx(NAMES, v)] for k, v in nm.nameByAddr.items())
    foreign = None
    if any(-1 in p for p in abn + nba):
        foreign = f"the registry holds a key or value in a form it was never given: {nm.addrByName} / {nm.nameByAddr}"
        abn = [[x if x >= 0 else 999 for x in p] for p in abn]
        nba = [[x if x >= 0 else 999 for x in p] for p in nba]
    # snapshots after every op for the oracle
    # the two properties hand out copies: a caller that edits what it was given does not reach the registry
    before = (dict(nm._addrByName), dict(nm._nameByAddr)) if hasattr(nm, "_addrByName") else None
    a, b = nm.addrByName, nm.nameByAddr
    a["__edited__"] = "/edited"; a.pop(next(iter(a)), None)
    b["/edited2"] = "__edited2__"; b.pop(next(iter(b)), None)
    leak = None
    if not foreign and (nm.addrByName, nm.nameByAddr) != (dict((NAMES[k], ADDRS[v]) for k, v in abn), dict((ADDRS[k], NAMES[v]) for k, v in nba)):
        leak = f"editing the dicts returned by .addrByName/.nameByAddr changed the registry: {nm.addrByName} / {nm.nameByAddr}"
    return {"raised": None, "results": results, "abn": abn, "nba": nba, "leak": leak or foreign, "lookup": lookup[0]}


def oracle(case, obs):
    if obs.get("raised"):
        # the constructor may reject only entry lists that really conflict or have a falsy member
        ents = case.get("entries", [])
        byn, bya, bad = {}, {}, False
        for a, b in ents:
            if not a or not b or byn.get(a, b) != b or bya.get(b, a) != a:
                bad = True
                break
            byn[a] = b; bya[b] = a
        if not bad:
            return f"Namer(entries=...) raised {obs['raised']} on consistent entries {ents}"
        return None
    if obs.get("leak"):
        return obs["leak"]
    if obs.get("lookup"):
        return obs["lookup"]
    abn = {k: v for k, v in obs["abn"]}
    nba = {k: v for k, v in obs["nba"]}
    if {v: k for k, v in abn.items()} != nba or len(set(abn.values())) != len(abn):
        return f"maps are not inverse bijections: {obs['abn']} vs {obs['nba']}"
    # unchanged-on-reject is checked by re-running prefixes
    from hio.help.naming import Namer
    return _oracle_unchanged(case)


def _oracle_unchanged(case):
    nm = _construct(case)
    if {v: k for k, v in nm.addrByName.items()} != nm.nameByAddr:
        return f"Namer(entries=...) returned mappings that are not inverses: {nm.addrByName} vs {nm.nameByAddr}"
    for i, (kind, a, b) in enumerate(case["ops"]):
        before = (nm.addrByName, nm.nameByAddr)
        try:
            if kind == "add":
                r = nm.addNameAddr(name=_fresh(NAMES[a]) if a else _falsy(i), addr=_fresh(ADDRS[b]) if b else _falsy(i + 1))
            elif kind == "rem":
                r = nm.remNameAddr(name=_fresh(NAMES[a]) if a else _falsy(i), addr=_fresh(ADDRS[b]) if b else _falsy(i + 1))
            elif kind == "chga":
                r = nm.changeAddrAtName(name=_fresh(NAMES[a]) if a else _falsy(i), addr=_fresh(ADDRS[b]) if b else _falsy(i + 1))
            elif kind == "chgn":
                r = nm.changeNameAtAddr(addr=_fresh(ADDRS[a]) if a else _falsy(i), name=_fresh(NAMES[b]) if b else _falsy(i + 1))
            else:
                nm.clearAllNameAddr(); continue
        except Exception:
            r = False
        after = (nm.addrByName, nm.nameByAddr)
        if not r and before != after:
            return f"op {i} {kind} was rejected/no-change but the mappings changed"
        if {v: k for k, v in after[0].items()} != after[1]:
            return f"after op {i} {kind} the mappings are not inverses"
    return None


def _op(o):
    kind, a, b = o
    c = {"add": "Namer.Add", "rem": "Namer.Rem", "chga": "Namer.ChgAddr", "chgn": "Namer.ChgName"}.get(kind)
    if c is None:
        return "Namer.Clear"
    return f"({c} {coq_N(a)} {coq_N(b)})"


def _outside_model(case):
    return any(UNHASHABLE in (a, b) for _, a, b in case["ops"]) or any(UNHASHABLE in e for e in case.get("entries", []))


def to_coq(case, obs):
    if _outside_model(case):
        return None
    pairs = lambda l: coq_list([f"({coq_N(k)}, {coq_N(v)})" for k, v in l], "N * N")
    inner = ("{| Namer.c_ops := %s; Namer.c_results := %s; Namer.c_abn := %s; Namer.c_nba := %s |}" % (
        coq_list([_op(o) for o in case["ops"]], "Namer.op"),
        coq_list([coq_res(r, coq_bool) for r in obs["results"]], "res bool"),
        pairs(obs["abn"]), pairs(obs["nba"])))
    raised = "None" if not obs.get("raised") else "(Some %s)" % obs["raised"]
    return "{| Namer.cc_entries := %s; Namer.cc_raised := %s; Namer.cc_case := %s |}" % (
        pairs(case.get("entries", [])), raised, inner)


def nontrivial(case, obs):
    rs = obs["results"]
    if obs.get("raised"):
        return len(case.get("entries", [])) >= 2
    return any(r == ["ok", True] for r in rs) and any(r != ["ok", True] for r in rs)


def classify(case, obs, why):
    return None


def shrink(case):
    ops = case["ops"]
    ents = case.get("entries", [])
    for i in range(len(ents)):
        yield dict(case, entries=ents[:i] + ents[i + 1:])
    for i in range(len(ops)):
        yield dict(case, ops=ops[:i] + ops[i + 1:])
