(* "First recur in the next cycle" (C06), continued: extend() of a protected
   scheduler whose pass is under way (or of a sheltered scheduler) shelters the
   new doers ([extend_shelters]); the pass of a protected scheduler itself gives a
   sheltered doer no Recur before a new Enter ([loop_shelter]); for the root and
   exact time with a positive tock the next Recur comes strictly later. *)
From Hio Require Import Base.Prelude Base.AMap Base.Time Model.Sched Proofs.SchedEqs Proofs.SchedFrame Proofs.SchedLife
  Proofs.SchedDeque Proofs.SchedDequeHold Proofs.SchedDequeAll Proofs.SchedDequeUniq Proofs.SchedDequeEffects
  Proofs.SchedDequeEpos Proofs.SchedDequeSortB Proofs.SchedDequePass Proofs.SchedDequeRoot0 Proofs.SchedDequeShelter.

Section Shelter2.
Context {T : Type} `{Time T}.
Implicit Types s a b : st T.
Variable tk : T.
Variable j : id.
Variable Pr : id -> Prop.
Variable d : amap (fdef T).
Hypothesis Dj : get d j <> None.
Hypothesis D0 : get d 0%N = None.

Notation Lf' := (Lf d).
Notation PJ' := (PJ j Pr Lf').
Notation HP' := (HP Pr d).

(* extend(): target protected with a marker, or sheltered itself *)
Lemma extend_shelters s1 t dl (acc : list (deed T)) C k :
  In k (dids acc) ->
  (Pr t /\ exists u r, dq s1 t = u ++ DMark :: r /\ mf u) \/ hang s1 Pr Lf' C t ->
  hang (set_sched s1 t {| doers := dl; deeds := dq s1 t ++ acc |}) Pr Lf' C k.
Proof.
  intros Hk [[Pt (u & r & Q & Mu)]|Ht]; unfold hang in *.
  - apply (hg_behind _ _ _ _ t); [exact Pt|]. exists u, (r ++ acc). rewrite dq_set_same. cbn [deeds].
    rewrite Q, <- app_assoc. cbn [app]. split; [reflexivity|]. split; [exact Mu|]. rewrite dids_app. apply in_or_app. now right.
  - apply (hg_sub _ _ _ _ t).
    + eapply (hang_grow (dq s1) _ Pr Lf' C t acc); [| |exact Ht].
      * intros z Hz. now apply dq_set_other.
      * now rewrite dq_set_same.
    + rewrite dq_set_same. cbn [deeds]. rewrite dids_app. apply in_or_app. now right.
Qed.

Lemma split_unique (u u0 r r0 : list (deed T)) :
  u ++ DMark :: r = u0 ++ DMark :: r0 -> mf u -> mf u0 -> u = u0 /\ r = r0.
Proof.
  revert u0. induction u as [|x u IH]; intros u0 E M M0.
  - destruct u0 as [|y u0]; [cbn in E; inversion E; now split|].
    cbn in E. inversion E; subst. exfalso. apply M0. now left.
  - destruct u0 as [|y u0].
    + cbn in E. inversion E; subst. exfalso. apply M. now left.
    + cbn in E. inversion E; subst. destruct (IH u0 H2) as [-> ->]; [intro Hx; apply M; now right|intro Hx; apply M0; now right|now split].
Qed.

(* the hang disjunct survives popping the front deed of a protected deque *)
Lemma hang_pop s x i re (u' rr : list (deed T)) C k :
  Pr x -> ~ hang s Pr Lf' C x -> ~ Lf' x ->
  dq s x = (DDeed i re :: u') ++ DMark :: rr -> mf (DDeed i re :: u') ->
  hang s Pr Lf' C k -> hang (set_deeds s x (u' ++ DMark :: rr)) Pr Lf' C k.
Proof.
  intros Px Nh Nl Q Mu. unfold hang in *.
  assert (Mu' : mf u') by (intro Hin; apply Mu; now right).
  apply hangq_xfer.
  - intros z Hz. now apply hg_hand.
  - intros y z Py (u0 & r0 & Q0 & M0 & Hz). apply (hg_behind _ _ _ _ y); [exact Py|].
    destruct (N.eq_dec y x) as [Heq|Hne].
    + subst y. rewrite Q in Q0. destruct (split_unique _ _ _ _ Q0 Mu M0) as [<- <-].
      exists u', rr. rewrite dq_deeds_same. now split.
    + exists u0, r0. rewrite dq_deeds_other by exact Hne. now split.
  - intros y z Ly Hz. apply (hg_leaf _ _ _ _ y); [exact Ly|]. rewrite dq_deeds_other; [exact Hz|]. intro Heq. subst y. contradiction.
  - intros y z Hy' Hy Hz. apply (hg_sub _ _ _ _ y); [exact Hy'|]. rewrite dq_deeds_other; [exact Hz|]. intro Heq. subst y. contradiction.
Qed.

Lemma prot_not_hang s X C x : HP' s -> Hold2 s X -> incl C X -> Pr x -> ~ hang s Pr Lf' C x.
Proof.
  intros (P & D & Z) Hh Hc Px Hg. destruct (P x Px) as [R|[Hz _]].
  - eapply hang_not_running; [exact Hh|eapply susp_of_incl; eassumption|exact R|exact Hg].
  - subst x. apply Z. destruct (hang_held _ _ _ _ _ Hg) as [Hi|[y Hi]]; apply (h2_susp _ _ _ Hh); [left; now apply Hc|right; now exists y].
Qed.

Lemma prot_not_leaf s x : HP' s -> Pr x -> isnest d x = true \/ x = 0%N -> ~ Lf' x.
Proof. intros _ _ [Hn|Hz] [Hl Hne]; congruence. Qed.

(* the pass of a protected scheduler x *)
Theorem loop_shelter : forall f a s X C x (u rr : list (deed T)) s' r,
  HP' s -> Hold2 s X -> incl C X -> Pr x -> (isnest d x = true \/ x = 0%N) ->
  dq s x = u ++ DMark :: rr -> mf u -> PJ' a s C ->
  recur_loop tk f s x = (s', r) -> oof s' = false -> NRj j a s'.
Proof.
  induction f as [|f IH]; intros a s X C x u rr s' r P Hh Hc Px Nx Q Mu J E O; [cbn in E; fin; cbn in O; discriminate|].
  rewrite recur_loop_S in E. change (deeds (get_sched s x)) with (dq s x) in E. rewrite Q in E.
  destruct (shelter_all tk j Pr d Dj D0 f) as (_ & _ & Isd & _).
  destruct (hp_all tk Pr d D0 f) as (_ & _ & Psd & _).
  destruct (hold2_all tk f) as (_ & _ & Hsd & _).
  destruct (ob_all tk f) as (_ & _ & _ & _ & _ & _ & _ & Brl).
  destruct u as [|[|i re] u']; cbn [app] in E.
  - fin. destruct J as [(seg & Tr & N) _]. exists seg. split; [exact Tr|exact N].
  - exfalso. apply Mu. now left.
  - cbv zeta in E.
    assert (Mu' : mf u') by (intro Hin; apply Mu; now right).
    set (s1 := set_deeds s x (u' ++ DMark :: rr)) in *.
    assert (P1 : HP' s1) by (apply (hp_same Pr d s); [reflexivity|reflexivity|exact P]).
    assert (H1 : Hold2 s1 (i :: X)) by (apply (hold2_pop s x (DDeed i re) (u' ++ DMark :: rr) X); [exact Q|exact Hh]).
    assert (J1 : PJ' a s1 C).
    { revert J. unfold s1, set_deeds. apply pj_sched. intro Hg.
      apply (hang_pop s x i re u' rr C j Px); [eapply prot_not_hang; eassumption|eapply prot_not_leaf; eassumption|exact Q|exact Mu|exact Hg]. }
    assert (Q1 : dq s1 x = u' ++ DMark :: rr) by apply dq_deeds_same.
    assert (Px1 : prot s1 x) by (apply (proj1 P1); exact Px).
    destruct (tleb re (tyme s1)).
    + destruct (gen_send tk f s1 i) as [s2 g] eqn:Eg.
      assert (O2 : oof s2 = false) by (destruct g; fin; try exact O; exact (Brl _ _ _ _ E O)).
      assert (J2 : PJ' a s2 C) by (eapply (Isd a s1 X C i); eassumption).
      assert (H2 : Hold2 s2 (eout g i X)) by (destruct (Hsd s1 X i s2 g (or_intror H1) Eg) as [Ob|Hx]; [congruence|exact Hx]).
      assert (P2 : HP' s2) by (eapply Psd; eassumption).
      destruct (grw_all tk x f) as (_ & _ & Gsd & _).
      destruct (Gsd s1 s1 i s2 g Px1 (grow_refl _) Eg) as (q & add & Eq & Ma).
      rewrite Q1, filter_app in Eq. cbn [filter keepf] in Eq. rewrite <- app_assoc in Eq. cbn [app] in Eq.
      destruct g; fin.
      * cbn [eout] in H2.
        match type of E with recur_loop tk f (set_deeds s2 x (_ ++ [?dd])) x = _ =>
          eapply (IH a (set_deeds s2 x (dq s2 x ++ [dd])) X C x (filter (keepf q) u') ((filter (keepf q) rr ++ add) ++ [dd]));
            [apply (hp_same Pr d s2); [reflexivity|reflexivity|exact P2]
            |apply (hold2_append s2 x [dd] X); exact H2
            |exact Hc|exact Px|exact Nx
            |rewrite dq_deeds_same, Eq, <- app_assoc; cbn [app]; reflexivity
            |now apply mf_filter
            |revert J2; unfold set_deeds; apply pj_sched; unfold hang;
             apply (hang_grow (dq s2) _ Pr Lf' C x [dd]); [intros z Hz; now apply dq_set_other|now rewrite dq_set_same]
            |exact E|exact O]
        end.
      * eapply (IH a s2 X C x (filter (keepf q) u') (filter (keepf q) rr ++ add)); try eassumption. now apply mf_filter.
      * destruct J2 as [N _]. exact N.
      * destruct J2 as [N _]. exact N.
    + eapply (IH a _ X C x u' (rr ++ [DDeed i re])); [| |exact Hc|exact Px|exact Nx| |exact Mu'| |exact E|exact O].
      * apply (hp_same Pr d s1); [reflexivity|reflexivity|exact P1].
      * unfold set_deeds at 1. revert H1. apply hold2_sched. intro z. cbn [deeds].
        unfold qids. rewrite Q1. rewrite dids_app, cnt_app, cnt_cons. cbn. destruct (N.eq_dec i z); lia.
      * rewrite dq_deeds_same, <- app_assoc. reflexivity.
      * revert J1. unfold set_deeds. apply pj_sched. unfold hang.
        apply (hang_grow (dq s1) _ Pr Lf' C x [DDeed i re]); [intros z Hz; now apply dq_set_other|now rewrite dq_set_same, Q1].
Qed.

End Shelter2.

(* ---------- exact time: what comes after a root pass comes strictly later ---------- *)
Section Later.
Local Open Scope Z_scope.
Variable tk : Z.
Hypothesis Tk : 0 <= tk.
Implicit Types s : st Z.

Lemma steps_later (s s' : st Z) : steps s s' ->
  exists l, trace s' = l ++ trace s /\ Forall (fun e => e_tyme e = tyme s) l /\ tyme s' = tyme s.
Proof.
  intro St. destruct (steps_trace_tyme _ _ St) as (l & Tr & F). exists l. split; [exact Tr|]. split; [exact F|now apply steps_tyme].
Qed.

Lemma cycle_later cycles : forall fuel s limit stop,
  exists later, trace (cycle_loop tk cycles fuel s limit stop) = later ++ trace s /\
                Forall (fun e => tyme s <= e_tyme e) later.
Proof.
  induction cycles as [|c IH]; intros fuel s limit stop; cbn [cycle_loop].
  - exists []. split; [reflexivity|constructor].
  - destruct (recur_pass tk fuel s 0%N) as [s1 r] eqn:E.
    destruct (frame_all tk fuel) as (_ & _ & _ & _ & Fco & _ & _ & _ & _ & Frp & _).
    destruct (steps_later s s1 (Frp s s 0%N s1 r (st_refl s) E)) as (l1 & Tr1 & F1 & Ty1).
    assert (Close : forall s3 k, tyme s <= tyme s3 -> (exists l3, trace s3 = l3 ++ trace s /\ Forall (fun e => tyme s <= e_tyme e) l3) ->
              exists later, trace (emit (close_own tk fuel s3 0%N) k 0%N) = later ++ trace s /\
                            Forall (fun e => tyme s <= e_tyme e) later).
    { intros s3 k Le (l3 & Tr3 & F3). destruct (steps_later s3 _ (Fco s3 s3 0%N (st_refl s3))) as (l4 & Tr4 & F4 & Ty4).
      eexists (_ :: l4 ++ l3). split; [cbn [trace emit app]; rewrite Tr4, Tr3, app_assoc; reflexivity|].
      constructor; [cbn [e_tyme]; lia|]. apply Forall_app. split; [|exact F3].
      eapply Forall_impl; [|exact F4]. intros e He. cbn beta in He. lia. }
    assert (L1 : exists l3, trace s1 = l3 ++ trace s /\ Forall (fun e => tyme s <= e_tyme e) l3).
    { exists l1. split; [exact Tr1|]. eapply Forall_impl; [|exact F1]. intros e He. cbn beta in He. lia. }
    assert (Tick : exists later,
      trace (match deeds (get_sched (set_tyme s1 (tadd (tyme s1) tk)) 0%N) with
             | [] => emit (close_own tk fuel (set_done (set_tyme s1 (tadd (tyme s1) tk)) 0%N (Some true)) 0%N) DoReturn 0%N
             | _ :: _ =>
               if match limit with Some l => negb (tfalsy l) | None => false end && tleb stop (tyme (set_tyme s1 (tadd (tyme s1) tk)))
               then emit (close_own tk fuel (set_tyme s1 (tadd (tyme s1) tk)) 0%N) DoReturn 0%N
               else cycle_loop tk c fuel (set_tyme s1 (tadd (tyme s1) tk)) limit stop
             end) = later ++ trace s /\ Forall (fun e => tyme s <= e_tyme e) later).
    { destruct (deeds (get_sched (set_tyme s1 (tadd (tyme s1) tk)) 0%N)).
      - apply Close; [cbn [tyme set_done set_tyme tadd ZTime]; lia|exact L1].
      - destruct (_ && _).
        + apply Close; [cbn [tyme set_tyme tadd ZTime]; lia|exact L1].
        + destruct (IH fuel (set_tyme s1 (tadd (tyme s1) tk)) limit stop) as (l2 & Tr2 & F2).
          destruct L1 as (l3 & Tr3 & F3). exists (l2 ++ l3). split.
          * rewrite Tr2. cbn [trace set_tyme]. rewrite Tr3, app_assoc. reflexivity.
          * apply Forall_app. split; [|exact F3]. eapply Forall_impl; [|exact F2]. intros e He.
            cbn [tyme set_tyme tadd ZTime] in He. lia. }
    destruct r as [t| |[|]|]; try exact Tick.
    + apply Close; [lia|exact L1].
    + apply Close; [lia|exact L1].
    + exact L1.
Qed.

(* after the root pass that started at tyme s: every later Recur event of the run
   carries a tyme >= tyme s + tock *)
Theorem after_pass_later c fuel s limit stop s1 r :
  recur_pass tk fuel s 0%N = (s1, r) ->
  exists later, trace (cycle_loop tk (S c) fuel s limit stop) = later ++ trace s1 /\
                Forall (fun e => e_kind e = Recur -> tyme s + tk <= e_tyme e) later.
Proof.
  intro E. cbn [cycle_loop]. rewrite E.
  destruct (frame_all tk fuel) as (_ & _ & _ & _ & Fco & _ & _ & _ & _ & Frp & _).
  assert (Ty1 : tyme s1 = tyme s) by (apply steps_tyme; eapply Frp; [apply st_refl|exact E]).
  (* closing emits no Recur *)
  assert (CloseNR : forall s3 k, k <> Recur -> (exists l3, trace s3 = l3 ++ trace s1 /\ Forall (fun e => e_kind e = Recur -> tyme s + tk <= e_tyme e) l3) ->
            exists later, trace (emit (close_own tk fuel s3 0%N) k 0%N) = later ++ trace s1 /\
                          Forall (fun e => e_kind e = Recur -> tyme s + tk <= e_tyme e) later).
  { intros s3 k Hk (l3 & Tr3 & F3).
    destruct (norecur_all tk fuel) as (_ & _ & _ & Nco & _).
    destruct (Nco s3 s3 0%N (nrc_refl s3)) as (l4 & Tr4 & F4).
    eexists (_ :: l4 ++ l3). split; [cbn [trace emit app]; rewrite Tr4, Tr3, app_assoc; reflexivity|].
    constructor; [cbn [e_kind]; intro; congruence|]. apply Forall_app. split; [|exact F3].
    eapply Forall_impl; [|exact F4]. intros e He Hr. congruence. }
  assert (L0 : exists l3, trace s1 = l3 ++ trace s1 /\ Forall (fun e => e_kind e = Recur -> tyme s + tk <= e_tyme e) l3).
  { exists []. split; [reflexivity|constructor]. }
  assert (Tick : exists later,
      trace (match deeds (get_sched (set_tyme s1 (tadd (tyme s1) tk)) 0%N) with
             | [] => emit (close_own tk fuel (set_done (set_tyme s1 (tadd (tyme s1) tk)) 0%N (Some true)) 0%N) DoReturn 0%N
             | _ :: _ =>
               if match limit with Some l => negb (tfalsy l) | None => false end && tleb stop (tyme (set_tyme s1 (tadd (tyme s1) tk)))
               then emit (close_own tk fuel (set_tyme s1 (tadd (tyme s1) tk)) 0%N) DoReturn 0%N
               else cycle_loop tk c fuel (set_tyme s1 (tadd (tyme s1) tk)) limit stop
             end) = later ++ trace s1 /\ Forall (fun e => e_kind e = Recur -> tyme s + tk <= e_tyme e) later).
  { destruct (deeds (get_sched (set_tyme s1 (tadd (tyme s1) tk)) 0%N)).
    - apply CloseNR; [discriminate|exact L0].
    - destruct (_ && _).
      + apply CloseNR; [discriminate|exact L0].
      + destruct (cycle_later c fuel (set_tyme s1 (tadd (tyme s1) tk)) limit stop) as (l2 & Tr2 & F2).
        exists l2. split; [exact Tr2|]. eapply Forall_impl; [|exact F2]. intros e He _.
        cbn [tyme set_tyme tadd ZTime] in He. lia. }
  destruct r as [t| |[|]|]; try exact Tick.
  - apply CloseNR; [discriminate|exact L0].
  - apply CloseNR; [discriminate|exact L0].
  - exact L0.
Qed.

End Later.
