(* Facts about the LMDB sub-db model: the byte order and sorted-list operations. *)
From Hio Require Import Base.Prelude Base.ListFacts Model.Lmdb.

Lemma bcmp_refl a : bcmp a a = Eq.
Proof. induction a as [|x a IH]; simpl; [reflexivity|]. now rewrite N.compare_refl. Qed.

Lemma db_get_put_same {V} ow (d : db V) k v :
  ow = true -> db_get (fst (db_put ow d k v)) k = Some v.
Proof.
  intros ->. induction d as [|[k' v'] d IH]; simpl.
  - now rewrite bcmp_refl.
  - destruct (bcmp k k') eqn:E; simpl.
    + now rewrite bcmp_refl.
    + now rewrite bcmp_refl.
    + destruct (db_put true d k v) as [r b] eqn:P. simpl in *. now rewrite E.
Qed.
