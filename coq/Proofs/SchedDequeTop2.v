(* Whole-run form of the forced-exit order: when do_run ends (budget not
   exhausted) its last act is the root's exit(); the root's alive doers are
   ceased in the reverse of the un-rotated root deque, each DoDoer closing its
   own deque the same way between its Cease and its Exit.  Also: the two
   invariants hold between the enter phase / the passes of the root. *)
From Hio Require Import Base.Prelude Base.AMap Base.Time Model.Sched Proofs.SchedEqs Proofs.SchedFrame Proofs.SchedLife
  Proofs.SchedTop Proofs.SchedDeque Proofs.SchedDequeHold Proofs.SchedDequeAll Proofs.SchedDequeUniq
  Proofs.SchedDequeOrder Proofs.SchedDequeTop.

Section Top2.
Context {T : Type} `{Time T}.
Implicit Types s : st T.

Lemma allq_init (p : prog T) L x : cnt x (allq (dq (init_st p)) L) = 0%nat.
Proof.
  induction L as [|y L IH]; [reflexivity|]. unfold allq in *. cbn [flat_map]. rewrite cnt_app, IH.
  unfold dq. rewrite init_deeds. reflexivity.
Qed.

Lemma hold2_init (p : prog T) : Hold2 (init_st p) [].
Proof.
  split.
  - intros i [[]|[sid Hin]]. unfold dq in Hin. rewrite init_deeds in Hin. contradiction.
  - intros L _ x. rewrite allq_init. cbn. lia.
Qed.

(* the state handed to the final exit(), and what the exit() emitted *)
Definition final_close s : Prop :=
  exists s0 k seg,
    trace s = {| e_kind := k; e_id := 0%N; e_tyme := tyme s0 |} :: seg ++ trace s0 /\
    (k = DoReturn \/ k = DoRaise) /\ Hold s0 [] /\ Hold2 s0 [] /\
    tops (dids (rev (unrotate (dq s0 0%N)))) seg = dids (rev (unrotate (dq s0 0%N))).

Lemma oof_back_own tk f s sid : oof (close_own tk f s sid) = false -> oof s = false.
Proof.
  intro O. destruct (oof s) eqn:Os; [|reflexivity]. rewrite <- O. symmetry.
  destruct (frame_all tk f) as (_ & _ & _ & _ & Fco & _).
  eapply steps_oof; [apply Fco, st_refl|exact Os].
Qed.

Lemma close_end2 tk fuel s k :
  (k = DoReturn \/ k = DoRaise) -> I s [] -> I2 s [] ->
  oof (emit (close_own tk fuel s 0%N) k 0%N) = false -> final_close (emit (close_own tk fuel s 0%N) k 0%N).
Proof.
  intros Hk HI HI2 O. change (oof (close_own tk fuel s 0%N) = false) in O.
  pose proof (oof_back_own _ _ _ _ O) as Os.
  destruct HI as [Ob|Hh]; [congruence|]. destruct HI2 as [Ob|Hh2]; [congruence|].
  destruct (close_own_order tk fuel s 0%N [] Hh Hh2 O) as (seg & Tr & Top).
  exists s, k, seg. split; [|split; [exact Hk|split; [exact Hh|split; [exact Hh2|exact Top]]]].
  cbn [trace emit]. rewrite Tr. f_equal. f_equal.
  destruct (frame_all tk fuel) as (_ & _ & _ & _ & Fco & _). apply (steps_tyme s). apply Fco, st_refl.
Qed.

Lemma cycle_final tk cycles : forall fuel s limit stop,
  I s [] -> I2 s [] ->
  oof (cycle_loop tk cycles fuel s limit stop) = false -> final_close (cycle_loop tk cycles fuel s limit stop).
Proof.
  induction cycles as [|c IH]; intros fuel s limit stop HI HI2; cbn [cycle_loop].
  - cbn. discriminate.
  - destruct (recur_pass tk fuel s 0%N) as [s1 r] eqn:E.
    destruct (hold_all tk fuel) as (_ & _ & _ & _ & _ & _ & _ & _ & _ & Irp & _).
    destruct (hold2_all tk fuel) as (_ & _ & _ & _ & _ & _ & _ & _ & _ & Jrp & _).
    assert (I1 : I s1 []) by (eapply Irp; [exact HI|now left|exact E]).
    assert (J1 : I2 s1 []) by (eapply Jrp; [exact HI2|exact E]).
    destruct r as [t| |[|]|].
    + destruct (deeds (get_sched (set_tyme s1 (tadd (tyme s1) tk)) 0%N)).
      * apply close_end2; [now left|exact I1|exact J1].
      * destruct (_ && _); [apply close_end2; [now left|exact I1|exact J1]|apply IH; [exact I1|exact J1]].
    + destruct (deeds (get_sched (set_tyme s1 (tadd (tyme s1) tk)) 0%N)).
      * apply close_end2; [now left|exact I1|exact J1].
      * destruct (_ && _); [apply close_end2; [now left|exact I1|exact J1]|apply IH; [exact I1|exact J1]].
    + apply close_end2; [now left|exact I1|exact J1].
    + apply close_end2; [now right|exact I1|exact J1].
    + intro O. destruct (fuel_all tk fuel) as (_ & _ & _ & _ & _ & _ & K & _). rewrite (K _ _ _ E) in O. discriminate.
Qed.

Theorem do_run_final_close cycles fuel (p : prog T) :
  W (p_defs p) -> oof (do_run cycles fuel p) = false -> final_close (do_run cycles fuel p).
Proof.
  intros Hw. unfold do_run.
  destruct (enter_own (p_tock p) fuel (init_st p) 0%N (p_doers p)) as [s1 r] eqn:E.
  destruct (hold_all (p_tock p) fuel) as (_ & _ & _ & _ & _ & _ & Ieo & _).
  destruct (hold2_all (p_tock p) fuel) as (_ & _ & _ & _ & _ & _ & Jeo & _).
  assert (I1 : I s1 []) by (eapply Ieo; [right; apply hold_init; exact Hw|now left|exact E]).
  assert (J1 : I2 s1 []) by (eapply Jeo; [right; apply hold2_init|exact E]).
  destruct r as [t| |kbd|].
  - apply cycle_final; [exact I1|exact J1].
  - apply cycle_final; [exact I1|exact J1].
  - apply close_end2; [now right|exact I1|exact J1].
  - intro O. destruct (fuel_all (p_tock p) fuel) as (_ & _ & _ & K & _). rewrite (K _ _ _ _ E) in O. discriminate.
Qed.

(* the invariants hold after the enter phase and after every pass of the root:
   there a doer is suspended iff exactly one deed of exactly one deque holds it *)
Theorem after_enter fuel (p : prog T) s1 r :
  W (p_defs p) -> enter_own (p_tock p) fuel (init_st p) 0%N (p_doers p) = (s1, r) -> oof s1 = false ->
  Hold s1 [] /\ Hold2 s1 [].
Proof.
  intros Hw E O.
  destruct (hold_all (p_tock p) fuel) as (_ & _ & _ & _ & _ & _ & Ieo & _).
  destruct (hold2_all (p_tock p) fuel) as (_ & _ & _ & _ & _ & _ & Jeo & _).
  split.
  - destruct (Ieo _ _ _ _ _ _ (or_intror (hold_init p Hw)) (or_introl eq_refl) E) as [Ob|Hx]; [congruence|exact Hx].
  - destruct (Jeo _ _ _ _ _ _ (or_intror (hold2_init p)) E) as [Ob|Hx]; [congruence|exact Hx].
Qed.

Theorem after_pass tk fuel s s1 r :
  Hold s [] -> Hold2 s [] -> recur_pass tk fuel s 0%N = (s1, r) -> oof s1 = false -> Hold s1 [] /\ Hold2 s1 [].
Proof.
  intros Hh Hh2 E O.
  destruct (hold_all tk fuel) as (_ & _ & _ & _ & _ & _ & _ & _ & _ & Irp & _).
  destruct (hold2_all tk fuel) as (_ & _ & _ & _ & _ & _ & _ & _ & _ & Jrp & _).
  split.
  - destruct (Irp _ _ _ _ _ (or_intror Hh) (or_introl eq_refl) E) as [Ob|Hx]; [congruence|exact Hx].
  - destruct (Jrp _ _ _ _ _ (or_intror Hh2) E) as [Ob|Hx]; [congruence|exact Hx].
Qed.

End Top2.
