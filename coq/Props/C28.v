(* C28 — placeholder while the proofs are being written *)
From Hio Require Import Base.Prelude Model.Dom.
Theorem C28_tmp : forall c, checked c DNull = Exc ValueErr.
Proof. reflexivity. Qed.
Print Assumptions C28_tmp.
