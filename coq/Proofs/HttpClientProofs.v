(* Lemmas about Model/HttpClient.v *)
From Hio Require Import Base.Prelude Base.ListFacts Model.HttpClient.
From Coq Require Import ZifyBool.
Local Open Scope N_scope.

Section WithMethods.
Variable mof : N -> N.
Variable qof : N -> option qargs.
Variable pq : N -> qargs.
Variable pay : N -> payload.

Lemma run_app s evs evs' : run mof qof pq pay s (evs ++ evs') = run mof qof pq pay (run mof qof pq pay s evs) evs'.
Proof. unfold run. apply fold_left_app. Qed.

Lemma wire_reqs_app w w' : wire_reqs (w ++ w') = wire_reqs w ++ wire_reqs w'.
Proof.
  induction w as [|x w IH]; [reflexivity|]. cbn [List.app wire_reqs].
  destruct (w_item x); cbn [List.app]; now rewrite IH.
Qed.

Lemma enqs_app evs evs' : enqs (evs ++ evs') = enqs evs ++ enqs evs'.
Proof.
  induction evs as [|e evs IH]; [reflexivity|]. cbn [List.app enqs].
  destruct e; cbn [List.app]; now rewrite IH.
Qed.

(* ------------------------------------------------------------------ *)
(* The bookkeeping invariant.  [all] = tags queued so far, in order.    *)
Lemma event_eq_take (e : event) : e = Take \/ e <> Take.
Proof. destruct e; [right; discriminate | right; discriminate | right; discriminate | now left]. Qed.

Ltac split4 := split; [|split; [|split]].

(* one Pass = the reconnect (when its timer fired on a cut off reconnectable connector), then the rest *)
Lemma step_pass_split s rc o :
  step mof qof pq pay s (Pass rc o)
  = step mof qof pq pay (if rc && cut s && reconn s then reconnect s else s) (Pass false o).
Proof. reflexivity. Qed.

(* the tag of an original request waiting in .txbs of a cut off connection *)
Definition pend_tags (s : cstate) : list (option N) :=
  match pending s with Some (WReq t, _, _) => [Some t] | _ => [] end.

Definition Inv (all : list N) (s : cstate) : Prop :=
  map Some all = map origin (responses s) ++ inflight s ++ map Some (queue s)
  /\ (waited s = false -> redirects s = [])
  /\ (map Some (wire_reqs (wire s)) ++ pend_tags s = map origin (responses s) ++ inflight s
      /\ (pending s <> None -> sent s = false /\ waited s = true))
  /\ (sent s = true -> waited s = true).

Lemma inv_init rcn sec rd m : Inv [] (init_m rcn sec rd m).
Proof.
  unfold Inv, init_m, inflight, pend_tags. cbn.
  split; [reflexivity|]. split; [reflexivity|]. split; [|discriminate].
  split; [reflexivity | congruence].
Qed.

Lemma inv_enq all s t : Inv all s -> Inv (all ++ [t]) (enq qof s t).
Proof.
  intros (H1 & H2 & H3 & H4). unfold Inv, enq, inflight, pend_tags in *.
  cbn [queue waited latest responses redirects sent wire pending].
  split4; auto.
  rewrite !map_app, H1. cbn [map]. now rewrite <- !app_assoc.
Qed.

Lemma no_pending_idle all s : Inv all s -> waited s = false -> pending s = None.
Proof.
  intros (_ & _ & (_ & P) & _) Hw. destruct (pending s) eqn:E; [|reflexivity].
  destruct P as [_ X]; [congruence | congruence].
Qed.

Lemma no_pending_sent all s : Inv all s -> sent s = true -> pending s = None.
Proof.
  intros (_ & _ & (_ & P) & _) Hs. destruct (pending s) eqn:E; [|reflexivity].
  destruct P as [X _]; [congruence | congruence].
Qed.

Lemma inv_pump all s : Inv all s -> Inv all (pump mof qof pq pay s).
Proof.
  intros HI. unfold pump.
  destruct (waited s) eqn:Hw; [exact HI|].
  destruct (queue s) as [|t q] eqn:Hq; [exact HI|].
  pose proof (no_pending_idle all s HI Hw) as Hp.
  destruct HI as (H1 & H2 & (H3 & P) & H4).
  assert (Hr := H2 Hw).
  unfold inflight, pend_tags in *. rewrite Hw, Hp in *. cbn [List.app] in *. rewrite !app_nil_r in H3.
  unfold Inv, inflight, pend_tags. cbn [queue waited latest responses redirects sent wire pending]. rewrite Hr.
  split4.
  - rewrite H1, Hq. reflexivity.
  - discriminate.
  - destruct (cut s) eqn:Hc; cbv beta iota.
    + split; [now rewrite H3 | intros _; split; reflexivity].
    + split; [|congruence]. rewrite wire_reqs_app, map_app, H3. cbn [wire_reqs on_wire w_item map].
      now rewrite !app_nil_r.
  - reflexivity.
Qed.

Lemma inv_deliver all s st err c :
  Inv all s -> waited s = true -> sent s = true -> Inv all (deliver s st err c).
Proof.
  intros HI Hw Hs. pose proof (no_pending_sent all s HI Hs) as Hp.
  destruct HI as (H1 & H2 & (H3 & P) & H4).
  unfold inflight, pend_tags in *. rewrite Hw, Hp in *. rewrite !app_nil_r in H3.
  unfold Inv, deliver, inflight, pend_tags. cbn [queue waited latest responses redirects sent wire pending]. rewrite Hp.
  assert (E : origin {| e_status := st; e_tag := latest s; e_errored := err; e_history := redirects s;
                        e_target := rq_target s; e_targets := rtargets s; e_pay := rq_pay s |}
              = match redirects s with h :: _ => snd h | [] => latest s end).
  { unfold origin. cbn [e_history e_tag]. reflexivity. }
  split4.
  - rewrite H1, map_app. cbn [map]. rewrite E. now rewrite <- !app_assoc.
  - reflexivity.
  - split; [|congruence]. rewrite H3, map_app. cbn [map]. rewrite E. now rewrite !app_nil_r.
  - discriminate.
Qed.

Lemma head_snoc (l : list hop) (x : hop) (d : option N) :
  match l ++ [x] with h :: _ => snd h | [] => d end
  = match l with h :: _ => snd h | [] => snd x end.
Proof. destruct l; reflexivity. Qed.

Lemma inv_complete all s r :
  Inv all s -> waited s = true -> sent s = true -> Inv all (complete s r).
Proof.
  intros HI Hw Hs. unfold complete.
  destruct (redirectable s && is_redirect (rp_status r)); [|now apply inv_deliver].
  destruct (rp_loc r) as [l|]; [|now apply inv_deliver].
  pose proof (no_pending_sent all s HI Hs) as Hp.
  pose proof HI as (H1 & H2 & (H3 & P) & H4).
  unfold inflight, pend_tags in *. rewrite Hw, Hp in *. rewrite !app_nil_r in H3.
  match goal with |- context [if ?c then _ else _] => destruct c end.
  - unfold Inv, inflight, pend_tags. cbn [queue waited latest responses redirects sent wire pending].
    rewrite head_snoc. cbn [snd]. split4.
    + assumption.
    + discriminate.
    + destruct (cut s); cbv beta iota; cbn [negb].
      * split; [now rewrite app_nil_r | intros _; split; reflexivity].
      * split; [|congruence]. rewrite wire_reqs_app. cbn [wire_reqs on_wire w_item]. now rewrite !app_nil_r.
    + reflexivity.
  - match goal with |- context [if ?c then _ else _] => destruct c end.
    { now apply inv_deliver. }
    unfold Inv, inflight, pend_tags. cbn [queue waited latest responses redirects sent wire pending].
    rewrite head_snoc. cbn [snd]. split4.
    + assumption.
    + discriminate.
    + split; [|congruence]. rewrite wire_reqs_app. cbn [wire_reqs w_item]. now rewrite !app_nil_r.
    + reflexivity.
Qed.

Lemma inv_reconnect all s : Inv all s -> Inv all (reconnect s).
Proof.
  intros (H1 & H2 & (H3 & P) & H4).
  unfold Inv, reconnect, inflight, pend_tags in *. cbn [queue waited latest responses redirects sent wire pending].
  split4; [assumption | assumption | | ].
  - split; [|congruence]. rewrite app_nil_r.
    destruct (pending s) as [[[it q] py]|]; [|now rewrite app_nil_r in H3].
    rewrite wire_reqs_app, map_app. cbn [wire_reqs w_item]. destruct it; cbn [map List.app] in *;
      [exact H3 | now rewrite !app_nil_r in *].
  - destruct (pending s) as [x|] eqn:E; [|exact H4]. intros _. apply P. congruence.
Qed.

Lemma inv_step all s e :
  Inv all s -> Inv (all ++ match e with Enq t => [t] | _ => [] end) (step mof qof pq pay s e).
Proof.
  intros HI. destruct e as [t|rc o| |]; [now apply inv_enq| |rewrite app_nil_r; exact HI|rewrite app_nil_r; exact HI].
  rewrite step_pass_split, app_nil_r.
  assert (HI' : Inv all (if rc && cut s && reconn s then reconnect s else s))
    by (destruct (rc && cut s && reconn s); [now apply inv_reconnect | exact HI]).
  revert HI'. generalize (if rc && cut s && reconn s then reconnect s else s). clear HI s. intros s HI.
  cbn [step andb]. pose proof (inv_pump all s HI) as HP.
  destruct o as [r|]; [|assumption].
  destruct (waited (pump mof qof pq pay s)) eqn:Hw; [|assumption].
  destruct (sent (pump mof qof pq pay s)) eqn:Hs; [|assumption].
  cbn [andb]. destruct (readable (pump mof qof pq pay s) r); [now apply inv_complete | assumption].
Qed.

Lemma inv_run : forall evs all s, Inv all s -> Inv (all ++ enqs evs) (run mof qof pq pay s evs).
Proof.
  induction evs as [|e evs IH]; intros all s HI; cbn [run fold_left enqs].
  - now rewrite app_nil_r.
  - apply (inv_step all s e) in HI. apply IH in HI. fold (run mof qof pq pay (step mof qof pq pay s e) evs).
    destruct e; cbn [enqs]; [now rewrite <- app_assoc in HI | now rewrite app_nil_r in HI | now rewrite app_nil_r in HI | now rewrite app_nil_r in HI].
Qed.

Lemma map_some_inj (a b : list N) : map Some a = map Some b -> a = b.
Proof.
  revert b. induction a as [|x a IH]; intros [|y b] H; try discriminate; [reflexivity|].
  cbn [map] in H. inversion H. f_equal. now apply IH.
Qed.

Lemma map_some_app_inv (a : list N) (x y : list (option N)) :
  map Some a = x ++ y -> exists a1 a2, a = a1 ++ a2 /\ x = map Some a1 /\ y = map Some a2.
Proof.
  revert a. induction x as [|o x IH]; intros a H.
  - exists [], a. auto.
  - destruct a as [|t a]; [discriminate|]. cbn [map List.app] in H. inversion H; subst.
    destruct (IH a H2) as (a1 & a2 & -> & -> & ->). exists (t :: a1), a2. auto.
Qed.

(* FIFO, one entry per request, at most one in flight; requests reach the wire
   in queue order and at most one of them is unanswered. *)
Theorem fifo rcn sec rd m evs :
  let s := run mof qof pq pay (init_m rcn sec rd m) evs in
  map Some (enqs evs) = map origin (responses s) ++ inflight s ++ map Some (queue s)
  /\ (length (inflight s) <= 1)%nat
  /\ (exists rest, enqs evs = wire_reqs (wire s) ++ rest)
  /\ (length (wire_reqs (wire s)) <= length (responses s) + 1)%nat.
Proof.
  intros s. destruct (inv_run evs [] (init_m rcn sec rd m) (inv_init rcn sec rd m)) as (H1 & H2 & (H3 & Hu) & H4).
  cbn [List.app] in H1. fold s in H1, H2, H3, Hu, H4.
  split; [exact H1|]. split.
  { unfold inflight. destruct (waited s); cbn [length]; lia. }
  split.
  - rewrite app_assoc in H1. rewrite <- H3 in H1. rewrite <- app_assoc in H1.
    destruct (map_some_app_inv _ _ _ H1) as (a1 & a2 & E & E1 & _).
    apply map_some_inj in E1. subst a1. now exists a2.
  - apply (f_equal (@length _)) in H3. rewrite !app_length, !map_length in H3.
    unfold inflight in H3. destruct (waited s); cbn [length] in H3; lia.
Qed.

(* ------------------------------------------------------------------ *)
(* An https client never leaves https.                                  *)
Definition InvS (s : cstate) : Prop :=
  https s = true /\ Forall (fun w => w_https w = true) (wire s).

Lemma invS_pump s : InvS s -> InvS (pump mof qof pq pay s).
Proof.
  intros [H1 H2]. unfold pump. destruct (waited s); [now split|].
  destruct (queue s); [now split|]. split; cbn [https wire]; [assumption|].
  destruct (cut s); [assumption|]. apply Forall_app. split; [assumption|].
  constructor; [exact H1 | constructor].
Qed.

Lemma invS_complete s r : InvS s -> InvS (complete s r).
Proof.
  intros [H1 H2]. unfold complete.
  assert (D : forall st e c, InvS (deliver s st e c)) by (intros; now split).
  destruct (redirectable s && is_redirect (rp_status r)); [|apply D].
  destruct (rp_loc r) as [l|]; [|apply D].
  match goal with |- context [if ?c then _ else _] => destruct c end.
  - split; cbn [https wire]; [assumption|].
    destruct (cut s); [assumption|]. apply Forall_app. split; [assumption|].
    constructor; [exact H1 | constructor].
  - destruct (match l_host l with Some _ => l_https l | None => https s end) eqn:E; cbn [negb];
      [rewrite andb_false_r | rewrite andb_true_r, H1; apply D].
    split; cbn [https wire]; [reflexivity|]. apply Forall_app. split; [assumption|].
    constructor; [reflexivity | constructor].
Qed.

Lemma invS_step s e : InvS s -> InvS (step mof qof pq pay s e).
Proof.
  intros H. destruct e as [t|rc o| |]; [exact H| |exact H|exact H].
  rewrite step_pass_split.
  assert (H' : InvS (if rc && cut s && reconn s then reconnect s else s)).
  { destruct (rc && cut s && reconn s); [|exact H]. destruct H as [H1 H2]. split; [exact H1|].
    unfold reconnect. cbn [wire https]. destruct (pending s) as [[[it q] py]|]; [|exact H2].
    apply Forall_app. split; [exact H2|]. constructor; [exact H1 | constructor]. }
  revert H'. generalize (if rc && cut s && reconn s then reconnect s else s). clear H s. intros s H.
  cbn [step andb].
  apply invS_pump in H. destruct o as [r|]; [|assumption].
  destruct (waited (pump mof qof pq pay s) && sent (pump mof qof pq pay s) && readable (pump mof qof pq pay s) r); [now apply invS_complete | assumption].
Qed.

Theorem https_kept rcn rd m evs :
  let s := run mof qof pq pay (init_m rcn true rd m) evs in
  https s = true /\ Forall (fun w => w_https w = true) (wire s).
Proof.
  cbn zeta. unfold run.
  assert (G : forall evs s, InvS s -> InvS (fold_left (step mof qof pq pay) evs s)).
  { induction evs0 as [|e evs0 IH]; intros s H; [assumption|]. cbn [fold_left]. apply IH. now apply invS_step. }
  apply G. split; [reflexivity | constructor].
Qed.

(* what the refusal does: the 3xx response is delivered, errored, with the history;
   nothing is transmitted and the connector is kept *)
Lemma downgrade_refused s r l h :
  https s = true -> redirectable s = true -> is_redirect (rp_status r) = true ->
  rp_loc r = Some l -> l_host l = Some h -> l_https l = false ->
  complete s r = deliver s (rp_status r) true (cut s).
Proof.
  intros H1 H2 H3 H4 H5 H6. unfold complete. rewrite H2, H3, H4, H5, H6, H1. cbn [andb negb Bool.eqb].
  rewrite andb_false_r. reflexivity.
Qed.

(* ------------------------------------------------------------------ *)
(* Redirect history.                                                    *)
Definition tail_none (l : list hop) : Prop :=
  match l with [] => True | _ :: rest => Forall (fun x => snd x = None) rest end.
Definition all_redirects (l : list hop) : Prop := Forall (fun h => is_redirect (fst h) = true) l.
Definition good_entry (e : entry) : Prop :=
  all_redirects (e_history e) /\ tail_none (e_history e) /\ (e_history e <> [] -> e_tag e = None).

Definition InvH (s : cstate) : Prop :=
  all_redirects (redirects s) /\ tail_none (redirects s)
  /\ (redirects s <> [] -> latest s = None)
  /\ Forall good_entry (responses s).

Lemma invH_deliver s st err c : InvH s -> InvH (deliver s st err c).
Proof.
  intros (A & B & C & D). unfold InvH, deliver. cbn [redirects latest responses].
  split; [constructor|]. split; [exact I|]. split; [congruence|].
  apply Forall_app. split; [assumption|]. constructor; [|constructor].
  unfold good_entry. cbn [e_history e_tag]. auto.
Qed.

Lemma invH_follow (s : cstate) st :
  InvH s -> is_redirect st = true ->
  all_redirects (redirects s ++ [(st, latest s)]) /\ tail_none (redirects s ++ [(st, latest s)]).
Proof.
  intros (A & B & C & D) H. split.
  - apply Forall_app. split; [assumption|]. constructor; [exact H | constructor].
  - destruct (redirects s) as [|x rest] eqn:E; [cbn; constructor|]. cbn [List.app tail_none] in *.
    apply Forall_app. split; [assumption|]. constructor; [|constructor]. cbn [snd]. apply C. discriminate.
Qed.

Lemma invH_complete s r : InvH s -> InvH (complete s r).
Proof.
  intros H. unfold complete.
  destruct (redirectable s && is_redirect (rp_status r)) eqn:E; [|now apply invH_deliver].
  apply andb_true_iff in E as [_ E].
  destruct (rp_loc r) as [l|]; [|now apply invH_deliver].
  destruct (invH_follow s (rp_status r) H E) as [F1 F2]. destruct H as (A & B & C & D).
  match goal with |- context [if ?c then _ else _] => destruct c end.
  - unfold InvH. cbn [redirects latest responses]. auto.
  - match goal with |- context [if ?c then _ else _] => destruct c end.
    + apply invH_deliver. unfold InvH. auto.
    + unfold InvH. cbn [redirects latest responses]. auto.
Qed.

Lemma invH_step all s e : Inv all s -> InvH s -> InvH (step mof qof pq pay s e).
Proof.
  intros HI H. destruct e as [t|rc o| |]; [exact H| |exact H|exact H].
  rewrite step_pass_split.
  assert (HI' : Inv all (if rc && cut s && reconn s then reconnect s else s))
    by (destruct (rc && cut s && reconn s); [now apply inv_reconnect | exact HI]).
  assert (H' : InvH (if rc && cut s && reconn s then reconnect s else s))
    by (destruct (rc && cut s && reconn s); [exact H | exact H]).
  revert HI' H'. generalize (if rc && cut s && reconn s then reconnect s else s). clear HI H s. intros s HI H.
  cbn [step andb].
  - assert (HP : InvH (pump mof qof pq pay s)).
    { unfold pump. destruct (waited s) eqn:Hw; [exact H|]. destruct (queue s); [exact H|].
      destruct HI as (_ & H2 & _). specialize (H2 Hw). destruct H as (A & B & C & D).
      unfold InvH. cbn [redirects latest responses]. rewrite H2.
      split; [constructor|]. split; [exact I|]. split; [congruence | assumption]. }
    destruct o as [r|]; [|assumption].
    destruct (waited (pump mof qof pq pay s) && sent (pump mof qof pq pay s) && readable (pump mof qof pq pay s) r); [now apply invH_complete | assumption].
Qed.

Theorem history_attached rcn sec rd m evs :
  Forall good_entry (responses (run mof qof pq pay (init_m rcn sec rd m) evs)).
Proof.
  assert (G : forall evs all s, Inv all s -> InvH s -> InvH (run mof qof pq pay s evs)).
  { induction evs0 as [|e evs0 IH]; intros all s HI H; [assumption|]. cbn [run fold_left].
    fold (run mof qof pq pay (step mof qof pq pay s e) evs0). eapply IH; [eapply inv_step; eassumption | eapply invH_step; eassumption]. }
  destruct (G evs [] (init_m rcn sec rd m) (inv_init rcn sec rd m)) as (_ & _ & _ & D); [|exact D].
  unfold InvH, init_m. cbn. split; [constructor|]. split; [exact I|]. split; [congruence | constructor].
Qed.

(* every followed redirect hop is recorded, in order: completing a reply either
   extends .redirects by exactly that hop or delivers an entry whose history is
   exactly the hops so far *)
Lemma complete_cases s r :
  (exists err c, complete s r = deliver s (rp_status r) err c)
  \/ (exists l, rp_loc r = Some l
      /\ redirects (complete s r) = redirects s ++ [(rp_status r, latest s)]
      /\ rtargets (complete s r) = rtargets s ++ [rq_target s]
      /\ rq_target (complete s r) = (true, rp_id r, l_query l)
      /\ (sent (complete s r) = true ->
          exists w, wire (complete s r) = wire s ++ [w] /\ w_item w = WRedir (rp_id r) /\ w_q w = l_query l)
      /\ responses (complete s r) = responses s /\ waited (complete s r) = true
      /\ is_redirect (rp_status r) = true /\ redirectable s = true).
Proof.
  unfold complete.
  destruct (redirectable s) eqn:R; cbn [andb]; [|left; eauto].
  destruct (is_redirect (rp_status r)) eqn:E; [|left; eauto].
  destruct (rp_loc r) as [l|]; [|left; eauto].
  match goal with |- context [if ?c then _ else _] => destruct c end.
  - right. exists l. cbn [redirects responses waited rtargets rq_target sent wire].
    repeat (split; [reflexivity|]). split; [|auto].
    destruct (cut s); cbn [negb]; [discriminate|]. intros _.
    eexists. split; [reflexivity|]. split; reflexivity.
  - match goal with |- context [if ?c then _ else _] => destruct c end; [left; eauto|].
    right. exists l. cbn [redirects responses waited rtargets rq_target sent wire].
    repeat (split; [reflexivity|]). split; [|auto].
    intros _. eexists. split; [reflexivity|]. split; reflexivity.
Qed.

(* a delivered entry names the request it answers and the request of every hop *)
Lemma deliver_targets s st err c :
  exists e, responses (deliver s st err c) = responses s ++ [e]
    /\ e_target e = rq_target s /\ e_targets e = rtargets s /\ e_history e = redirects s
    /\ e_pay e = rq_pay s.
Proof. eexists. split; [reflexivity|]. cbn. auto. Qed.

(* every original request goes on the wire with exactly the target it was queued with: the qargs its
   request dict got in Client.request (recorded in the append-only qlog when it was queued) merged with
   the query of its own path - whatever was queued, sent or answered in between *)
Definition wire_ok (lg : list (N * qargs)) (w : wentry) : Prop :=
  match w_item w with WReq t => w_q w = merge (qlookup lg t) (pq t) | WRedir _ => True end.

Lemma qlookup_app_keep lg t x q :
  In t (map fst lg) -> qlookup (lg ++ [(x, q)]) t = qlookup lg t.
Proof.
  induction lg as [|[k v] lg IH]; intros H; [destruct H|]. cbn [List.app qlookup].
  destruct (k =? t) eqn:E; [reflexivity|]. apply IH. cbn [map fst In] in H.
  destruct H as [H|H]; [apply N.eqb_neq in E; congruence | exact H].
Qed.

(* tags on the wire (or waiting in .txbs) were queued before: their qlog entry exists and later
   queueing cannot change it *)
Definition pend_ok (s : cstate) : Prop :=
  match pending s with
  | Some (WReq t, q, _) => q = merge (qlookup (qlog s) t) (pq t) /\ In t (map fst (qlog s))
  | _ => True
  end.
Definition InvQ (s : cstate) : Prop :=
  Forall (wire_ok (qlog s)) (wire s)
  /\ Forall (fun w => match w_item w with WReq t => In t (map fst (qlog s)) | WRedir _ => True end) (wire s)
  /\ Forall (fun t => In t (map fst (qlog s))) (queue s)
  /\ pend_ok s.

Lemma invQ_enq s t : InvQ s -> InvQ (enq qof s t).
Proof.
  intros (A & B & C & D). unfold InvQ, enq, pend_ok in *. cbn [qlog wire queue pending]. split4.
  - rewrite Forall_forall in *. intros w Hw. specialize (A w Hw). specialize (B w Hw). unfold wire_ok in *.
    destruct (w_item w); [|exact I]. now rewrite qlookup_app_keep.
  - rewrite Forall_forall in *. intros w Hw. specialize (B w Hw). destruct (w_item w); [|exact I].
    rewrite map_app. apply in_or_app. now left.
  - apply Forall_app. split.
    + rewrite Forall_forall in *. intros x Hx. rewrite map_app. apply in_or_app. left. now apply C.
    + constructor; [|constructor]. rewrite map_app. apply in_or_app. right. now left.
  - destruct (pending s) as [[[it q] py]|]; [|exact I]. destruct it; [|exact I]. destruct D as [D1 D2].
    split; [now rewrite qlookup_app_keep | rewrite map_app; apply in_or_app; now left].
Qed.

Lemma invQ_reconnect s : InvQ s -> InvQ (reconnect s).
Proof.
  intros (A & B & C & D). unfold InvQ, reconnect, pend_ok in *. cbn [qlog wire queue pending].
  split4; [| |assumption|exact I].
  - destruct (pending s) as [[[it q] py]|]; [|exact A]. apply Forall_app. split; [exact A|].
    constructor; [|constructor]. unfold wire_ok. cbn [w_item w_q]. destruct it; [now destruct D | exact I].
  - destruct (pending s) as [[[it q] py]|]; [|exact B]. apply Forall_app. split; [exact B|].
    constructor; [|constructor]. cbn [w_item]. destruct it; [now destruct D | exact I].
Qed.

Lemma invQ_step s e : InvQ s -> InvQ (step mof qof pq pay s e).
Proof.
  intros H. destruct e as [t|rc o| |]; [now apply invQ_enq| |exact H|exact H].
  rewrite step_pass_split.
  assert (H' : InvQ (if rc && cut s && reconn s then reconnect s else s))
    by (destruct (rc && cut s && reconn s); [now apply invQ_reconnect | exact H]).
  revert H'. generalize (if rc && cut s && reconn s then reconnect s else s). clear H s. intros s H.
  cbn [step andb].
  assert (HP : InvQ (pump mof qof pq pay s)).
  { unfold pump. destruct (waited s); [exact H|]. destruct (queue s) as [|t q] eqn:Hq; [exact H|].
    destruct H as (A & B & C & D). rewrite Hq in C. inversion C as [|? ? Ct Cq]; subst.
    unfold InvQ, pend_ok. cbn [wire qlog queue pending]. destruct (cut s).
    - split4; [assumption | assumption | assumption |]. split; [reflexivity | exact Ct].
    - split4; [| | assumption | exact I]; (apply Forall_app; split; [assumption|]); (constructor; [|constructor]).
      + unfold wire_ok, on_wire, sent_q. cbn [w_item w_q]. reflexivity.
      + cbn [on_wire w_item]. exact Ct. }
  destruct o as [r|]; [|assumption].
  destruct (waited (pump mof qof pq pay s) && sent (pump mof qof pq pay s) && readable (pump mof qof pq pay s) r); [|assumption].
  set (p := pump mof qof pq pay s) in *. unfold complete.
  assert (D : forall st e c, InvQ (deliver p st e c)) by (intros; exact HP).
  destruct (redirectable p && is_redirect (rp_status r)); [|apply D].
  destruct (rp_loc r) as [l|]; [|apply D].
  destruct HP as (A & B & C & D').
  match goal with |- context [if ?c then _ else _] => destruct c end.
  - unfold InvQ, pend_ok. cbn [wire qlog queue pending]. destruct (cut p).
    + split4; [assumption | assumption | assumption | exact I].
    + split4; [| | assumption | exact I]; (apply Forall_app; split; [assumption|]); (constructor; [exact I|constructor]).
  - match goal with |- context [if ?c then _ else _] => destruct c end; [apply D|].
    unfold InvQ, pend_ok. cbn [wire qlog queue pending].
    split4; [| | assumption | exact I]; (apply Forall_app; split; [assumption|]); (constructor; [exact I|constructor]).
Qed.

Theorem wire_queries rcn sec rd m evs :
  let s := run mof qof pq pay (init_m rcn sec rd m) evs in
  Forall (wire_ok (qlog s)) (wire s).
Proof.
  cbn zeta.
  assert (G : forall evs s, InvQ s -> InvQ (run mof qof pq pay s evs)).
  { induction evs0 as [|e evs0 IH]; intros s H; [assumption|]. cbn [run fold_left].
    fold (run mof qof pq pay (step mof qof pq pay s e) evs0). apply IH. now apply invQ_step. }
  apply G. unfold InvQ, init_m, pend_ok. cbn. split4; try constructor.
Qed.

(* what is recorded when a request is queued: its explicit qargs, else a copy of the requester's
   current ones; an existing record is never rewritten *)
Lemma enq_records s t :
  qlog (enq qof s t) = qlog s ++ [(t, match qof t with Some q => q | None => snd (rq_target s) end)].
Proof. reflexivity. Qed.

Lemma qlog_grows s e : exists more, qlog (step mof qof pq pay s e) = qlog s ++ more.
Proof.
  destruct e as [t|rc o| |]; [| |exists []; now rewrite app_nil_r|exists []; now rewrite app_nil_r].
  - eexists. apply enq_records.
  - exists []. rewrite app_nil_r, step_pass_split.
    assert (R : qlog (if rc && cut s && reconn s then reconnect s else s) = qlog s)
      by (destruct (rc && cut s && reconn s); reflexivity).
    rewrite <- R. generalize (if rc && cut s && reconn s then reconnect s else s). clear R s. intros s.
    cbn [step andb].
    assert (P : qlog (pump mof qof pq pay s) = qlog s).
    { unfold pump. destruct (waited s); [reflexivity|]. destruct (queue s); reflexivity. }
    destruct o as [r|]; [|exact P].
    destruct (waited (pump mof qof pq pay s) && sent (pump mof qof pq pay s) && readable (pump mof qof pq pay s) r); [|exact P].
    rewrite <- P. unfold complete.
    destruct (redirectable _ && is_redirect _); [|reflexivity].
    destruct (rp_loc r); [|reflexivity].
    repeat match goal with |- context [if ?c then _ else _] => destruct c end; reflexivity.
Qed.

(* ------------------------------------------------------------------ *)
(* Methods: while a request is in flight the respondent reads the reply with the
   method of exactly that request (so the no-body rule for HEAD is applied to HEAD
   replies and to no others), also across followed redirects. *)
Definition InvM (s : cstate) : Prop :=
  waited s = true ->
  rs_method s = rq_method s /\ (forall t, inflight s = [Some t] -> rq_method s = mof t).

Lemma invM_step all s e : Inv all s -> InvM s -> InvM (step mof qof pq pay s e).
Proof.
  intros HI HM. destruct e as [t|rc o| |]; [exact HM| |exact HM|exact HM].
  rewrite step_pass_split.
  assert (HI' : Inv all (if rc && cut s && reconn s then reconnect s else s))
    by (destruct (rc && cut s && reconn s); [now apply inv_reconnect | exact HI]).
  assert (H' : InvM (if rc && cut s && reconn s then reconnect s else s))
    by (destruct (rc && cut s && reconn s); [exact HM | exact HM]).
  revert HI' H'. generalize (if rc && cut s && reconn s then reconnect s else s). clear HI HM s. intros s HI HM.
  cbn [step andb].
  - assert (HP : InvM (pump mof qof pq pay s)).
    { unfold pump. destruct (waited s) eqn:Hw; [exact HM|]. destruct (queue s) as [|t q]; [exact HM|].
      destruct HI as (_ & H2 & _). specialize (H2 Hw).
      unfold InvM, inflight. cbn [waited redirects latest rs_method rq_method]. rewrite H2.
      intros _. split; [reflexivity|]. intros t' E. now inversion E. }
    destruct o as [r|]; [|assumption].
    destruct (waited (pump mof qof pq pay s)) eqn:Hw; [|assumption]. cbn [andb].
    destruct (sent (pump mof qof pq pay s) && readable (pump mof qof pq pay s) r); [|assumption].
    specialize (HP Hw). destruct HP as [E1 E2]. unfold inflight in E2. rewrite Hw in E2.
    set (p := pump mof qof pq pay s) in *. unfold complete.
    assert (D : forall st e c, InvM (deliver p st e c)) by (intros st e c X; discriminate X).
    destruct (redirectable p && is_redirect (rp_status r)); [|apply D].
    destruct (rp_loc r) as [l|]; [|apply D].
    match goal with |- context [if ?c then _ else _] => destruct c end.
    + unfold InvM, inflight. cbn [waited redirects latest rs_method rq_method].
      intros _. split; [reflexivity|]. rewrite head_snoc. cbn [snd]. exact E2.
    + match goal with |- context [if ?c then _ else _] => destruct c end; [apply D|].
      unfold InvM, inflight. cbn [waited redirects latest rs_method rq_method].
      intros _. split; [reflexivity|]. rewrite head_snoc. cbn [snd]. exact E2.
Qed.

Theorem method_tracks rcn sec rd m evs :
  let s := run mof qof pq pay (init_m rcn sec rd m) evs in
  waited s = true ->
  rs_method s = rq_method s /\ (forall t, inflight s = [Some t] -> rq_method s = mof t).
Proof.
  cbn zeta.
  assert (G : forall evs all s, Inv all s -> InvM s -> InvM (run mof qof pq pay s evs)).
  { induction evs0 as [|e evs0 IH]; intros all s HI H; [assumption|]. cbn [run fold_left].
    fold (run mof qof pq pay (step mof qof pq pay s e) evs0). eapply IH; [eapply inv_step; eassumption | eapply invM_step; eassumption]. }
  apply (G evs [] (init_m rcn sec rd m) (inv_init rcn sec rd m)). intros X. discriminate X.
Qed.

(* hence a consumed reply is always readable: no reply is ever left half read or
   over-read because of the method, for every schedule *)
Corollary always_readable rcn sec rd m evs r :
  let s := run mof qof pq pay (init_m rcn sec rd m) evs in
  waited s = true -> readable s r = true.
Proof.
  cbn zeta. intros Hw. destruct (method_tracks rcn sec rd m evs Hw) as [E _].
  unfold readable. rewrite E. apply Bool.eqb_reflx.
Qed.

(* ------------------------------------------------------------------ *)
(* Payloads: what a request carries on the wire (body bytes, Content-Type) is its
   own payload - nothing of an earlier request's data=/fargs=/body= - and the
   requester holds exactly the in-flight request's payload. *)
Definition InvP (s : cstate) : Prop :=
  Forall (fun w => match w_item w with
                   | WReq t => w_pay w = wire_pay mof pay t
                   | WRedir _ => w_pay w = nopay end) (wire s)
  /\ (waited s = true -> redirects s = [] -> forall t, latest s = Some t -> rq_pay s = pay t)
  /\ match pending s with
     | Some (WReq t, _, py) => py = wire_pay mof pay t
     | Some (WRedir _, _, py) => py = nopay
     | None => True
     end.

Lemma invP_step s e : InvP s -> InvP (step mof qof pq pay s e).
Proof.
  intros H. destruct e as [t|rc o| |]; [exact H| |exact H|exact H].
  rewrite step_pass_split.
  assert (H' : InvP (if rc && cut s && reconn s then reconnect s else s)).
  { destruct (rc && cut s && reconn s); [|exact H]. destruct H as (A & B & C).
    unfold InvP, reconnect. cbn [wire waited redirects latest rq_pay pending]. split; [|split; [exact B | exact I]].
    destruct (pending s) as [[[it q] py]|]; [|exact A]. apply Forall_app. split; [exact A|].
    constructor; [|constructor]. cbn [w_item w_pay]. destruct it; exact C. }
  revert H'. generalize (if rc && cut s && reconn s then reconnect s else s). clear H s. intros s H.
  cbn [step andb].
  assert (HP : InvP (pump mof qof pq pay s)).
  { unfold pump. destruct (waited s); [exact H|]. destruct (queue s) as [|t q]; [exact H|].
    destruct H as (A & B & C). unfold InvP. cbn [wire waited redirects latest rq_pay pending]. split; [|split].
    - destruct (cut s); [exact A|]. apply Forall_app. split; [exact A|]. constructor; [reflexivity|constructor].
    - intros _ _ t' E. now inversion E.
    - destruct (cut s); [reflexivity | exact I]. }
  destruct o as [r|]; [|assumption].
  destruct (waited (pump mof qof pq pay s) && sent (pump mof qof pq pay s) && readable (pump mof qof pq pay s) r); [|assumption].
  set (p := pump mof qof pq pay s) in *. destruct HP as (A & B & C). unfold complete.
  assert (D : forall st e c, InvP (deliver p st e c)).
  { intros. split; [exact A|]. split; [cbn [waited]; discriminate | exact C]. }
  destruct (redirectable p && is_redirect (rp_status r)); [|apply D].
  destruct (rp_loc r) as [l|]; [|apply D].
  match goal with |- context [if ?c then _ else _] => destruct c end.
  - unfold InvP. cbn [wire waited redirects latest rq_pay pending]. split; [|split].
    + destruct (cut p); [exact A|]. apply Forall_app. split; [exact A|].
      constructor; [reflexivity|constructor].
    + intros _ _ t' E. discriminate E.
    + destruct (cut p); [reflexivity | exact I].
  - match goal with |- context [if ?c then _ else _] => destruct c end; [apply D|].
    unfold InvP. cbn [wire waited redirects latest rq_pay pending]. split; [|split].
    + apply Forall_app. split; [exact A|]. constructor; [reflexivity|constructor].
    + intros _ _ t' E. discriminate E.
    + exact I.
Qed.

Theorem wire_payload rcn sec rd m evs :
  let s := run mof qof pq pay (init_m rcn sec rd m) evs in
  Forall (fun w => match w_item w with
                   | WReq t => w_pay w = wire_pay mof pay t
                   | WRedir _ => w_pay w = nopay end) (wire s)
  /\ (waited s = true -> redirects s = [] -> forall t, latest s = Some t -> rq_pay s = pay t).
Proof.
  cbn zeta.
  assert (G : forall evs s, InvP s -> InvP (run mof qof pq pay s evs)).
  { induction evs0 as [|e evs0 IH]; intros s H; [assumption|]. cbn [run fold_left].
    fold (run mof qof pq pay (step mof qof pq pay s e) evs0). apply IH. now apply invP_step. }
  destruct (G evs (init_m rcn sec rd m)) as (A & B & _); [|split; assumption].
  unfold InvP, init_m. cbn. split; [constructor | split; [discriminate | exact I]].
Qed.

(* ------------------------------------------------------------------ *)
(* Client.respond(): entries are handed out oldest first.                 *)
Fixpoint somes {A} (l : list (option A)) : list A :=
  match l with [] => [] | Some a :: r => a :: somes r | None :: r => somes r end.

Lemma somes_app {A} (l l' : list (option A)) : somes (l ++ l') = somes l ++ somes l'.
Proof. induction l as [|[a|] l IH]; cbn [List.app somes]; [reflexivity | now rewrite IH | exact IH]. Qed.

Definition InvT (s : cstate) : Prop :=
  (ntaken s <= length (responses s))%nat /\ somes (takes s) = firstn (ntaken s) (responses s).

Lemma responses_grow s e : exists more, responses (step mof qof pq pay s e) = responses s ++ more.
Proof.
  destruct e as [t|rc o| |]; try (exists []; now rewrite app_nil_r).
  rewrite step_pass_split.
  assert (R : responses (if rc && cut s && reconn s then reconnect s else s) = responses s)
    by (destruct (rc && cut s && reconn s); reflexivity).
  rewrite <- R. generalize (if rc && cut s && reconn s then reconnect s else s). clear R s. intros s.
  cbn [step andb].
  assert (P : responses (pump mof qof pq pay s) = responses s).
  { unfold pump. destruct (waited s); [reflexivity|]. destruct (queue s); reflexivity. }
  destruct o as [r|]; [|exists []; now rewrite app_nil_r].
  destruct (waited (pump mof qof pq pay s) && sent (pump mof qof pq pay s) && readable (pump mof qof pq pay s) r);
    [|exists []; now rewrite app_nil_r].
  rewrite <- P. destruct (complete_cases (pump mof qof pq pay s) r) as [(err & c & E)|(l & _ & _ & _ & _ & _ & E & _)].
  - rewrite E. eexists. reflexivity.
  - rewrite E. exists []. now rewrite app_nil_r.
Qed.

Lemma fixed_fields s e : e <> Take ->
  ntaken (step mof qof pq pay s e) = ntaken s /\ takes (step mof qof pq pay s e) = takes s.
Proof.
  intros Ht. destruct e as [t|rc o| |]; [split; reflexivity| |split; reflexivity|congruence].
  rewrite step_pass_split.
  assert (R : ntaken (if rc && cut s && reconn s then reconnect s else s) = ntaken s
              /\ takes (if rc && cut s && reconn s then reconnect s else s) = takes s)
    by (destruct (rc && cut s && reconn s); split; reflexivity).
  destruct R as [R1 R2]. rewrite <- R1, <- R2.
  generalize (if rc && cut s && reconn s then reconnect s else s). clear R1 R2 s. intros s.
  cbn [step andb].
  assert (P : ntaken (pump mof qof pq pay s) = ntaken s /\ takes (pump mof qof pq pay s) = takes s).
  { unfold pump. destruct (waited s); [split; reflexivity|]. destruct (queue s); split; reflexivity. }
  destruct P as [P1 P2].
  destruct o as [r|]; [|split; assumption].
  destruct (waited (pump mof qof pq pay s) && sent (pump mof qof pq pay s) && readable (pump mof qof pq pay s) r);
    [|split; assumption].
  rewrite <- P1, <- P2. unfold complete.
  destruct (redirectable _ && is_redirect _); [|split; reflexivity].
  destruct (rp_loc r); [|split; reflexivity].
  repeat match goal with |- context [if ?c then _ else _] => destruct c end; split; reflexivity.
Qed.

Lemma invT_step s e : InvT s -> InvT (step mof qof pq pay s e).
Proof.
  intros [A B]. destruct (event_eq_take e) as [->|Hn].
  - cbn [step]. unfold InvT, respond. cbn [ntaken takes responses].
    destruct (nth_error (responses s) (ntaken s)) as [x|] eqn:E.
    + assert (Hlt : (ntaken s < length (responses s))%nat) by (apply nth_error_Some; congruence).
      split; [lia|]. rewrite somes_app, B. cbn [somes].
      clear -E. revert E. generalize (ntaken s). induction (responses s) as [|y l IH]; intros [|n] E;
        try discriminate; cbn [nth_error firstn List.app] in *; [now inversion E | f_equal; now apply IH].
    + split; [exact A|]. rewrite somes_app, B. cbn [somes]. now rewrite app_nil_r.
  - destruct (fixed_fields s e Hn) as [F1 F2]. destruct (responses_grow s e) as [more G].
    unfold InvT. rewrite F1, F2, G. split; [rewrite app_length; lia|].
    rewrite firstn_app. replace (ntaken s - length (responses s))%nat with 0%nat by lia.
    now rewrite firstn_O, app_nil_r.
Qed.

Theorem respond_fifo rcn sec rd m evs :
  let s := run mof qof pq pay (init_m rcn sec rd m) evs in
  somes (takes s) = firstn (ntaken s) (responses s) /\ (ntaken s <= length (responses s))%nat.
Proof.
  cbn zeta.
  assert (G : forall evs s, InvT s -> InvT (run mof qof pq pay s evs)).
  { induction evs0 as [|e evs0 IH]; intros s H; [assumption|]. cbn [run fold_left].
    fold (run mof qof pq pay (step mof qof pq pay s e) evs0). apply IH. now apply invT_step. }
  destruct (G evs (init_m rcn sec rd m)) as [A B]; [|split; assumption].
  unfold InvT, init_m. cbn. split; [lia | reflexivity].
Qed.

(* a respond() call returns None only when nothing waits *)
Lemma respond_none s : nth_error (responses s) (ntaken s) = None -> (length (responses s) <= ntaken s)%nat.
Proof. apply nth_error_None. Qed.

End WithMethods.
