From Hio Require Import Base.Prelude Model.Sched.
Theorem C06_placeholder : True. Proof. exact I. Qed.
Print Assumptions C06_placeholder.
