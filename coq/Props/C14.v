(* C14 — requests built by the HTTP client are recovered exactly by the
   server's request parser and WSGI environ.  Statements only; proofs are in
   Proofs/HttpReqProofs.v.  The model (Model/HttpReq.v) is of the tree after
   the two D20 fix commits (query keys and form fields are quoted).

   Full statement (not proved in this generality):
     forall host port r, wf_request r = true -> roundtrip o host port r = true
   i.e. parse_request (build r) succeeds and yields the method, the path, the
   query arguments (through parse_qsl of QUERY_STRING), every header value
   (names case-insensitively, also as HTTP_* environ keys) and the body bytes
   (form fields through parse_qsl of the body) of r.
   Proved: the statement on an explicit finite grid of 2700 requests
   (C14_roundtrip_partial), and, for all inputs, the two codec facts the full
   proof rests on: percent-coding is inverted by unquote on every byte string
   (C14_percent_roundtrip) and every BMP scalar value decodes back from
   its UTF-8 encoding (C14_utf8_bmp).  Missing for the full theorem: the
   composition lemma utf8_dec (utf8_enc s) = s for strings and the
   tokenisation lemmas (a quoted target contains no blank, '?', '#'; a packed
   header splits at the first ': '); the differential check covers that gap
   with generated requests on every run. *)
From Hio Require Import Base.Prelude Model.HttpReqUrl Model.HttpTotal Model.HttpReq Proofs.HttpReqProofs.
From Coq Require Import String.
Local Open Scope N_scope.

(* Domain: 3 methods (GET, POST, DELETE) x 6 paths (blank, non-ASCII, non-BMP, literal %41, every
   sub-delimiter) x 5 query dicts (keys with & = + % # ? ; / blank, non-ASCII,
   empty key, empty value) x 3 header sets (mixed-case names, values with
   ': ', leading/trailing blanks, latin-1, empty) x 5 bodies (none, binary,
   JSON, form with & = + in fields, empty form) x {without, with} explicit
   Content-Length. *)
Theorem C14_roundtrip_partial : forall r, In r grid ->
  wf_request r = true /\ roundtrip o0 ghost 8080 r = true.
Proof. exact grid_roundtrip. Qed.
Print Assumptions C14_roundtrip_partial.

(* quote / quote_plus followed by unquote_to_bytes is the identity on every
   byte string, for every safe set that does not contain '%' *)
Theorem C14_percent_roundtrip : forall safe, mem_n 37 safe = false ->
  forall bs, Forall (fun b => b < 256) bs ->
  unquote_bytes (flat_map (quote_byte safe) bs) = bs.
Proof. exact unquote_quote_bytes. Qed.
Print Assumptions C14_percent_roundtrip.

(* every scalar value of the Basic Multilingual Plane survives UTF-8
   (exhaustive); beyond it a sparse sweep (every 97th value) is checked *)
Theorem C14_utf8_bmp : forall c, c < 65536 -> scalar c = true -> utf8_dec (utf8_enc1 c) = [c].
Proof. exact utf8_bmp_roundtrip. Qed.
Print Assumptions C14_utf8_bmp.

(* Non-vacuity and the D20 witnesses: keys with '&', blank and non-ASCII, form
   values with '&' and '=' come back; the wire form is the expected one. *)
Example C14_example :
  let r := {| q_method := str "POST"; q_path := str "/a b/" ++ [233];
              q_qargs := [(str "k&1", str "v=2&x"); (str "sp ace", [233])];
              q_headers := [(str "x-UPPER", str "A: b")];
              q_body := Form [(str "a&b", str "c=d&e")] |} in
  wf_request r = true /\ roundtrip o0 ghost 8080 r = true /\
  firstn 59 (build ghost 8080 r) = str "POST /a%20b/%C3%A9?k%261=v%3D2%26x&sp+ace=%C3%A9 HTTP/1.1" ++ [13; 10] /\
  body_bytes r = str "a%26b=c%3Dd%26e".
Proof. vm_compute. repeat split. Qed.
