(* What the correspondence evaluates (SchedCase.run_case) is an instance of run_hist, so the history
   theorems of Proofs/SchedHist.v speak about exactly the runs that are compared with the implementation. *)
From Coq Require Import PrimFloat.
From Hio Require Import Base.Prelude Base.AMap Base.Time Model.Sched Model.SchedCase Proofs.SchedHist.

Definition case_hist (c : case) : list (rerun (T := float)) :=
  map (fun '(l, t) => RAgain l t) (c_again c) ++
  map (fun '(l, t) => RFresh l t (p_doers (c_prog c))) (c_fresh c).

Lemma fold_left_map {A B C} (f : A -> B -> A) (g : C -> B) (l : list C) (a : A) :
  fold_left f (map g l) a = fold_left (fun a c => f a (g c)) l a.
Proof. revert a. induction l as [|x l IH]; intro a; cbn; [reflexivity|apply IH]. Qed.

Lemma fold_left_ext_in {A B} (f g : A -> B -> A) (l : list B) (a : A) :
  (forall a b, f a b = g a b) -> fold_left f l a = fold_left g l a.
Proof. intro E. revert a. induction l as [|x l IH]; intro a; cbn; [reflexivity|]. now rewrite E, IH. Qed.

Opaque do_fresh do_again ado_again do_run ado_run manual_run cycles_budget fuel_budget.

Lemma run_case_hist (c : case) :
  c_manual c = None ->
  run_case c = run_hist cycles_budget fuel_budget (c_async c) (c_prog c) (case_hist c).
Proof.
  intro Hm.
  unfold run_case, run_hist, case_hist. rewrite fold_left_app, !fold_left_map.
  etransitivity; [apply fold_left_ext_in with (g := fun a c0 => rerun_step cycles_budget fuel_budget (p_tock (c_prog c)) (c_async c) a
                     (let '(l, t) := c0 in RFresh l t (p_doers (c_prog c)))); intros a [l t]; reflexivity|].
  f_equal. unfold run_case0. rewrite Hm. destruct (c_async c); apply fold_left_ext_in; intros a [l t]; reflexivity.
Qed.


(* a case driven by hand and then continued by further runs is a manual run followed by the same reruns *)
Lemma run_case_manual (c : case) n :
  c_manual c = Some n ->
  run_case c = fold_left (rerun_step cycles_budget fuel_budget (p_tock (c_prog c)) (c_async c))
                         (map (fun '(l, t) => RFresh l t (p_doers (c_prog c))) (c_fresh c))
                         (manual_run n fuel_budget (c_prog c)).
Proof.
  intro Hm. unfold run_case. rewrite fold_left_map.
  etransitivity; [apply fold_left_ext_in with (g := fun a c0 => rerun_step cycles_budget fuel_budget (p_tock (c_prog c)) (c_async c) a
                     (let '(l, t) := c0 in RFresh l t (p_doers (c_prog c)))); intros a [l t]; reflexivity|].
  f_equal. unfold run_case0. now rewrite Hm.
Qed.

Transparent do_fresh do_again ado_again do_run ado_run manual_run cycles_budget fuel_budget.
