(* C02 — forced exits are nested: reverse enter order, children before parent,
   every alive doer exited before do() returns or raises.
   Model: Model/Sched.v.  Proofs: Proofs/SchedDeque*.v (the holding invariant
   "a doer is suspended iff exactly one deed holds it, and every holder chain
   ends at the root, a local list or the call stack"), on top of SchedFrame/Life/Top.

   Static class of programs ([W], executable form [Wb]): id 0 is only the root,
   extend() targets are the root or DoDoers, no doer calls remove() in its first
   resumption (finding D43: such a remove can close the DoDoer being extended).

   FULL statement of the property: for every program and every way the run stops,
   (a) every doer alive at the stop has its Exit before DoReturn/DoRaise,
   (b) the forced Cease events of one exit() sweep are in reverse enter order,
   (c) the children of a DoDoer are closed between its Cease and its Exit.
   Proved: (a) for the class W ([C02_before_return_partial]; false outside it,
   [C02_before_return_refuted] = D43); (c) in full; for (b) the part "exit()
   closes in the reverse of the un-rotated deque, remove() likewise" in full
   ([C02_close_in_list_order], [C02_exit_reverse_deque], [C02_final_exit_partial]);
   the remaining link "un-rotated deque order = enter order" is proved for all
   programs of class W that never call extend() ([C02_reverse_enter_order_partial],
   [C02_deques_in_enter_order_partial]) and is false with extend() (open finding
   D3, [C02_reverse_enter_order_refuted]): an extend() issued from inside a pass
   puts the new deed before the caller's own deed (which is in hand and is
   re-appended after the call) and before the not-yet-run ones, and an extend()
   of one's own DoDoer during its enter puts it before the caller's deed likewise;
   hence "no extend()" is the static class; runs with extend() are covered by the
   correspondence and the trace oracle (D3 classified). *)
From Hio Require Import Base.Prelude Base.AMap Base.Time Model.Sched Proofs.SchedLife Proofs.SchedTop
  Proofs.SchedDeque Proofs.SchedDequeHold Proofs.SchedDequeAll Proofs.SchedDequeUniq Proofs.SchedDequeOrder
  Proofs.SchedDequeEffects Proofs.SchedDequeTop Proofs.SchedDequeTop2
  Proofs.SchedDequeEpos Proofs.SchedDequeSortB Proofs.SchedDequeSortA Proofs.SchedDequeTop3.

(* (a) every doer's events are complete lifecycles and the newest event is the
   DoReturn/DoRaise: every Enter has its Exit before do() returns or raises *)
Theorem C02_before_return_partial :
  forall (T : Type) (TT : Time T) (cycles fuel : nat) (p : prog T),
    W (p_defs p) -> oof (do_run cycles fuel p) = false ->
    (forall j, lives (events j (do_run cycles fuel p))) /\
    (forall j, get_gen (do_run cycles fuel p) j = GNew \/ get_gen (do_run cycles fuel p) j = GDone) /\
    exists k t rest, trace (do_run cycles fuel p) = {| e_kind := k; e_id := 0%N; e_tyme := t |} :: rest /\
                     (k = DoReturn \/ k = DoRaise).
Proof.
  intros T TT cycles fuel p Hw O. destruct (do_run_all_exited cycles fuel p Hw O) as [L E].
  split; [exact L|]. split; [exact (do_run_complete cycles fuel p Hw O)|exact E].
Qed.
Print Assumptions C02_before_return_partial.

Example C02_before_return_example :
  Wb (p_defs w_prog) = true /\ oof (do_run 10 100 w_prog) = false.
Proof. vm_compute. split; reflexivity. Qed.

(* outside the class (a) is false: a doer entered by extend() is never exited (D43) *)
Theorem C02_before_return_refuted :
  exists (p : prog Z) cycles fuel j pc,
    oof (do_run cycles fuel p) = false /\ get_gen (do_run cycles fuel p) j = GSusp pc /\
    events j (do_run cycles fuel p) = [Enter].
Proof. exact do_run_complete_refuted. Qed.
Print Assumptions C02_before_return_refuted.

(* the second invariant at the cycle boundaries of the root: a doer is suspended
   iff it is held, by one deed of one deque *)
Theorem C02_held_exactly_once :
  forall (T : Type) (TT : Time T) (s : st T), Hold s [] -> Hold2 s [] ->
    (forall i, is_susp s i <-> exists sid, In i (qids s sid)) /\
    (forall i sid sid', In i (qids s sid) -> In i (qids s sid') -> sid = sid') /\
    (forall sid, NoDup (qids s sid)).
Proof. intros. now apply held_iff. Qed.
Print Assumptions C02_held_exactly_once.

Theorem C02_invariant_between_passes :
  forall (T : Type) (TT : Time T) (fuel : nat) (p : prog T) s1 r,
    W (p_defs p) -> enter_own (p_tock p) fuel (init_st p) 0%N (p_doers p) = (s1, r) -> oof s1 = false ->
    (Hold s1 [] /\ Hold2 s1 []) /\
    forall tk f s s' r', Hold s [] -> Hold2 s [] -> recur_pass tk f s 0%N = (s', r') -> oof s' = false ->
                         Hold s' [] /\ Hold2 s' [].
Proof.
  intros T TT fuel p s1 r Hw E O. split; [exact (after_enter fuel p s1 r Hw E O)|].
  intros. eapply after_pass; eassumption.
Qed.
Print Assumptions C02_invariant_between_passes.

Example C02_invariant_example :
  let '(s1, r) := enter_own 1%Z 100 (init_st w_prog) 0%N (p_doers w_prog) in
  oof s1 = false /\ qids s1 0%N = [1; 2; 5]%N /\ qids s1 2%N = [3; 4]%N.
Proof. vm_compute. repeat split. Qed.

(* (b1) close_list closes the listed doers in list order: the Cease events of
   the listed doers appear in exactly that order (whatever is closed in between
   belongs to their sub-trees) *)
Theorem C02_close_in_list_order :
  forall (T : Type) (TT : Time T) (tk : T) (f : nat) (s : st T) (ds : list (deed T)) (X : list id),
    Hold s (dids ds ++ X) -> Hold2 s (dids ds ++ X) -> oof (close_list tk f s ds) = false ->
    exists seg, trace (close_list tk f s ds) = seg ++ trace s /\ tops (dids ds) seg = dids ds.
Proof. intros. eapply close_list_order; eassumption. Qed.
Print Assumptions C02_close_in_list_order.

(* (b2) exit() of any scheduler closes its alive doers in the reverse of the
   un-rotated deque (the rotation of an interrupted pass is undone first) *)
Theorem C02_exit_reverse_deque :
  forall (T : Type) (TT : Time T) (tk : T) (f : nat) (s : st T) (sid : id) (X : list id),
    Hold s X -> Hold2 s X -> oof (close_own tk f s sid) = false ->
    exists seg, trace (close_own tk f s sid) = seg ++ trace s /\
                tops (dids (rev (unrotate (dq s sid)))) seg = dids (rev (unrotate (dq s sid))).
Proof. intros. eapply close_own_order; eassumption. Qed.
Print Assumptions C02_exit_reverse_deque.

Theorem C02_unrotate :
  forall (T : Type) (u r : list (deed T)), ~ In DMark u -> unrotate (u ++ DMark :: r) = r ++ u.
Proof.
  intros T u r Hn. unfold unrotate. pose proof (split_mark_app u r [] [] Hn) as E.
  rewrite !app_nil_r in E. cbn [rev app] in E. now rewrite E.
Qed.
Print Assumptions C02_unrotate.

(* (c) a DoDoer that is force-closed: its own Cease, then its alive children in
   the reverse of its un-rotated deque (each with its own sub-tree), then its Exit *)
Theorem C02_children_before_parent :
  forall (T : Type) (TT : Time T) (tk : T) (f : nat) (s : st T) (i : id) pc t0 al kids (X : list id),
    Hold s (i :: X) -> Hold2 s (i :: X) ->
    get_gen s i = GSusp pc -> get (defs s) i = Some (FNest t0 al kids) ->
    oof (gen_close tk (S f) s i) = false ->
    exists seg, trace (gen_close tk (S f) s i) = ev_at s Exit i :: seg ++ ev_at s Cease i :: trace s /\
                tops (dids (rev (unrotate (dq s i)))) seg = dids (rev (unrotate (dq s i))).
Proof. intros. eapply gen_close_nest; eassumption. Qed.
Print Assumptions C02_children_before_parent.

(* whole runs: the last act of do() is the root's exit(), closing the root's
   alive doers in the reverse of the un-rotated root deque *)
Theorem C02_final_exit_partial :
  forall (T : Type) (TT : Time T) (cycles fuel : nat) (p : prog T),
    W (p_defs p) -> oof (do_run cycles fuel p) = false ->
    exists s0 k seg,
      trace (do_run cycles fuel p) = {| e_kind := k; e_id := 0%N; e_tyme := tyme s0 |} :: seg ++ trace s0 /\
      (k = DoReturn \/ k = DoRaise) /\ Hold s0 [] /\ Hold2 s0 [] /\
      tops (dids (rev (unrotate (dq s0 0%N)))) seg = dids (rev (unrotate (dq s0 0%N))).
Proof. intros. now apply do_run_final_close. Qed.
Print Assumptions C02_final_exit_partial.

(* (b) for programs that never call extend() (class WX = W and no EExtend in any
   script; remove(), nesting, raises, returns, limits all allowed): the state
   handed to the final exit() has EVERY deque sorted by enter position (position
   of the doer's newest Enter event in the trace) in its canonical un-rotated
   order, and the root's exit() ceases the root's alive doers in the reverse of
   it: forced exits in reverse enter order.  With C02_children_before_parent /
   C02_exit_reverse_deque the same holds for every DoDoer closed on the way. *)
Theorem C02_reverse_enter_order_partial :
  forall (T : Type) (TT : Time T) (cycles fuel : nat) (p : prog T),
    WX (p_defs p) -> oof (do_run cycles fuel p) = false ->
    exists s0 k seg,
      trace (do_run cycles fuel p) = {| e_kind := k; e_id := 0%N; e_tyme := tyme s0 |} :: seg ++ trace s0 /\
      (k = DoReturn \/ k = DoRaise) /\
      tops (rev (canon (dq s0 0%N))) seg = rev (canon (dq s0 0%N)) /\
      (forall x, srt (epos s0) (canon (dq s0 x))).
Proof. intros. now apply do_run_exit_order. Qed.
Print Assumptions C02_reverse_enter_order_partial.

Example C02_reverse_enter_order_example :
  WXb (p_defs x_prog) = true /\ oof (do_run 10 100 x_prog) = false /\
  kind_ids Enter (do_run 10 100 x_prog) = [1; 2; 3; 4; 5; 6]%N /\
  kind_ids Cease (do_run 10 100 x_prog) = [5; 3; 6; 1]%N.
Proof. exact x_prog_ok. Qed.

(* the invariant behind it: the enter phase fills every deque in enter order (no
   markers), and every pass of the root keeps every deque sorted by that order in
   its canonical form, markers only on executing DoDoers, none left on the root *)
Theorem C02_deques_in_enter_order_partial :
  forall (T : Type) (TT : Time T) (fuel : nat) (p : prog T) s1 r,
    WX (p_defs p) -> enter_own (p_tock p) fuel (init_st p) 0%N (p_doers p) = (s1, r) -> oof s1 = false ->
    (forall x, srt (epos s1) (dids (dq s1 x)) /\ mf (dq s1 x)) /\
    forall tk f s s' r', XF (defs s) -> GoodB (epos s1) s -> mf (dq s 0%N) ->
      recur_pass tk f s 0%N = (s', r') -> oof s' = false -> GoodB (epos s1) s' /\ passok r' s' 0%N.
Proof.
  intros T TT fuel p s1 r Wx E O. destruct (enter_phase_sorted fuel p s1 r Wx E O) as [S M]. split.
  - intro x. split; [apply S|apply M].
  - intros tk f s s' r' X G M0 E' O'. destruct (srtb_all tk (epos s1) f) as (_ & _ & _ & _ & _ & _ & Srp & _).
    eapply Srp; try eassumption. split; [right; split; [reflexivity|exact (proj1 X)]|intro Hz; now destruct Hz].
Qed.
Print Assumptions C02_deques_in_enter_order_partial.

(* (b) in full is false of the code: extend() during a pass (finding D3).
   Doers 1, 2 entered in that order, 1 extends the Doist with 3 in the first
   pass; the limit stops the run: forced exits 2, 1, 3 instead of 3, 2, 1. *)
Definition ids_of (k : ekind) (s : st Z) : list id :=
  map e_id (filter (fun e => match e_kind e, k with Enter, Enter | Cease, Cease => true | _, _ => false end)
                   (rev (trace s))).
Definition d3_prog : prog Z :=
  let Y := {| f_es := []; f_out := OYield None |} in
  let Y0 := {| f_es := []; f_out := OYield (Some 0%Z) |} in
  {| p_tock := 1%Z; p_limit := Some 3%Z; p_tyme := 0%Z; p_doers := [1; 2]%N;
     p_defs := [(1, FLeaf KFunc [Y; {| f_es := [EExtend 0 [3]]; f_out := OYield None |}; Y; Y; Y; Y]);
                (2, FLeaf KDoer [Y; Y0; Y0; Y0; Y0; Y0]);
                (3, FLeaf KFunc [Y; Y; Y; Y; Y; Y])]%N |}.
Theorem C02_reverse_enter_order_refuted :
  exists (p : prog Z) cycles fuel,
    Wb (p_defs p) = true /\ oof (do_run cycles fuel p) = false /\
    ids_of Enter (do_run cycles fuel p) = [1; 2; 3]%N /\
    ids_of Cease (do_run cycles fuel p) = [2; 1; 3]%N.
Proof. exists d3_prog, 10%nat, 100%nat. vm_compute. repeat split. Qed.
Print Assumptions C02_reverse_enter_order_refuted.

(* ---------- histories of runs: the same for EVERY run of a history ---------- *)
From Hio Require Import Proofs.SchedHist Proofs.SchedDequeHist.

Theorem C02_before_return_histories :
  forall (T : Type) (TT : Time T) (cycles fuel : nat) (asyn : bool) (p : prog T) (h : list rerun),
    W (p_defs p) -> oof (run_hist cycles fuel asyn p h) = false ->
    (forall j, get_gen (run_hist cycles fuel asyn p h) j = GNew \/ get_gen (run_hist cycles fuel asyn p h) j = GDone) /\
    (forall j, lives (events j (run_hist cycles fuel asyn p h))) /\
    exists k t rest, trace (run_hist cycles fuel asyn p h) = {| e_kind := k; e_id := 0%N; e_tyme := t |} :: rest /\
                     (k = DoReturn \/ k = DoRaise).
Proof. intros. now apply run_hist_complete. Qed.
Print Assumptions C02_before_return_histories.

(* the last run of any history (hence every run): final exit() in the reverse of the
   un-rotated root deque, both invariants in the state handed to it (class W) *)
Theorem C02_final_exit_histories :
  forall (T : Type) (TT : Time T) (cycles fuel : nat) (asyn : bool) (p : prog T) (h : list rerun),
    W (p_defs p) -> oof (run_hist cycles fuel asyn p h) = false ->
    exists s0 k seg,
      trace (run_hist cycles fuel asyn p h) = {| e_kind := k; e_id := 0%N; e_tyme := tyme s0 |} :: seg ++ trace s0 /\
      (k = DoReturn \/ k = DoRaise) /\ Hold s0 [] /\ Hold2 s0 [] /\
      tops (dids (rev (unrotate (dq s0 0%N)))) seg = dids (rev (unrotate (dq s0 0%N))).
Proof. intros. now apply run_hist_final_close. Qed.
Print Assumptions C02_final_exit_histories.

(* ... in reverse ENTER order, every deque sorted by enter position (class WX) *)
Theorem C02_reverse_enter_order_histories :
  forall (T : Type) (TT : Time T) (cycles fuel : nat) (asyn : bool) (p : prog T) (h : list rerun),
    WX (p_defs p) -> oof (run_hist cycles fuel asyn p h) = false ->
    exists s0 k seg,
      trace (run_hist cycles fuel asyn p h) = {| e_kind := k; e_id := 0%N; e_tyme := tyme s0 |} :: seg ++ trace s0 /\
      (k = DoReturn \/ k = DoRaise) /\
      tops (rev (canon (dq s0 0%N))) seg = rev (canon (dq s0 0%N)) /\
      (forall x, srt (epos s0) (canon (dq s0 x))).
Proof. intros. now apply run_hist_exit_order. Qed.
Print Assumptions C02_reverse_enter_order_histories.

Example C02_histories_example :
  WXb (p_defs x_prog) = true /\ oof (run_hist 10 100 false x_prog x_hist) = false /\
  map (fun e => (e_kind e, e_id e)) (firstn 9 (trace (run_hist 10 100 false x_prog x_hist)))
    = [(DoReturn, 0); (Exit, 2); (Exit, 3); (Cease, 3); (Exit, 4); (Cease, 4); (Cease, 2); (Exit, 6); (Cease, 6)]%N.
Proof. vm_compute. repeat split. Qed.
