"""C06 — runtime extend/remove take effect exactly and preserve membership."""
from harness.drivers import sched_common as sc
from harness.drivers.sched_common import (COQ_REQUIRES, COQ_CHECK, COQ_CASE_TYPE, COQ_BRANCHES, COQ_HEADER, SHARD, CASE_TIMEOUT, MODELLED,
                                          run_impl, to_coq, shrink, distribution)

PROP = "C06"
RULE = ("programs whose running leaves call extend/remove on the Doist or on a DoDoer (always and not): targets self, siblings "
        "before and after the caller in the pass, not-yet-due and already completed doers, duplicates in the argument, doers "
        "already present, same-step extend+remove; the oracle checks every call against its specification using a call log; "
        "non-trivial = at least one extend and one remove, or a duplicate/self/present target")


def directed():
    Y = lambda t=None, es=None: {"es": es or [], "out": ["y", t]}
    R = lambda es=None: {"es": es or [], "out": ["r", "true"]}
    base = lambda defs, doers, limit=1.5: {"tock": 0.25, "limit": limit, "tyme": 0.0, "doers": doers, "defs": defs, "mode": "do"}
    long = [Y(), Y(), Y(), Y(), Y(), Y(), Y(), Y()]
    return [
        # extend from the first / last doer of the pass; extend with a present doer; duplicates
        base({"1": {"kind": "func", "script": [Y(), Y(es=[["ext", 0, [3]]]), Y(), Y(), R()]}, "2": {"kind": "doer", "script": long},
              "3": {"kind": "func", "script": [Y(), Y(), R()]}}, [1, 2]),
        base({"1": {"kind": "doer", "script": long}, "2": {"kind": "func", "script": [Y(), Y(es=[["ext", 0, [3, 1, 3]]]), Y(), R()]},
              "3": {"kind": "doergen", "script": [Y(), Y(), R()]}}, [1, 2]),
        # remove sibling before / after caller, self, completed doer, duplicates, not-yet-due doer
        base({"1": {"kind": "func", "script": long}, "2": {"kind": "doer", "script": [Y(), Y(es=[["rem", 0, [1, 3]]]), Y(), R()]},
              "3": {"kind": "func", "script": long}}, [1, 2, 3]),
        base({"1": {"kind": "func", "script": [Y(), Y(es=[["rem", 0, [1]]]), Y(), Y(), R()]}, "2": {"kind": "doer", "script": long}}, [1, 2]),
        base({"1": {"kind": "func", "script": [Y(), R()]}, "2": {"kind": "doer", "script": [Y(), Y(), Y(es=[["rem", 0, [1, 1]]]), Y(), R()]}}, [1, 2]),
        base({"1": {"kind": "func", "script": [Y(), Y(2.0), Y(), R()]}, "2": {"kind": "doer", "script": [Y(), Y(0.0), Y(0.0, es=[["rem", 0, [1]]]), R()]}}, [1, 2]),
        # always DoDoer: extend and remove from inside and from outside
        base({"1": {"kind": "nest", "tock": 0.0, "always": True, "kids": [2, 3]},
              "2": {"kind": "func", "script": [Y(), Y(es=[["ext", 1, [5]]]), Y(), Y(es=[["rem", 1, [3, 5]]]), Y(), R()]},
              "3": {"kind": "doer", "script": long}, "4": {"kind": "func", "script": [Y(), Y(), Y(es=[["ext", 1, [6]]]), Y(), R()]},
              "5": {"kind": "func", "script": long}, "6": {"kind": "doer", "script": [Y(), Y(), R()]}}, [1, 4]),
        # extend an always DoDoer that has not yet run in the current cycle (probe of DESIGN §7)
        base({"1": {"kind": "func", "script": [Y(), Y(es=[["ext", 2, [4]]]), Y(), R()]},
              "2": {"kind": "nest", "tock": 0.0, "always": True, "kids": [3]}, "3": {"kind": "doer", "script": long},
              "4": {"kind": "func", "script": [Y(), Y(), Y(), R()]}}, [1, 2]),
        # a doer removes itself and keeps running; a later remove of a sibling must not touch it (Doist and DoDoer)
        base({"1": {"kind": "func", "script": [Y(), Y(es=[["rem", 0, [1]]]), Y(), Y(), Y(), Y(), R()]},
              "2": {"kind": "doer", "script": [Y(), Y(), Y(), Y(es=[["rem", 0, [3]]]), Y(), R()]}, "3": {"kind": "func", "script": long}}, [1, 2, 3]),
        base({"9": {"kind": "nest", "tock": 0.0, "always": True, "kids": [1, 2, 3]},
              "1": {"kind": "func", "script": [Y(), Y(es=[["rem", 9, [1]]]), Y(), Y(), Y(), Y(), R()]},
              "2": {"kind": "doer", "script": [Y(), Y(), Y(), Y(es=[["rem", 9, [3]]]), Y(), R()]}, "3": {"kind": "func", "script": long}}, [9]),
        # a failing extend adds nothing: 1 extends the root with [3, 4], 4 raises in its enter; same inside an always DoDoer
        base({"1": {"kind": "func", "script": [Y(), Y(es=[["ext", 0, [3, 4]]]), Y(), R()]}, "2": {"kind": "doer", "script": long},
              "3": {"kind": "func", "script": [Y(), Y(), R()]}, "4": {"kind": "doer", "script": [{"es": [], "out": ["x"]}]}}, [1, 2]),
        base({"9": {"kind": "nest", "tock": 0.0, "always": True, "kids": [1, 2]},
              "1": {"kind": "func", "script": [Y(), Y(es=[["ext", 9, [3, 4]]]), Y(), R()]}, "2": {"kind": "doer", "script": long},
              "3": {"kind": "func", "script": [Y(), Y(), R()]}, "4": {"kind": "doer", "script": [{"es": [], "out": ["x"]}]}}, [9]),
        # a doer that completed by itself is removed and later added again: it starts a new life (entered by the
        # extend, first recur in the next cycle), in a Doist and in an always DoDoer, for every leaf kind
        *[base({"1": {"kind": "func", "script": [Y(), Y(), Y(), Y(es=[["rem", tgt, [2]]]), Y(es=[["ext", tgt, [2]]]), Y(), Y(), Y(), R()]},
                "2": {"kind": kind, "script": [Y(), Y(), R()]}, **extra}, root, limit=3.0)
          for kind in ("doer", "doergen", "func", "bound")
          for tgt, root, extra in ((0, [1, 2], {}), (9, [9], {"9": {"kind": "nest", "tock": 0.0, "always": True, "kids": [1, 2]}}))],
        # same step: remove then extend the same doer again (restart)
        base({"1": {"kind": "func", "script": [Y(), Y(es=[["rem", 0, [2]], ["ext", 0, [2]]]), Y(), Y(), R()]}, "2": {"kind": "doer", "script": long}}, [1, 2]),
    ]


def generate(rng, tier):
    n = 1 if tier == "quick" else 14
    out = [sc.gen_dynamic(rng, faults=False, always_p=0.6, tocks=rng.choice(["dyadic", "any"])) for _ in range(600 * n)]
    # calls that fail (a new doer raises in its enter inside extend) and everything else of the broad stream
    out += [sc.gen_dynamic(rng, faults=True, always_p=0.6, tocks="dyadic") for _ in range(150 * n)]
    for p in sc.gen_broad(rng, 150 * n):
        p["broad"] = True
        out.append(p)
    # remove() given the scheduler's own live .doers list, or a lazy iterable over it
    out += sc.gen_remove_live(rng, 60 * n)
    # remove() of doers one of which raises in its own cease/exit context
    out += sc.gen_remove_hookraise(rng, 60 * n)
    # extend()/remove() called from a doer's enter context while the scheduler is still entering its doers
    out += sc.gen_enter_effects(rng, 60 * n)
    sc.add_falsy(rng, out)
    # in a fifth of the programs the bound-method doers are doize'd methods, named anew (equal, not identical) in
    # every extend()/remove() argument
    for p in out:
        if rng.random() < 0.2:
            for d in p["defs"].values():
                if d["kind"] == "bound":
                    d["fresh_method"] = True
    return out


def _running_chain(case, caller):
    """caller and its (initial) ancestors: the doers that are executing when caller makes a call."""
    par = sc.parents(case)
    out, x = [caller], caller
    while par.get(x, 0) != 0:
        x = par[x]; out.append(x)
    return out


def _dedupe(xs):
    out = []
    for x in xs:
        if x not in out:
            out.append(x)
    return out


def check_calls(case, obs):
    """Returns list of (tag, message)."""
    tr = obs["trace"]
    errs = []
    members = {0: list(case["doers"])}
    for i in sc.nest_ids(case):
        members[i] = list(case["defs"][str(i)]["kids"])
    for rec in obs["efflog"]:
        t, before, after = rec["target"], rec["before"], rec.get("after")
        if "end" not in rec:
            # the call raised (a new doer failed in its enter): nothing was added or removed
            ar = rec.get("after_raise")
            if rec["kind"] == "ext" and ar is not None and ar != before:
                errs.append(("members", f"extend({rec['ids']}) on {t} raised but left doers {ar}, before the call {before}"))
            if rec["kind"] == "rem" and ar is not None:
                # the call raised out of a removed doer's own cease/exit context: whatever it force-closed is
                # removed, closed doers never stay listed
                closed = {i for k, i, _ in tr[rec["start"]:] if k == "Exit" and i in rec["ids"]}
                upto = next((n for n, (k, i, _) in enumerate(tr[rec["start"]:]) if k in ("Abort", "DoRaise")), None)
                if upto is not None:
                    closed = {i for k, i, _ in tr[rec["start"]:rec["start"] + upto] if k == "Exit" and i in rec["ids"]}
                still = [x for x in ar if x in closed]
                if still:
                    errs.append(("members", f"remove({rec['ids']}) on {t} raised out of a removed doer's exit context and left "
                                            f"the force-closed doers {still} listed: {ar}"))
                # ... and every removed doer that was alive is force-closed before the exception leaves remove():
                # one doer's failing exit context does not stop the others from being closed
                win = tr[rec["start"]:(rec["start"] + upto) if upto is not None else len(tr)]
                running = _running_chain(case, rec["caller"])
                for x in _dedupe([x for x in rec["ids"] if x in before]):
                    if x in running:
                        continue
                    opened = 0
                    for k, i, _ in tr[:rec["start"]]:
                        if i == x and k == "Enter":
                            opened += 1
                        elif i == x and k == "Exit":
                            opened -= 1
                    ks = [k for k, i, _ in win if i == x and k in ("Cease", "Exit")]
                    if opened > 0 and ks != ["Cease", "Exit"]:
                        errs.append(("close", f"remove({rec['ids']}) on {t} raised out of a removed doer's exit context; removed doer {x} "
                                              f"got {ks} before the exception left remove(), expected Cease, Exit"))
                if ar is not None:
                    members[t] = ar
            continue
        if before != members[t]:
            errs.append(("members", f"doers of {t} before call = {before}, added-and-not-removed = {members[t]}"))
        window = tr[rec["start"]:rec["end"]]
        tyme0 = tr[rec["end"]][2]
        if rec["kind"] == "ext":
            new = _dedupe([x for x in rec["ids"] if x not in before])
            if after != before + new:
                errs.append(("members", f"extend({rec['ids']}) on {before} gave {after}, expected {before + new}"))
            entered = [i for k, i, _ in window if k == "Enter" and i in new]
            if entered != new:
                errs.append(("enter", f"extend({rec['ids']}): new doers {new} but Enter events {entered} before extend returned"))
            if any(k == "Recur" for k, i, _ in window):
                errs.append(("recur-in-extend", "a doer recurred inside extend()"))
            # a new doer is only entered by extend(): it does not finish there unless its own enter step says so
            for x in new:
                dx = case["defs"].get(str(x))
                if dx and dx["kind"] != "nest" and dx["script"] and dx["script"][0]["out"][0] == "y" and not dx.get("hookraise"):
                    ks = [k for k, i, _ in window if i == x]
                    if ks != ["Enter"]:
                        errs.append(("enter", f"doer {x} added by extend() went through {ks} inside extend(), expected just Enter"))
            if any(h != tyme0 for _, _, h in window):
                errs.append(("enter", "events inside extend() at a different tyme"))
            if not new and window:
                errs.append(("present", f"extend with present doers {rec['ids']} produced events {[(k, i) for k, i, _ in window]}"))
            # first recur in the next cycle, not the current one
            for x in new:
                for k, i, h in tr[rec["end"]:]:
                    if i == x and k == "Enter":
                        break
                    if i == x and k == "Recur":
                        # (a doer added during the scheduler's enter phase runs in the first cycle like the others)
                        if sc.fl(h) <= sc.fl(tyme0) and rec.get("phase") != "enter":
                            errs.append(("same-cycle", f"doer {x} added to {t} by {rec['caller']} at tyme {sc.fl(tyme0)} recurred in the same cycle"))
                        break
            members[t] = before + new
        else:
            rd = _dedupe([x for x in rec["ids"] if x in before])
            exp_after = [x for x in before if x not in rd]
            if after != exp_after:
                errs.append(("members", f"remove({rec['ids']}) on {before} gave {after}, expected {exp_after}"))
            running = _running_chain(case, rec["caller"])
            # only the named doers (and what lives under a named DoDoer) may be closed by this call
            allowed = set(rd)
            stack = list(rd)
            while stack:
                y = stack.pop()
                dy = case["defs"].get(str(y))
                if dy and dy["kind"] == "nest":
                    for sid, lst, _ in obs["scheds"]:
                        if sid == y:
                            for k2 in lst:
                                if k2 not in allowed:
                                    allowed.add(k2); stack.append(k2)
                    for k2 in dy["kids"]:
                        if k2 not in allowed:
                            allowed.add(k2); stack.append(k2)
            strangers = [i for k, i, _ in window if k == "Cease" and i not in allowed]
            if strangers:
                errs.append(("stranger", f"remove({rec['ids']}) on {t} by {rec['caller']} force-closed {strangers}, which it did not name"))
            for x in rd:
                # alive and suspended at call time?
                opened = 0
                for k, i, _ in tr[:rec["start"]]:
                    if i == x and k == "Enter":
                        opened += 1
                    elif i == x and k == "Exit":
                        opened -= 1
                ks = [k for k, i, _ in window if i == x and k in ("Cease", "Exit")]
                if x in running:
                    if ks:
                        errs.append(("self", f"running doer {x} was closed by its own remove"))
                    continue
                if opened > 0 and ks != ["Cease", "Exit"]:
                    errs.append(("close", f"removed doer {x} got {ks} before remove returned, expected Cease, Exit"))
                if opened == 0 and ks:
                    errs.append(("close", f"already finished doer {x} got {ks} on remove"))
                for pos, (k, i, _) in enumerate(tr[rec["end"]:], start=rec["end"]):
                    if k in ("DoReturn", "DoRaise"):
                        break               # a later run may list the doer again
                    if i == x and k == "Enter":
                        # started again: only an extend() naming it can do that
                        if not any(r2["kind"] == "ext" and x in r2["ids"] and r2["start"] <= pos <= r2.get("end", len(tr))
                                   for r2 in obs["efflog"]):
                            errs.append(("zombie", f"removed doer {x} was entered again at event {pos} although nothing added it back"))
                        break
                    if i == x and k == "Recur":
                        errs.append(("zombie", f"removed doer {x} recurred after remove returned"))
                        break
            members[t] = exp_after
    # a doer is started only when it is added (or a run starts): never a second generator beside a live one
    open_ = {}
    for k, i, h in tr:
        if k == "Enter":
            if open_.get(i, 0) > 0:
                errs.append(("enter", f"doer {i} was entered again at tyme {sc.fl(h)} while its previous lifecycle was still running"))
                break
            open_[i] = open_.get(i, 0) + 1
        elif k == "Exit":
            open_[i] = open_.get(i, 0) - 1
    for sid, lst, _ in obs["scheds"]:
        if sid in members and lst != members[sid]:
            errs.append(("members", f"final doers of {sid} = {lst}, added-and-not-removed = {members[sid]}"))
    return errs


def oracle(case, obs):
    if case.get("broad") and (case.get("again") or case.get("fresh")):
        return sc.broad_oracle(case, obs)
    if obs["raised"] not in ("none", "script", "kbd"):
        return f"do() raised: {obs['raised']}"
    why = sc.clock_oracle(obs)
    if why:
        return why
    errs = check_calls(case, obs)
    if errs:
        return "; ".join(f"[{t}] {m}" for t, m in errs[:3])
    return None


def classify(case, obs, why):
    errs = check_calls(case, obs)
    tags = {t for t, _ in errs}
    # D42: extend() of a scheduler other than the one the caller is running under, which has not yet
    # run in the current cycle: the new doer recurs in this very cycle
    if tags == {"same-cycle"}:
        par = sc.parents(case)
        ok = True
        for t, m in errs:
            pass
        for rec in obs["efflog"]:
            pass
        # every same-cycle report must concern a target that is not in the caller's running chain
        for rec in obs["efflog"]:
            if rec["kind"] != "ext" or "end" not in rec:
                continue
        culprit_targets = set()
        for t, m in errs:
            # message: "doer X added to T by C at tyme ..."
            parts = m.split()
            T, C = int(parts[4]), int(parts[6])
            chain = _running_chain(case, C)
            scheds_of_caller = {par.get(x, 0) for x in chain}
            if T in scheds_of_caller:
                return None
        return "D42"
    return None


def nontrivial(case, obs):
    kinds = {r["kind"] for r in obs.get("efflog", [])}
    if kinds == {"ext", "rem"}:
        return True
    for r in obs.get("efflog", []):
        if len(set(r["ids"])) != len(r["ids"]) or r["caller"] in r["ids"] or any(x in r["before"] for x in r["ids"] if r["kind"] == "ext"):
            return True
    return False
