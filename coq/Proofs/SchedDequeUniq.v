(* The "second invariant", part 3: every deed refers to a suspended doer and no
   doer is referred to by two deeds — counting the deeds of all deques and of
   the local lists the interpreter is working on ([E], threaded exactly as in
   Proofs/SchedDequeAll.v).  Unconditional (no static class needed).
   With [hold_all]: a doer is suspended iff it is held by exactly one deed. *)
From Hio Require Import Base.Prelude Base.AMap Base.Time Model.Sched Proofs.SchedEqs Proofs.SchedFrame Proofs.SchedLife
  Proofs.SchedDeque Proofs.SchedDequeHold Proofs.SchedDequeAll.

Section Uniq.
Context {T : Type} `{Time T}.
Implicit Types s a b : st T.

Definition cnt (x : id) (l : list id) : nat := count_occ N.eq_dec l x.

Lemma cnt_app x l1 l2 : cnt x (l1 ++ l2) = (cnt x l1 + cnt x l2)%nat.
Proof. apply count_occ_app. Qed.
Lemma cnt_in x l : In x l <-> (cnt x l > 0)%nat.
Proof. apply count_occ_In. Qed.
Lemma cnt_cons x y l : cnt x (y :: l) = ((if N.eq_dec y x then 1 else 0) + cnt x l)%nat.
Proof. unfold cnt. cbn [count_occ]. destruct (N.eq_dec y x); reflexivity. Qed.
Lemma cnt_rev x l : cnt x (rev l) = cnt x l.
Proof. induction l as [|y l IH]; [reflexivity|]. cbn [rev]. rewrite cnt_app, IH, !cnt_cons. cbn [cnt count_occ]. lia. Qed.

Lemma cnt_dids_rev x (ds : list (deed T)) : cnt x (dids (rev ds)) = cnt x (dids ds).
Proof.
  induction ds as [|d ds IH]; [reflexivity|]. cbn [rev]. rewrite dids_app, cnt_app, IH.
  change (d :: ds) with ([d] ++ ds). rewrite dids_app, cnt_app. lia.
Qed.
Lemma cnt_dids_unrotate x (ds : list (deed T)) : cnt x (dids (unrotate ds)) = cnt x (dids ds).
Proof.
  unfold unrotate. pose proof (split_mark_spec ds []) as S.
  destruct (split_mark ds []) as [[u r]|]; [|reflexivity].
  cbn [rev app] in S. rewrite S. change (DMark :: r) with ([DMark] ++ r).
  rewrite !dids_app, !cnt_app. cbn. lia.
Qed.
Lemma cnt_dids_filter x (p : deed T -> bool) (ds : list (deed T)) :
  (cnt x (dids (filter p ds)) + cnt x (dids (filter (fun d => negb (p d)) ds)) = cnt x (dids ds))%nat.
Proof.
  induction ds as [|d ds IH]; [reflexivity|]. cbn [filter].
  change (d :: ds) with ([d] ++ ds). rewrite (dids_app [d] ds), cnt_app.
  destruct (p d); cbn [negb].
  - change (d :: filter p ds) with ([d] ++ filter p ds). rewrite dids_app, cnt_app. lia.
  - change (d :: filter (fun d0 => negb (p d0)) ds) with ([d] ++ filter (fun d0 => negb (p d0)) ds).
    rewrite dids_app, cnt_app. lia.
Qed.

Definition allq (qf : id -> list (deed T)) (L : list id) : list id := flat_map (fun x => dids (qf x)) L.

Lemma allq_ext qf qf' L : (forall x, In x L -> qf' x = qf x) -> allq qf' L = allq qf L.
Proof.
  induction L as [|y L IH]; intro Hx; [reflexivity|]. cbn [allq flat_map].
  rewrite (Hx y) by now left. f_equal. apply IH. intros x Hin. apply Hx. now right.
Qed.

Lemma allq_split L sid : NoDup L -> In sid L ->
  exists L0, ~ In sid L0 /\ NoDup L0 /\ forall qf x, cnt x (allq qf L) = (cnt x (dids (qf sid)) + cnt x (allq qf L0))%nat.
Proof.
  intros ND Hin. destruct (in_split _ _ Hin) as (L1 & L2 & ->).
  exists (L1 ++ L2). split; [|split].
  - now apply NoDup_remove_2.
  - now apply NoDup_remove_1 in ND.
  - intros qf x. unfold allq. rewrite !flat_map_app. cbn [flat_map]. rewrite !cnt_app. lia.
Qed.

Record Hold2P (g : id -> gstate) (qf : id -> list (deed T)) (E : list id) : Prop := {
  h2_susp : forall i, In i E \/ (exists sid, In i (dids (qf sid))) -> exists pc, g i = GSusp pc;
  h2_uniq : forall L, NoDup L -> forall x, (cnt x E + cnt x (allq qf L) <= 1)%nat }.

Definition Hold2 s E := Hold2P (get_gen s) (dq s) E.
Definition I2 s E := oof s = true \/ Hold2 s E.

Lemma I2_map s s' E E' : oof s' = oof s -> (Hold2 s E -> Hold2 s' E') -> I2 s E -> I2 s' E'.
Proof. intros O F [Ho|Hh]; [left; congruence|right; auto]. Qed.
Lemma i2_emit s E k i : I2 s E -> I2 (emit s k i) E. Proof. exact (fun x => x). Qed.
Lemma i2_done s E i d : I2 s E -> I2 (set_done s i d) E. Proof. exact (fun x => x). Qed.
Lemma i2_tyme s E t : I2 s E -> I2 (set_tyme s t) E. Proof. exact (fun x => x). Qed.
Lemma i2_rlive s E v : I2 s E -> I2 (set_rlive s v) E. Proof. exact (fun x => x). Qed.
Lemma hold2_emit s E k i : Hold2 s E -> Hold2 (emit s k i) E. Proof. exact (fun x => x). Qed.

Lemma nodup1 (x : id) : NoDup [x].
Proof. constructor; [intros []|constructor]. Qed.

(* a held doer is held nowhere else *)
Lemma held_once s i X : Hold2 s (i :: X) -> ~ In i X /\ forall sid, ~ In i (qids s sid).
Proof.
  intros [_ U]. split.
  - intro Hin. apply cnt_in in Hin. specialize (U [] (NoDup_nil _) i). rewrite cnt_cons in U.
    destruct (N.eq_dec i i); [|congruence]. cbn in U. lia.
  - intros sid Hin. apply cnt_in in Hin. specialize (U [sid] (nodup1 sid) i).
    rewrite cnt_cons in U. destruct (N.eq_dec i i); [|congruence].
    unfold allq in U. cbn [flat_map] in U. rewrite app_nil_r in U. unfold qids in Hin. lia.
Qed.

Lemma not_held s i X : Hold2 s X -> ~ is_susp s i -> cnt i X = 0%nat /\ forall L, cnt i (allq (dq s) L) = 0%nat.
Proof.
  intros [S _] Ns. split.
  - destruct (cnt i X) eqn:C; [reflexivity|]. exfalso. apply Ns. apply S. left. apply cnt_in. lia.
  - intro L. destruct (cnt i (allq (dq s) L)) eqn:C; [reflexivity|]. exfalso. apply Ns. apply S. right.
    assert (Hin : In i (allq (dq s) L)) by (apply cnt_in; lia).
    unfold allq in Hin. apply in_flat_map in Hin. destruct Hin as (sid & _ & Hin). now exists sid.
Qed.

(* the local lists change *)
Lemma hold2_perm s E E' : (forall x, (cnt x E' <= cnt x E)%nat) -> Hold2 s E -> Hold2 s E'.
Proof.
  intros C [S U]. split.
  - intros i [Hi|Hi]; apply S; [left|now right]. apply cnt_in. apply cnt_in in Hi. specialize (C i). lia.
  - intros L ND x. specialize (U L ND x). specialize (C x). lia.
Qed.

(* the deque of one scheduler changes *)
Lemma hold2_sched s sid c' E E' :
  (forall x, (cnt x E' + cnt x (dids (deeds c')) <= cnt x E + cnt x (qids s sid))%nat) ->
  Hold2 s E -> Hold2 (set_sched s sid c') E'.
Proof.
  intros C [S U].
  assert (Q' : forall x, x <> sid -> dq (set_sched s sid c') x = dq s x) by (intros; now apply dq_set_other).
  split.
  - intros i Hi. apply S.
    assert (Hc : In i E' \/ In i (dids (deeds c')) \/ (exists x, x <> sid /\ In i (dids (dq s x)))).
    { destruct Hi as [Hi|[x Hi]]; [now left|right]. destruct (N.eq_dec x sid) as [Heq|Hne].
      - subst x. rewrite dq_set_same in Hi. now left.
      - rewrite Q' in Hi by exact Hne. right. now exists x. }
    destruct Hc as [Hi'|[Hi'|[x [_ Hi']]]].
    + apply cnt_in in Hi'. specialize (C i).
      destruct (cnt i E) eqn:CE; [right; exists sid; apply cnt_in; unfold qids in C; lia|left; apply cnt_in; lia].
    + apply cnt_in in Hi'. specialize (C i).
      destruct (cnt i E) eqn:CE; [right; exists sid; apply cnt_in; unfold qids in C; lia|left; apply cnt_in; lia].
    + right. now exists x.
  - intros L ND x. specialize (C x). destruct (in_dec N.eq_dec sid L) as [Hin|Hnin].
    + destruct (allq_split L sid ND Hin) as (L0 & Hn0 & ND0 & Sp).
      rewrite (Sp (dq (set_sched s sid c')) x), dq_set_same.
      rewrite (allq_ext (dq s) (dq (set_sched s sid c')) L0)
        by (intros y Hy; apply Q'; intro Heq; subst y; contradiction).
      specialize (U L ND x). rewrite (Sp (dq s) x) in U. unfold qids in C. lia.
    + rewrite (allq_ext (dq s) (dq (set_sched s sid c')) L)
        by (intros y Hy; apply Q'; intro Heq; subst y; contradiction).
      assert (ND' : NoDup (sid :: L)) by (constructor; assumption).
      specialize (U (sid :: L) ND' x). unfold allq in U. cbn [flat_map] in U. rewrite cnt_app in U.
      unfold qids in C. unfold allq. lia.
Qed.

(* the state of one generator changes *)
Lemma g2_start s i pc X : Hold2 s X -> startable s i = true -> Hold2 (set_gen s i (GRun pc)) X.
Proof.
  intros [S U] St. split; [|exact U].
  intros j Hj. destruct (S j Hj) as [pcj Gj]. exists pcj. rewrite gen_set_gen_other; [exact Gj|].
  intro Heq. subst j. unfold startable in St. rewrite Gj in St. discriminate.
Qed.

Lemma g2_resume s i pc X : Hold2 s (i :: X) -> Hold2 (set_gen s i (GRun pc)) X.
Proof.
  intros Hh. destruct (held_once s i X Hh) as [NX NQ]. destruct Hh as [S U]. split.
  - intros j Hj. assert (Hne : j <> i).
    { intro Heq. subst j. destruct Hj as [Hj|[sid Hj]]; [contradiction|exact (NQ sid Hj)]. }
    rewrite gen_set_gen_other by exact Hne. apply S. destruct Hj as [Hj|Hj]; [left; now right|now right].
  - intros L ND x. specialize (U L ND x). rewrite cnt_cons in U.
    change (dq (set_gen s i (GRun pc))) with (dq s). destruct (N.eq_dec i x); lia.
Qed.

Lemma g2_yield s i pc X : Hold2 s X -> running s i -> Hold2 (set_gen s i (GSusp pc)) (i :: X).
Proof.
  intros Hh [pc' R].
  assert (Ns : ~ is_susp s i) by (intros [p Hp]; congruence).
  destruct (not_held s i X Hh Ns) as [C0 CQ]. destruct Hh as [S U]. split.
  - intros j Hj. destruct (N.eq_dec j i) as [Heq|Hne].
    + subst j. exists pc. apply gen_set_gen_same.
    + rewrite gen_set_gen_other by exact Hne. apply S.
      destruct Hj as [[Hj|Hj]|Hj]; [congruence|now left|now right].
  - intros L ND x. specialize (U L ND x). rewrite cnt_cons. destruct (N.eq_dec i x) as [Heq|Hne]; [|exact U].
    subst x. change (dq (set_gen s i (GSusp pc))) with (dq s). rewrite C0, CQ. lia.
Qed.

Lemma g2_finish s i X : Hold2 s X -> running s i -> Hold2 (set_gen s i GDone) X.
Proof.
  intros [S U] [pc' R]. split; [|exact U].
  intros j Hj. destruct (S j Hj) as [pcj Gj]. exists pcj. rewrite gen_set_gen_other; [exact Gj|].
  intro Heq. subst j. congruence.
Qed.

(* the transitions of one deque *)
Lemma hold2_append s sid (ds' : list (deed T)) X :
  Hold2 s (dids ds' ++ X) -> Hold2 (set_deeds s sid (dq s sid ++ ds')) X.
Proof.
  unfold set_deeds. apply hold2_sched. intro x. cbn [deeds]. rewrite dids_app, !cnt_app. unfold qids. lia.
Qed.

Lemma hold2_pop s sid d r X : dq s sid = d :: r -> Hold2 s X -> Hold2 (set_deeds s sid r) (dids [d] ++ X).
Proof.
  intro Q. unfold set_deeds. apply hold2_sched. intro x. cbn [deeds]. unfold qids. rewrite Q.
  change (d :: r) with ([d] ++ r). rewrite dids_app, !cnt_app. lia.
Qed.

Lemma hold2_clear s sid X : Hold2 s X -> Hold2 (set_deeds s sid []) (dids (rev (unrotate (dq s sid))) ++ X).
Proof.
  unfold set_deeds. apply hold2_sched. intro x. cbn [deeds]. rewrite cnt_app, cnt_dids_rev, cnt_dids_unrotate.
  unfold qids. cbn. lia.
Qed.

Lemma hold2_remove s t X (is_r : deed T -> bool) dl :
  Hold2 s X ->
  Hold2 (set_sched s t {| doers := dl; deeds := filter (fun d => negb (is_r d)) (dq s t) |})
        (dids (rev (filter is_r (unrotate (dq s t)))) ++ X).
Proof.
  apply hold2_sched. intro x. cbn [deeds]. rewrite cnt_app, cnt_dids_rev. unfold qids.
  pose proof (cnt_dids_filter x is_r (unrotate (dq s t))) as F1.
  pose proof (cnt_dids_filter x is_r (dq s t)) as F2.
  assert (F3 : cnt x (dids (filter is_r (unrotate (dq s t)))) = cnt x (dids (filter is_r (dq s t)))).
  { clear F1 F2. unfold unrotate. pose proof (split_mark_spec (dq s t) []) as S.
    destruct (split_mark (dq s t) []) as [[u r]|]; [|reflexivity].
    cbn [rev app] in S. rewrite S. rewrite !filter_app, !dids_app, !cnt_app. cbn [filter].
    destruct (is_r DMark); [change (DMark :: filter is_r r) with ([DMark] ++ filter is_r r); rewrite dids_app, cnt_app; cbn; lia|lia]. }
  lia.
Qed.

(* ---------- preserved by every interpreter function ---------- *)

Variable tk : T.

Definition hold2_at (f : nat) : Prop :=
  (forall s X i s' r, I2 s X -> gen_start tk f s i = (s', r) -> I2 s' (eout r i X)) /\
  (forall s X i k sc pc s' r, I2 s X -> running s i -> run_step tk f s i k sc pc = (s', r) -> I2 s' (eout r i X)) /\
  (forall s X i s' r, I2 s (i :: X) -> gen_send tk f s i = (s', r) -> I2 s' (eout r i X)) /\
  (forall s X i, I2 s (i :: X) -> I2 (gen_close tk f s i) X) /\
  (forall s X sid, I2 s X -> I2 (close_own tk f s sid) X) /\
  (forall s X (ds : list (deed T)), I2 s (dids ds ++ X) -> I2 (close_list tk f s ds) X) /\
  (forall s X sid ids s' r, I2 s X -> enter_own tk f s sid ids = (s', r) -> I2 s' X) /\
  (forall s X ids (acc : list (deed T)) s' r acc', I2 s (dids acc ++ X) ->
        enter_local tk f s ids acc = (s', r, acc') -> I2 s' (lout r acc' X)) /\
  (forall s X c es s' r, I2 s X -> run_effects tk f s c es = (s', r) -> I2 s' X) /\
  (forall s X sid s' r, I2 s X -> recur_pass tk f s sid = (s', r) -> I2 s' X) /\
  (forall s X sid s' r, I2 s X -> recur_loop tk f s sid = (s', r) -> I2 s' X).

Lemma i2_yield s i pc X : I2 s X -> running s i -> I2 (set_gen s i (GSusp pc)) (i :: X).
Proof. intros HI R. revert HI. apply I2_map; [reflexivity|]. intro Hh. now apply g2_yield. Qed.
Lemma i2_finish s i X : I2 s X -> running s i -> I2 (set_gen s i GDone) X.
Proof. intros HI R. revert HI. apply I2_map; [reflexivity|]. intro Hh. now apply g2_finish. Qed.

Ltac by_oof2 f O :=
  left; eapply steps_oof; [|exact O];
  destruct (frame_all tk f) as (?G1 & ?G2 & ?G3 & ?G4 & ?G5 & ?G6 & ?G7 & ?G8 & ?G9 & ?G10 & ?G11);
  eauto 3 using st_refl.

Lemma susp_of_head s i X : Hold2 s (i :: X) -> exists pc, get_gen s i = GSusp pc.
Proof. intros [S _]. apply S. left. now left. Qed.

Lemma hold2_all : forall f, hold2_at f.
Proof.
  induction f as [|f IH].
  - unfold hold2_at. repeat match goal with |- _ /\ _ => split end; intros;
      try match goal with E : _ = _ |- _ => cbn in E; inversion E; subst; clear E end; cbn; now left.
  - destruct IH as (Ist & Irs & Isd & Icl & Ico & Ili & Ieo & Iel & Ief & Irp & Irl).
    unfold hold2_at. repeat match goal with |- _ /\ _ => split end.
    + (* gen_start *)
      intros s X i s' r HI E. destruct HI as [O|Hh]; [by_oof2 (S f) O|].
      rewrite gen_start_S in E.
      destruct (startable s i) eqn:St; cbn [negb] in E; [|fin; right; exact Hh].
      destruct (get (defs s) i) as [[k sc|t0 al kids]|] eqn:D; [| |fin; right; exact Hh].
      * eapply Irs; [| |exact E].
        -- right. apply hold2_emit, g2_start; assumption.
        -- exists 0%nat. apply gen_set_gen_same.
      * cbv zeta in E.
        set (s1 := emit (set_gen s i (GRun 0)) Enter i) in *.
        assert (R1 : running s1 i) by (exists 0%nat; apply gen_set_gen_same).
        assert (I1 : I2 s1 X) by (right; apply hold2_emit, g2_start; assumption).
        destruct (enter_own tk f s1 i _) as [s2 r0] eqn:Ee.
        assert (I2' : I2 s2 X) by (eapply Ieo; [exact I1|exact Ee]).
        assert (R2 : running s2 i).
        { destruct (keep_all tk f i) as (_ & _ & _ & K & _). eapply K; eassumption. }
        assert (R3 : forall kbd : bool, running (close_own tk f (if kbd then s2 else emit s2 Abort i) i) i).
        { intro kbd. destruct (keep_all tk f i) as (_ & _ & K & _). apply K. destruct kbd; exact R2. }
        destruct r0; fin; cbn [eout].
        -- now apply i2_yield.
        -- now apply i2_yield.
        -- apply (i2_finish (emit (close_own tk f (if kbd then s2 else emit s2 Abort i) i) Exit i)); [|exact (R3 kbd)].
           apply i2_emit, Ico. destruct kbd; [exact I2'|apply i2_emit; exact I2'].
        -- exact I2'.
    + (* run_step *)
      intros s X i k sc pc s' r HI R E. destruct HI as [O|Hh]; [by_oof2 (S f) O|].
      rewrite run_step_S in E. cbv zeta in E.
      destruct (run_effects tk f s i _) as [s1 r0] eqn:Ee.
      assert (I1 : I2 s1 X) by (eapply Ief; [right; exact Hh|exact Ee]).
      assert (R1 : running s1 i).
      { destruct (keep_all tk f i) as (_ & _ & _ & _ & _ & K & _). eapply K; eassumption. }
      destruct r0; [| |destruct kbd|]; cbv beta iota zeta in E;
        try (destruct (f_out _)); fin; cbn [eout];
        try (now apply i2_yield); try exact I1;
        repeat first [exact I1 | exact R1 | apply i2_done | apply i2_emit | apply i2_finish].
    + (* gen_send *)
      intros s X i s' r HI E. destruct HI as [O|Hh]; [by_oof2 (S f) O|].
      rewrite gen_send_S in E.
      destruct (susp_of_head s i X Hh) as [pc G]. rewrite G in E.
      destruct (get (defs s) i) as [[k sc|t0 al kids]|] eqn:D.
      * eapply Irs; [| |exact E].
        -- right. apply hold2_emit. now apply g2_resume.
        -- exists pc. apply gen_set_gen_same.
      * cbv zeta in E.
        set (s1 := emit (set_gen s i (GRun pc)) Recur i) in *.
        assert (R1 : running s1 i) by (exists pc; apply gen_set_gen_same).
        assert (I1 : I2 s1 X) by (right; apply hold2_emit; now apply g2_resume).
        destruct (recur_pass tk f s1 i) as [s2 r0] eqn:Ee.
        assert (I2' : I2 s2 X) by (eapply Irp; [exact I1|exact Ee]).
        assert (R2 : running s2 i).
        { destruct (keep_all tk f i) as (_ & _ & _ & _ & _ & _ & K). eapply K; eassumption. }
        assert (Fin : forall s3, I2 s3 X -> running s3 i -> I2 (set_gen (emit (close_own tk f s3 i) Exit i) i GDone) X).
        { intros s3 I3 R3. apply (i2_finish (emit (close_own tk f s3 i) Exit i)).
          - apply i2_emit, Ico. exact I3.
          - destruct (keep_all tk f i) as (_ & _ & K & _). now apply K. }
        destruct r0; cbv beta iota zeta in E.
        -- match type of E with (if ?c then _ else _) = _ => destruct c end; fin; cbn [eout].
           ++ apply Fin; [apply i2_emit, i2_done; exact I2'|exact R2].
           ++ apply i2_yield; [apply i2_done; exact I2'|exact R2].
        -- match type of E with (if ?c then _ else _) = _ => destruct c end; fin; cbn [eout].
           ++ apply Fin; [apply i2_emit, i2_done; exact I2'|exact R2].
           ++ apply i2_yield; [apply i2_done; exact I2'|exact R2].
        -- fin. cbn [eout]. apply Fin; destruct kbd; try exact I2'; try exact R2.
        -- fin. exact I2'.
      * fin. cbn [eout]. right. eapply hold2_perm; [|exact Hh]. intro x. rewrite cnt_cons. lia.
    + (* gen_close *)
      intros s X i HI. destruct HI as [O|Hh]; [by_oof2 (S f) O|].
      rewrite gen_close_S.
      destruct (susp_of_head s i X Hh) as [pc G]. rewrite G.
      destruct (get (defs s) i) as [[k sc|t0 al kids]|] eqn:D.
      * apply (i2_finish (emit (emit (set_gen s i (GRun pc)) Cease i) Exit i)).
        -- apply i2_emit, i2_emit. right. now apply g2_resume.
        -- exists pc. apply gen_set_gen_same.
      * cbv zeta. apply (i2_finish (emit (close_own tk f (emit (set_gen s i (GRun pc)) Cease i) i) Exit i)).
        -- apply i2_emit, Ico, i2_emit. right. now apply g2_resume.
        -- destruct (keep_all tk f i) as (_ & _ & K & _). apply K. exists pc. apply gen_set_gen_same.
      * right. eapply hold2_perm; [|exact Hh]. intro x. rewrite cnt_cons. lia.
    + (* close_own *)
      intros s X sid HI. rewrite close_own_S. cbv zeta. apply Ili.
      revert HI. apply I2_map; [reflexivity|]. apply hold2_clear.
    + (* close_list *)
      intros s X ds HI. rewrite close_list_S. destruct ds as [|[|i re] r].
      * exact HI.
      * apply Ili. exact HI.
      * apply Ili. apply Icl. exact HI.
    + (* enter_own *)
      intros s X sid ids s' r HI E. rewrite enter_own_S in E.
      destruct ids as [|i rest]; [fin; exact HI|]. cbv zeta in E.
      destruct (gen_start tk f _ i) as [s1 r0] eqn:Eg.
      assert (I1 : I2 s1 (eout r0 i X)) by (eapply Ist; [apply i2_done; exact HI|exact Eg]).
      destruct r0; fin.
      * eapply Ieo; [|exact E].
        revert I1. apply I2_map; [reflexivity|]. intro Hh1.
        apply (hold2_append s1 sid [DDeed i (tyme s1)] X). exact Hh1.
      * eapply Ieo; [exact I1|exact E].
      * exact I1.
      * exact I1.
    + (* enter_local *)
      intros s X ids acc s' r acc' HI E. rewrite enter_local_S in E.
      destruct ids as [|i rest]; [fin; exact HI|]. cbv zeta in E.
      destruct (gen_start tk f _ i) as [s1 r0] eqn:Eg.
      assert (I1 : I2 s1 (eout r0 i (dids acc ++ X))) by (eapply Ist; [apply i2_done; exact HI|exact Eg]).
      destruct r0; fin.
      * eapply Iel; [|exact E]. revert I1. apply I2_map; [reflexivity|]. apply hold2_perm.
        intro x. cbn [eout]. rewrite dids_app, !cnt_app, cnt_cons, cnt_app. cbn. destruct (N.eq_dec i x); lia.
      * eapply Iel; [exact I1|exact E].
      * cbn [lout]. apply Ili. revert I1. apply I2_map; [reflexivity|]. apply hold2_perm.
        intro x. cbn [eout]. rewrite !cnt_app, cnt_dids_rev. lia.
      * exact I1.
    + (* run_effects *)
      intros s X c es s' r HI E. destruct HI as [O|Hh]; [by_oof2 (S f) O|].
      rewrite run_effects_S in E.
      destruct es as [|e rest]; [fin; right; exact Hh|].
      destruct (negb (live s match e with EExtend t _ => t | ERemove t _ => t end)) eqn:Lv;
        [eapply Ief; [right; exact Hh|exact E]|].
      destruct e as [t news|t who]; cbv zeta in E.
      * destruct (enter_local tk f s _ []) as [[s1 r0] acc] eqn:Ee.
        assert (I1 : I2 s1 (lout r0 acc X)) by (eapply Iel; [|exact Ee]; right; exact Hh).
        assert (Push : forall dl, Hold2 s1 (dids acc ++ X) ->
                       Hold2 (set_sched s1 t {| doers := dl; deeds := deeds (get_sched s1 t) ++ acc |}) X).
        { intro dl. apply hold2_sched. intro x. cbn [deeds]. rewrite dids_app, !cnt_app. unfold qids, dq. lia. }
        destruct r0; fin.
        -- eapply Ief; [|exact E]. apply i2_emit. revert I1. apply I2_map; [reflexivity|]. apply Push.
        -- eapply Ief; [|exact E]. apply i2_emit. revert I1. apply I2_map; [reflexivity|]. apply Push.
        -- exact I1.
        -- left. destruct (fuel_all tk f) as (_ & _ & _ & _ & K & _). eapply K; exact Ee.
      * eapply Ief; [|exact E]. apply i2_emit. apply Ili. right. apply hold2_remove. exact Hh.
    + (* recur_pass *)
      intros s X sid s' r HI E. rewrite recur_pass_S in E. cbv zeta in E.
      eapply Irl; [|exact E].
      revert HI. apply I2_map; [reflexivity|]. intro Hh. apply (hold2_append s sid [DMark] X). exact Hh.
    + (* recur_loop *)
      intros s X sid s' r HI E. rewrite recur_loop_S in E.
      destruct (deeds (get_sched s sid)) as [|[|i re] rest] eqn:Q.
      * fin. exact HI.
      * fin. revert HI. apply I2_map; [reflexivity|]. intro Hh. exact (hold2_pop s sid DMark rest X Q Hh).
      * cbv zeta in E.
        assert (I1 : I2 (set_deeds s sid rest) (i :: X)).
        { revert HI. apply I2_map; [reflexivity|]. intro Hh. exact (hold2_pop s sid (DDeed i re) rest X Q Hh). }
        destruct (tleb re (tyme (set_deeds s sid rest))).
        -- destruct (gen_send tk f _ i) as [s2 g] eqn:Eg.
           assert (I2' : I2 s2 (eout g i X)) by (eapply Isd; [exact I1|exact Eg]).
           destruct g; fin.
           ++ eapply Irl; [|exact E].
              revert I2'. apply I2_map; [reflexivity|]. intro Hh2.
              match goal with |- Hold2 (set_deeds _ _ (_ ++ [?d])) _ => apply (hold2_append s2 sid [d] X) end.
              exact Hh2.
           ++ eapply Irl; [exact I2'|exact E].
           ++ exact I2'.
           ++ exact I2'.
        -- eapply Irl; [|exact E].
           revert I1. apply I2_map; [reflexivity|]. intro Hh1.
           unfold set_deeds at 1. revert Hh1. apply hold2_sched. intro x. cbn [deeds].
           unfold qids. rewrite dq_deeds_same. rewrite dids_app, cnt_app, cnt_cons. cbn. destruct (N.eq_dec i x); lia.
Qed.

(* ---------- "suspended iff held by exactly one deed" ---------- *)

Lemma held_iff s : Hold s [] -> Hold2 s [] ->
  (forall i, is_susp s i <-> exists sid, In i (qids s sid)) /\
  (forall i sid sid', In i (qids s sid) -> In i (qids s sid') -> sid = sid') /\
  (forall sid, NoDup (qids s sid)).
Proof.
  intros Hh [S U]. split; [|split].
  - intro i. split.
    + intros [pc G]. pose proof (h_anc _ _ _ _ Hh i pc G) as A.
      change (anc s [] i) in A. unfold anc in A.
      destruct A as [j []|j Hj|j sid pc' _ Hj|j sid _ Hj]; [now exists 0%N|now exists sid|now exists sid].
    + intros [sid Hin]. apply S. right. now exists sid.
  - intros i sid sid' H1 H2. destruct (N.eq_dec sid sid') as [Heq|Hne]; [exact Heq|exfalso].
    assert (ND : NoDup [sid; sid']) by (constructor; [intros [Hx|[]]; congruence|apply nodup1]).
    specialize (U _ ND i). unfold allq in U. cbn [flat_map] in U. rewrite app_nil_r, cnt_app in U.
    apply cnt_in in H1. apply cnt_in in H2. unfold qids in *. cbn in U. lia.
  - intro sid. apply (NoDup_count_occ N.eq_dec). intro x.
    specialize (U [sid] (nodup1 sid) x). unfold allq in U. cbn [flat_map] in U. rewrite app_nil_r in U.
    unfold qids, cnt in *. cbn in U. lia.
Qed.

End Uniq.
