"""C20 — Memos survive segmentation into grams and any delivery order.

A sending Memoer (real rend/sign) segments each memo; the grams are delivered to a receiving Memoer in an arbitrary
order with duplicates and interleaving, serviced in various patterns."""
from harness.core import coq_N, coq_nat, coq_list, coq_bool, coq_bytes, exn_kind
from harness.drivers import memo_common as mc

PROP = "C20"
COQ_REQUIRES = ["Hio.Model.MemoGram", "Hio.Model.MemoTx", "Hio.Model.MemoRx"]
COQ_CHECK = "MemoRx.check_case20"
COQ_CASE_TYPE = "MemoRx.case20"
COQ_BRANCHES = ("MemoRx.case20_branches", "MemoRx.n_branches20")
SHARD = 40
RULE = ("1-3 unicode memos (unique texts, 1..120 bytes, multi-byte characters split across grams) each segmented by the "
        "real Memoer.rend with one of the four zero codes x b64/b2 heads, gram sizes from the minimum upwards (also "
        "requested sizes below the minimum), 3 signers; on 40% of the senders a configuration history (.curt / .code / "
        ".size setters in random order, sizes at and around the minimum of each (curt, code) pair) precedes the send; the "
        "receiver has its own independent code/curt/size (often smaller than the grams it receives) which are also changed "
        "between arrivals; the transferable ('D') signer often has a rotated current key pair in both keeps; the receiver is "
        "a Memoer or an AuthMemoer; plus sender-side fault histories: one Memoer queues 2-5 memos for 2-4 destinations "
        "over a scripted transport (per destination and attempt: accept n incl. 0, all, or an unavailable errno; "
        "destinations down all the time), serviced greedily or once-style within a bounded budget of send attempts, each "
        "destination with its own receiver; all grams delivered to a real receiving Memoer as a permutation "
        "with duplicates, interleaved across memos, sometimes with a gram withheld; serviced after every datagram, "
        "only at the end, once-style, or stage by stage; non-trivial = some memo has >= 2 grams and the delivery is "
        "not the send order, or has a duplicate, or memos are interleaved")
MODELLED = ["Memoer.sign (keep lookup + libsodium) as a parameter of the model instantiated with the recorded real calls",
            "Memoer.verify as in C22", "makeMID (uuid1) replaced by deterministic 24 char ids; the default MaxGramSize (65535) when no size is "
            "requested (the model then only checks the lower bound of the effective size)", "math.ceil of a true division as exact integer ceiling",
            "bytes.decode()/str.encode() as identity on UTF-8 bytes plus a validity predicate"]

ALPHABET = "abcdefghijklmnopqrstuvwxyz ABC 0123456789 é ü € 中 \U0001f600"


# --------------------------------------------------------------------------- cases

def _memo(text, code="bAAA", curt=False, size=None, signer=None, src=1, mid=1, hist=None):
    """code/curt/size are what the sending Memoer is constructed with; hist = setter calls made on it afterwards
    (["curt", bool] | ["size", int] | ["code", str]) before the memo is sent."""
    m = {"text": text, "code": code, "curt": curt, "size": size, "signer": signer, "src": src, "mid": mid}
    if hist:
        m["hist"] = hist
    return m


def _final(memo):
    """(code, curt) in force when the memo is sent"""
    code, curt = memo["code"], memo["curt"]
    for op in memo.get("hist", []):
        if op[0] == "code":
            code = op[1]
        elif op[0] == "curt":
            curt = op[1]
    return code, curt


def _min_size(code, curt):
    zoz = 32 + (132 if code in mc.SIGNED else 0)
    noz = 32 + (88 if code in mc.SIGNED else 0)
    return max(3 * zoz // 4 if curt else zoz, noz) + 1


def directed():
    out = []
    k = 0
    for code in mc.ZERO_CODES:
        for curt in (False, True):
            k += 1
            sg = 0 if code in mc.SIGNED else None
            ms = _min_size(code, curt)
            t = "Hello wörld €%d " % k * (6 if sg is not None else 1)
            # in order; reversed (signed: D23a); zeroth first then reversed; every gram twice
            for sched, svc in (("inorder", "all"), ("reverse", "end"), ("zeroth-first-reverse", "end"), ("double", "end")):
                out.append({"authic": sg is not None, "memos": [_memo(t, code, curt, ms + 4, sg, 1, k)],
                            "schedule": sched, "svc": svc})
            # size below the minimum is raised by the setter; short memo in one gram (the curt count defect, fixed)
            out.append({"authic": False, "memos": [_memo("abc%d" % k, code, curt, 6, sg, 1, k)], "schedule": "inorder", "svc": "all"})
            out.append({"authic": False, "memos": [_memo("x%d" % k, code, curt, None, sg, 2, k)], "schedule": "inorder", "svc": "end"})
    # configuration histories on one Memoer before sending: every (curt, code) pair at its minimum size, then
    # the encoding / code / size switched in different orders
    k = 100
    for code in mc.ZERO_CODES:
        sg = 0
        for curt in (True, False):
            ms = _min_size(code, curt)
            other = [c for c in mc.ZERO_CODES if c != code]
            for hist in ([["curt", not curt]], [["curt", not curt], ["curt", curt]], [["code", other[0]]], [["code", other[1]], ["curt", not curt]],
                         [["curt", not curt], ["size", 6]], [["size", 6], ["curt", not curt], ["code", other[2]]],
                         [["size", ms + 3], ["code", other[1]], ["size", 1]]):
                k += 1
                fc, _ = _final({"code": code, "curt": curt, "hist": hist})
                out.append({"authic": fc in mc.SIGNED, "schedule": "inorder", "svc": "all",
                            "memos": [_memo("config history %d wörld € " % k * 4, code, curt, ms, sg, 1, k, hist)]})
    # sender and receiver configured independently: the receiver's own gram size is smaller than the grams it receives,
    # its header encoding and code differ, and they are changed while the grams arrive
    for code, curt, size, rx in (("bAAA", False, 64, {"size": 40}), ("bAAC", False, 200, {"size": 170, "code": "bAAC"}),
                                 ("bAAE", True, 60, {"size": 33, "curt": False, "code": "bAAG"}),
                                 ("bAAG", True, 140, {"size": 124, "curt": True, "code": "bAAA"})):
        k += 1
        sg = 0 if code in mc.SIGNED else None
        for rxsets in ([], [[0.4, ["size", 1]], [0.7, ["curt", not curt]]]):
            out.append({"authic": sg is not None, "schedule": "zeroth-first-shuffle", "svc": "all", "seed": k, "rx": rx, "rxsets": rxsets,
                        "memos": [_memo("receiver has its own size %d wörld € " % k * 3, code, curt, size, sg, 1, k)]})
    # transferable ('D') signer whose current key pair in .keep (sender's and receiver's) is a rotated one, not the
    # key encoded in its vid; Memoer and AuthMemoer receivers; in order, shuffled with duplicates, zeroth-first
    for code in ("bAAC", "bAAG"):
        for curt in (False, True):
            for rxclass in (None, "auth"):
                for sched in ("inorder", "zeroth-first-shuffle", "double"):
                    k += 1
                    c = {"authic": True, "keep": "rotated", "schedule": sched, "svc": "all" if sched != "double" else "end", "seed": k,
                         "memos": [_memo("rotated signer %d wörld € " % k * 5, code, curt, _min_size(code, curt) + 30, 2, 1, k)]}
                    if rxclass:
                        c["rxclass"] = rxclass
                    out.append(c)
    # the receiver (and the sender) have a signer id of their own while the memo is UNSIGNED: the delivered signer id
    # must be None whatever the arrival order
    for code in ("bAAA", "bAAE"):
        for curt in (False, True):
            for sched in ("reverse", "inorder", "shuffle+dups"):
                k += 1
                out.append({"authic": False, "schedule": sched, "svc": "end" if sched != "inorder" else "all", "seed": k, "rx": {"vid": k % 3},
                            "memos": [_memo("unsigned memo, receiver has a vid %d wörld € " % k, code, curt, _min_size(code, curt) + 7, k % 3, 1, k)]})
    # two memos interleaved from different sources, one gram withheld from the second
    out.append({"authic": False, "memos": [_memo("first memo first memo", "bAAA", False, 38, None, 1, 50),
                                           _memo("second memo second memo", "bAAE", True, 40, None, 2, 51)],
                "schedule": [[0, 0], [1, 1], [0, 2], [1, 0], [0, 1], [1, 2], [0, 3]], "svc": "all"})
    # D23b: duplicate of a complete single-gram memo after delivery; duplicates of all grams after delivery
    out.append({"authic": False, "memos": [_memo("once only", "bAAA", False, 60, None, 1, 52)],
                "schedule": [[0, 0], [0, 0]], "svc": "all"})
    out.append({"authic": False, "memos": [_memo("twice delivered?", "bAAA", False, 38, None, 1, 53)],
                "schedule": [[0, 0], [0, 1], [0, 2], [0, 1], [0, 0], [0, 2]], "svc": "all"})
    # duplicates before completion are harmless
    out.append({"authic": False, "memos": [_memo("dups before completion", "bAAA", True, 40, None, 1, 54)],
                "schedule": [[0, 1], [0, 1], [0, 0], [0, 0], [0, 2], [0, 1]] + [[0, i] for i in range(3, 8)], "svc": "all"})
    return out + _tx_directed()


def _text(rng, used):
    while True:
        n = rng.choice([1, 2, 5, 8, 9, 17, 30, 60, 120])
        t = "".join(rng.choice(ALPHABET) for _ in range(n))
        if t not in used and t.strip():
            used.add(t)
            return t


def generate(rng, tier):
    n = 330 if tier == "quick" else 4500
    out = []
    for i in range(n):
        used = set()
        nm = rng.choice([1, 1, 2, 3])
        memos = []
        any_signed = False
        for j in range(nm):
            code = rng.choice(mc.ZERO_CODES)
            curt = rng.random() < 0.5
            sg = rng.randrange(3) if code in mc.SIGNED else None
            ms = _min_size(code, curt)
            size = rng.choice([ms, ms + 1, ms + 3, ms + 7, ms + 20, ms + 100, 6, None])
            t = _text(rng, used)
            if sg is not None and size is not None and size < ms + 20 and len(t.encode()) > 60:
                size = ms + 20                           # keep signed cases small
            hist = None
            if size is not None and rng.random() < 0.4:
                hist = []
                for _ in range(rng.randint(1, 4)):
                    r = rng.random()
                    if r < 0.45:
                        hist.append(["curt", rng.random() < 0.5])
                    elif r < 0.75:
                        c2 = rng.choice(mc.ZERO_CODES)
                        hist.append(["code", c2])
                    else:
                        c2, b2 = _final({"code": code, "curt": curt, "hist": hist})
                        hist.append(["size", rng.choice([1, 6, _min_size(c2, b2), _min_size(c2, b2) + rng.randint(1, 9), 170])])
                fc, _ = _final({"code": code, "curt": curt, "hist": hist})
                if sg is None and (fc in mc.SIGNED or any(o[0] == "code" and o[1] in mc.SIGNED for o in hist)):
                    sg = rng.randrange(3)
                any_signed |= fc in mc.SIGNED
                if fc in mc.SIGNED and len(t.encode()) > 60:
                    hist.append(["size", _min_size(fc, _final({"code": code, "curt": curt, "hist": hist})[1]) + 20])
            memos.append(_memo(t, code, curt, size, sg, rng.choice([1, 2, 3]), 100 * i + j, hist))
        sched = rng.choice(["inorder", "shuffle", "shuffle", "shuffle+dups", "shuffle+dups", "zeroth-first-shuffle",
                            "reverse", "withhold", "double"])
        authic = any_signed and all(_final(m)[0] in mc.SIGNED for m in memos) and rng.random() < 0.8
        c = {"authic": authic, "memos": memos, "schedule": sched, "seed": rng.randrange(1 << 30),
             "svc": rng.choice(["end", "end", "all", "all", "once", "split"])}
        if any(m["signer"] == 2 for m in memos) and rng.random() < 0.6:
            c["keep"] = "rotated"   # the transferable signer's current key pair (in both keeps) is not the one in its vid
        if authic and rng.random() < 0.4:
            c["rxclass"] = "auth"   # receiver is an AuthMemoer
        if rng.random() < 0.3:
            c["own"] = True         # application-owned containers (rx dicts, rxms, keep) handed EMPTY to the constructors
        if rng.random() < 0.6:      # the receiver's own transmit settings, independent of the senders'
            c["rx"] = {"size": rng.choice([1, 33, 38, 40, 64, 125, 170, 200]), "curt": rng.random() < 0.5,
                       "code": rng.choice(mc.ZERO_CODES)}
            if rng.random() < 0.7:
                c["rx"]["vid"] = rng.randrange(3)      # the receiver has a signer id of its own
            c["rxsets"] = [[rng.random(), rng.choice([["size", rng.choice([1, 25, 33, 60, 124, 165])], ["curt", rng.random() < 0.5],
                                                     ["code", rng.choice(mc.ZERO_CODES)]])] for _ in range(rng.randint(0, 3))]
        out.append(c)
    return out + _tx_generate(rng, 60 if tier == "quick" else 900, 200000)


def _schedule(case, counts):
    """explicit list of [memo index, gram index]"""
    s = case["schedule"]
    if isinstance(s, list):
        return [x for x in s if x[0] < len(counts) and x[1] < counts[x[0]]]
    import random
    rng = random.Random(case.get("seed", 0))
    allg = [[m, g] for m, c in enumerate(counts) for g in range(c)]
    if s == "inorder":
        return allg
    if s == "reverse":
        return allg[::-1]
    if s == "double":
        return [x for x in allg for _ in (0, 1)]
    if s == "zeroth-first-reverse":
        return [x for x in allg if x[1] == 0] + [x for x in allg[::-1] if x[1] != 0]
    if s == "zeroth-first-shuffle":
        rest = [x for x in allg if x[1] != 0]
        rng.shuffle(rest)
        return [x for x in allg if x[1] == 0] + rest
    if s == "withhold" and allg:
        allg.pop(rng.randrange(len(allg)))
    if s == "shuffle+dups":
        allg = allg + [rng.choice(allg) for _ in range(rng.randint(1, 4))] if allg else allg
    rng.shuffle(allg)
    return allg



# --------------------------------------------------------------------------- sender-side fault histories ("tx" cases)
# One sending Memoer queues memos for several destinations (memoit) and is serviced (serviceAllTx / serviceAllTxOnce)
# over a scripted transport: per destination a list of per-attempt results (accept n incl. 0, accept all, OSError with an
# unavailable errno), or "down" (every attempt unavailable); afterwards everything is accepted.  A datagram reaches the
# destination's receiver when all its bytes were accepted.  The number of send attempts is bounded by the budget.

UNAVAILABLE = ["ECONNREFUSED", "ENOENT", "ECONNRESET", "ENETUNREACH", "EHOSTUNREACH", "EHOSTDOWN", "ETIMEDOUT"]


def _tx_case(cfg, memos, policy, ops=None, authic=None, budget=None):
    ops = ops or ([["memoit", i] for i in range(len(memos))] + [["svc"]] * 6)
    return {"kind": "tx", "authic": cfg["code"] in mc.SIGNED if authic is None else authic, "cfg": cfg, "memos": memos,
            "policy": policy, "ops": ops, "budget": budget or 400}


def _tx_directed():
    out = []
    k = 300
    for code in mc.ZERO_CODES:
        for curt in (False, True):
            k += 1
            sg = 0 if code in mc.SIGNED else None
            cfg = {"code": code, "curt": curt, "size": _min_size(code, curt) + (40 if sg is not None else 6), "signer": sg}
            m = lambda t, d, j: {"text": t + " %d wörld €" % k, "dst": d, "mid": 10 * k + j}
            memos = [m("to the peer that goes away", 1, 0), m("to a healthy peer", 2, 1), m("to another healthy peer", 3, 2)]
            # the C20-8 shape: first gram to dst 1 parked by a would-block / partial send, its retry finds the peer gone
            out.append(_tx_case(cfg, memos, {"1": [["acc", 0], ["err", "ECONNREFUSED"]], "2": [], "3": [["acc", 3]]}))
            out.append(_tx_case(cfg, memos, {"1": [["acc", 5], ["err", "ENOENT"]] + [["err", "ENOENT"]] * 40, "2": [["acc", 0]], "3": []},
                                ops=[["memoit", 0], ["memoit", 1], ["once"], ["once"], ["memoit", 2]] + [["once"]] * 40))
            # ... and the peer stays away after its first gram was parked (greedy and once-style servicing)
            out.append(_tx_case(cfg, memos, {"1": {"hist": [["acc", 0]], "then": "down"}, "2": [["acc", 2]], "3": []}))
            out.append(_tx_case(cfg, memos, {"1": {"hist": [["acc", 4], ["acc", 0]], "then": "down"}, "2": [], "3": [["acc", 0]]},
                                ops=[["memoit", 0], ["memoit", 1], ["memoit", 2]] + [["once"]] * 10))
            # key store history on one sender object with the transferable signer: sign, rotate the key pair (keep[vid]
            # replaced on sender and receivers), sign again, receivers forget the signer, learn it again
            if sg is not None:
                cfgd = dict(cfg, signer=2)
                ms5 = [m("before rotation", 1, 0), m("after rotation", 2, 1), m("unknown signer now", 1, 2), m("known again", 2, 3), m("rotated back", 1, 4)]
                out.append(_tx_case(cfgd, ms5, {"1": [["acc", 0]], "2": [["acc", 4]]},
                                    ops=[["memoit", 0], ["svc"], ["keep", "rotate"], ["memoit", 1], ["svc"], ["keep", "remove"], ["memoit", 2], ["svc"],
                                         ["keep", "add"], ["memoit", 3], ["once"], ["keep", "rotate"], ["memoit", 4], ["svc"]]))
            # a destination that is down all the time, between two healthy ones; backpressure on the healthy ones
            out.append(_tx_case(cfg, [m("first healthy", 2, 0), m("nobody there", 1, 1), m("second healthy", 3, 2)],
                                {"1": "down", "2": [["acc", 0], ["acc", 1], ["acc", 0], ["acc", 7]], "3": [["acc", 2], ["acc", 0]]}))
    return out


def _tx_generate(rng, n, base):
    out = []
    for i in range(n):
        code = rng.choice(mc.ZERO_CODES)
        curt = rng.random() < 0.5
        sg = rng.choice([0, 1, 2, 2]) if code in mc.SIGNED else None
        cfg = {"code": code, "curt": curt, "size": _min_size(code, curt) + rng.choice([1, 4, 9, 30] if sg is None else [30, 60]), "signer": sg}
        nd = rng.randint(2, 4)
        used = set()
        memos = [{"text": _text(rng, used) if sg is None else _text(rng, used)[:40] or "x", "dst": rng.randint(1, nd), "mid": base + 10 * i + j}
                 for j in range(rng.randint(2, 5))]
        policy = {}
        for d in range(1, nd + 1):
            r = rng.random()
            if r < 0.2:
                policy[str(d)] = "down"
            else:
                hist = []
                for _ in range(rng.randint(0, 6)):
                    q = rng.random()
                    hist.append(["acc", 0] if q < 0.35 else ["acc", rng.randint(1, 12)] if q < 0.7 else ["all"] if q < 0.8
                                else ["err", rng.choice(UNAVAILABLE)])
                policy[str(d)] = hist
                if hist and rng.random() < 0.3:
                    policy[str(d)] = {"hist": [h for h in hist if h[0] != "err"], "then": "down"}
        ops = []
        pend = list(range(len(memos)))
        while pend:
            ops.append(["memoit", pend.pop(0)])
            if rng.random() < 0.4:
                ops.append(rng.choice([["svc"], ["once"]]))
        entry = rng.choice(["svc", "once"])
        if sg == 2 and rng.random() < 0.7:      # key store history between the memos of this one sender
            idx = [k for k, o in enumerate(ops) if o[0] == "memoit"][1:]
            for k in sorted(rng.sample(idx, min(len(idx), rng.randint(1, 3))), reverse=True):
                ops[k:k] = [[entry], ["keep", rng.choice(["rotate", "rotate", "remove", "add"])]]
        ops += [[entry]] * (6 if entry == "svc" else 80)
        out.append(_tx_case(cfg, memos, policy, ops, authic=(sg is not None and rng.random() < 0.8), budget=600))
        if rng.random() < 0.5:
            out[-1]["rxvid"] = True
        if rng.random() < 0.3:
            out[-1]["own"] = True
    return out


class _Budget(RuntimeError):
    pass


def _run_tx(case):
    import errno as _errno
    from base64 import urlsafe_b64encode
    cfg = case["cfg"]
    keep, vids = mc.keep_and_vids()
    cls = mc.memoer_class()
    state = {"calls": 0, "log": [], "partial": {}, "delivered": {}, "attempt": {}, "exhausted": False}

    class TxSender(cls):
        def sign(self, vid, ser):
            sig = super().sign(vid, ser)
            text = urlsafe_b64encode(sig) if self.curt else bytes(sig)
            self.slog.append([mc._b(vid).hex(), bytes(ser).hex(), text.hex()])
            return sig

        def rend(self, memo, vid=None):
            grams = super().rend(memo, vid)
            self.rends.append([bytes(g).hex() for g in grams])
            return grams

        def send(self, gram, dst, *, echoic=False):
            state["calls"] += 1
            if state["calls"] > case["budget"]:
                state["exhausted"] = True
                raise _Budget("send attempt budget exhausted")
            pol = case["policy"].get(dst, [])
            k = state["attempt"].get(dst, 0)
            state["attempt"][dst] = k + 1
            if isinstance(pol, dict):          # {"hist": [...], "then": "down"}: goes away for good after the history
                r = pol["hist"][k] if k < len(pol["hist"]) else ["err", "ECONNREFUSED"]
            else:
                r = ["err", "ECONNREFUSED"] if pol == "down" else (pol[k] if k < len(pol) else ["all"])
            offered = bytes(gram)
            state["log"].append([dst, offered.hex(), r])
            if r[0] == "err":
                state["partial"].pop(dst, None)
                raise OSError(getattr(_errno, r[1]), r[1])
            n = len(offered) if r[0] == "all" else min(r[1], len(offered))
            buf = state["partial"].get(dst, b"") + offered[:n]
            if n == len(offered):
                state["delivered"].setdefault(dst, []).append(buf)
                state["partial"].pop(dst, None)
            else:
                state["partial"][dst] = buf
            return n

    vid = vids[cfg["signer"]] if cfg["signer"] is not None else None
    own = case.get("own", False)
    if own:                         # the application owns (empty) txms, txgs and keep objects
        from collections import deque
        owned = {"txms": deque(), "txgs": deque(), "keep": {}}
        tx = TxSender(code=cfg["code"], curt=cfg["curt"], size=cfg["size"], vid=vid, **owned)
        owned["keep"].update(keep)
    else:
        tx = TxSender(code=cfg["code"], curt=cfg["curt"], size=cfg["size"], keep=keep, vid=vid)
    tx.opened = True
    tx.slog, tx.rends = [], []
    tx.mids = [mc.mid_of(m["mid"]) for m in case["memos"]]     # memos are rent in queue order
    excs, order = [], []
    import logging
    logging.disable(logging.CRITICAL)
    def do(op):
        try:
            if op[0] == "memoit":
                m = case["memos"][op[1]]
                if own:
                    owned["txms"].append((m["text"], str(m["dst"]), vid))     # the application fills ITS queue
                else:
                    tx.memoit(m["text"], str(m["dst"]), vid)
                order.append(op[1])
            elif op[0] == "svc":
                tx.serviceAllTx()
            else:
                tx.serviceAllTxOnce()
            excs.append(None)
        except Exception as ex:
            excs.append(exn_kind(ex))
    ops_run = []
    entry = next((op for op in reversed(case["ops"]) if op[0] in ("svc", "once")), ["svc"])

    def drain():
        # keep servicing through the case's (last used) entry point until the sender is idle: the scripted push-back is
        # finite, so this ends unless servicing spins (then the send-attempt budget stops it)
        for _ in range(400):
            if state["exhausted"] or excs[-1:] not in ([None], []) or not (tx.txms or tx.txgs or tx.txbs[1] is not None):
                break
            ops_run.append(entry); do(entry)

    # key store history on this ONE sender object: phases separated by ["keep", action] ops.  Every phase has its own
    # receivers (one per destination) whose keep is the one in force in that phase.
    rotated_keep, _ = mc.keep_and_vids("rotated")
    full_keep, _ = mc.keep_and_vids("full")
    dvid = vids[2]
    sender_keep = owned["keep"] if own else keep
    phase, tx_mode, rx_mode = 0, "full", "full"
    rxs, memo_phase, phase_modes = {}, {}, {}

    def end_phase():
        phase_modes[phase] = [tx_mode, rx_mode]
        for dst in sorted({str(m["dst"]) for m in case["memos"]}):
            got = state["delivered"].pop(dst, [])
            rx = mc.new_receiver(case["authic"], rx_mode, own=own, **({"vid": int(dst) % 3} if case.get("rxvid") else {}))
            ops = []
            for d in got:
                ops += [["dgram", d.hex(), 1], ["all"]]
            ops.append(["all"])
            rexcs = mc.run_rx_ops(rx, ops)
            o = mc.observe_rx(rx)
            o.update({"excs": rexcs, "ops": ops})
            rxs[f"{phase}:{dst}"] = o

    for op in case["ops"]:
        if op[0] == "keep":
            drain()                          # nothing signed with the old key is still on its way
            end_phase()
            phase += 1
            if op[1] == "rotate":            # the transferable signer's key pair is REPLACED on sender and receivers
                tx_mode = "rotated" if tx_mode == "full" else "full"
                sender_keep[dvid] = (rotated_keep if tx_mode == "rotated" else full_keep)[dvid]
                rx_mode = tx_mode
            elif op[1] == "remove":          # receivers forget the signer
                rx_mode = "nokeep"
            else:                            # "add": receivers learn the signer's current key (again)
                rx_mode = tx_mode
            continue
        if op[0] == "memoit":
            memo_phase[op[1]] = phase
        ops_run.append(op); do(op)
    drain()
    end_phase()
    return {"kind": "tx", "excs": excs, "ops_run": ops_run, "order": order, "rends": tx.rends, "sign": tx.slog, "size": tx.size,
            "vid": vid if tx.code in mc.SIGNED else None, "log": state["log"], "exhausted": state["exhausted"],
            "txgs": [[bytes(g).hex(), d] for g, d in tx.txgs], "txbs": [bytes(tx.txbs[0]).hex(), tx.txbs[1]],
            "txms": len(tx.txms), "rxs": rxs, "memo_phase": {str(k): v for k, v in memo_phase.items()}, "phase_modes": phase_modes}


def _tx_available(case, dst):
    pol = case["policy"].get(str(dst), [])
    return not isinstance(pol, dict) and pol != "down" and not any(r[0] == "err" for r in pol)


def _oracle_tx(case, obs):
    if obs["exhausted"]:
        return (f"transmit servicing did not come to rest within {case['budget']} send attempts "
                f"(last attempts: {[(d, r) for d, h, r in obs['log'][-3:]]})")
    if any(obs["excs"]):
        return f"transmit servicing raised {obs['excs']}"
    for o in obs["rxs"].values():
        if o.get("not_adopted"):
            return f"containers handed to a receiver's constructor are not the ones it uses: {o['not_adopted']}"
        if any(o["excs"]):
            return f"receive servicing raised {o['excs']}"
    vidhex = None if obs["vid"] is None else obs["vid"].encode().hex()
    for mi, m in enumerate(case["memos"]):
        ph = obs["memo_phase"].get(str(mi))
        if ph is None:
            continue
        got = obs["rxs"][f"{ph}:{m['dst']}"]
        n = sum(1 for d in got["inbox"] + got["rxms"] if d == [m["text"].encode().hex(), 1, vidhex])
        tx_mode, rx_mode = obs["phase_modes"][str(ph)] if str(ph) in obs["phase_modes"] else obs["phase_modes"][ph]
        known = not (obs["vid"] is not None and case["cfg"]["signer"] == 2) or rx_mode == tx_mode
        if _tx_available(case, m["dst"]) and known and n != 1:
            return (f"memo {m['text']!r} (phase {ph}, signer key {tx_mode}, receiver keep {rx_mode}) for destination {m['dst']}, "
                    f"which stays available, was reconstructed {n} times "
                    f"(unsent: txms={obs['txms']} txgs={len(obs['txgs'])} txbs dst={obs['txbs'][1]})")
        if not known and n:
            return f"memo {m['text']!r} delivered although the receiver's keep has {rx_mode} for its signer whose key is {tx_mode}"
        if n > 1:
            return f"memo {m['text']!r} delivered {n} times"
    return None


def _tx_to_coq(case, obs):
    cfg = case["cfg"]
    sents, txops, texcs = [], [], []
    pending, rent = [], 0
    req = f"(Some {coq_nat(cfg['size'])})"
    def sent_of(mi, grams):
        m = case["memos"][mi]
        params = ("{| MemoGram.r_code := %s; MemoGram.r_curt := %s; MemoGram.r_size := %s; MemoGram.r_mid := %s; "
                  "MemoGram.r_vid := %s |}" % (CODES[cfg["code"]], coq_bool(cfg["curt"]), coq_nat(min(obs["size"], 4999)),
                                               coq_bytes(mc.mid_of(m["mid"]).encode()),
                                               coq_bytes(obs["vid"].encode() if obs["vid"] else b"")))
        return ("{| MemoRx.s_params := %s; MemoRx.s_icode := %s; MemoRx.s_icurt := %s; MemoRx.s_req := %s; "
                "MemoRx.s_hist := (@nil MemoGram.cfgop); MemoRx.s_text := %s; MemoRx.s_grams := (Ok %s) |}" % (
                    params, CODES[cfg["code"]], coq_bool(cfg["curt"]), req, coq_bytes(m["text"].encode()),
                    coq_list([mc.hexb(g) for g in grams], "bytes")))
    for op, exc in zip(obs["ops_run"], obs["excs"]):
        if op[0] == "memoit":
            pending.append(op[1])
            continue
        take = pending if op[0] == "svc" else pending[:1]
        for mi in list(take):
            if rent < len(obs["rends"]):
                grams = obs["rends"][rent]; rent += 1
                sents.append(sent_of(mi, grams))
                for g in grams:
                    txops.append(f"(MemoTx.Gramit {mc.hexb(g)} {coq_N(case['memos'][mi]['dst'])})"); texcs.append(None)
            pending.remove(mi)
        txops.append("MemoTx.Service" if op[0] == "svc" else "MemoTx.ServiceOnce"); texcs.append(exc)
    script = [("(MemoTx.KAcc %s)" % coq_nat(r[1])) if r[0] == "acc" else "MemoTx.KAll" if r[0] == "all" else f"(MemoTx.KErr MemoTx.{r[1]})"
              for d, h, r in obs["log"]]
    acc = []
    for d, h, r in obs["log"]:
        b = bytes.fromhex(h)
        n = len(b) if r[0] == "all" else min(r[1], len(b)) if r[0] == "acc" else 0
        if n:
            acc.append(f"({coq_N(int(d))}, {coq_bytes(b[:n])})")
    from harness.core import coq_option
    txgs = [f"({mc.hexb(g)}, {coq_N(int(d))})" for g, d in obs["txgs"]]
    txbs = f"({mc.hexb(obs['txbs'][0])}, {coq_option(None if obs['txbs'][1] is None else int(obs['txbs'][1]), coq_N, 'N')})"
    tx = ("{| MemoTx.c_txbs0 := ((@nil N), (@None N)); MemoTx.c_ops := %s; MemoTx.c_script := %s; MemoTx.c_excs := %s; MemoTx.c_accepted := %s; "
          "MemoTx.c_txgs := %s; MemoTx.c_txbs := %s |}" % (
              coq_list(txops, "MemoTx.op"), coq_list(script, "MemoTx.kres"),
              coq_list([coq_option(e, ty="exn") for e in texcs], "option exn"), coq_list(acc, "N * bytes"),
              coq_list(txgs, "bytes * N"), txbs))
    rxc = [mc.coq_rx_case(case["authic"], o["ops"], o, o["excs"]) for d, o in sorted(obs["rxs"].items())]
    st = [f"({mc.hexb(v)}, {mc.hexb(m)}, {mc.hexb(sg)})" for v, m, sg in obs["sign"]]
    return ("{| MemoRx.k_sign := %s; MemoRx.k_sent := %s; MemoRx.k_rx := %s; MemoRx.k_more_rx := %s; MemoRx.k_tx := (Some %s) |}" % (
        coq_list(st, "bytes * bytes * bytes"), coq_list(sents, "MemoRx.sent"), rxc[0], coq_list(rxc[1:], "MemoRx.case"), tx))


# --------------------------------------------------------------------------- implementation

def _sender(memo, keepmode="full", own=False):
    keep, vids = mc.keep_and_vids(keepmode)
    if own:                        # the application hands an empty keep to the constructor and fills it afterwards
        real_keep, keep = keep, {}
    cls = mc.memoer_class()

    class Sender(cls):
        def sign(self, vid, ser):
            from base64 import urlsafe_b64encode
            sig = super().sign(vid, ser)
            text = urlsafe_b64encode(sig) if self.curt else bytes(sig)
            self.slog.append([mc._b(vid).hex(), bytes(ser).hex(), text.hex()])
            return sig

    vid = vids[memo["signer"]] if memo["signer"] is not None else None
    m = Sender(code=memo["code"], curt=memo["curt"], size=memo["size"], keep=keep, vid=vid)
    if own:
        keep.update(real_keep)
    for op in memo.get("hist", []):
        setattr(m, op[0], op[1])                    # the real property setters
    m.slog = []
    m.mids = [mc.mid_of(memo["mid"])]
    return m, (vid if m.code in mc.SIGNED else None)


def _ops(case, sent):
    counts = [len(s["grams"]) if s["grams"] is not None else 0 for s in sent]
    sched = _schedule(case, counts)
    ops = []
    for mi, gi in sched:
        ops.append(["dgram", sent[mi]["grams"][gi], case["memos"][mi]["src"]])
        if case["svc"] == "all":
            ops.append(["all"])
        elif case["svc"] == "once":
            ops.append(["once"])
        elif case["svc"] == "split":
            ops += [["recv"], ["grams"], ["memos"]]
    if case["svc"] == "once":
        ops += [["once"]] * (len(case["memos"]) + 1)
    for frac, (attr, val) in sorted(case.get("rxsets", []), reverse=True):
        ops.insert(int(frac * len(ops)), ["rxset", attr, val])
    ops.append(["all"])
    return sched, ops


def run_impl(case):
    if case.get("kind") == "tx":
        return _run_tx(case)
    sent, slog = [], []
    for memo in case["memos"]:
        tx, vid = _sender(memo, case.get("keep", "full"), case.get("own", False))
        try:
            grams = [bytes(g).hex() for g in tx.rend(memo["text"], vid)]
            exc = None
        except Exception as ex:
            grams, exc = None, exn_kind(ex)
        slog += tx.slog
        sent.append({"grams": grams, "exc": exc, "size": tx.size, "vid": vid, "code": tx.code, "curt": bool(tx.curt)})
    sched, ops = _ops(case, sent)
    rx = mc.new_receiver(case["authic"], case.get("keep", "full"), case.get("rxclass"), case.get("own", False), **case.get("rx", {}))
    excs = mc.run_rx_ops(rx, ops)
    obs = mc.observe_rx(rx)
    obs.update({"excs": excs, "sent": sent, "sign": slog, "sched": sched, "ops": ops})
    return obs


# --------------------------------------------------------------------------- oracle

def _memo_verdicts(case, obs):
    """per memo: (status, detail) with status in ok | undelivered | multiple | incomplete-delivered | rend"""
    delivered = obs["rxms"] + obs["inbox"]
    out = []
    for mi, (memo, s) in enumerate(zip(case["memos"], obs["sent"])):
        if s["grams"] is None:
            out.append(("rend", f"rend raised {s['exc']} for size {s['size']}"))
            continue
        want = [memo["text"].encode().hex(), memo["src"], None if s["vid"] is None else s["vid"].encode().hex()]
        n = sum(1 for d in delivered if d == want)
        seen = {gi for m, gi in obs["sched"] if m == mi}
        complete = len(seen) == len(s["grams"])
        if complete and n == 0:
            out.append(("undelivered", f"memo {memo['text']!r} not delivered although every gram arrived"))
        elif complete and n > 1:
            out.append(("multiple", f"memo {memo['text']!r} delivered {n} times"))
        elif not complete and n:
            out.append(("incomplete-delivered", f"memo {memo['text']!r} delivered although a gram never arrived"))
        else:
            out.append(("ok", ""))
    return out


def _count_in_header(gram, curt):
    from hio.help import helping
    return int.from_bytes(gram[3:6], "big") if curt else helping.b64ToInt(gram[4:8])


def oracle(case, obs):
    if case.get("kind") == "tx":
        return _oracle_tx(case, obs)
    if obs.get("not_adopted"):
        return f"containers handed to the receiver's constructor are not the ones it uses: {obs['not_adopted']}"
    if any(obs["excs"]):
        return f"receive servicing raised {obs['excs']}"
    for memo, s in zip(case["memos"], obs["sent"]):
        if s["grams"]:
            grams = [bytes.fromhex(g) for g in s["grams"]]
            big = [len(g) for g in grams if len(g) > s["size"]]
            if big:
                return f"memo {memo['text']!r}: grams of {big} bytes exceed .size={s['size']}"
            cnt = _count_in_header(grams[0], s["curt"])
            if cnt != len(grams):
                return f"memo {memo['text']!r}: zeroth gram announces {cnt} grams but {len(grams)} were produced"
    vs = _memo_verdicts(case, obs)
    bad = [d for st, d in vs if st != "ok"]
    if bad:
        return "; ".join(bad)
    delivered = obs["rxms"] + obs["inbox"]
    wants = [[m["text"].encode().hex(), m["src"], None if s["vid"] is None else s["vid"].encode().hex()]
             for m, s in zip(case["memos"], obs["sent"])]
    extra_ = [d for d in delivered if d not in wants]
    if extra_:
        return f"delivered something that was never sent: {extra_[:2]}"
    return None


def _first(sched, mi, gi):
    for pos, x in enumerate(sched):
        if x == [mi, gi] or tuple(x) == (mi, gi):
            return pos
    return None


def classify(case, obs, why):
    """D23a: a signed non-zeroth gram all of whose copies arrive before the zeroth gram is dropped for good.
    D23b: service runs between arrivals and copies of a memo's grams arrive after the memo was completed."""
    if case.get("kind") == "tx" or any(obs["excs"]):
        return None
    vs = _memo_verdicts(case, obs)
    classes = set()
    for mi, ((st, _), memo, s) in enumerate(zip(vs, case["memos"], obs["sent"])):
        if st == "ok":
            continue
        sched = [list(x) for x in obs["sched"]]
        if st == "undelivered" and s["code"] in mc.SIGNED:
            z = _first(sched, mi, 0)
            lost = [gi for gi in range(1, len(s["grams"]))
                    if all(pos < z for pos, x in enumerate(sched) if x == [mi, gi])]
            if z is not None and lost:
                classes.add("D23a-signed-gram-before-zeroth-dropped")
                continue
        if st == "multiple" and case["svc"] != "end":
            # position at which the memo is complete for the first time, then a further full set arrives
            seen, done = set(), None
            for pos, x in enumerate(sched):
                if x[0] == mi:
                    seen.add(x[1])
                    if len(seen) == len(s["grams"]):
                        done = pos
                        break
            later = {x[1] for x in sched[done + 1:] if x[0] == mi} if done is not None else set()
            if len(later) == len(s["grams"]):
                classes.add("D23b-duplicates-after-completion-redeliver")
                continue
        return None
    # every failing memo of the case is in a listed class (a case with several memos may show both)
    return sorted(classes)[0] if classes else None


def nontrivial(case, obs):
    if case.get("kind") == "tx":
        return len({m["dst"] for m in case["memos"]}) >= 2 and any(r[0] == "err" or (r[0] == "acc" and r[1] < len(h) // 2) for d, h, r in obs["log"])
    multi = any(s["grams"] and len(s["grams"]) >= 2 for s in obs["sent"])
    sched = [tuple(x) for x in obs["sched"]]
    inorder = sched == sorted(set(sched)) and len(set(sched)) == len(sched)
    return multi and not inorder


def shrink(case):
    if case.get("kind") == "tx":
        for i in range(len(case["ops"])):
            if case["ops"][i][0] != "memoit":
                yield dict(case, ops=case["ops"][:i] + case["ops"][i + 1:])
        return
    if isinstance(case["schedule"], list):
        s = case["schedule"]
        for i in range(len(s)):
            yield dict(case, schedule=s[:i] + s[i + 1:])
    if len(case["memos"]) > 1:
        for i in range(len(case["memos"])):
            if not isinstance(case["schedule"], list):
                yield dict(case, memos=case["memos"][:i] + case["memos"][i + 1:])


def distribution(cases, obs):
    d = {"codes": {}, "curt": 0, "grams_per_memo": {}, "schedules": {}, "svc": {}, "rend_raised": 0}
    d["tx_fault_cases"] = sum(1 for c in cases if c.get("kind") == "tx")
    for c, o in zip(cases, obs):
        if not isinstance(o, dict) or "sent" not in o:
            continue
        k = c["schedule"] if isinstance(c["schedule"], str) else "explicit"
        d["schedules"][k] = d["schedules"].get(k, 0) + 1
        d["svc"][c["svc"]] = d["svc"].get(c["svc"], 0) + 1
        for m, s in zip(c["memos"], o["sent"]):
            d["codes"][s["code"]] = d["codes"].get(s["code"], 0) + 1
            d["curt"] += bool(s["curt"])
            d["with_config_history"] = d.get("with_config_history", 0) + bool(m.get("hist"))
            if s["grams"] is None:
                d["rend_raised"] += 1
            else:
                g = min(len(s["grams"]), 9)
                d["grams_per_memo"][g] = d["grams_per_memo"].get(g, 0) + 1
    return d


# --------------------------------------------------------------------------- Gallina

CODES = {"bAAA": "MemoGram.GZ", "bAAC": "MemoGram.AZ", "bAAE": "MemoGram.SZ", "bAAG": "MemoGram.SAZ"}


def to_coq(case, obs):
    if case.get("kind") == "tx":
        return _tx_to_coq(case, obs)
    sents = []
    for memo, s in zip(case["memos"], obs["sent"]):
        params = ("{| MemoGram.r_code := %s; MemoGram.r_curt := %s; MemoGram.r_size := %s; MemoGram.r_mid := %s; "
                  "MemoGram.r_vid := %s |}" % (CODES[s["code"]], coq_bool(s["curt"]), coq_nat(min(s["size"], 4999)),
                                               coq_bytes(mc.mid_of(memo["mid"]).encode()),
                                               coq_bytes(s["vid"].encode() if s["vid"] else b"")))
        if s["grams"] is None:
            grams = f"(@Exc (list bytes) {s['exc']})"
        else:
            grams = "(Ok %s)" % coq_list([mc.hexb(g) for g in s["grams"]], "bytes")
        req = "(@None nat)" if memo["size"] is None else f"(Some {coq_nat(memo['size'])})"
        hist = [("(MemoGram.SetCurt %s)" % coq_bool(o[1])) if o[0] == "curt" else
                ("(MemoGram.SetCode %s)" % CODES[o[1]]) if o[0] == "code" else
                ("(MemoGram.SetSize %s)" % coq_nat(o[1])) for o in memo.get("hist", [])]
        sents.append("{| MemoRx.s_params := %s; MemoRx.s_icode := %s; MemoRx.s_icurt := %s; MemoRx.s_req := %s; "
                     "MemoRx.s_hist := %s; MemoRx.s_text := %s; MemoRx.s_grams := %s |}" % (
                         params, CODES[memo["code"]], coq_bool(memo["curt"]), req, coq_list(hist, "MemoGram.cfgop"),
                         coq_bytes(memo["text"].encode()), grams))
    st = [f"({mc.hexb(v)}, {mc.hexb(m)}, {mc.hexb(sg)})" for v, m, sg in obs["sign"]]
    rx = mc.coq_rx_case(case["authic"], obs["ops"], obs, obs["excs"])
    return ("{| MemoRx.k_sign := %s; MemoRx.k_sent := %s; MemoRx.k_rx := %s; MemoRx.k_more_rx := (@nil MemoRx.case); "
            "MemoRx.k_tx := (@None MemoTx.case) |}" % (
                coq_list(st, "bytes * bytes * bytes"), coq_list(sents, "MemoRx.sent"), rx))
