(* C14, general theorem, layer 5: the header fields come back from parseLeader. *)
From Hio Require Import Base.Prelude Model.HttpReqUrl Model.HttpTotal Model.HttpReq
     Proofs.HttpReqProofs Proofs.HttpReqCodec Proofs.HttpReqQuery Proofs.HttpReqLines.
From Coq Require Import String ZifyBool.
Local Open Scope N_scope.

Lemma ustr_eqb_sym a b : ustr_eqb a b = ustr_eqb b a.
Proof.
  destruct (ustr_eqb a b) eqn:E.
  - apply ustr_eqb_eq in E. subst. symmetry. apply ustr_eqb_refl.
  - destruct (ustr_eqb b a) eqn:E2; [|reflexivity]. apply ustr_eqb_eq in E2. subst. now rewrite ustr_eqb_refl in E.
Qed.

Lemma partition2_sep c d : forall a b, mem_n c a = false -> partition2 c d (a ++ c :: d :: b) = (a, true, b).
Proof.
  induction a as [|x a IH]; intros b H.
  - cbn [app partition2]. now rewrite !N.eqb_refl.
  - unfold mem_n in H. cbn [existsb] in H. apply orb_false_iff in H. destruct H as [Hx Ha].
    cbn [app]. cbn [partition2].
    destruct (a ++ c :: d :: b) as [|y r] eqn:E; [destruct a; discriminate|].
    rewrite N.eqb_sym in Hx. rewrite Hx. cbn [andb]. rewrite <- E, IH by exact Ha. reflexivity.
Qed.

Definition field_ok (nv : ustr * ustr) : bool :=
  wf_hname (fst nv) && wf_hvalue (snd nv) && (blen (pack_header (fst nv) (snd nv)) <=? MAXL).

Lemma token_not c n : token_char c = false -> wf_hname n = true -> mem_n c n = false.
Proof.
  intros Hc H. unfold wf_hname in H. apply andb_true_iff in H. destruct H as [_ H].
  destruct (mem_n c n) eqn:E; [|reflexivity]. apply mem_n_in in E. rewrite forallb_forall in H.
  specialize (H c E). congruence.
Qed.

Lemma value_not c v : mem_n c [10; 13] = true -> wf_hvalue v = true -> mem_n c v = false.
Proof.
  intros Hc H. destruct (mem_n c v) eqn:E; [|reflexivity]. apply mem_n_in in E.
  unfold wf_hvalue in H. rewrite forallb_forall in H. specialize (H c E).
  apply andb_true_iff in H. destruct H as [_ H]. rewrite Hc in H. discriminate.
Qed.

Lemma pack_no_lf n v : wf_hname n = true -> wf_hvalue v = true -> mem_n 10 (pack_header n v) = false.
Proof.
  intros Hn Hv. unfold pack_header. rewrite !mem_n_app.
  unfold title. rewrite title_aux_notin; [|reflexivity|now apply token_not].
  rewrite (value_not 10 v) by (reflexivity || exact Hv). reflexivity.
Qed.

Lemma leader_step_field h n v rest : field_ok (n, v) = true ->
  leader_step h (pack_header n v ++ CRLFb ++ rest) =
  if MAXH <? N.of_nat (List.length (hset h (title n) v)) then Fail HTTPExc rest
  else Got (inl (hset h (title n) v)) rest.
Proof.
  unfold field_ok. cbn [fst snd]. intros H. apply andb_true_iff in H. destruct H as [H Hlen].
  apply andb_true_iff in H. destruct H as [Hn Hv]. apply N.leb_le in Hlen.
  unfold leader_step. rewrite line_lf_crlf; [|now apply pack_no_lf|exact Hlen].
  assert (Hp : partition2 58 32 (pack_header n v) = (title n, true, v)).
  { unfold pack_header. cbn [app]. apply partition2_sep. unfold title. apply title_aux_notin; [reflexivity|].
    now apply token_not. }
  destruct (pack_header n v) as [|c l] eqn:E.
  - exfalso. unfold pack_header in E. destruct (title n) eqn:Et; [|discriminate].
    apply title_nil in Et. subst. discriminate.
  - rewrite Hp. cbn [negb]. reflexivity.
Qed.

Lemma leader_step_end h body : leader_step h (CRLFb ++ body) = Got (inr h) body.
Proof.
  unfold leader_step. change (CRLFb ++ body) with ([] ++ CRLFb ++ body).
  rewrite line_lf_crlf; [reflexivity|reflexivity|]. unfold blen, MAXL. cbn. lia.
Qed.

(* keys *)
Definition lkeys (l : list (ustr * ustr)) : list ustr := map (fun kv => lower (fst kv)) l.

Lemma distinct_keys_ext : forall l1 l2, lkeys l1 = lkeys l2 -> distinct_keys l1 = distinct_keys l2.
Proof.
  induction l1 as [|[k v] l1 IH]; intros [|[k2 v2] l2] H; try discriminate; [reflexivity|].
  cbn [lkeys map fst] in H. injection H as Hk Hl. cbn [distinct_keys]. rewrite Hk.
  rewrite (IH l2 Hl). f_equal. f_equal.
  clear IH. revert l2 Hl. induction l1 as [|[a b] l1 IH1]; intros [|[a2 b2] l2] Hl; try discriminate; [reflexivity|].
  cbn [lkeys map fst] in Hl. injection Hl as Ha Hl. cbn [existsb fst]. rewrite Ha. f_equal. now apply IH1.
Qed.

Lemma distinct_fresh : forall h x t, distinct_keys (h ++ x :: t) = true ->
  Forall (fun kv => ustr_eqb (lower (fst kv)) (lower (fst x)) = false) h.
Proof.
  induction h as [|[k v] h IH]; intros x t H; [constructor|].
  cbn [app distinct_keys] in H. apply andb_true_iff in H. destruct H as [Hk Hd].
  constructor; [|now apply (IH x t)].
  cbn [fst]. apply negb_true_iff in Hk. rewrite existsb_app in Hk. apply orb_false_iff in Hk.
  destruct Hk as [_ Hk]. cbn [existsb] in Hk. apply orb_false_iff in Hk. destruct Hk as [Hk _].
  rewrite ustr_eqb_sym. exact Hk.
Qed.

Lemma hset_fresh : forall h k v, Forall (fun kv => ustr_eqb (lower (fst kv)) (lower k) = false) h ->
  hset h k v = h ++ [(k, v)].
Proof.
  induction h as [|[k' v'] h IH]; intros k v H; [reflexivity|].
  inversion H as [|? ? Hk Hh]; subst. cbn [fst] in Hk. cbn [hset]. rewrite Hk. cbn [app]. f_equal. now apply IH.
Qed.

Definition titled (l : list (ustr * ustr)) : list (ustr * ustr) := map (fun nv => (title (fst nv), snd nv)) l.
Definition hline (nv : ustr * ustr) : bytes := pack_header (fst nv) (snd nv) ++ CRLFb.

Lemma lkeys_titled l : lkeys (titled l) = lkeys l.
Proof. unfold lkeys, titled. rewrite map_map. apply map_ext. intros [n v]. cbn [fst]. apply lower_title. Qed.

Lemma lkeys_app a b : lkeys (a ++ b) = lkeys a ++ lkeys b.
Proof. unfold lkeys. apply map_app. Qed.

Theorem leader_all_fields : forall hl h fuel body,
  forallb field_ok hl = true -> distinct_keys (h ++ hl) = true ->
  (List.length h + List.length hl <= 100)%nat -> (List.length hl < fuel)%nat ->
  leader_all fuel h (flat_map hline hl ++ CRLFb ++ body) = Ok (h ++ titled hl, body).
Proof.
  induction hl as [|[n v] hl IH]; intros h fuel body Hok Hd Hlen Hf.
  - destruct fuel as [|fuel]; [cbn in Hf; lia|]. cbn [flat_map app leader_all].
    rewrite leader_step_end. cbn [titled map]. now rewrite app_nil_r.
  - destruct fuel as [|fuel]; [cbn in Hf; lia|].
    cbn [forallb] in Hok. apply andb_true_iff in Hok. destruct Hok as [Hnv Hok].
    cbn [flat_map]. unfold hline at 1. cbn [fst snd]. rewrite <- !app_assoc.
    cbn [leader_all]. rewrite leader_step_field by exact Hnv.
    assert (Hfresh : hset h (title n) v = h ++ [(title n, v)]).
    { apply hset_fresh. pose proof (distinct_fresh h (n, v) hl Hd) as Hfr. cbn [fst] in Hfr.
      eapply Forall_impl; [|exact Hfr]. intros kv Hkv. now rewrite lower_title. }
    rewrite Hfresh. rewrite app_length. cbn [List.length] in *.
    destruct (MAXH <? N.of_nat (List.length h + 1)) eqn:E; [unfold MAXH in E; lia|].
    rewrite IH.
    + cbn [titled map fst snd]. now rewrite <- app_assoc.
    + exact Hok.
    + rewrite <- Hd. apply distinct_keys_ext. rewrite !lkeys_app. cbn [lkeys map fst]. rewrite lower_title.
      now rewrite <- app_assoc.
    + rewrite app_length. cbn [List.length]. lia.
    + lia.
Qed.
