(* Codec round trip: pick of a gram built by rend's gram_of returns the parts. *)
From Hio Require Import Base.Prelude Model.B64 Proofs.B64Proofs Model.MemoGram Proofs.MemoRxProofs.
Local Open Scope N_scope.

Lemma firstn_app_len : forall A (a b : list A) n, length a = n -> firstn n (a ++ b) = a.
Proof. intros A a b n <-. rewrite firstn_app, Nat.sub_diag, firstn_all, firstn_O, app_nil_r. reflexivity. Qed.

Lemma skipn_app_len : forall A (a b : list A) n, length a = n -> skipn n (a ++ b) = b.
Proof. intros A a b n <-. rewrite skipn_app, Nat.sub_diag, skipn_all. reflexivity. Qed.

Lemma slice_app : forall A (pre x post : list A) i j,
  length pre = i -> length x = (j - i)%nat -> slice i j (pre ++ x ++ post) = x.
Proof. intros. unfold slice. rewrite (skipn_app_len _ pre _ i) by assumption. apply firstn_app_len. assumption. Qed.

Lemma is_b64_intToB64 : forall n l, is_b64 (intToB64 n l) = true.
Proof.
  intros n l. unfold intToB64. destruct l as [|l']; [reflexivity|]. cbv zeta. rewrite is_b64_app. apply andb_true_intro. split.
  - unfold is_b64. apply forallb_forall. intros x Hx. apply repeat_spec in Hx. subst. reflexivity.
  - destruct (fuel_ok n) as [F1 F2]. destruct (digs_spec (fuel_for n) n F1 F2) as (_ & W & _ & _).
    unfold is_b64. apply forallb_forall. intros x Hx. apply in_map_iff in Hx. destruct Hx as (d & <- & Hd).
    apply in_rev in Hd. rewrite Forall_forall in W. specialize (W d Hd). rewrite idx_chr by exact W. reflexivity.
Qed.

Lemma length_intToB64_4 : forall n, n < 16777216 -> length (intToB64 n 4) = 4%nat.
Proof.
  intros n Hn. rewrite int_length by lia.
  destruct (fuel_ok n) as [F1 F2].
  destruct (Nat.le_gt_cases (length (digs (fuel_for n) n)) 4) as [L|L]; [lia|].
  pose proof (digs_minimal (fuel_for n) n F1 F2 ltac:(lia)) as M.
  assert (64 ^ 4 <= 64 ^ N.of_nat (length (digs (fuel_for n) n) - 1)) by (apply N.pow_le_mono_r; lia).
  change (64 ^ 4) with 16777216 in *. lia.
Qed.

Definition codec_premises (verify : bytes -> bytes -> bytes -> res unit) (sign : bytes -> bytes -> bytes)
           (vid : bytes) : Prop :=
  forall m, length (sign vid m) = 88%nat /\ is_b64 (sign vid m) = true /\ verify vid (sign vid m) m = Ok tt.

Lemma code_text_facts : forall c, length (code_text c) = 4%nat /\ is_b64 (code_text c) = true /\
  code_of_text (code_text c) = Some c.
Proof. intros []; repeat split; reflexivity. Qed.

Theorem codec_b64 : forall verify sign authic vids c n mid vid body,
  (auth c = true -> codec_premises verify sign vid) ->
  kind_of c <> KAck -> (authic = true -> auth c = true) ->
  n < 16777216 -> length mid = 24%nat -> is_b64 mid = true ->
  (auth c = true -> length vid = 44%nat /\ is_b64 vid = true) ->
  (kind_of c = KGram -> vids mid = (if auth c then vid else vids mid)) ->
  let p := {| r_code := c; r_curt := false; r_size := 0; r_mid := mid; r_vid := vid |} in
  pick verify authic vids (gram_of sign p c n (Nat.ltb 0 (vz c)) body) =
  Ok {| p_mid := mid;
        p_vid := (match kind_of c with
                  | KZero => if Nat.ltb 0 (vz c) then Some vid else None
                  | _ => vid_opt (vids mid) end);
        p_gn := (match kind_of c with KZero => 0 | _ => n end);
        p_gc := (match kind_of c with KZero => Some n | _ => None end);
        p_body := body |}.
Proof.
  intros verify sign authic vids c n mid vid body Hp Hk Ha Hn Lm Bm Hv Hvm p.
  destruct (code_text_facts c) as (Lc & Bc & Cc).
  pose proof (length_intToB64_4 n Hn) as Ln. pose proof (is_b64_intToB64 n 4) as Bn.
  set (V := if Nat.ltb 0 (vz c) then vid else []).
  assert (LV : length V = vz c).
  { unfold V. destruct (Nat.ltb 0 (vz c)) eqn:E.
    - destruct c; cbn in E; try discriminate; apply Hv; reflexivity.
    - apply Nat.ltb_ge in E. cbn. lia. }
  assert (BV : is_b64 V = true).
  { unfold V. destruct (Nat.ltb 0 (vz c)) eqn:E; [|reflexivity].
    destruct c; cbn in E; try discriminate; apply Hv; reflexivity. }
  set (H := code_text c ++ intToB64 n 4 ++ mid ++ V).
  assert (LH : length H = (32 + vz c)%nat) by (unfold H; rewrite !app_length, Lc, Ln, Lm, LV; lia).
  assert (BH : is_b64 H = true) by (unfold H; rewrite !is_b64_app, Bc, Bn, Bm, BV; reflexivity).
  set (S := if auth c then sign vid (H ++ body) else []).
  assert (LS : length S = az c).
  { unfold S, az. destruct (auth c); [apply Hp; reflexivity|reflexivity]. }
  assert (BS : is_b64 S = true) by (unfold S; destruct (auth c); [apply Hp; reflexivity|reflexivity]).
  assert (G : gram_of sign p c n (Nat.ltb 0 (vz c)) body = H ++ body ++ S).
  { unfold gram_of, cvt, neck, p. cbn [r_curt r_mid r_vid]. fold V.
    replace (code_text c ++ intToB64 n 4 ++ mid ++ V) with H by reflexivity.
    unfold S. destruct (auth c); [rewrite <- app_assoc; reflexivity|rewrite app_nil_r; reflexivity]. }
  rewrite G. clear G.
  assert (LG : length (H ++ body ++ S) = (32 + vz c + length body + az c)%nat)
    by (rewrite !app_length, LH, LS; lia).
  (* wiff *)
  assert (W : pick verify authic vids (H ++ body ++ S) = pick_b64 verify authic vids (H ++ body ++ S)).
  { unfold H, code_text. cbn [app]. unfold pick. reflexivity. }
  rewrite W. clear W. unfold pick_b64.
  assert (E1 : Nat.ltb (length (H ++ body ++ S)) 4 = false) by (apply Nat.ltb_ge; lia).
  rewrite E1.
  assert (F4 : firstn 4 (H ++ body ++ S) = code_text c).
  { unfold H. rewrite <- !app_assoc. apply firstn_app_len. exact Lc. }
  rewrite F4, Bc, Cc. cbn [negb].
  assert (E2 : authic && negb (auth c) = false).
  { destruct authic; [|reflexivity]. rewrite (Ha eq_refl). reflexivity. }
  rewrite E2.
  assert (E3 : Nat.ltb (length (H ++ body ++ S)) (32 + vz c + az c) = false) by (apply Nat.ltb_ge; lia).
  rewrite E3.
  assert (FH : firstn (32 + vz c) (H ++ body ++ S) = H) by (apply firstn_app_len; exact LH).
  assert (SG : firstn (length (H ++ body ++ S) - az c) (H ++ body ++ S) = H ++ body).
  { rewrite app_assoc. apply firstn_app_len. rewrite !app_length, LH, LS. lia. }
  assert (SS : skipn (length (H ++ body ++ S) - az c) (H ++ body ++ S) = S).
  { rewrite app_assoc. apply skipn_app_len. rewrite !app_length, LH, LS. lia. }
  rewrite FH, SG, SS, BH, BS. cbn [andb negb].
  assert (N8 : slice 4 8 (H ++ body ++ S) = intToB64 n 4).
  { unfold H. rewrite <- !app_assoc. apply slice_app; [exact Lc|rewrite Ln; reflexivity]. }
  rewrite N8, int_roundtrip by lia. cbn [bind].
  assert (M32 : slice 8 32 (H ++ body ++ S) = mid).
  { unfold H. rewrite <- !app_assoc. rewrite (app_assoc (code_text c)).
    apply slice_app; [rewrite app_length, Lc, Ln; reflexivity|rewrite Lm; reflexivity]. }
  assert (V32 : slice 32 (32 + vz c) (H ++ body ++ S) = V).
  { unfold H. rewrite <- !app_assoc. rewrite (app_assoc (code_text c)), (app_assoc (code_text c ++ intToB64 n 4)).
    apply slice_app; [rewrite !app_length, Lc, Ln, Lm; reflexivity|rewrite LV; lia]. }
  assert (BD : skipn (32 + vz c) (H ++ body) = body) by (apply skipn_app_len; exact LH).
  rewrite M32, V32, BD.
  unfold finish. destruct (kind_of c) eqn:K; [| |contradiction].
  - (* zeroth *)
    destruct (auth c) eqn:A.
    + assert (Vv : V = vid). { unfold V. destruct c; cbn in *; try discriminate; reflexivity. }
      rewrite Vv. unfold S. destruct (Hp eq_refl (H ++ body)) as (L88 & _ & Ver).
      destruct (sign vid (H ++ body)) as [|s0 sg] eqn:Sg; [cbn in L88; discriminate|].
      rewrite Ver. cbn [bind]. destruct (Hv eq_refl) as [L44 _].
      destruct vid as [|v0 vid']; [cbn in L44; discriminate|].
      assert (Z : Nat.ltb 0 (vz c) = true) by (destruct c; cbn in *; try discriminate; reflexivity).
      rewrite Z. reflexivity.
    + assert (Vn : V = []). { unfold V. destruct c; cbn in *; try discriminate; reflexivity. }
      assert (Z : Nat.ltb 0 (vz c) = false) by (destruct c; cbn in *; try discriminate; reflexivity).
      rewrite Vn, Z. unfold S. cbn [bind]. reflexivity.
  - (* non-zeroth *)
    assert (Vn : V = []). { unfold V. destruct c; cbn in *; try discriminate; reflexivity. }
    rewrite Vn. specialize (Hvm eq_refl). destruct (auth c) eqn:A.
    + rewrite Hvm. unfold S. destruct (Hp eq_refl (H ++ body)) as (L88 & _ & Ver).
      destruct (sign vid (H ++ body)) as [|s0 sg] eqn:Sg; [cbn in L88; discriminate|].
      rewrite Ver. cbn [bind]. reflexivity.
    + unfold S. cbn [bind]. reflexivity.
Qed.
