(* An idle prefix (the armed parser polled with nothing buffered, close() at
   any point of that time) does not make the parse of the following message
   depend on its fragmentation. *)
From Hio Require Import Base.Prelude Model.HttpLine Model.Chunk Model.HttpMsg
  Proofs.HttpLineProofs Proofs.ChunkProofs Proofs.HttpMsgProofs.

Definition feed_ops (reads : list bytes) : list op := flat_map (fun r => [OData r; OParse]) reads.
Definition idle_op (o : op) : Prop := o = OParse \/ o = OClose.

Definition idle_inv (h : hstate) : Prop :=
  hs_p h = init_state /\ hs_started h = false /\ hs_out h = [].

Lemma idle_step k h o : idle_inv h -> idle_op o -> idle_inv (do_op k h o).
Proof.
  intros [Hp [Hs Ho]] [->| ->]; cbn [do_op].
  - rewrite Hp. unfold init_state. cbn [is_nil negb andb orb].
    rewrite Bool.andb_false_r, Bool.orb_false_r.
    destruct (if hs_fresh h then false else hs_closed h) eqn:Ec.
    + destruct k; cbn; rewrite Ho; repeat split; reflexivity.
    + destruct k; cbn; rewrite Ho; repeat split; reflexivity.
  - repeat split; assumption.
Qed.

Lemma idle_prefix_inv k : forall prefix h,
  idle_inv h -> Forall idle_op prefix -> idle_inv (fold_left (do_op k) prefix h).
Proof.
  induction prefix as [|o ops IH]; intros h Hi Hf; [exact Hi|].
  inversion Hf; subst. cbn [fold_left]. apply IH; [apply idle_step; assumption|assumption].
Qed.

(* once a message has begun with .closed False, data/parse pairs are plain feeds *)
Lemma open_feeds k : forall reads h,
  hs_closed h = false -> hs_fresh h = false ->
  let h' := fold_left (do_op k) (feed_ops reads) h in
  hs_p h' = fst (feeds (msg_stage k) (hs_p h) reads) /\
  hs_out h' = hs_out h ++ snd (feeds (msg_stage k) (hs_p h) reads) /\
  hs_closed h' = false /\ hs_fresh h' = false.
Proof.
  induction reads as [|r rs IH]; intros h Hc Hf.
  - cbn. rewrite app_nil_r. auto.
  - cbn [feed_ops flat_map app fold_left feeds].
    set (h1 := do_op k (do_op k h (OData r)) OParse).
    assert (H1 : hs_p h1 = fst (feed (msg_stage k) (hs_p h) r) /\
                 hs_out h1 = hs_out h ++ snd (feed (msg_stage k) (hs_p h) r) /\
                 hs_closed h1 = false /\ hs_fresh h1 = false).
    { subst h1. cbn [do_op hs_p hs_closed hs_fresh hs_started hs_out].
      destruct (hs_p h) as [s b|e].
      - rewrite Hf, Hc. cbn [orb]. unfold feed.
        destruct (negb (hs_started h) && negb (is_nil (b ++ r)));
        destruct (run (msg_stage k) (S (length (b ++ r))) s (b ++ r)) as [p os];
        cbn [fst snd hs_p hs_out hs_closed hs_fresh]; auto.
      - cbn. rewrite app_nil_r. rewrite Hc. auto. }
    destruct H1 as [Hp1 [Ho1 [Hc1 Hf1]]].
    destruct (IH h1 Hc1 Hf1) as [Hp [Ho [Hc' Hf']]].
    fold (feed_ops rs).
    destruct (feed (msg_stage k) (hs_p h) r) as [p1 os1] eqn:E1. cbn [fst snd] in *.
    rewrite Hp1 in Hp, Ho.
    destruct (feeds (msg_stage k) p1 rs) as [p2 os2]. cbn [fst snd] in *.
    rewrite Hp, Ho, Ho1, app_assoc. auto.
Qed.

(* the first non-empty read after an idle prefix starts the message: .closed is cleared *)
Lemma first_read k h r :
  idle_inv h -> r <> [] ->
  let h1 := do_op k (do_op k h (OData r)) OParse in
  hs_p h1 = fst (feed (msg_stage k) init_state r) /\
  hs_out h1 = snd (feed (msg_stage k) init_state r) /\
  hs_closed h1 = false /\ hs_fresh h1 = false.
Proof.
  intros [Hp [Hs Ho]] Hr. cbn [do_op hs_p hs_closed hs_fresh hs_started hs_out].
  rewrite Hp, Hs, Ho. unfold init_state. cbn [app negb andb].
  destruct r as [|x r0]; [congruence|]. cbn [is_nil negb andb]. rewrite Bool.orb_true_r.
  unfold feed. cbn [app]. destruct (run (msg_stage k) (S (length (x :: r0))) (start_state init_carry) (x :: r0)) as [p os].
  cbn [fst snd hs_p hs_out hs_closed hs_fresh app]. auto.
Qed.

Lemma run_ops_idle_feeds k prefix r rs :
  Forall idle_op prefix -> r <> [] ->
  let h := run_ops k (prefix ++ feed_ops (r :: rs)) in
  hs_p h = fst (feeds (msg_stage k) init_state (r :: rs)) /\
  hs_out h = snd (feeds (msg_stage k) init_state (r :: rs)).
Proof.
  intros Hf Hr. unfold run_ops. rewrite fold_left_app.
  assert (Hi : idle_inv (fold_left (do_op k) prefix hs_init))
    by (apply idle_prefix_inv; [repeat split|exact Hf]).
  set (h0 := fold_left (do_op k) prefix hs_init) in *.
  cbn [feed_ops flat_map app fold_left]. fold (feed_ops rs).
  destruct (first_read k h0 r Hi Hr) as [Hp1 [Ho1 [Hc1 Hf1]]].
  set (h1 := do_op k (do_op k h0 (OData r)) OParse) in *.
  destruct (open_feeds k rs h1 Hc1 Hf1) as [Hp [Ho _]].
  cbn [feeds]. destruct (feed (msg_stage k) init_state r) as [p1 os1]. cbn [fst snd] in *.
  rewrite Hp1 in Hp, Ho. rewrite Ho1 in Ho.
  destruct (feeds (msg_stage k) p1 rs) as [p2 os2]. cbn [fst snd] in *. auto.
Qed.

(* Fragmentation independence behind an idle prefix: whatever parse()/close()
   calls were made while nothing was buffered, the message bytes split into any
   non-empty reads give the parser state and messages of the one-shot parse. *)
Theorem idle_prefix_fragmentation k prefix reads :
  Forall idle_op prefix -> Forall (fun r => r <> []) reads -> reads <> [] ->
  hs_p (run_ops k (prefix ++ feed_ops reads)) = hs_p (run_ops k (prefix ++ feed_ops [concat reads])) /\
  hs_out (run_ops k (prefix ++ feed_ops reads)) = hs_out (run_ops k (prefix ++ feed_ops [concat reads])).
Proof.
  intros Hf Hne Hn. destruct reads as [|r rs]; [congruence|]. inversion Hne; subst.
  assert (Hc : concat (r :: rs) <> []) by (cbn; destruct r; [congruence|discriminate]).
  destruct (run_ops_idle_feeds k prefix r rs Hf H1) as [Hp Ho].
  destruct (run_ops_idle_feeds k prefix (concat (r :: rs)) [] Hf Hc) as [Hp' Ho'].
  cbv zeta in *. rewrite Hp, Ho, Hp', Ho'.
  rewrite (msg_feeds_concat k (r :: rs)), (msg_feeds_concat k [concat (r :: rs)]).
  cbn [concat]. rewrite !app_nil_r. auto.
Qed.

(* ------------------------------------------------------------------------ *)
(* A parser pointed at a new receive buffer (makeParser(msg=buffer) or
   reinit(msg=buffer)) between messages. *)
Lemma first_read_from k h s1 c r :
  hs_p h = Live s1 c -> hs_started h = false -> c ++ r <> [] ->
  let h1 := do_op k (do_op k h (OData r)) OParse in
  hs_p h1 = fst (feed (msg_stage k) (Live s1 c) r) /\
  hs_out h1 = hs_out h ++ snd (feed (msg_stage k) (Live s1 c) r) /\
  hs_closed h1 = false /\ hs_fresh h1 = false.
Proof.
  intros Hp Hs Hne. cbn [do_op hs_p hs_closed hs_fresh hs_started hs_out].
  rewrite Hp, Hs. cbn [negb andb].
  assert (En : is_nil (c ++ r) = false) by (destruct (c ++ r); [congruence|reflexivity]).
  rewrite En. cbn [negb]. rewrite Bool.orb_true_r.
  unfold feed. destruct (run (msg_stage k) (S (length (c ++ r))) s1 (c ++ r)) as [p os].
  cbn [fst snd hs_p hs_out hs_closed hs_fresh]. auto.
Qed.

(* The bytes of the next message(s) may already be in the new buffer at the
   call, arrive afterwards in any non-empty reads, or partly both: the parser
   ends in the same state with the same completed messages.  (c: what the
   buffer holds at the call; r :: rs: what arrives afterwards.) *)
Theorem rebind_fragmentation k mk h0 s0 b0 c r rs :
  hs_p h0 = Live s0 b0 -> hs_started h0 = false -> c ++ r <> [] ->
  let hA := fold_left (do_op k) (ORebind mk c :: feed_ops (r :: rs)) h0 in
  let hB := fold_left (do_op k) [ORebind mk (c ++ concat (r :: rs)); OParse] h0 in
  hs_p hA = hs_p hB /\ hs_out hA = hs_out hB.
Proof.
  intros Hp Hs Hne. cbn [fold_left feed_ops flat_map app]. fold (feed_ops rs).
  set (s1 := if mk then start_state init_carry else s0).
  set (hc := do_op k h0 (ORebind mk c)).
  set (hw := do_op k h0 (ORebind mk (c ++ concat (r :: rs)))).
  assert (Hpc : hs_p hc = Live s1 c) by (subst hc s1; cbn [do_op]; rewrite Hp; reflexivity).
  assert (Hsc : hs_started hc = false) by (subst hc; cbn [do_op]; rewrite Hp; exact Hs).
  assert (Hoc : hs_out hc = hs_out h0) by (subst hc; cbn [do_op]; rewrite Hp; reflexivity).
  assert (Hpw : hs_p hw = Live s1 (c ++ concat (r :: rs))) by (subst hw s1; cbn [do_op]; rewrite Hp; reflexivity).
  assert (Hsw : hs_started hw = false) by (subst hw; cbn [do_op]; rewrite Hp; exact Hs).
  assert (How : hs_out hw = hs_out h0) by (subst hw; cbn [do_op]; rewrite Hp; reflexivity).
  (* A: bytes arrive afterwards *)
  destruct (first_read_from k hc s1 c r Hpc Hsc Hne) as [Hp1 [Ho1 [Hc1 Hf1]]].
  set (h1 := do_op k (do_op k hc (OData r)) OParse) in *.
  destruct (open_feeds k rs h1 Hc1 Hf1) as [HpA [HoA _]].
  (* B: everything already in the buffer: one parse of c ++ concat = feed (Live s1 c) (r ++ concat rs) *)
  assert (HB : hs_p (do_op k hw OParse) = fst (feed (msg_stage k) (Live s1 c) (r ++ concat rs)) /\
               hs_out (do_op k hw OParse) = hs_out h0 ++ snd (feed (msg_stage k) (Live s1 c) (r ++ concat rs))).
  { cbn [do_op]. rewrite Hpw, Hsw, How. cbn [negb andb concat].
    assert (En : is_nil (c ++ r ++ concat rs) = false).
    { rewrite app_assoc. destruct (c ++ r); [congruence|reflexivity]. }
    rewrite En. cbn [negb]. rewrite Bool.orb_true_r.
    unfold feed. destruct (run (msg_stage k) (S (length (c ++ r ++ concat rs))) s1 (c ++ r ++ concat rs)) as [p os].
    cbn [fst snd hs_p hs_out]. auto. }
  destruct HB as [HpB HoB].
  pose proof (feeds_cons_concat (msg_stage k) (msg_shrinks k) (msg_stable_step k) (msg_stable_fail k)
                r rs (Live s1 c)) as Hcc.
  cbn [feeds] in Hcc.
  destruct (feed (msg_stage k) (Live s1 c) r) as [p1 os1]. cbn [fst snd] in *.
  rewrite Hp1 in HpA, HoA. rewrite Ho1, Hoc in HoA.
  destruct (feeds (msg_stage k) p1 rs) as [p2 os2]. cbn [fst snd] in *.
  rewrite HpA, HoA, HpB, HoB, <- Hcc. cbn [fst snd]. rewrite app_assoc. auto.
Qed.
