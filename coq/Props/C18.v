(* C18 — WSGI responses are framed and pipelined requests answered in order.
   Statements only; proofs are in Proofs/WsgiProofs.v and Proofs/WsgiReader.v.

   serve        : the model of Responder + Server.serviceReqs/serviceReps on one
                  connection (Model/Wsgi.v), returns the byte stream and "closed"
   read_stream  : an independent reader of that stream (status line, headers,
                  body by Content-Length / chunked / until close); it fails on a
                  body that is not self-delimiting while the connection is open
   answered     : the requests up to and including the first non persistent one
   expected     : what the application of that request said

   Full statement of the property:
     forall date conn, wf_conn conn -> wf_date date ->
       exists out, serve date None conn = Ok (out, closes conn) /\
                   read_stream out (closes conn) = Some (map (expected date) (answered conn))
   It is FALSE of the code (C18_http10_keepalive_unframed_refuted): an HTTP/1.0
   keep-alive request answered without Content-Length.  It is proved for every
   other input (hypothesis framed_conn excludes exactly that class). *)
From Coq Require Import Strings.String.
From Hio Require Import Base.Prelude Model.Wsgi Proofs.WsgiProofs Proofs.WsgiReader.
Local Open Scope N_scope.

(* Every response is self-delimiting while the connection stays open, responses
   come in request order, each reads back as exactly the application's status,
   headers (plus Server/Date/Transfer-Encoding) and body; for all request
   sequences (1.0 / 1.1, any Connection header), all well-formed application
   outputs (any status, headers, body pieces incl. empty ones, with or without
   Content-Length, declared length <= what the app yields), Responder created or
   reused. *)
Theorem C18_framed_in_order_partial : forall date conn,
  wf_date date = true -> wf_conn conn = true -> framed_conn conn = true ->
  exists out,
    serve date None conn = Ok (out, closes conn)
    /\ read_stream out (closes conn) = Some (List.map (expected date) (answered conn)).
Proof. exact wsgi_main. Qed.
Print Assumptions C18_framed_in_order_partial.

(* The excluded class is real: two HTTP/1.0 keep-alive requests, apps without
   Content-Length -> the stream does not read back (the first body never ends). *)
Definition d21b_conn : list (req * app) :=
  let q := {| r_v11 := false; r_conn := Some (bs "keep-alive"); r_ok := true |} in
  [(q, {| a_status := bs "200 OK"; a_headers := []; a_pieces := [bs "one"]; a_first := None |});
   (q, {| a_status := bs "200 OK"; a_headers := []; a_pieces := [bs "two"]; a_first := None |})].
Theorem C18_http10_keepalive_unframed_refuted :
  exists date conn out cl,
    wf_date date = true /\ wf_conn conn = true /\ serve date None conn = Ok (out, cl) /\ cl = false /\
    read_stream out cl <> Some (List.map (expected date) (answered conn)).
Proof.
  exists (bs "Mon, 21 Sep 2026 12:00:00 GMT"), d21b_conn.
  destruct (serve (bs "Mon, 21 Sep 2026 12:00:00 GMT") None d21b_conn) as [[out cl]|] eqn:E;
    vm_compute in E; [|discriminate].
  inversion E; subst. do 2 eexists. repeat split. vm_compute. discriminate.
Qed.
Print Assumptions C18_http10_keepalive_unframed_refuted.

(* The stream never depends on whether the Responder was freshly created or is
   being reused after an earlier response (the D21 repair), for ALL inputs. *)
Theorem C18_reuse_equals_fresh : forall date conn r,
  (forall qa, In qa conn -> cl_ok (snd qa) /\ first_ok (snd qa) = true) ->
  serve date (Some r) conn = serve date None conn.
Proof. intros. rewrite !serve_spec by assumption. reflexivity. Qed.
Print Assumptions C18_reuse_equals_fresh.

(* start_response called twice (PEP 3333 replacement with exc_info before anything was written): the
   framing decision - and the whole stream - is a function of the LAST call only; whatever status,
   headers or Content-Length the abandoned first call declared leaves no trace. *)
Theorem C18_last_start_only : forall date conn rs,
  (forall qa, In qa conn -> cl_ok (snd qa) /\ first_ok (snd qa) = true) ->
  serve date rs conn = serve date rs (List.map forget_first conn).
Proof. exact serve_forgets_first. Qed.
Print Assumptions C18_last_start_only.

(* the illegal second call - after the head went out - re-raises instead of replacing anything *)
Theorem C18_late_start_reraises : forall r st hs, headed r = true -> start r st hs true = Exc OtherErr.
Proof. intros r st hs H. unfold start. now rewrite H. Qed.
Print Assumptions C18_late_start_reraises.

(* The body never exceeds a declared Content-Length (no hypothesis on the app). *)
Theorem C18_body_within_declared : forall date q a L,
  declared a = Some L -> len (p_body (expected date (q, a))) <= L.
Proof. exact expected_body_le. Qed.
Print Assumptions C18_body_within_declared.

(* "exactly the application's status and headers": status verbatim; the app's
   headers first, in order (names case-folded); anything after them was added by
   the server and is one of Server, Date, Transfer-Encoding. *)
Theorem C18_status_and_headers : forall date q a,
  hfind s_transfer_encoding (a_headers a) = None ->
  p_status (expected date (q, a)) = a_status a /\
  exists added,
    p_headers (expected date (q, a)) = List.map norm_header (a_headers a) ++ added
    /\ Forall (fun h => In (fst h) [s_server; s_date; s_transfer_encoding]) added.
Proof. intros. split; [apply expected_status | now apply expected_headers]. Qed.
Print Assumptions C18_status_and_headers.

(* The connection is closed after a response exactly when its request was not
   persistent: every answered request except the last one was persistent (the
   connection stayed open after it), and the connection ends up closed iff the
   last answered request was not persistent. *)
Theorem C18_closed_iff_not_persistent : forall conn,
  forallb (fun qa => r_ok (fst qa)) conn = true ->
  (forall l1 qa l2, answered conn = l1 ++ qa :: l2 -> l2 <> [] -> persisted (fst qa) = true)
  /\ (closes conn = true <-> exists l1 qa, answered conn = l1 ++ [qa] /\ persisted (fst qa) = false)
  /\ (forall date rs out cl, serve date rs conn = Ok (out, cl) -> cl = closes conn).
Proof.
  intros conn H. split; [apply answered_inner_persisted|]. split; [now apply closes_iff|].
  intros. eapply serve_closed; eauto.
Qed.
Print Assumptions C18_closed_iff_not_persistent.

(* Non-vacuity: a pipelined connection mixing 1.1 chunked, 1.0 keep-alive with a
   clamped Content-Length, and a final Connection: close; it satisfies every
   hypothesis above and reads back as three responses. *)
Definition ex_conn : list (req * app) :=
  [({| r_v11 := true; r_conn := None; r_ok := true |},
    {| a_status := bs "200 OK"; a_headers := [(bs "Content-Type", bs "text/plain")];
       a_pieces := [bs "hello "; []; bs "world"];
       a_first := Some (bs "200 OK", [(bs "Content-Length", bs "3")]) |});
   ({| r_v11 := false; r_conn := Some (bs "Keep-Alive"); r_ok := true |},
    {| a_status := bs "404 Not Found"; a_headers := [(bs "CONTENT-LENGTH", bs "4")];
       a_pieces := [bs "ab"; bs "cdef"]; a_first := None |});
   ({| r_v11 := true; r_conn := Some (bs "close"); r_ok := true |},
    {| a_status := bs "200 OK"; a_headers := []; a_pieces := []; a_first := None |});
   ({| r_v11 := true; r_conn := None; r_ok := true |},
    {| a_status := bs "200 OK"; a_headers := []; a_pieces := [bs "never"]; a_first := None |})].
Example C18_example :
  wf_conn ex_conn = true /\ framed_conn ex_conn = true /\ closes ex_conn = true /\
  List.map (fun r => (p_framing r, p_body r)) (List.map (expected (bs "D")) (answered ex_conn))
  = [(ByChunks, bs "hello world"); (ByLength, bs "abcd"); (ByChunks, [])].
Proof. vm_compute. repeat split. Qed.
