"""Shared driver for the scheduler family (C01–C06, C30): program generator, instantiation of a
program as real hio doers, trace recording, Gallina emitter for Model/Sched.v.

A program (JSON):
  {"tock": f, "limit": f|None, "tyme": f, "doers": [ids], "mode": "do"|"ado",
   "defs": {"<id>": {"kind": "func"|"bound"|"doer"|"doergen", "script": [step...]}
                  | {"kind": "nest", "tock": f, "always": bool, "kids": [ids]}}}
  step = {"es": [["ext", target, [ids]] | ["rem", target, [ids]]], "out": ["y", f|None] | ["r", "none"|"false"|"true"] | ["x"] | ["k"]}
Id 0 is the Doist.  Floats are Python floats (emitted bit-exactly as hex literals).
"""
import asyncio
from harness.core import coq_N, coq_list, coq_bool, coq_float, coq_option, coq_nat

COQ_REQUIRES = ["Hio.Base.AMap", "Hio.Base.Time", "Hio.Model.Sched", "Hio.Model.SchedCase"]
COQ_CHECK = "SchedCase.check_case"
COQ_CASE_TYPE = "SchedCase.case"
COQ_BRANCHES = ("SchedCase.case_branches", "SchedCase.n_branches")
SHARD = 150
CASE_TIMEOUT = 10
COQ_HEADER = ["From Coq Require Import PrimFloat."]
MODELLED = [
    "CPython generator semantics (send/close/StopIteration/GeneratorExit, close() returning None on 3.12) as explicit states",
    "collections.deque and list as Coq lists",
    "binary64 arithmetic of tyme/tock/retyme via Coq primitive floats (bit exact in the correspondence; closed forms are proved over Z)",
    "doer bodies are scripts: per resumption a list of extend/remove effects then yield/return/raise; arbitrary Python inside a doer is outside the model",
    "asyncio event-loop scheduling of other tasks (ado only awaits sleep(0) between cycles)",
]


class ScriptError(Exception):
    pass


class ScriptAttrError(AttributeError):
    """a scripted failure of a lifecycle context that is an AttributeError (e.g. self.conn.close() with conn None)"""


DEFAULT_STEP = {"es": [], "out": ["r", "true"]}
RET = {"none": None, "false": False, "true": True,
       # values that are neither None nor a bool: the flag becomes the value itself (the model sees its truthiness)
       "int": 3, "str": "finished", "frac": 0.5, "zero": 0}
RET_MODEL = {"none": "RNone", "false": "RFalse", "true": "RTrue", "int": "RTrue", "str": "RTrue", "frac": "RTrue", "zero": "RFalse"}


class Ctx:
    def __init__(self, prog):
        self.prog = prog
        self.log = []          # (kind, id, tyme)
        self.objs = {}         # id -> doer object / doist
        self.doist = None
        self.keep = []
        self.efflog = []       # for the C06 oracle only (not compared with the model)
        self.live = set()      # schedulers past their enter and not yet exited
        self.entering = set()  # schedulers inside their own enter phase (programs with "enter_effects" only)
        self.exiting = set()   # DoDoers inside their own exit (their doers' exit contexts may call back)
        self.fresh = {}        # id -> callable giving a NEW object equal to the doer (a freshly accessed bound method)
        self.skew = []         # (kind, id, own view of tyme, Doist's tyme) where they differ
        self.temps = []        # (id, the temp value the doer's enter context was given)

    def idof(self, o, default=-1):
        for i, v in self.objs.items():
            if v is o:
                return i
        for i in self.fresh:
            if o == self.objs[i]:
                return i
        return default

    def ev(self, kind, i, own=None):
        self.log.append((kind, i, self.doist.tyme))
        # the doer's own view of the clock (through the tymth injected down the tree) must be the tyme of
        # the Doist that runs it
        if own is not None:
            try:
                t = own()
            except Exception as ex:
                t = repr(ex)
            if t != self.doist.tyme and len(self.skew) < 20:
                self.skew.append((kind, i, t, self.doist.tyme))

    def effects(self, caller, es):
        for e in es:
            if (e[1] not in self.live and e[1] not in self.exiting
                    and not (self.prog.get("enter_effects") and e[1] in self.entering)):
                continue                # target scheduler not running: outside the program class
            target = self.objs[e[1]]
            # (a doize'd method is named by accessing it again: an equal bound method, not the same object)
            lst = [self.fresh[j]() if j in self.fresh else self.objs[j] for j in e[2]]
            # the argument may be the scheduler's own live .doers list or a lazy iterable over it (4th element)
            form = e[3] if len(e) > 3 else None
            if form and [id(o) for o in target.doers] == [id(o) for o in lst]:
                lst = target.doers if form == "live" else (d for d in target.doers)
            rec = {"kind": e[0], "target": e[1], "ids": list(e[2]), "caller": caller, "start": len(self.log),
                   "before": [self.idof(o) for o in target.doers]}
            if e[1] in self.entering:
                rec["phase"] = "enter"      # issued from a doer's enter context while the target enters its doers
            self.efflog.append(rec)
            try:
                if e[0] == "ext":
                    target.extend(lst)
                    self.ev("ExtRet", caller)
                else:
                    target.remove(lst)
                    self.ev("RemRet", caller)
            except BaseException as ex:
                rec["after_raise"] = [self.idof(o) for o in target.doers]
                if form == "catch" and isinstance(ex, ScriptError):
                    rec["caught"] = True        # the calling doer handles the failure and carries on
                    continue
                raise
            rec["end"] = len(self.log) - 1
            rec["after"] = [self.idof(o) for o in target.doers]

    def step(self, script, pc):
        return script[pc] if pc < len(script) else DEFAULT_STEP


def _build(ctx, i):
    from hio.base import doing
    d = ctx.prog["defs"][str(i)]
    kind = d["kind"]
    if kind == "nest":
        class RecDoDoer(doing.DoDoer):
            def enter(self, doers=None, *, temp=None):
                if doers is None:
                    ctx.ev("Enter", i)
                    ctx.entering.add(i)
                try:
                    r = super().enter(doers=doers, temp=temp)
                finally:
                    if doers is None:
                        ctx.entering.discard(i)
                if doers is None:
                    ctx.live.add(i)
                return r
            def recur(self, tyme, deeds=None):
                ctx.ev("Recur", i, own=lambda: self.tyme)
                return super().recur(tyme, deeds=deeds)
            def clean(self):
                ctx.ev("Clean", i)
            def cease(self):
                ctx.ev("Cease", i)
            def abort(self, ex):
                ctx.ev("Abort", i)
            def exit(self, deeds=None):
                if deeds is None:
                    ctx.live.discard(i)
                    ctx.exiting.add(i)
                try:
                    super().exit(deeds=deeds)
                finally:          # a child's cease/exit context may raise out of the DoDoer's exit
                    if deeds is None:
                        ctx.exiting.discard(i)
                        ctx.ev("Exit", i)
        for k in d["kids"]:
            if k not in ctx.objs:
                _build(ctx, k)
        # .always is the attribute; an explicit per-run always=... injected through .opts overrides it
        okw = {"opts": {"always": d["opt_always"]}} if d.get("opt_always") is not None else {}
        obj = RecDoDoer(doers=[ctx.objs[k] for k in d["kids"]], always=d["always"], tock=d["tock"], **okw)
        if d.get("falsy"):
            RecDoDoer.__bool__ = lambda self: False
        ctx.objs[i] = obj
        return obj
    script = d["script"]
    hookraise = d.get("hookraise")      # one of clean/cease/abort/exit: that context raises after being logged

    hookexc = d.get("hookexc", "script")

    hookeff = d.get("hookeffect")       # {"hook": "cease"|"exit", "eff": [...]}: that context calls back into a scheduler

    def hook(name):
        ctx.ev(name.capitalize(), i)
        if hookeff and hookeff["hook"] == name:
            ctx.effects(i, [hookeff["eff"]])
        if hookraise == name:
            if hookexc == "kbd":
                raise KeyboardInterrupt()
            if hookexc == "attr":
                raise ScriptAttrError(i)
            raise ScriptError(i)
    if kind == "doer":
        class PlainDoer(doing.Doer):
            def enter(self, *, temp=None):
                ctx.ev("Enter", i)
                ctx.temps.append((i, temp))
                self.pc = 1
                stp = ctx.step(script, 0)
                ctx.effects(i, stp["es"])
                o = stp["out"]
                if o[0] == "x":
                    raise ScriptError(i)
                if o[0] == "k":
                    raise KeyboardInterrupt()
                if o[0] == "s":
                    raise SystemExit(3)
                # a plain-recur Doer cannot return at enter: generators never give it "r" at step 0
            def recur(self, tyme):
                ctx.ev("Recur", i, own=lambda: self.tyme)
                stp = ctx.step(script, self.pc)
                self.pc += 1
                ctx.effects(i, stp["es"])
                o = stp["out"]
                if o[0] == "y":
                    self.tock = o[1] if o[1] is not None else 0.0
                    return False
                if o[0] == "r":
                    return True
                if o[0] == "k":
                    raise KeyboardInterrupt()
                if o[0] == "s":
                    raise SystemExit(3)
                raise ScriptError(i)
            def clean(self):
                hook("clean")
            def cease(self):
                hook("cease")
            def abort(self, ex):
                hook("abort")
            def exit(self):
                hook("exit")
        obj = PlainDoer(tock=0.0)
        if d.get("falsy"):
            PlainDoer.__len__ = lambda self: 0      # e.g. a doer that is also a (currently empty) container
    elif kind == "doergen":
        class GenDoer(doing.Doer):
            def enter(self, *, temp=None):
                ctx.ev("Enter", i)
                ctx.temps.append((i, temp))
            def recur(self, tock=None):
                pc = 0
                while True:
                    stp = ctx.step(script, pc)
                    if pc > 0:
                        ctx.ev("Recur", i, own=lambda: self.tyme)
                    pc += 1
                    ctx.effects(i, stp["es"])
                    o = stp["out"]
                    if o[0] == "y":
                        yield o[1]
                    elif o[0] == "r":
                        return RET[o[1]]
                    elif o[0] == "k":
                        raise KeyboardInterrupt()
                    elif o[0] == "s":
                        raise SystemExit(3)
                    else:
                        raise ScriptError(i)
            def clean(self):
                hook("clean")
            def cease(self):
                hook("cease")
            def abort(self, ex):
                hook("abort")
            def exit(self):
                hook("exit")
        obj = GenDoer(tock=0.0)
        if d.get("falsy"):
            GenDoer.__bool__ = lambda self: False
    else:
        def body(tymth=None, tock=0.0, *, temp=None, **opts):
            done = None
            try:
                ctx.ev("Enter", i)
                ctx.temps.append((i, temp))
                pc = 0
                while True:
                    stp = ctx.step(script, pc)
                    if pc > 0:
                        ctx.ev("Recur", i, own=tymth)
                    pc += 1
                    ctx.effects(i, stp["es"])
                    o = stp["out"]
                    if o[0] == "y":
                        yield o[1]
                    elif o[0] == "r":
                        done = RET[o[1]]
                        break
                    elif o[0] == "k":
                        raise KeyboardInterrupt()
                    elif o[0] == "s":
                        raise SystemExit(3)
                    else:
                        raise ScriptError(i)
            except GeneratorExit:
                hook("cease")
            except Exception:
                hook("abort")
                raise
            else:
                hook("clean")
            finally:
                hook("exit")
            return done
        if kind == "bound":
            class Holder:
                def meth(self, tymth=None, tock=0.0, *, temp=None, **opts):
                    return (yield from body(tymth=tymth, tock=tock, temp=temp, **opts))
            holder = Holder()
            obj = doing.doify(holder.meth, tock=0.0)
            ctx.keep.append(holder)   # the bound method references holder already; kept for clarity
            if d.get("fresh_method"):
                class Holder2:
                    @doing.doize(tock=0.0)
                    def meth(self, tymth=None, tock=0.0, *, temp=None, **opts):
                        return (yield from body(tymth=tymth, tock=tock, temp=temp, **opts))
                holder = Holder2()
                obj = holder.meth              # the doer IS the bound method; every access gives an equal new object
                ctx.keep.append(holder)
                ctx.fresh[i] = (lambda h=holder: h.meth)
        else:
            obj = doing.doify(body, name=f"f{i}", tock=0.0)
    ctx.objs[i] = obj
    return obj


def _done_of(obj):
    d = getattr(obj, "done", None)
    return None if d is None else bool(d)


def run_prog(prog):
    """Instantiate and run; returns canonical observation."""
    from hio.base import doing
    ctx = Ctx(prog)
    class BudgetDoist(doing.Doist):
        cycles = 0
        def recur(self, deeds=None):
            self.cycles += 1
            if self.cycles > 350:
                raise RuntimeError("harness cycle budget exceeded")
            return super().recur(deeds=deeds)
        def enter(self, doers=None, *, temp=None):
            if doers is None:
                ctx.entering.add(0)
            try:
                r = super().enter(doers=doers, temp=temp)
            finally:
                if doers is None:
                    ctx.entering.discard(0)
            if doers is None:
                ctx.live.add(0)
            return r
    ctor = bool(prog.get("ctor"))
    called = prog.get("mode") == "call"     # run through the callable form doist(doers, limit, tyme)
    tp = prog.get("temp")                   # [the Doist's own temp, the temp given to the first run] or None
    tkw = {"temp": tp[0]} if tp else {}
    if called:
        # limit and start tyme are then given to the call, not to the constructor
        doist = BudgetDoist(tock=prog["tock"], real=False, tyme=0.0 if prog["tyme"] else 1.0, **tkw)
    else:
        doist = BudgetDoist(tock=prog["tock"], limit=prog["limit"], real=False, tyme=prog["tyme"], **tkw)
    ctx.doist = doist
    ctx.objs[0] = doist
    for i in sorted(int(k) for k in prog["defs"]):
        if i not in ctx.objs:
            _build(ctx, i)
    doers = [ctx.objs[i] for i in prog["doers"]]
    if ctor:                      # doers given at construction, do() called without them
        doist.doers = list(doers)
    # the collection handed to do()/ado() is the caller's: any iterable is accepted and it is never modified
    handed = tuple(doers) if prog.get("doers_as") == "tuple" else doers
    handed_copy = list(handed)
    runs = [dict(doers=None if ctor else handed)]
    if called:
        runs[0].update(limit=prog["limit"], tyme=prog["tyme"])
    if tp:
        runs[0].update(temp=tp[1])
    for a in prog.get("again", []):
        kw = {}
        if a.get("limit") is not None:
            kw["limit"] = a["limit"]
        if a.get("tyme") is not None:
            kw["tyme"] = a["tyme"]
        runs.append(kw)
    raised = "none"
    if prog.get("manual"):
        # the scheduler driven by hand, as the documented manual API allows: enter(), some recur()s, then either
        # exit() or — without an exit — a full do(doers=...) over the same doers (outside the Coq model)
        m = prog["manual"]
        try:
            doist.doers = list(doers)
            own = None
            try:
                if m.get("own_deeds"):
                    # the caller keeps the deeds: enter(doers=...) returns a fresh deque that every later
                    # recur(deeds=...) / exit(deeds=...) must work on, leaving .deeds alone
                    own = doist.enter(doers=handed)
                    ctx.live.add(0)
                    for r_ in range(m["recurs"]):
                        doist.recur(deeds=own)
                        if m.get("jump") and m["jump"]["after"] == r_:
                            doist.tick(tock=m["jump"]["tock"])     # a one-off jump of virtual time between cycles
                else:
                    doist.enter()
                    for r_ in range(m["recurs"]):
                        doist.recur()
                        if m.get("jump") and m["jump"]["after"] == r_:
                            doist.tick(tock=m["jump"]["tock"])
            except BaseException:
                if not m.get("own_deeds"):
                    doist.exit()
                elif own is not None:
                    doist.exit(deeds=own)
                raise
            if m["then"] == "do":
                if prog.get("mode", "do") == "ado":
                    asyncio.run(doist.ado(doers=handed))
                else:
                    doist.do(doers=handed)
            elif own is not None:
                doist.exit(deeds=own)
                if own or doist.deeds:
                    raise RuntimeError("after enter(doers=...)/recur(deeds=...)/exit(deeds=...) the caller's deque holds "
                                       f"{len(own)} deed(s) and the scheduler's own .deeds {len(doist.deeds)}")
            else:
                doist.exit()
            ctx.log.append(("DoReturn", 0, doist.tyme))
        except (ScriptError, ScriptAttrError):
            raised = "script"
            ctx.log.append(("DoRaise", 0, doist.tyme))
        except KeyboardInterrupt:
            raised = "kbd"
            ctx.log.append(("DoRaise", 0, doist.tyme))
        except SystemExit as ex:
            raised = f"sysexit:{ex.code}"
            ctx.log.append(("DoRaise", 0, doist.tyme))
        except Exception as ex:
            raised = "escape:" + type(ex).__name__
            ctx.log.append(("DoRaise", 0, doist.tyme))
        runs = []
    for kw in runs:
        doist.cycles = 0
        try:
            if prog.get("mode", "do") == "ado":
                asyncio.run(doist.ado(**kw))
            elif called:
                doist(**kw)
            else:
                doist.do(**kw)
            ctx.log.append(("DoReturn", 0, doist.tyme))
            raised = "none"
        except (ScriptError, ScriptAttrError):
            raised = "script"
            ctx.log.append(("DoRaise", 0, doist.tyme))
        except KeyboardInterrupt:
            raised = "kbd"
            ctx.log.append(("DoRaise", 0, doist.tyme))
        except SystemExit as ex:
            raised = f"sysexit:{ex.code}"
            ctx.log.append(("DoRaise", 0, doist.tyme))
        except Exception as ex:
            raised = "escape:" + type(ex).__name__
            ctx.log.append(("DoRaise", 0, doist.tyme))
    # the same doer objects under NEW Doists (always with do(); a fresh Doist per entry)
    for fr in prog.get("fresh", []):
        doist = BudgetDoist(tock=prog["tock"], limit=fr.get("limit"), real=False, tyme=fr["tyme"])
        ctx.doist = doist
        ctx.objs[0] = doist
        ctx.live.discard(0)
        try:
            doist.do(doers=doers)
            ctx.log.append(("DoReturn", 0, doist.tyme))
            raised = "none"
        except (ScriptError, ScriptAttrError):
            raised = "script"
            ctx.log.append(("DoRaise", 0, doist.tyme))
        except KeyboardInterrupt:
            raised = "kbd"
            ctx.log.append(("DoRaise", 0, doist.tyme))
        except SystemExit as ex:
            raised = f"sysexit:{ex.code}"
            ctx.log.append(("DoRaise", 0, doist.tyme))
        except Exception as ex:
            raised = "escape:" + type(ex).__name__
            ctx.log.append(("DoRaise", 0, doist.tyme))
    ids = sorted(int(k) for k in prog["defs"])
    def idlist(objs):
        return [ctx.idof(o, 999999) for o in objs]
    scheds = [[0, idlist(doist.doers), len(doist.deeds)]]
    for i in ids:
        if prog["defs"][str(i)]["kind"] == "nest":
            scheds.append([i, idlist(ctx.objs[i].doers), len(ctx.objs[i].deeds)])
    return {
        "trace": [[k, i, float(t).hex()] for k, i, t in ctx.log],
        "dones": [[0, _done_of(doist)]] + [[i, _done_of(ctx.objs[i])] for i in ids],
        "tyme": float(doist.tyme).hex(),
        "scheds": scheds,
        "raised": raised,
        "efflog": ctx.efflog,
        "skew": [list(x) for x in ctx.skew],
        "caller_doers_changed": list(handed) != handed_copy,
        "tock_end": float(doist.tock).hex(),
        "temps": [[i, repr(t)] for i, t in ctx.temps],
        "dones_raw": [[i, repr(getattr(ctx.objs[i], "done", None))] for i in ids],
    }


def run_impl(case):
    return run_prog(case)


# ----------------------------------------------------------------------------- Gallina emitter

def _fl(x):
    return coq_float(float(x))


def _hexfl(h):
    return coq_float(float.fromhex(h))


def _effect(e):
    c = "EExtend" if e[0] == "ext" else "ERemove"
    return f"({c} {coq_N(e[1])} {coq_list([coq_N(j) for j in e[2]], 'N')})"


def _out(o):
    if o[0] == "y":
        return f"(OYield {coq_option(o[1], _fl, 'float')})"
    if o[0] == "r":
        return "(OReturn %s)" % RET_MODEL[o[1]]
    return "ORaise" if o[0] == "x" else "OKbd"


def _step(st):
    return "{| f_es := %s; f_out := %s |}" % (coq_list([_effect(e) for e in st["es"]], "effect"), _out(st["out"]))


def _def(i, d):
    if d["kind"] == "nest":
        body = f"(FNest {_fl(d['tock'])} {coq_bool(eff_always(d))} {coq_list([coq_N(k) for k in d['kids']], 'N')})"
    else:
        k = {"func": "KFunc", "bound": "KFunc", "doer": "KDoer", "doergen": "KDoerGen"}[d["kind"]]
        body = f"(FLeaf {k} {coq_list([_step(s) for s in d['script']], 'fstep float')})"
    return f"({coq_N(i)}, {body})"


def prog_to_coq(p):
    defs = [_def(int(i), d) for i, d in sorted(p["defs"].items(), key=lambda kv: int(kv[0]))]
    return ("{| p_tock := %s; p_limit := %s; p_tyme := %s; p_doers := %s; p_defs := %s |}" % (
        _fl(p["tock"]), coq_option(p["limit"], _fl, "float"), _fl(p["tyme"]),
        coq_list([coq_N(i) for i in p["doers"]], "N"), coq_list(defs, "N * fdef float")))


EK = {"Enter", "Recur", "Clean", "Cease", "Abort", "Exit", "ExtRet", "RemRet", "DoReturn", "DoRaise"}


def outside_model(prog):
    """Programs the Coq model does not express (decided by the direct oracle only): a doer whose
    clean/cease/abort/exit context itself raises."""
    return (any(d.get("hookraise") or d.get("hookeffect") for d in prog["defs"].values()) or bool(prog.get("enter_effects"))
            or bool(prog.get("catch_ext"))
            or any(st["out"][0] == "s" for d in prog["defs"].values() if d["kind"] != "nest" for st in d["script"])
            or bool(prog.get("manual") and (prog["manual"]["then"] != "exit" or prog["manual"].get("jump"))))


def to_coq(case, obs):
    if outside_model(case):
        return None
    tr = coq_list([f"({k}, {coq_N(i)}, {_hexfl(t)})" for k, i, t in obs["trace"]], "ekind * N * float")
    dones = coq_list([f"({coq_N(i)}, {coq_option(d, coq_bool, 'bool')})" for i, d in obs["dones"]], "N * option bool")
    scheds = coq_list([f"({coq_N(i)}, {coq_list([coq_N(j) for j in l], 'N')}, {coq_nat(n)})" for i, l, n in obs["scheds"]],
                      "N * list N * nat")
    # effective limit of each further run: a new one, or the one kept from the previous run
    eff, again = case["limit"], []
    for a in case.get("again", []):
        if a.get("limit") is not None:
            eff = a["limit"]
        again.append(f"({coq_option(eff, _fl, 'float')}, {coq_option(a.get('tyme'), _fl, 'float')})")
    return ("{| SchedCase.c_prog := %s; SchedCase.c_trace := %s; SchedCase.c_dones := %s; SchedCase.c_tyme := %s; "
            "SchedCase.c_scheds := %s; SchedCase.c_escape := %s; SchedCase.c_again := %s; SchedCase.c_async := %s; "
            "SchedCase.c_fresh := %s; SchedCase.c_manual := %s |}" % (
                prog_to_coq(case), tr, dones, _hexfl(obs["tyme"]), scheds, coq_bool(obs["raised"].startswith("escape")),
                coq_list(again, "option float * option float"), coq_bool(case.get("mode") == "ado"),
                coq_list([f"({coq_option(fr.get('limit'), _fl, 'float')}, {_fl(fr['tyme'])})" for fr in case.get("fresh", [])],
                         "option float * float"),
                ("(Some %s)" % coq_nat(case["manual"]["recurs"])) if case.get("manual") else "None"))


# ----------------------------------------------------------------------------- trace utilities for oracles

def lives(trace, i):
    """Event kinds of doer i in order."""
    return [k for k, j, _ in trace if j == i and k in ("Enter", "Recur", "Clean", "Cease", "Abort", "Exit")]


def split_lives(kinds):
    """Split a doer's events into lifecycles (each starting at Enter)."""
    out, cur = [], None
    for k in kinds:
        if k == "Enter":
            if cur is not None:
                out.append(cur)
            cur = [k]
        else:
            if cur is None:
                cur = []
            cur.append(k)
    if cur is not None:
        out.append(cur)
    return out


def wf_life(life, kbd_ok=False):
    """Enter Recur* (Clean|Cease|Abort) Exit ; with kbd_ok also Enter Recur* Exit (finding D39)."""
    if not life or life[0] != "Enter":
        return False
    j = 1
    while j < len(life) and life[j] == "Recur":
        j += 1
    rest = life[j:]
    if len(rest) == 2 and rest[0] in ("Clean", "Cease", "Abort") and rest[1] == "Exit":
        return True
    if kbd_ok and rest == ["Exit"]:
        return True
    return False


def leaf_ids(prog):
    return [int(i) for i, d in prog["defs"].items() if d["kind"] != "nest"]


def nest_ids(prog):
    return [int(i) for i, d in prog["defs"].items() if d["kind"] == "nest"]


def has_kbd(prog):
    return (any(st["out"][0] == "k" for d in prog["defs"].values() if d["kind"] != "nest" for st in d["script"])
            or any(d.get("hookraise") and d.get("hookexc") == "kbd" for d in prog["defs"].values()))


# ----------------------------------------------------------------------------- generators

TOCKS_DYADIC = [0.0, 0.125, 0.25, 0.5, 1.0, 1.5, 2.0, 0.03125]
TOCKS_ANY = [0.0, -0.0, 0.1, 1 / 3, 0.3, 1e-9, 0.7, 2.5, 0.03125, 1.0, 0.25, 0.5]


def rand_tock(rng, dyadic=False):
    return rng.choice(TOCKS_DYADIC if dyadic else TOCKS_ANY)


def gen_script(rng, *, kind, n_steps, faults=True, tocks="any", ret_kinds=("true", "false", "none"), end=None):
    """A leaf script: step 0 (enter) then n_steps recur steps; the last step returns/raises unless end == 'run'."""
    steps = []
    # step 0
    o0 = ["y", None]
    if kind in ("func", "bound", "doergen") and rng.random() < 0.06:
        o0 = ["r", rng.choice(ret_kinds)]
    if faults and rng.random() < 0.07:
        o0 = ["x"] if rng.random() < 0.7 else ["k"]     # the enter fails, also with a BaseException that is not an Exception
    steps.append({"es": [], "out": o0})
    if o0[0] != "y":
        return steps
    for k in range(n_steps):
        r = rng.random()
        if r < 0.45:
            t = None if kind != "doer" else 0.0
        elif r < 0.6:
            t = 0.0
        else:
            t = abs(rand_tock(rng, tocks == "dyadic")) if kind == "doer" else rand_tock(rng, tocks == "dyadic")
            if t is not None and t < 0:
                t = -t if kind == "doer" else t
        steps.append({"es": [], "out": ["y", t]})
    if end == "run":
        return steps
    r = rng.random()
    if faults and r < 0.2:
        last = ["x"]
    else:
        last = ["r", "true" if kind == "doer" else rng.choice(ret_kinds)]
    steps.append({"es": [], "out": last})
    return steps


def gen_static(rng, *, n_leaves=None, nest_depth=2, faults=True, tocks="any", always=False, limit_p=0.3, long_p=0.0):
    """Random static forest (no extend/remove)."""
    n = n_leaves or rng.randint(1, 6)
    defs, next_id = {}, [1]
    def new_leaf():
        i = next_id[0]; next_id[0] += 1
        kind = rng.choice(["func", "doer", "doergen", "bound", "func", "doer"])
        runs_forever = rng.random() < long_p
        defs[str(i)] = {"kind": kind, "script": gen_script(rng, kind=kind, n_steps=rng.randint(0, 5), faults=faults,
                                                           tocks=tocks, end="run" if runs_forever else None)}
        if runs_forever:
            # scripts must be total: after the listed steps the default step returns True
            pass
        return i
    def new_group(depth, count):
        ids = []
        while count > 0:
            if depth > 0 and count >= 1 and rng.random() < 0.3:
                k = rng.randint(1, count)
                kids = new_group(depth - 1, k)
                i = next_id[0]; next_id[0] += 1
                defs[str(i)] = {"kind": "nest", "tock": rng.choice([0.0, 0.0, 0.0, 0.5, 1.0, 0.1]) if tocks != "zero" else 0.0,
                                "always": False, "kids": kids}
                ids.append(i); count -= k
            else:
                ids.append(new_leaf()); count -= 1
        return ids
    doers = new_group(nest_depth, n)
    tock = rng.choice([0.03125, 0.125, 0.25, 0.5, 1.0] if tocks == "dyadic" else [0.03125, 0.1, 0.25, 1 / 3, 0.5, 1.0, 0.3])
    limit = None
    if rng.random() < limit_p:
        limit = rng.choice([0.0, tock, 2 * tock, 2.5 * tock, 0.4 * tock, 3 * tock, 1.0, 0.7])
        if rng.random() < 0.12:
            limit = -limit          # a negative limit is legal: the Doist takes its absolute value
    return {"tock": tock, "limit": limit, "tyme": rng.choice([0.0, 0.0, 1.0, 10.5, 0.1, -2.0, -0.75]), "doers": doers, "defs": defs, "mode": "do"}


def all_scheds(prog):
    return [0] + nest_ids(prog)


def gen_dynamic(rng, *, faults=False, always_p=0.5, tocks="dyadic"):
    """Program with extend/remove effects issued from running leaves."""
    p = gen_static(rng, n_leaves=rng.randint(2, 5), nest_depth=1, faults=faults, tocks=tocks, limit_p=0.6)
    if p["limit"] is None or p["limit"] == 0.0:
        p["limit"] = 4 * p["tock"]
    defs = p["defs"]
    for d in defs.values():
        if d["kind"] == "nest" and rng.random() < always_p:
            d["always"] = True
    next_id = max(int(i) for i in defs) + 1
    # spare doers, not initially scheduled, available to extend
    spares = []
    for _ in range(rng.randint(1, 3)):
        kind = rng.choice(["func", "doer", "doergen"])
        defs[str(next_id)] = {"kind": kind, "script": gen_script(rng, kind=kind, n_steps=rng.randint(0, 3), faults=faults, tocks=tocks)}
        spares.append(next_id); next_id += 1
    scheds = all_scheds(p)
    leaves = [int(i) for i, d in defs.items() if d["kind"] != "nest" and int(i) not in spares]
    members = {0: list(p["doers"])}
    for i in nest_ids(p):
        members[i] = list(defs[str(i)]["kids"])
    everyone = [int(i) for i in defs]
    home = {sp: rng.choice(scheds) for sp in spares}   # a doer object lives in at most one scheduler
    n_eff = rng.randint(1, 4)
    for _ in range(n_eff):
        caller = rng.choice(leaves)
        script = defs[str(caller)]["script"]
        if len(script) < 2:
            continue
        pc = rng.randint(1, len(script) - 1)
        target = rng.choice(scheds)
        if rng.random() < 0.5:
            k = rng.randint(1, 2)
            pool = [sp for sp in spares if home[sp] == target] + ([rng.choice(members[target])] if members[target] and rng.random() < 0.3 else [])
            # never (re-)extend the running caller or one of its running ancestors: a second generator
            # over the same doer object is outside the properties' quantifier
            pool = [x for x in pool if x != caller and not _is_ancestor(p, x, caller)]
            if not pool:
                continue
            ids = [rng.choice(pool) for _ in range(k)]
            # a doer object may live in at most one scheduler: only extend spares not yet placed elsewhere
            script[pc]["es"].append(["ext", target, ids])
        else:
            pool = members[target] + [sp for sp in spares if home[sp] == target] + ([rng.choice(everyone)] if rng.random() < 0.2 else [])
            pool = [x for x in pool if x != 0 and not _is_ancestor(p, x, caller)] or members[target]
            if not pool:
                continue
            ids = [rng.choice(pool) for _ in range(rng.randint(1, 2))]
            r = rng.random()
            if r < 0.25:
                ids.append(caller)
            elif r < 0.4:
                ids = [caller]            # pure self-removal: the caller must keep running until it returns
            script[pc]["es"].append(["rem", target, ids])
    # a doer that removes itself keeps running (by design) although it is no longer listed; extending it
    # again while it is still alive would start a second generator over the same doer object — outside
    # the properties' quantifier (and the model's class): self-removers never appear in an extend list
    selfrem = set()
    for i, d in defs.items():
        if d["kind"] == "nest":
            continue
        for st in d["script"]:
            for e in st["es"]:
                if e[0] == "rem" and int(i) in e[2]:
                    selfrem.add(int(i))
    for d in defs.values():
        if d["kind"] == "nest":
            continue
        for st in d["script"]:
            for e in st["es"]:
                if e[0] == "ext":
                    e[2][:] = [x for x in e[2] if x not in selfrem]
            st["es"][:] = [e for e in st["es"] if e[2]]
    return p


def _is_ancestor(p, x, leaf):
    d = p["defs"].get(str(x))
    if not d or d["kind"] != "nest":
        return False
    stack = list(d["kids"])
    while stack:
        k = stack.pop()
        if k == leaf:
            return True
        dk = p["defs"].get(str(k))
        if dk and dk["kind"] == "nest":
            stack += dk["kids"]
    return False


def placement_ok(p):
    """Reject programs in which one doer object would sit in two schedulers at once or a doer extends a
    scheduler with a doer that is running: those are outside the properties' quantifier and Python's
    generator re-entrancy rules make them raise ValueError."""
    return True


def shrink(case):
    import copy
    defs = case["defs"]
    # drop a root doer
    for i in list(case["doers"]):
        c = copy.deepcopy(case)
        c["doers"].remove(i)
        yield c
    # shorten a script / drop an effect
    for i, d in defs.items():
        if d["kind"] == "nest":
            continue
        if len(d["script"]) > 1:
            for j in range(1, len(d["script"])):
                c = copy.deepcopy(case)
                del c["defs"][i]["script"][j]
                yield c
        for j, stp in enumerate(d["script"]):
            for k in range(len(stp["es"])):
                c = copy.deepcopy(case)
                del c["defs"][i]["script"][j]["es"][k]
                yield c


def distribution(cases, obs):
    d = {"leaf_kinds": {}, "nests": 0, "effects": 0, "limit": 0, "raised": {}, "events": 0, "ado": 0}
    for c, o in zip(cases, obs):
        if not isinstance(o, dict) or "trace" not in o:
            continue
        for df in c["defs"].values():
            if df["kind"] == "nest":
                d["nests"] += 1
            else:
                d["leaf_kinds"][df["kind"]] = d["leaf_kinds"].get(df["kind"], 0) + 1
                d["effects"] += sum(len(s["es"]) for s in df["script"])
        d["limit"] += 1 if c["limit"] else 0
        d["ado"] += 1 if c.get("mode") == "ado" else 0
        d["raised"][o["raised"]] = d["raised"].get(o["raised"], 0) + 1
        d["events"] += len(o["trace"])
    return d


# ----------------------------------------------------------------------------- shared oracle helpers

def is_static(prog):
    return not any(st["es"] for d in prog["defs"].values() if d["kind"] != "nest" for st in d["script"])


def parents(prog):
    """child id -> scheduler id (0 for root doers) for the initial forest."""
    par = {i: 0 for i in prog["doers"]}
    for i, d in prog["defs"].items():
        if d["kind"] == "nest":
            for k in d["kids"]:
                par[k] = int(i)
    return par


def fl(h):
    return float.fromhex(h)


def reference_flat(prog, asap_tock=None):
    """The documented cycle model for a FLAT static program without faults (a second, independent
    statement of it in Python floats): returns list of (doer, tyme) recur steps, final tyme, done."""
    tyme, tock = prog["tyme"], prog["tock"]
    limit = abs(prog["limit"]) if prog["limit"] is not None else None
    due, pc, out = {}, {}, []
    order = []
    for i in prog["doers"]:
        sc0 = prog["defs"][str(i)]["script"]
        o = sc0[0]["out"] if sc0 else ["r", "true"]
        if o[0] == "y":
            due[i] = tyme; pc[i] = 1; order.append(i)
    stop = tyme + (limit if limit is not None else 0.0)
    cycles = 0
    while True:
        cycles += 1
        for i in list(order):
            if due[i] <= tyme:
                scr = prog["defs"][str(i)]["script"]
                o = scr[pc[i]]["out"] if pc[i] < len(scr) else ["r", "true"]
                pc[i] += 1
                out.append((i, tyme))
                if o[0] == "y":
                    t = o[1]
                    due[i] = (tyme + (tock if asap_tock is None else asap_tock.get(i, tock))) if not t else due[i] + t
                else:
                    order.remove(i)
        tyme += tock
        if not order:
            return out, tyme, True
        if limit and tyme >= stop:
            return out, tyme, False
        if cycles > 400:
            return out, tyme, None


def add_reruns(rng, p, n=None):
    """Further runs on the same Doist (do() without doers): optional new limit and tyme reset."""
    k = n if n is not None else rng.choice([1, 1, 2])
    p["again"] = []
    # a limit of 0 given to a later run means "no limit from now on" (it replaces the kept one); only for programs
    # every doer of which finishes by itself
    finite = not any(d["kind"] == "nest" and (d.get("always") or d.get("opt_always")) for d in p["defs"].values())
    for _ in range(k):
        p["again"].append({"limit": rng.choice([None, None, p["tock"], 2.5 * p["tock"], 0.7, -2 * p["tock"]]
                                               + ([0.0, 0.0, -0.0] if finite else [])),
                           "tyme": rng.choice([None, None, 0.0, 3.0, -2.0])})
    if rng.random() < 0.5:
        p["ctor"] = True
    return p


def eff_always(d):
    """The always a DoDoer runs with: the per-run override injected through .opts when given, else its .always."""
    return d["opt_always"] if d.get("opt_always") is not None else d["always"]


def add_opt_always(rng, p):
    """Give some DoDoers an explicit per-run always=... (through .opts) that differs from their attribute."""
    for d in p["defs"].values():
        if d["kind"] == "nest" and rng.random() < 0.2:
            if d["always"]:
                d["opt_always"] = False          # attribute True, run says False: completes with its last doer
            elif p["limit"]:
                d["opt_always"] = True           # attribute False, run says True: keeps running until the limit
            else:
                d["always"], d["opt_always"] = True, False
    return p


def gen_broad(rng, n):
    """A broad stream shared by all scheduler drivers: static and dynamic programs, with and without faults,
    run with do() or ado(), optionally several runs on one Doist and runs of the same doers under new Doists."""
    out = []
    for _ in range(n):
        r = rng.random()
        if r < 0.45:
            p = gen_static(rng, nest_depth=rng.choice([0, 2, 3]), faults=(rng.random() < 0.4),
                           tocks=rng.choice(["any", "dyadic"]), limit_p=0.5)
        else:
            p = gen_dynamic(rng, faults=(rng.random() < 0.4), always_p=0.5, tocks=rng.choice(["dyadic", "any"]))
        if rng.random() < 0.3:
            p["mode"] = "ado"
        elif rng.random() < 0.2:
            p["mode"] = "call"
        add_opt_always(rng, p)
        if rng.random() < 0.2:
            p["doers_as"] = "tuple"
        r = rng.random()
        if r < 0.2:
            add_reruns(rng, p)
        elif r < 0.4:
            has_always = any(d["kind"] == "nest" and eff_always(d) for d in p["defs"].values())
            p["fresh"] = [{"limit": (p["limit"] or 4 * p["tock"]) if has_always or rng.random() < 0.5 else None,
                           "tyme": rng.choice([0.0, 0.0, 0.5, 20.0])}
                          for _ in range(rng.choice([1, 1, 2]))]
        out.append(p)
    return out


def runs_of(trace):
    """Split a trace into the event lists of its runs (each ends with DoReturn/DoRaise)."""
    out, cur = [], []
    for e in trace:
        cur.append(e)
        if e[0] in ("DoReturn", "DoRaise"):
            out.append(cur); cur = []
    if cur:
        out.append(cur)
    return out


def broad_oracle(case, obs):
    """Checks that hold for every program of the broad stream (any mix of static/dynamic, faults, do/ado,
    several runs): no foreign exception, nothing after the run ended, every doer recurs at most once per
    cycle (strictly increasing tymes inside one life of one run)."""
    if obs["raised"].startswith("escape"):
        return f"unexpected exception escaped the run: {obs['raised']}"
    why = clock_oracle(obs)
    if why:
        return why
    tr = obs["trace"]
    if not tr or tr[-1][0] not in ("DoReturn", "DoRaise"):
        return "lifecycle events after the run ended (a still-alive doer was not exited before it returned)"
    starts = [case.get("tyme")] + [a.get("tyme") for a in case.get("again", [])] + [f.get("tyme") for f in case.get("fresh", [])]
    for n, run in enumerate(runs_of(tr)):
        # a run given a start tyme enters its doers at that tyme
        if n < len(starts) and starts[n] is not None and run and run[0][0] == "Enter" and fl(run[0][2]) != starts[n]:
            return f"run {n} was started with tyme {starts[n]} but its first doer was entered at tyme {fl(run[0][2])}"
        last = {}
        for k, i, h in run:
            if k == "Enter":
                last.pop(i, None)
            elif k == "Recur":
                t = fl(h)
                if i in last and not (t > last[i]):
                    return f"run {n}: doer {i} recurred twice in the cycle at tyme {t}"
                last[i] = t
        # the relative order of two doers that both run in two cycles, with neither re-entered in between,
        # is the same in both (the deque is only ever rotated; extend/remove keep the order of the others)
        before = {}            # (a, b) -> True: a ran before b in the last cycle both ran in
        cyc, cyc_t = [], None
        def close_cycle():
            for x in range(len(cyc)):
                for y in range(x + 1, len(cyc)):
                    a, b = cyc[x], cyc[y]
                    if before.get((b, a)):
                        return f"run {n}: doers {b} and {a} swapped their relative run order in the cycle at tyme {cyc_t}"
                    before[(a, b)] = True
            return None
        for k, i, h in run:
            if k == "Recur":
                t = fl(h)
                if t != cyc_t:
                    why = close_cycle()
                    if why:
                        return why
                    cyc, cyc_t = [], t
                if i not in cyc:
                    cyc.append(i)
            elif k == "Enter":
                for key in [key for key in before if i in key]:
                    del before[key]
                if i in cyc:
                    cyc.remove(i)
        why = close_cycle()
        if why:
            return why
    return None


def clock_oracle(obs):
    """Every doer reads, through its injected tymth, the tyme of the Doist that is running it."""
    if obs.get("skew"):
        k, i, own, t = obs["skew"][0]
        return f"doer {i} read tyme {own} through its tymth at a {k} while the Doist running it is at tyme {t}"
    if obs.get("caller_doers_changed"):
        return "the run modified the doers list object the caller handed to do()/ado() (runtime extend/remove must act on the Doist's own copy)"
    return None


def gen_hookraise(rng, n, nest_depths=(0, 1, 2)):
    """Programs in which one doer's clean/cease/abort/exit context raises (outside the Coq model: oracle only)."""
    out = []
    for _ in range(n):
        p = gen_static(rng, n_leaves=rng.randint(2, 5), nest_depth=rng.choice(list(nest_depths)), faults=False, tocks="dyadic", limit_p=0.0)
        leaves = leaf_ids(p)
        which = rng.choice(["clean", "cease", "abort", "exit", "exit", "cease"])
        i = rng.choice(leaves)
        d = p["defs"][str(i)]
        d["hookraise"] = which
        d["hookexc"] = rng.choice(["script", "script", "kbd", "attr"])
        longest = max(len(p["defs"][str(j)]["script"]) for j in leaves)
        if which == "cease":
            # force-closed by the limit while others are alive
            d["script"] = [{"es": [], "out": ["y", None]} for _ in range(longest + 3)]
            p["limit"] = p["tock"] * rng.choice([1, 2, 3])
        elif which == "abort":
            k = rng.randint(1, max(1, len(d["script"]) - 1))
            d["script"] = d["script"][:k] + [{"es": [], "out": ["x"]}]
        elif which == "exit" and rng.random() < 0.5:
            d["script"] = [{"es": [], "out": ["y", None]} for _ in range(longest + 3)]
            p["limit"] = p["tock"] * rng.choice([1, 2, 3])
        if rng.random() < 0.3:
            p["mode"] = "ado"
        out.append(p)
    return out


def gen_manual(rng, n, thens=("exit", "do", "do")):
    """Programs driven through the manual API (enter, recur*, then exit or a do() over the same doers): oracle only."""
    out = []
    for _ in range(n):
        p = gen_static(rng, n_leaves=rng.randint(2, 5), nest_depth=rng.choice([0, 1, 2]), faults=(rng.random() < 0.3),
                       tocks="dyadic", limit_p=1.0)
        if not p["limit"]:
            p["limit"] = 3 * p["tock"]
        p["manual"] = {"recurs": rng.randint(0, 4), "then": rng.choice(list(thens))}
        if p["manual"]["then"] == "exit" and rng.random() < 0.4:
            p["manual"]["own_deeds"] = True
            # ... and some doer asks for more than one scheduler tock, so that it is not due on some pass
            p["manual"]["recurs"] = max(p["manual"]["recurs"], 3)
            for d in p["defs"].values():
                if d["kind"] != "nest" and len(d["script"]) > 2 and rng.random() < 0.6:
                    d["script"][1]["out"] = ["y", 2 * abs(p["tock"])]
        if p["manual"]["then"] == "exit" and p["manual"]["recurs"] >= 2 and rng.random() < 0.3:
            # tick(tock=x) between two cycles: a one-off jump that leaves the scheduler's own tock alone (oracle only)
            p["manual"]["jump"] = {"after": rng.randint(0, p["manual"]["recurs"] - 2), "tock": rng.choice([1.0, 2.5, 0.125, 4.0])}
        out.append(p)
    return out


def gen_remove_live(rng, n):
    """One remove() whose argument is the target scheduler's own live .doers list (or a generator over it)."""
    out = []
    for _ in range(n):
        p = gen_static(rng, n_leaves=rng.randint(3, 6), nest_depth=1, faults=False, tocks="dyadic", limit_p=1.0)
        if not p["limit"]:
            p["limit"] = 4 * p["tock"]
        p["limit"] = abs(p["limit"])
        targets = [(0, list(p["doers"]))] + [(int(i), list(d["kids"])) for i, d in p["defs"].items() if d["kind"] == "nest"]
        t, members = rng.choice([x for x in targets if len(x[1]) >= 2] or targets[:1])
        if t != 0:
            p["defs"][str(t)]["always"] = True
        callers = [m for m in members if p["defs"][str(m)]["kind"] != "nest" and len(p["defs"][str(m)]["script"]) >= 2]
        if not callers:
            continue
        c = rng.choice(callers)
        sc_ = p["defs"][str(c)]["script"]
        sc_[rng.randint(1, len(sc_) - 1)]["es"].append(["rem", t, members, rng.choice(["live", "gen"])])
        out.append(p)
    return out


def gen_remove_hookraise(rng, n):
    """One remove() of live doers one of which raises in its own cease or exit context (outside the Coq model: oracle
    only): the call raises, but the doers it force-closed are removed all the same, and every removed doer is closed."""
    out = []
    while len(out) < n:
        p = gen_static(rng, n_leaves=rng.randint(4, 7), nest_depth=rng.choice([0, 1, 1]), faults=False, tocks="dyadic", limit_p=1.0)
        p["limit"] = abs(p["limit"]) if p["limit"] else 4 * p["tock"]
        targets = [(0, list(p["doers"]))] + [(int(i), list(d["kids"])) for i, d in p["defs"].items() if d["kind"] == "nest"]
        leafy = lambda ms: [m for m in ms if p["defs"][str(m)]["kind"] != "nest"]
        good = [x for x in targets if len(leafy(x[1])) >= 3]
        nests = [x for x in good if x[0] != 0]
        if not good:
            continue
        t, members = rng.choice(nests) if nests and rng.random() < 0.7 else rng.choice(good)
        leaves = leafy(members)
        if t != 0:
            p["defs"][str(t)]["always"] = True
        c = rng.choice(leaves)
        victims = [m for m in leaves if m != c]          # in enter order
        k = rng.randint(2, len(victims))
        victims = sorted(rng.sample(victims, k), key=victims.index)
        bad = rng.choice(victims[1:] if rng.random() < 0.6 else victims)   # mostly not the first entered
        arg = list(victims)
        if rng.random() < 0.5:
            rng.shuffle(arg)
        for v in victims:                  # alive and suspended when the remove comes
            p["defs"][str(v)]["script"] = [{"es": [], "out": ["y", None]} for _ in range(8)]
        p["defs"][str(bad)]["hookraise"] = rng.choice(["cease", "exit"])
        p["defs"][str(bad)]["hookexc"] = rng.choice(["script", "script", "attr"])
        sc_ = p["defs"][str(c)]["script"]
        while len(sc_) < 3:
            sc_.insert(0, {"es": [], "out": ["y", None]})
        sc_[rng.randint(1, len(sc_) - 1)]["es"].append(["rem", t, arg])
        out.append(p)
    return out


def gen_enter_effects(rng, n):
    """A doer whose ENTER context calls extend()/remove() on the scheduler that is just entering its doers (outside
    the Coq model, whose effects act on running schedulers only: oracle only)."""
    out = []
    Y = lambda: {"es": [], "out": ["y", None]}
    while len(out) < n:
        p = gen_static(rng, n_leaves=rng.randint(3, 6), nest_depth=rng.choice([0, 1, 1]), faults=False, tocks="dyadic", limit_p=1.0)
        p["limit"] = abs(p["limit"]) if p["limit"] else 4 * p["tock"]
        p["enter_effects"] = True
        targets = [(0, list(p["doers"]))] + [(int(i), list(d["kids"])) for i, d in p["defs"].items() if d["kind"] == "nest"]
        leafy = lambda ms: [m for m in ms if p["defs"][str(m)]["kind"] != "nest"]
        good = [x for x in targets if len(leafy(x[1])) >= 2]
        if not good:
            continue
        nests_ = [x for x in good if x[0] != 0]
        t, members = rng.choice(nests_) if nests_ and rng.random() < 0.6 else rng.choice(good)
        if t != 0:
            p["defs"][str(t)]["always"] = True
        leaves = leafy(members)
        c = rng.choice(leaves)
        r = rng.random()
        if r < 0.35 and len(leaves) >= 3:
            # an enter context that replaces a later sibling (remove + extend: the list keeps its length), by one
            # doer or split over two (one extends, a later one removes a third)
            ci = leaves.index(c) if leaves.index(c) < len(leaves) - 1 else 0
            c = leaves[ci]
            later = leaves[ci + 1:]
            victim = rng.choice(later)
            nxt = max(int(i) for i in p["defs"]) + 1
            p["defs"][str(nxt)] = {"kind": rng.choice(["func", "bound", "doer", "doergen"]),
                                   "script": [Y() for _ in range(rng.randint(1, 4))] + [{"es": [], "out": ["r", "true"]}]}
            effs = [["rem", t, [victim]], ["ext", t, [nxt]]]
            if rng.random() < 0.5:
                effs.reverse()
            others = [m for m in later if m != victim and leaves.index(m) < leaves.index(victim)]
            if others and rng.random() < 0.4:
                p["defs"][str(c)]["script"][0]["es"].append(effs[1] if effs[1][0] == "ext" else effs[0])
                rem = effs[0] if effs[0][0] == "rem" else effs[1]
                p["defs"][str(rng.choice(others))]["script"][0]["es"].append(rem)
            else:
                p["defs"][str(c)]["script"][0]["es"] += effs
            out.append(p)
            continue
        if rng.random() < 0.6:
            nxt = max(int(i) for i in p["defs"]) + 1
            new = []
            for k in range(rng.randint(1, 2)):
                p["defs"][str(nxt + k)] = {"kind": rng.choice(["func", "bound", "doer", "doergen"]),
                                           "script": [Y() for _ in range(rng.randint(1, 4))] + [{"es": [], "out": ["r", "true"]}]}
                new.append(nxt + k)
            arg = list(new)
            if rng.random() < 0.3:
                arg.append(rng.choice(leaves))           # an already listed doer: nothing happens for it
            if rng.random() < 0.3:
                arg.append(new[0])                       # named twice
            eff = ["ext", t, arg]
        else:
            others = [m for m in leaves if m != c]
            v = rng.choice(others + [c])
            eff = ["rem", t, [v]]                         # entered earlier, not yet entered, or itself
            sc_ = p["defs"][str(c)]["script"]
            if v != c and leaves.index(v) > leaves.index(c) and len(sc_) > 2 and rng.random() < 0.6:
                sc_[rng.randint(1, len(sc_) - 2)]["es"].append(["ext", t, [v]])    # ... and added back later in the run
        p["defs"][str(c)]["script"][0]["es"].append(eff)
        out.append(p)
    return out


def add_falsy(rng, progs, share=0.2):
    """In a share of the programs one or two doer objects (Doer subclasses, DoDoers) are falsy -- a doer that is also
    an empty container, or defines __bool__ -- which must not matter to any scheduler: the Coq case is unchanged."""
    for p in progs:
        if rng.random() >= share:
            continue
        cands = [d for d in p["defs"].values() if d["kind"] in ("doer", "doergen", "nest")]
        for d in rng.sample(cands, min(len(cands), rng.choice([1, 1, 2]))):
            d["falsy"] = True
    return progs


def gen_sysexit(rng, n):
    """Programs in which one doer calls sys.exit() in its enter or a recur step (outside the Coq model, which knows
    scripted exceptions and KeyboardInterrupt only: oracle only): the run force-closes the others and SystemExit
    leaves do()/ado() to the caller."""
    out = []
    for _ in range(n):
        p = gen_static(rng, n_leaves=rng.randint(2, 5), nest_depth=rng.choice([0, 1, 2]), faults=False, tocks="dyadic", limit_p=0.5)
        i = rng.choice(leaf_ids(p))
        sc_ = p["defs"][str(i)]["script"]
        k = rng.randint(0 if p["defs"][str(i)]["kind"] != "doer" else 1, max(1, len(sc_) - 1))
        k = min(k, len(sc_) - 1)
        sc_[k] = {"es": [], "out": ["s"]}
        del sc_[k + 1:]
        out.append(p)
    return out


def jump_oracle(case, obs):
    """Hand-driven runs with one tick(tock=J) between two cycles: the jump is one-off -- the scheduler keeps its own
    tock, every other cycle still advances tyme by exactly one tock."""
    m = case.get("manual") or {}
    if not m.get("jump"):
        return None
    if fl(obs["tock_end"]) != case["tock"]:
        return f"the scheduler's tock changed from {case['tock']} to {fl(obs['tock_end'])} (a tick(tock=...) jump is one-off)"
    if obs["raised"] != "none":
        return None
    t, want = case["tyme"], []
    for r in range(m["recurs"]):
        want.append(t)
        t = t + case["tock"]
        if m["jump"]["after"] == r:
            t = t + m["jump"]["tock"]
    got = sorted({fl(h) for k, _, h in obs["trace"] if k == "Recur"})
    bad = [x for x in got if x not in want]
    if bad:
        return f"doers recurred at tymes {bad}, the cycles of this run are at {want}"
    if fl(obs["tyme"]) != t:
        return f"final tyme {fl(obs['tyme'])}, the cycles and the jump give {t}"
    return None


def gen_hook_effects(rng, n):
    """A doer whose own cease/exit context calls remove() on the scheduler it runs under -- naming nothing, a sibling
    that has already completed, or itself: a no-op there -- while that scheduler force-closes its doers at the limit
    (outside the Coq model, whose lifecycle contexts have no effects: oracle only)."""
    out = []
    Y = lambda: {"es": [], "out": ["y", None]}
    while len(out) < n:
        p = gen_static(rng, n_leaves=rng.randint(4, 7), nest_depth=rng.choice([0, 1, 1]), faults=False, tocks="dyadic", limit_p=1.0)
        targets = [(0, list(p["doers"]))] + [(int(i), list(d["kids"])) for i, d in p["defs"].items() if d["kind"] == "nest"]
        leafy = lambda ms: [m for m in ms if p["defs"][str(m)]["kind"] != "nest"]
        good = [x for x in targets if len(leafy(x[1])) >= 3]
        nests = [x for x in good if x[0] != 0]
        if not good:
            continue
        t, members = rng.choice(nests) if nests and rng.random() < 0.75 else rng.choice(good)
        leaves = leafy(members)
        c = rng.choice(leaves[1:])                       # not the first entered: others are closed after it
        done_early = rng.choice([m for m in leaves if m != c])
        for m in leaves:
            p["defs"][str(m)]["script"] = [Y() for _ in range(10)]
        p["defs"][str(done_early)]["script"] = [Y(), {"es": [], "out": ["r", "true"]}]
        p["limit"] = 3 * p["tock"]
        arg = rng.choice([[], [done_early], [c]])
        p["defs"][str(c)]["hookeffect"] = {"hook": rng.choice(["cease", "exit"]), "eff": ["rem", t, arg]}
        out.append(p)
    return out
