(* The "second invariant" of the scheduler model, part 2: the holding invariant.

   Every suspended doer is ANCHORED: it is held by a deed that sits
     - in one of the local lists the interpreter is working on (the [E] parameter:
       acc of enter_local, the list being closed by close_list, the deed popped
       by recur_loop, the doer a gen_start/gen_send is about to hand back), or
     - in the root deque, or
     - in the deque of a DoDoer that is executing (on the call stack), or
     - in the deque of a DoDoer that is itself anchored.
   [anch] is an inductive predicate, so the holder relation is well founded by
   construction.  Together with "a DoDoer whose deque is non-empty is live" this
   is [Hold]; [hold_all] proves it for the eleven interpreter functions at once.

   Static class of programs ([W]): id 0 is only the root, extend targets are the
   root or DoDoers, and no doer calls remove() in its very first resumption
   (finding D43: a remove() executed inside the enter of an extend() can close
   the DoDoer being extended; the new doer is then left in a dead deque). *)
From Hio Require Import Base.Prelude Base.AMap Base.Time Model.Sched Proofs.SchedEqs Proofs.SchedFrame Proofs.SchedLife Proofs.SchedDeque.

Section Hold.
Context {T : Type} `{Time T}.
Implicit Types s a b : st T.

(* ---------- the static class ---------- *)

Definition isnest (d : amap (fdef T)) (i : id) : bool :=
  match get d i with Some (FNest _ _ _) => true | _ => false end.
Definition eff_ok (d : amap (fdef T)) (e : effect) : Prop :=
  match e with EExtend t _ => t = 0%N \/ isnest d t = true | ERemove _ _ => True end.
Definition is_remove (e : effect) : bool := match e with ERemove _ _ => true | _ => false end.

Record W (d : amap (fdef T)) : Prop := {
  w_root : get d 0%N = None;
  w_eff : forall i k sc pc, get d i = Some (FLeaf k sc) -> Forall (eff_ok d) (f_es (nth pc sc default_step));
  w_nr0 : forall i k sc, get d i = Some (FLeaf k sc) ->
          Forall (fun e => is_remove e = false) (f_es (nth 0 sc default_step)) }.

(* ---------- anchoring ---------- *)

Inductive anch (g : id -> gstate) (q : id -> list id) (E : list id) : id -> Prop :=
| an_extra i : In i E -> anch g q E i
| an_root i : In i (q 0%N) -> anch g q E i
| an_run i sid pc : g sid = GRun pc -> In i (q sid) -> anch g q E i
| an_sub i sid : anch g q E sid -> In i (q sid) -> anch g q E i.

Definition anc s E := anch (get_gen s) (qids s) E.

Definition startg (x : gstate) : bool := match x with GNew | GDone => true | _ => false end.
Definition liveg (x : gstate) : bool := match x with GSusp _ | GRun _ => true | _ => false end.

Record HoldP (d : amap (fdef T)) (g : id -> gstate) (qf : id -> list (deed T)) (E : list id) : Prop := {
  h_w : W d;
  h_def : forall i, liveg (g i) = true -> get d i <> None;
  h_anc : forall i pc, g i = GSusp pc -> anch g (fun x => dids (qf x)) E i;
  h_live : forall sid, sid <> 0%N -> qf sid <> [] -> isnest d sid = true /\ startg (g sid) = false }.

Definition Hold s E := HoldP (defs s) (get_gen s) (dq s) E.
Definition I s E := oof s = true \/ Hold s E.

Lemma I_map s s' E E' : oof s' = oof s -> (Hold s E -> Hold s' E') -> I s E -> I s' E'.
Proof. intros O F [Ho|Hh]; [left; congruence|right; auto]. Qed.

(* updates that touch neither generators nor deques *)
Lemma hold_emit s E k i : Hold s E -> Hold (emit s k i) E. Proof. exact (fun x => x). Qed.
Lemma hold_done s E i d : Hold s E -> Hold (set_done s i d) E. Proof. exact (fun x => x). Qed.
Lemma i_emit s E k i : I s E -> I (emit s k i) E. Proof. exact (fun x => x). Qed.
Lemma i_done s E i d : I s E -> I (set_done s i d) E. Proof. exact (fun x => x). Qed.
Lemma i_tyme s E t : I s E -> I (set_tyme s t) E. Proof. exact (fun x => x). Qed.
Lemma i_rlive s E v : I s E -> I (set_rlive s v) E. Proof. exact (fun x => x). Qed.

Lemma anch_incl g q E E' : (forall j, In j E -> In j E') -> forall j, anch g q E j -> anch g q E' j.
Proof.
  intros HE j A. induction A; [apply an_extra; auto|now apply an_root|eapply an_run; eauto|eapply an_sub; eauto].
Qed.

Lemma hold_incl s E E' : (forall j, In j E -> In j E') -> Hold s E -> Hold s E'.
Proof.
  intros HE [Hw Hd Ha Hl]. split; try assumption.
  intros i pc G. eapply anch_incl; [exact HE|]. eapply Ha; eassumption.
Qed.

(* the deque of one scheduler changes *)
Lemma anch_q g q q' sid E E' :
  (forall x, x <> sid -> q' x = q x) ->
  (forall j, In j E -> In j E' \/ (In j (q' sid) /\ (sid = 0%N \/ (exists pc, g sid = GRun pc) \/ anch g q' E' sid))) ->
  (forall j, In j (q sid) -> In j E' \/ In j (q' sid)) ->
  forall j, anch g q E j -> anch g q' E' j.
Proof.
  intros Hq HE Hs.
  assert (Via : forall x j, In j (q x) -> (x = 0%N \/ (exists pc, g x = GRun pc) \/ anch g q' E' x) -> anch g q' E' j).
  { intros x j Hj Hx. destruct (N.eq_dec x sid) as [Heq|Hne].
    - subst x. destruct (Hs j Hj) as [?|Hin]; [now apply an_extra|].
      destruct Hx as [Hx|[[pc R]|A]]; [subst sid; now apply an_root|eapply an_run; eauto|eapply an_sub; eauto].
    - rewrite <- (Hq x Hne) in Hj.
      destruct Hx as [Hx|[[pc R]|A]]; [subst x; now apply an_root|eapply an_run; eauto|eapply an_sub; eauto]. }
  intros j A. induction A as [j Hj|j Hj|j x pc R Hj|j x A IH Hj].
  - destruct (HE j Hj) as [?|[Hin Hx]]; [now apply an_extra|].
    destruct Hx as [Hx|[[pc R]|A]]; [subst sid; now apply an_root|eapply an_run; eauto|eapply an_sub; eauto].
  - eapply Via; eauto.
  - eapply Via; eauto.
  - eapply Via; eauto.
Qed.

(* the state of one generator changes *)
Lemma anch_g g g' q i E E' :
  (forall x, x <> i -> g' x = g x) ->
  (forall j, In j E -> j = i \/ In j E') ->
  (q i = [] \/ i = 0%N \/ (exists pc, g' i = GRun pc) \/ In i E') ->
  forall j, anch g q E j -> j = i \/ anch g' q E' j.
Proof.
  intros Hg HE Hi.
  assert (Via : forall j, In j (q i) -> anch g' q E' j).
  { intros j Hj. destruct Hi as [E0|[E0|[[pc R]|Hin]]].
    - rewrite E0 in Hj. contradiction.
    - subst i. now apply an_root.
    - eapply an_run; eauto.
    - eapply an_sub; [apply an_extra; exact Hin|exact Hj]. }
  intros j A. induction A as [j Hj|j Hj|j x pc R Hj|j x A IH Hj].
  - destruct (HE j Hj); [now left|right; now apply an_extra].
  - right. now apply an_root.
  - right. destruct (N.eq_dec x i) as [Heq|Hne]; [subst x; now apply Via|].
    eapply an_run; [rewrite Hg by exact Hne; exact R|exact Hj].
  - right. destruct IH as [Heq|A']; [subst x; now apply Via|eapply an_sub; eauto].
Qed.

Lemma hold_gen s i g E E' :
  Hold s E ->
  (forall j, In j E -> j = i \/ In j E') ->
  (qids s i = [] \/ i = 0%N \/ (exists pc, g = GRun pc) \/ In i E') ->
  ((exists pc, g = GSusp pc) -> In i E') ->
  (startg g = true -> dq s i = []) ->
  (liveg g = true -> get (defs s) i <> None) ->
  Hold (set_gen s i g) E'.
Proof.
  intros [Hw Hd Ha Hl] HE Hi Hs Hst Hlv. split.
  - exact Hw.
  - intros j Lj. destruct (N.eq_dec j i) as [Heq|Hne].
    + subst j. rewrite gen_set_gen_same in Lj. now apply Hlv.
    + rewrite gen_set_gen_other in Lj by exact Hne. now apply Hd.
  - intros j pc G. destruct (N.eq_dec j i) as [Heq|Hne].
    + subst j. rewrite gen_set_gen_same in G. apply an_extra, Hs. now exists pc.
    + rewrite gen_set_gen_other in G by exact Hne.
      destruct (anch_g (get_gen s) (get_gen (set_gen s i g)) (qids s) i E E') with (j := j) as [Heq|A].
      * intros x Hx. now apply gen_set_gen_other.
      * exact HE.
      * rewrite gen_set_gen_same. exact Hi.
      * eapply Ha; exact G.
      * contradiction.
      * exact A.
  - intros sid Hs0 Hq. destruct (Hl sid Hs0 Hq) as [Hn Hg]. split; [exact Hn|].
    destruct (N.eq_dec sid i) as [Heq|Hne].
    + subst sid. rewrite gen_set_gen_same. destruct (startg g) eqn:Sg; [|reflexivity].
      exfalso. apply Hq. now apply Hst.
    + rewrite gen_set_gen_other by exact Hne. exact Hg.
Qed.

Lemma hold_sched s sid c' E E' :
  Hold s E ->
  (forall j, In j E -> In j E' \/ (In j (dids (deeds c')) /\
                                   (sid = 0%N \/ running s sid \/ anc (set_sched s sid c') E' sid))) ->
  (forall j, In j (qids s sid) -> In j E' \/ In j (dids (deeds c'))) ->
  (sid <> 0%N -> deeds c' <> [] -> isnest (defs s) sid = true /\ startable s sid = false) ->
  Hold (set_sched s sid c') E'.
Proof.
  intros [Hw Hd Ha Hl] HE Hs HL. split.
  - exact Hw.
  - exact Hd.
  - intros j pc G.
    apply (anch_q (get_gen s) (qids s) (qids (set_sched s sid c')) sid E E').
    + intros x Hx. unfold qids. now rewrite dq_set_other.
    + unfold qids at 1. rewrite dq_set_same. exact HE.
    + unfold qids at 2. rewrite dq_set_same. exact Hs.
    + eapply Ha; exact G.
  - intros x Hx Hq. destruct (N.eq_dec x sid) as [Heq|Hne].
    + subst x. rewrite dq_set_same in Hq. now apply HL.
    + rewrite dq_set_other in Hq by exact Hne. now apply Hl.
Qed.

(* a deed in hand that does not refer to a suspended doer can be dropped *)
Lemma hold_drop s i E : ~ is_susp s i -> Hold s (i :: E) -> Hold s E.
Proof.
  intros Ns [Hw Hd Ha Hl]. split; try assumption.
  intros j pc G.
  destruct (anch_g (get_gen s) (get_gen s) (qids s) i (i :: E) E) with (j := j) as [Heq|A].
  - reflexivity.
  - intros x [Hx|Hx]; [now left|now right].
  - destruct (N.eq_dec i 0) as [Hz|Hz]; [now (right; left)|].
    destruct (get_gen s i) eqn:Gi.
    + left. unfold qids. destruct (dq s i) eqn:Q; [reflexivity|].
      destruct (Hl i Hz) as [_ Hs]; [rewrite Q; discriminate|]. rewrite Gi in Hs. discriminate.
    + exfalso. apply Ns. now exists pc0.
    + right; right; left. now exists pc0.
    + left. unfold qids. destruct (dq s i) eqn:Q; [reflexivity|].
      destruct (Hl i Hz) as [_ Hs]; [rewrite Q; discriminate|]. rewrite Gi in Hs. discriminate.
  - eapply Ha; exact G.
  - subst j. exfalso. apply Ns. now exists pc.
  - exact A.
Qed.

(* ---------- the transitions of one generator ---------- *)

Lemma g_start s i X : Hold s X -> get (defs s) i <> None -> Hold (set_gen s i (GRun 0)) X.
Proof.
  intros Hh D. apply hold_gen with (E := X); try assumption.
  - intros j Hj. now right.
  - right; right; left. now exists 0%nat.
  - intros [pc Hp]. discriminate.
  - discriminate.
  - intros _. exact D.
Qed.

Lemma g_resume s i pc pc' X : Hold s (i :: X) -> get_gen s i = GSusp pc' -> Hold (set_gen s i (GRun pc)) X.
Proof.
  intros Hh G. apply hold_gen with (E := i :: X); try assumption.
  - intros j [Hj|Hj]; [now left|now right].
  - right; right; left. now exists pc.
  - intros [pc0 Hp]. discriminate.
  - discriminate.
  - intros _. apply (h_def _ _ _ _ Hh). rewrite G. reflexivity.
Qed.

Lemma g_yield s i pc pc' X : Hold s X -> get_gen s i = GRun pc' -> Hold (set_gen s i (GSusp pc)) (i :: X).
Proof.
  intros Hh G. apply hold_gen with (E := X); try assumption.
  - intros j Hj. right. now right.
  - right; right; right. now left.
  - intros _. now left.
  - discriminate.
  - intros _. apply (h_def _ _ _ _ Hh). rewrite G. reflexivity.
Qed.

Lemma g_finish s i X : Hold s X -> dq s i = [] -> Hold (set_gen s i GDone) X.
Proof.
  intros Hh Q. apply hold_gen with (E := X); try assumption.
  - intros j Hj. now right.
  - left. unfold qids. now rewrite Q.
  - intros [pc Hp]. discriminate.
  - intros _. exact Q.
  - discriminate.
Qed.

Lemma leaf_dq s X i k sc : Hold s X -> get (defs s) i = Some (FLeaf k sc) -> dq s i = [].
Proof.
  intros Hh D. destruct (N.eq_dec i 0) as [Hz|Hz].
  - subst i. rewrite (w_root _ (h_w _ _ _ _ Hh)) in D. discriminate.
  - destruct (dq s i) eqn:Q; [reflexivity|].
    destruct (h_live _ _ _ _ Hh i Hz) as [Hn _]; [rewrite Q; discriminate|].
    unfold isnest in Hn. rewrite D in Hn. discriminate.
Qed.

(* ---------- the transitions of one deque ---------- *)

(* who may receive deeds *)
Definition own s (sid : id) : Prop := sid = 0%N \/ (running s sid /\ isnest (defs s) sid = true).

Lemma hold_push s sid c' ds' X :
  deeds c' = dq s sid ++ ds' ->
  Hold s (dids ds' ++ X) ->
  (sid = 0%N \/ (isnest (defs s) sid = true /\ (running s sid \/ (is_susp s sid /\ anc s X sid)))) ->
  Hold (set_sched s sid c') X.
Proof.
  intros Dc Hh Hsid.
  assert (A' : sid = 0%N \/ running s sid \/ anc (set_sched s sid c') X sid).
  { destruct Hsid as [Hz|[_ [R|[_ A]]]]; [now left|right; now left|right; right].
    apply (anch_q (get_gen s) (qids s) (qids (set_sched s sid c')) sid X X).
    - intros x Hx. unfold qids. now rewrite dq_set_other.
    - intros j Hj. now left.
    - intros j Hj. right. unfold qids at 1. rewrite dq_set_same, Dc, dids_app. apply in_or_app. now left.
    - exact A. }
  apply hold_sched with (E := dids ds' ++ X).
  - exact Hh.
  - intros j Hj. apply in_app_or in Hj. destruct Hj as [Hj|Hj]; [right|now left].
    split; [|exact A']. rewrite Dc, dids_app. apply in_or_app. now right.
  - intros j Hj. right. rewrite Dc, dids_app. apply in_or_app. now left.
  - intros Hz _. destruct Hsid as [Hz'|[Hn Hlive]]; [contradiction|]. split; [exact Hn|].
    unfold startable. destruct Hlive as [[pc R]|[[pc S] _]]; [rewrite R|rewrite S]; reflexivity.
Qed.

Lemma own_push s sid : own s sid ->
  sid = 0%N \/ (isnest (defs s) sid = true /\ (running s sid \/ (is_susp s sid /\ anc s (@nil id) sid))) .
Proof. intros [Hz|[R N]]; [now left|right; split; [exact N|now left]]. Qed.

Lemma hold_append s sid ds' X : own s sid -> Hold s (dids ds' ++ X) ->
  Hold (set_deeds s sid (dq s sid ++ ds')) X.
Proof.
  intros O Hh. unfold set_deeds. eapply hold_push; [reflexivity|exact Hh|].
  destruct O as [Hz|[R N]]; [now left|right; split; [exact N|now left]].
Qed.

Lemma hold_pop s sid d r X : dq s sid = d :: r -> Hold s X -> Hold (set_deeds s sid r) (dids [d] ++ X).
Proof.
  intros Q Hh. unfold set_deeds. apply hold_sched with (E := X).
  - exact Hh.
  - intros j Hj. left. apply in_or_app. now right.
  - intros j Hj. unfold qids in Hj. rewrite Q in Hj. change (d :: r) with ([d] ++ r) in Hj.
    rewrite dids_app in Hj. apply in_app_or in Hj. destruct Hj as [Hj|Hj]; [left; apply in_or_app; now left|now right].
  - intros Hz _. apply (h_live _ _ _ _ Hh sid Hz). rewrite Q. discriminate.
Qed.

Lemma hold_clear s sid X : Hold s X -> Hold (set_deeds s sid []) (dids (rev (unrotate (dq s sid))) ++ X).
Proof.
  intros Hh. unfold set_deeds. apply hold_sched with (E := X).
  - exact Hh.
  - intros j Hj. left. apply in_or_app. now right.
  - intros j Hj. left. apply in_or_app. left. apply dids_rev_in, dids_unrotate_in. exact Hj.
  - intros _ Hne. now destruct Hne.
Qed.

Lemma hold_remove s t X (is_r : deed T -> bool) dl :
  Hold s X ->
  Hold (set_sched s t {| doers := dl; deeds := filter (fun d => negb (is_r d)) (dq s t) |})
       (dids (rev (filter is_r (unrotate (dq s t)))) ++ X).
Proof.
  intros Hh. apply hold_sched with (E := X).
  - exact Hh.
  - intros j Hj. left. apply in_or_app. now right.
  - intros j Hj. unfold qids in Hj. apply dids_in in Hj. destruct Hj as [re Hd]. cbn [deeds].
    destruct (is_r (DDeed j re)) eqn:R.
    + left. apply in_or_app. left. apply dids_rev_in, dids_in. exists re. apply filter_In. split; [|exact R].
      apply unrotate_in; [discriminate|exact Hd].
    + right. apply dids_in. exists re. apply filter_In. split; [exact Hd|]. now rewrite R.
  - cbn [deeds]. intros Hz Hne. apply (h_live _ _ _ _ Hh t Hz). intro Q. apply Hne. now rewrite Q.
Qed.

End Hold.
