(* C03, part 1: the virtual clock of a run lives on the grid
       start, start+tock, (start+tock)+tock, ...   (iterated [tadd])
   for every program (static or dynamic, flat or nested) and every time
   instance.  Also: fuel bookkeeping ([GFuel] always sets [oof]; [oof] is
   sticky), used by the later files to discharge the fuel side conditions from
   the single hypothesis  oof (do_run ...) = false. *)
From Hio Require Import Base.Prelude Base.AMap Base.Time Model.Sched Proofs.SchedEqs Proofs.SchedFrame.

Section Tick.
Context {T : Type} `{Time T}.
Implicit Types s a b : st T.

(* ---------- the grid ---------- *)

Fixpoint grid (start tock : T) (n : nat) : T :=
  match n with O => start | S m => tadd (grid start tock m) tock end.

Variables start tk : T.

(* [on_grid n l]: the trace l (newest first) is  block n ++ ... ++ block 1 ++ block 0
   and every event of block k carries the tyme  grid k. *)
Inductive on_grid : nat -> list (ev T) -> Prop :=
| og_start l : Forall (fun e => e_tyme e = grid start tk 0) l -> on_grid 0 l
| og_next n l l' : on_grid n l -> Forall (fun e => e_tyme e = grid start tk (S n)) l' -> on_grid (S n) (l' ++ l).

Lemma on_grid_app n l l' : on_grid n l -> Forall (fun e => e_tyme e = grid start tk n) l' -> on_grid n (l' ++ l).
Proof.
  intros G F. destruct G as [l G|n l l0 G F0].
  - constructor. apply Forall_app. split; assumption.
  - rewrite app_assoc. constructor; [assumption|]. apply Forall_app. split; assumption.
Qed.

(* the state is in cycle n of the grid *)
Definition GInv (n : nat) s : Prop := tyme s = grid start tk n /\ on_grid n (trace s).

Lemma ginv_steps n a b : GInv n a -> steps a b -> GInv n b.
Proof.
  intros [Ty G] S. split; [rewrite (steps_tyme _ _ S); exact Ty|].
  destruct (steps_trace_tyme _ _ S) as (l & E & F). rewrite E.
  apply on_grid_app; [exact G|]. rewrite <- Ty. exact F.
Qed.

Lemma ginv_tick n s : GInv n s -> GInv (S n) (set_tyme s (tadd (tyme s) tk)).
Proof.
  intros [Ty G]. split; cbn [tyme trace set_tyme grid]; [now rewrite Ty|].
  change (trace s) with ([] ++ trace s). constructor; [exact G|constructor].
Qed.

Lemma ginv_rlive n s v : GInv n s -> GInv n (set_rlive s v).
Proof. intro G. exact G. Qed.

(* events, oldest first, are sorted by grid index: a readable consequence *)
Lemma on_grid_all n l : on_grid n l -> Forall (fun e => exists k, (k <= n)%nat /\ e_tyme e = grid start tk k) l.
Proof.
  induction 1 as [l F|n l l' G IH F].
  - eapply Forall_impl; [|exact F]. intros e E. exists 0%nat. split; [lia|exact E].
  - apply Forall_app. split.
    + eapply Forall_impl; [|exact F]. intros e E. exists (S n). split; [lia|exact E].
    + eapply Forall_impl; [|exact IH]. intros e (k & Hk & E). exists k. split; [lia|exact E].
Qed.

(* if a newer event e2 precedes (in the newest-first trace) an older event e1,
   then their grid indices can be chosen with index e1 <= index e2 *)
Lemma on_grid_mono n l : on_grid n l -> forall l1 e2 l2 e1 l3, l = l1 ++ e2 :: l2 ++ e1 :: l3 ->
  exists k1 k2, (k1 <= k2 <= n)%nat /\ e_tyme e1 = grid start tk k1 /\ e_tyme e2 = grid start tk k2.
Proof.
  induction 1 as [l F|n l l' G IH F]; intros l1 e2 l2 e1 l3 E.
  - exists 0%nat, 0%nat. rewrite Forall_forall in F. split; [lia|]. split; apply F; rewrite E.
    + apply in_or_app. right. right. apply in_or_app. right. left. reflexivity.
    + apply in_or_app. right. left. reflexivity.
  - (* where does e2 fall: in l' or in l *)
    assert (D : (exists m, l' = l1 ++ e2 :: m /\ m ++ l = l2 ++ e1 :: l3) \/
                (exists m, l1 = l' ++ m /\ l = m ++ e2 :: l2 ++ e1 :: l3)).
    { clear -E. revert l1 E. induction l' as [|x l' IHl]; intros l1 E.
      - right. exists l1. split; [reflexivity|exact E].
      - destruct l1 as [|y l1].
        + left. cbn in E. injection E as -> E. exists l'. split; [reflexivity|exact E].
        + cbn in E. injection E as -> E. destruct (IHl l1 E) as [(m & A & B)|(m & A & B)].
          * left. exists m. split; [cbn; now rewrite A|exact B].
          * right. exists m. split; [cbn; now rewrite A|exact B]. }
    destruct D as [(m & A & B)|(m & A & B)].
    + (* e2 in the newest block *)
      assert (E2 : e_tyme e2 = grid start tk (S n)).
      { rewrite Forall_forall in F. apply F. rewrite A. apply in_or_app. right. left. reflexivity. }
      assert (I1 : In e1 (m ++ l)) by (rewrite B; apply in_or_app; right; left; reflexivity).
      apply in_app_or in I1. destruct I1 as [I1|I1].
      * exists (S n), (S n). split; [lia|]. split; [|exact E2].
        rewrite Forall_forall in F. apply F. rewrite A. apply in_or_app. right. right. exact I1.
      * pose proof (on_grid_all _ _ G) as Al. rewrite Forall_forall in Al.
        destruct (Al e1 I1) as (k & Hk & Ek). exists k, (S n). split; [lia|]. split; assumption.
    + destruct (IH _ _ _ _ _ B) as (k1 & k2 & Hk & E1 & E2).
      exists k1, k2. split; [lia|]. split; assumption.
Qed.

(* ---------- one pass, one cycle ---------- *)

(* every event emitted by one recur pass (of any scheduler, at any depth)
   carries the tyme at which the pass started, and the pass does not move tyme *)
Lemma recur_pass_tyme fuel s sid s' r : recur_pass tk fuel s sid = (s', r) ->
  tyme s' = tyme s /\ exists l, trace s' = l ++ trace s /\ Forall (fun e => e_tyme e = tyme s) l.
Proof.
  intro E. destruct (frame_all tk fuel) as (_ & _ & _ & _ & _ & _ & _ & _ & _ & Irp & _).
  pose proof (Irp s s sid s' r (st_refl s) E) as S.
  split; [exact (steps_tyme _ _ S)|exact (steps_trace_tyme _ _ S)].
Qed.

Lemma close_own_steps fuel s sid : steps s (close_own tk fuel s sid).
Proof. destruct (frame_all tk fuel) as (_ & _ & _ & _ & Ico & _). apply Ico. apply st_refl. Qed.

Lemma recur_pass_steps fuel s sid s' r : recur_pass tk fuel s sid = (s', r) -> steps s s'.
Proof.
  intro E. destruct (frame_all tk fuel) as (_ & _ & _ & _ & _ & _ & _ & _ & _ & Irp & _).
  exact (Irp s s sid s' r (st_refl s) E).
Qed.

Lemma enter_own_steps fuel s sid ids s' r : enter_own tk fuel s sid ids = (s', r) -> steps s s'.
Proof.
  intro E. destruct (frame_all tk fuel) as (_ & _ & _ & _ & _ & _ & Ieo & _).
  exact (Ieo s s sid ids s' r (st_refl s) E).
Qed.

Lemma ginv_end n fuel s k : GInv n s -> GInv n (emit (close_own tk fuel s 0%N) k 0%N).
Proof.
  intro G. eapply ginv_steps; [exact G|]. apply k_emit. apply close_own_steps.
Qed.

(* the cycle loop: from cycle n it ends in some cycle m >= n, having ticked
   exactly m - n times *)
Lemma cycle_loop_grid cycles : forall fuel s limit stop n,
  GInv n s -> exists m, (n <= m)%nat /\ GInv m (cycle_loop tk cycles fuel s limit stop).
Proof.
  induction cycles as [|c IH]; intros fuel s limit stop n G; cbn [cycle_loop].
  - exists n. split; [lia|]. eapply ginv_steps; [exact G|]. apply k_oof, st_refl.
  - destruct (recur_pass tk fuel s 0%N) as [s1 r] eqn:E.
    assert (G1 : GInv n s1) by (eapply ginv_steps; [exact G|eapply recur_pass_steps; exact E]).
    assert (Tick : exists m, (n <= m)%nat /\ GInv m
      (let s2 := set_tyme s1 (tadd (tyme s1) tk) in
       match deeds (get_sched s2 0%N) with
       | [] => emit (close_own tk fuel (set_done s2 0%N (Some true)) 0%N) DoReturn 0%N
       | _ => if (match limit with Some l => negb (tfalsy l) | None => false end) && tleb stop (tyme s2)
              then emit (close_own tk fuel s2 0%N) DoReturn 0%N
              else cycle_loop tk c fuel s2 limit stop
       end)).
    { cbv zeta. pose proof (ginv_tick n s1 G1) as G2.
      set (s2 := set_tyme s1 (tadd (tyme s1) tk)) in *.
      destruct (deeds (get_sched s2 0%N)).
      - exists (S n). split; [lia|]. apply ginv_end. eapply ginv_steps; [exact G2|]. apply k_done, st_refl.
      - destruct (_ && _).
        + exists (S n). split; [lia|]. now apply ginv_end.
        + destruct (IH fuel s2 limit stop (S n) G2) as (m & Hm & Gm). exists m. split; [lia|exact Gm]. }
    destruct r as [t| |[|]|]; try exact Tick.
    + exists n. split; [lia|]. now apply ginv_end.
    + exists n. split; [lia|]. now apply ginv_end.
    + exists n. split; [lia|exact G1].
Qed.

End Tick.

Section TickRun.
Context {T : Type} `{Time T}.

Lemma ginv_init (p : prog T) : GInv (p_tyme p) (p_tock p) 0 (init_st p).
Proof. split; [reflexivity|]. constructor. constructor. Qed.

(* C03_tick, whole run *)
Theorem do_run_grid cycles fuel (p : prog T) :
  exists n, GInv (p_tyme p) (p_tock p) n (do_run cycles fuel p).
Proof.
  unfold do_run.
  destruct (enter_own (p_tock p) fuel (init_st p) 0%N (p_doers p)) as [s1 r] eqn:E.
  assert (G1 : GInv (p_tyme p) (p_tock p) 0 s1).
  { eapply ginv_steps; [apply ginv_init|eapply enter_own_steps; exact E]. }
  destruct r as [t| |k|].
  - destruct (cycle_loop_grid (p_tyme p) (p_tock p) cycles fuel (set_rlive s1 true)
                (option_map tabs (p_limit p))
                (tadd (tyme s1) match option_map tabs (p_limit p) with Some l => l | None => tzero end) 0 G1)
      as (m & _ & Gm). exists m. exact Gm.
  - destruct (cycle_loop_grid (p_tyme p) (p_tock p) cycles fuel (set_rlive s1 true)
                (option_map tabs (p_limit p))
                (tadd (tyme s1) match option_map tabs (p_limit p) with Some l => l | None => tzero end) 0 G1)
      as (m & _ & Gm). exists m. exact Gm.
  - exists 0%nat. now apply ginv_end.
  - exists 0%nat. exact G1.
Qed.

End TickRun.

(* ---------- fuel bookkeeping ---------- *)
Section Fuel.
Context {T : Type} `{Time T}.
Variable tk : T.

Definition fuel_at (f : nat) : Prop :=
  (forall s i s', gen_start tk f s i = (s', GFuel) -> oof s' = true) /\
  (forall s i k sc pc s', run_step tk f s i k sc pc = (s', GFuel) -> oof s' = true) /\
  (forall s i s', gen_send tk f s i = (s', GFuel) -> oof s' = true) /\
  (forall s sid ids s', enter_own tk f s sid ids = (s', GFuel) -> oof s' = true) /\
  (forall s ids acc s' acc', enter_local tk f s ids acc = (s', GFuel, acc') -> oof s' = true) /\
  (forall s c es s', run_effects tk f s c es = (s', GFuel) -> oof s' = true) /\
  (forall s sid s', recur_pass tk f s sid = (s', GFuel) -> oof s' = true) /\
  (forall s sid s', recur_loop tk f s sid = (s', GFuel) -> oof s' = true).

Ltac brk :=
  cbv zeta in *;
  repeat (match goal with
  | H : context [match ?x with _ => _ end] |- _ => destruct x eqn:?
  end; cbv zeta in *).

Ltac fin :=
  repeat match goal with
  | H : (_, _) = (_, _) |- _ => inversion H; subst; clear H
  | H : (_, _, _) = (_, _, _) |- _ => inversion H; subst; clear H
  end.

Lemma fuel_all : forall f, fuel_at f.
Proof.
  induction f as [|f IH].
  - unfold fuel_at. repeat match goal with |- _ /\ _ => split end; intros;
      match goal with E : _ = _ |- _ => cbn in E; inversion E; subst; reflexivity end.
  - destruct IH as (Ist & Irs & Isd & Ieo & Iel & Ief & Irp & Irl).
    unfold fuel_at. repeat match goal with |- _ /\ _ => split end; intros.
    + rewrite gen_start_S in *. brk; fin; eauto.
    + rewrite run_step_S in *. brk; fin; eauto.
    + rewrite gen_send_S in *. brk; fin; eauto.
    + rewrite enter_own_S in *. brk; fin; eauto.
    + rewrite enter_local_S in *. brk; fin; eauto.
    + rewrite run_effects_S in *. brk; fin; eauto.
    + rewrite recur_pass_S in *. cbv zeta in *. eauto.
    + rewrite recur_loop_S in *. brk; fin; eauto.
Qed.

Lemma recur_pass_fuel f s sid s' : recur_pass tk f s sid = (s', GFuel) -> oof s' = true.
Proof. destruct (fuel_all f) as (_ & _ & _ & _ & _ & _ & Irp & _). apply Irp. Qed.
Lemma enter_own_fuel f s sid ids s' : enter_own tk f s sid ids = (s', GFuel) -> oof s' = true.
Proof. destruct (fuel_all f) as (_ & _ & _ & Ieo & _). apply Ieo. Qed.
Lemma gen_send_fuel f s i s' : gen_send tk f s i = (s', GFuel) -> oof s' = true.
Proof. destruct (fuel_all f) as (_ & _ & Isd & _). apply Isd. Qed.
Lemma gen_start_fuel f s i s' : gen_start tk f s i = (s', GFuel) -> oof s' = true.
Proof. destruct (fuel_all f) as (Ist & _). apply Ist. Qed.
Lemma recur_loop_fuel f s sid s' : recur_loop tk f s sid = (s', GFuel) -> oof s' = true.
Proof. destruct (fuel_all f) as (_ & _ & _ & _ & _ & _ & _ & Irl). apply Irl. Qed.

(* stickiness through the top-level loop *)
Lemma cycle_loop_oof cycles : forall fuel s limit stop,
  oof s = true -> oof (cycle_loop tk cycles fuel s limit stop) = true.
Proof.
  induction cycles as [|c IH]; intros fuel s limit stop O; cbn [cycle_loop]; [reflexivity|].
  destruct (recur_pass tk fuel s 0%N) as [s1 r] eqn:E.
  assert (O1 : oof s1 = true) by (eapply steps_oof; [eapply recur_pass_steps; exact E|exact O]).
  assert (Cl : forall s k, oof s = true -> oof (emit (close_own tk fuel s 0%N) k 0%N) = true).
  { intros s0 k O0. cbn [oof emit]. eapply steps_oof; [apply close_own_steps|exact O0]. }
  assert (Tick : oof
      (let s2 := set_tyme s1 (tadd (tyme s1) tk) in
       match deeds (get_sched s2 0%N) with
       | [] => emit (close_own tk fuel (set_done s2 0%N (Some true)) 0%N) DoReturn 0%N
       | _ => if (match limit with Some l => negb (tfalsy l) | None => false end) && tleb stop (tyme s2)
              then emit (close_own tk fuel s2 0%N) DoReturn 0%N
              else cycle_loop tk c fuel s2 limit stop
       end) = true).
  { cbv zeta. destruct (deeds _); [apply Cl; exact O1|]. destruct (_ && _); [apply Cl; exact O1|apply IH; exact O1]. }
  destruct r as [t| |[|]|]; try exact Tick; try (apply Cl; exact O1). exact O1.
Qed.

End Fuel.
