From Hio Require Import Base.Prelude Model.Sched.
Theorem C04_placeholder : True. Proof. exact I. Qed.
Print Assumptions C04_placeholder.
