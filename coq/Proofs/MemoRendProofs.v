(* rend: the gram bodies partition the memo in order, gram numbers are
   1, 2, ... and the count announced in the zeroth gram is the number of grams. *)
From Hio Require Import Base.Prelude Model.B64 Model.MemoGram.
Local Open Scope nat_scope.

Fixpoint chunks (fuel n : nat) (gn : N) (memo : bytes) : list (N * bytes) :=
  match fuel with
  | O => []
  | S f => match memo with
           | [] => []
           | _ => (gn, firstn n memo) :: chunks f n (gn + 1)%N (skipn n memo)
           end
  end.

Lemma rend_rest_chunks : forall sign fuel p gn memo,
  rend_rest sign fuel p gn memo =
  map (fun x => gram_of sign p (pair_of (r_code p)) (fst x) false (snd x)) (chunks fuel (nbz p) gn memo).
Proof.
  induction fuel as [|f IH]; intros p gn memo; cbn [rend_rest chunks]; [reflexivity|].
  destruct memo as [|b m]; [reflexivity|]. cbn [map fst snd]. f_equal. apply IH.
Qed.

Lemma chunks_concat : forall fuel n gn memo, 0 < n -> length memo <= fuel ->
  concat (map snd (chunks fuel n gn memo)) = memo.
Proof.
  induction fuel as [|f IH]; intros n gn memo Hn Hl; cbn [chunks].
  - destruct memo; [reflexivity|cbn in Hl; lia].
  - destruct memo as [|b m]; [reflexivity|]. cbn [map snd concat].
    rewrite IH; [apply firstn_skipn|exact Hn|].
    rewrite skipn_length. cbn [length] in *. lia.
Qed.

Lemma chunks_numbers : forall fuel n gn memo,
  map fst (chunks fuel n gn memo) =
  map (fun i => (gn + N.of_nat i)%N) (seq 0 (length (chunks fuel n gn memo))).
Proof.
  induction fuel as [|f IH]; intros n gn memo; cbn [chunks]; [reflexivity|].
  destruct memo as [|b m]; [reflexivity|]. cbn [map fst length seq]. f_equal; [lia|].
  rewrite IH, <- seq_shift, map_map. apply map_ext. intros i. lia.
Qed.

Lemma chunks_nonempty_bodies : forall fuel n gn memo, 0 < n ->
  Forall (fun x => snd x <> []) (chunks fuel n gn memo).
Proof.
  induction fuel as [|f IH]; intros n gn memo Hn; cbn [chunks]; [constructor|].
  destruct memo as [|b m]; [constructor|]. constructor; [|apply IH; exact Hn].
  cbn [snd]. destruct n; [lia|]. discriminate.
Qed.

(* ceiling division on Z as Python computes it: -((-a) // n) *)
Definition zceil (a n : Z) : Z := (- ((- a) / n))%Z.

Lemma zceil_small : forall a n, (0 < a <= n)%Z -> zceil a n = 1%Z.
Proof.
  intros a n H. unfold zceil.
  assert (E : ((- a) / n = -1)%Z).
  { symmetry. apply (Z.div_unique_pos (- a) n (-1) (n - a)); lia. }
  rewrite E. reflexivity.
Qed.

Lemma zceil_step : forall a n, (0 < n)%Z -> zceil a n = (1 + zceil (a - n) n)%Z.
Proof.
  intros a n Hn. unfold zceil.
  replace (- a)%Z with (- (a - n) + (-1) * n)%Z by lia.
  rewrite Z.div_add by lia. lia.
Qed.

Lemma zceil_nonpos : forall a n, (0 < n)%Z -> (a <= 0)%Z -> (zceil a n <= 0)%Z.
Proof.
  intros a n Hn Ha. unfold zceil.
  assert (0 <= (- a) / n)%Z by (apply Z.div_pos; lia). lia.
Qed.

Lemma chunks_length : forall fuel n gn memo, 0 < n -> length memo <= fuel ->
  Z.of_nat (length (chunks fuel n gn memo)) =
  match memo with [] => 0%Z | _ => zceil (Z.of_nat (length memo)) (Z.of_nat n) end.
Proof.
  induction fuel as [|f IH]; intros n gn memo Hn Hl; cbn [chunks].
  - destruct memo; [reflexivity|cbn in Hl; lia].
  - destruct memo as [|b m]; [reflexivity|]. cbn [length].
    rewrite Nat2Z.inj_succ. rewrite IH; [|exact Hn|rewrite skipn_length; cbn [length] in *; lia].
    destruct (skipn n (b :: m)) as [|b' m'] eqn:E.
    + (* last chunk *)
      assert (L : length (b :: m) <= n).
      { apply (f_equal (@length N)) in E. rewrite skipn_length in E. cbn [length] in *. lia. }
      rewrite zceil_small; [reflexivity|]. cbn [length] in *. lia.
    + rewrite (zceil_step (Z.of_nat (length (b :: m)))) by lia.
      assert (L : length (b' :: m') = length (b :: m) - n) by (rewrite <- E; apply skipn_length).
      assert (length (b :: m) > n).
      { destruct (Nat.le_gt_cases (length (b :: m)) n) as [C|C]; [|exact C].
        rewrite skipn_all2 in E by exact C. discriminate. }
      rewrite L. rewrite Nat2Z.inj_sub by lia. cbn [length]. lia.
Qed.

(* the count formula of rend: max(1, ceil((ml + nbz - zbz)/nbz)) is one (the
   zeroth gram) plus the number of non-zeroth grams *)
Lemma gcount_spec : forall p (memo : bytes), 0 < nbz p -> memo <> [] ->
  gcount p (length memo) =
  N.of_nat (S (length (chunks (length memo) (nbz p) 1%N (skipn (zbz p) memo)))).
Proof.
  intros p memo Hn Hm. unfold gcount.
  set (ml := length memo). set (z := zbz p). set (n := nbz p) in *.
  assert (Hml : 0 < ml) by (unfold ml; destruct memo; [contradiction|cbn; lia]).
  pose proof (chunks_length ml n 1%N (skipn z memo) Hn) as CL.
  assert (Ls : length (skipn z memo) = ml - z) by apply skipn_length.
  specialize (CL ltac:(lia)).
  fold (zceil (Z.of_nat ml + Z.of_nat n - Z.of_nat z) (Z.of_nat n)).
  destruct (skipn z memo) as [|b m] eqn:E.
  - (* everything fits in the zeroth gram *)
    cbn [chunks length] in *. destruct ml; [lia|].
    assert (ml' : S ml <= z) by (cbn [length] in Ls; lia).
    assert (zceil (Z.of_nat (S ml) + Z.of_nat n - Z.of_nat z) (Z.of_nat n) <= 1)%Z.
    { destruct (Z.le_gt_cases (Z.of_nat (S ml) + Z.of_nat n - Z.of_nat z) 0) as [C|C].
      - pose proof (zceil_nonpos _ (Z.of_nat n) ltac:(lia) C). lia.
      - rewrite zceil_small; lia. }
    replace (chunks (S ml) n 1%N []) with (@nil (N * bytes)) by (destruct ml; reflexivity).
    cbn [length]. lia.
  - rewrite (zceil_step _ (Z.of_nat n)) by lia.
    replace (Z.of_nat ml + Z.of_nat n - Z.of_nat z - Z.of_nat n)%Z with (Z.of_nat (length (b :: m))).
    2:{ rewrite Ls. assert (z < ml). { destruct (Nat.le_gt_cases ml z) as [C|C]; [|exact C].
          rewrite skipn_all2 in E by exact C. discriminate. } lia. }
    rewrite <- CL.
    assert (0 <= Z.of_nat (length (chunks ml n 1%N (b :: m))))%Z by lia.
    rewrite Z.max_r by lia. rewrite Nat2N.inj_succ. lia.
Qed.

(* rend on a non-empty memo with legal sizes: the shape of the result *)
Theorem rend_partition : forall sign p memo grams,
  rend sign p memo = Ok grams -> memo <> [] ->
  let rest := chunks (length memo) (nbz p) 1%N (skipn (zbz p) memo) in
  0 < nbz p /\
  grams = gram_of sign p (r_code p) (N.of_nat (S (length rest))) (Nat.ltb 0 (vz (r_code p))) (firstn (zbz p) memo)
          :: map (fun x => gram_of sign p (pair_of (r_code p)) (fst x) false (snd x)) rest /\
  firstn (zbz p) memo ++ concat (map snd rest) = memo /\
  map fst rest = map (fun i => (1 + N.of_nat i)%N) (seq 0 (length rest)) /\
  Forall (fun x => snd x <> []) rest.
Proof.
  intros sign p memo grams H Hm rest. unfold rend in H.
  destruct (_ && _); [discriminate|]. destruct (negb _); [discriminate|].
  destruct (Nat.ltb (r_size p) (noz p)) eqn:L1; [discriminate|].
  destruct (Nat.eqb (r_size p) (noz p)) eqn:L2; [discriminate|].
  apply Nat.ltb_ge in L1. apply Nat.eqb_neq in L2.
  assert (Hn : 0 < nbz p) by (unfold nbz; lia).
  rewrite rend_rest_chunks in H.
  destruct memo as [|b m]; [contradiction|].
  injection H as <-.
  split; [exact Hn|]. split; [|split; [|split]].
  - apply (f_equal2 (@cons bytes)); [|reflexivity]. change (S (length m)) with (length (b :: m)).
    rewrite (gcount_spec p (b :: m) Hn) by discriminate. reflexivity.
  - unfold rest. rewrite chunks_concat; [apply firstn_skipn|exact Hn|]. rewrite skipn_length. lia.
  - apply chunks_numbers.
  - apply chunks_nonempty_bodies. exact Hn.
Qed.

(* ---- the size invariant of the setters ---- *)
Definition cfg_good (f : cfg) : Prop :=
  S (zoz (cfg_params f)) <= f_size f /\ S (noz (cfg_params f)) <= f_size f.

Lemma reclamp_good : forall f, cfg_good (reclamp f).
Proof.
  intros f. unfold cfg_good, reclamp, eff_size, min_size, zoz, noz, cfg_params. cbn [f_code f_curt f_size r_code r_curt r_size].
  split; lia.
Qed.

Lemma cfg_step_good : forall f o, cfg_good (cfg_step f o).
Proof. intros f []; apply reclamp_good. Qed.

Theorem cfg_run_good : forall c curt n h, cfg_good (cfg_run c curt n h).
Proof.
  intros c curt n h. unfold cfg_run. destruct h as [|o h] using rev_ind.
  - apply reclamp_good.
  - rewrite fold_left_app. apply cfg_step_good.
Qed.

(* .size never shrinks under the refreshes *)
Lemma cfg_step_mono : forall f o, match o with SetSize _ => True | _ => f_size f <= f_size (cfg_step f o) end.
Proof. intros f []; cbn; unfold eff_size; try lia; exact I. Qed.

(* with such a configuration both body sizes of rend are positive and rend
   does not take its failing branches *)
Theorem cfg_bodies_positive : forall c curt n h mid vid,
  let f := cfg_run c curt n h in
  let p := {| r_code := f_code f; r_curt := f_curt f; r_size := f_size f; r_mid := mid; r_vid := vid |} in
  1 <= zbz p /\ 1 <= nbz p.
Proof.
  intros c curt n h mid vid f p. destruct (cfg_run_good c curt n h) as [A B]. fold f in A, B.
  unfold zbz, nbz, p, zoz, noz, cfg_params in *. cbn [r_code r_curt r_size f_code f_curt f_size] in *. lia.
Qed.
