(* "First recur in the next cycle" (C06), the forward invariant.
   A doer j is SHELTERED when the deed that holds it hangs, through deques of
   suspended DoDoers, from a position no pass in progress will reach: behind the
   marker of a protected scheduler (one that is executing, or the root) or in a
   list the interpreter is about to close.  [shelter_all]: during any nested call
   a sheltered doer gets no Recur unless it is entered anew first (it can only be
   closed). *)
From Hio Require Import Base.Prelude Base.AMap Base.Time Model.Sched Proofs.SchedEqs Proofs.SchedFrame Proofs.SchedLife
  Proofs.SchedDeque Proofs.SchedDequeHold Proofs.SchedDequeAll Proofs.SchedDequeUniq Proofs.SchedDequeEffects
  Proofs.SchedDequeEpos Proofs.SchedDequeSortB Proofs.SchedDequePass.

Section Shelter.
Context {T : Type} `{Time T}.
Implicit Types s a b : st T.

(* ---------- hanging ---------- *)

Definition behindq (qf : id -> list (deed T)) (x j : id) : Prop :=
  exists u r, qf x = u ++ DMark :: r /\ mf u /\ In j (dids r).

Inductive hangq (qf : id -> list (deed T)) (Pr Lf : id -> Prop) (C : list id) : id -> Prop :=
| hg_hand j : In j C -> hangq qf Pr Lf C j
| hg_behind x j : Pr x -> behindq qf x j -> hangq qf Pr Lf C j
| hg_leaf y j : Lf y -> In j (dids (qf y)) -> hangq qf Pr Lf C j
| hg_sub y j : hangq qf Pr Lf C y -> In j (dids (qf y)) -> hangq qf Pr Lf C j.

Definition hang s := hangq (dq s).
Definition behind s := behindq (dq s).

Lemma behind_in qf x j : behindq qf x j -> In j (dids (qf x)).
Proof. intros (u & r & E & _ & Hj). rewrite E, dids_app. apply in_or_app. right. exact Hj. Qed.

Lemma hang_held qf Pr Lf C j : hangq qf Pr Lf C j -> In j C \/ exists y, In j (dids (qf y)).
Proof.
  intros [k Hk|x k _ B|y k _ Hk|y k _ Hk]; [now left|right; exists x; now apply behind_in|right; now exists y|right; now exists y].
Qed.

Lemma hang_hand_false s Pr Lf C i X : Hold2 s (i :: X) -> incl C X -> ~ hang s Pr Lf C i.
Proof.
  intros Hh Hc Hg. destruct (held_once s i X Hh) as [NX NQ].
  destruct (hang_held _ _ _ _ _ Hg) as [Hi|[y Hi]]; [apply NX, Hc, Hi|exact (NQ y Hi)].
Qed.

(* something executing does not hang (roots that are suspended) *)
Lemma hang_not_running s Pr Lf C E y :
  Hold2 s E -> (forall k, In k C -> is_susp s k) -> running s y -> ~ hang s Pr Lf C y.
Proof.
  intros Hh Hc [pc R] Hg. destruct (hang_held _ _ _ _ _ Hg) as [Hi|[z Hi]].
  - destruct (Hc y Hi) as [pc' S]. congruence.
  - destruct (h2_susp _ _ _ Hh y) as [pc' S]; [right; now exists z|congruence].
Qed.

Lemma susp_of_incl s E C : Hold2 s E -> incl C E -> forall k, In k C -> is_susp s k.
Proof. intros Hh Hc k Hk. apply (h2_susp _ _ _ Hh). left. now apply Hc. Qed.

Lemma hangq_xfer qf qf' Pr Lf C C' :
  (forall k, In k C -> hangq qf' Pr Lf C' k) ->
  (forall x k, Pr x -> behindq qf x k -> hangq qf' Pr Lf C' k) ->
  (forall y k, Lf y -> In k (dids (qf y)) -> hangq qf' Pr Lf C' k) ->
  (forall y k, hangq qf' Pr Lf C' y -> hangq qf Pr Lf C y -> In k (dids (qf y)) -> hangq qf' Pr Lf C' k) ->
  forall j, hangq qf Pr Lf C j -> hangq qf' Pr Lf C' j.
Proof. intros H1 H2 H3 H4 j Hg. induction Hg as [k Hk|x k Px B|y k Ly Hk|y k Hy IH Hk]; eauto. Qed.

Lemma hang_incl qf Pr Lf C C' j : incl C C' -> hangq qf Pr Lf C j -> hangq qf Pr Lf C' j.
Proof.
  intros Hc. apply hangq_xfer.
  - intros k Hk. apply hg_hand. now apply Hc.
  - intros x k Px B. now apply (hg_behind _ _ _ _ x).
  - intros y k Ly Hk. now apply (hg_leaf _ _ _ _ y).
  - intros y k Hy _ Hk. now apply (hg_sub _ _ _ _ y).
Qed.

(* the deque of a scheduler that neither hangs nor is protected does not matter *)
Lemma hang_irrel qf qf' Pr Lf C y j :
  (forall z, z <> y -> qf' z = qf z) -> ~ Pr y -> ~ Lf y -> ~ hangq qf Pr Lf C y ->
  hangq qf Pr Lf C j -> hangq qf' Pr Lf C j.
Proof.
  intros Hq Np Nl Nh. apply hangq_xfer.
  - intros k Hk. now apply hg_hand.
  - intros x k Px (u & r & E & Mu & Hk). apply (hg_behind _ _ _ _ x); [exact Px|]. exists u, r.
    rewrite Hq; [now split|]. intro Heq. subst x. contradiction.
  - intros z k Lz Hk. apply (hg_leaf _ _ _ _ z); [exact Lz|]. rewrite Hq; [exact Hk|]. intro Heq. subst z. contradiction.
  - intros z k Hz' Hz Hk. apply (hg_sub _ _ _ _ z); [exact Hz'|]. rewrite Hq; [exact Hk|].
    intro Heq. subst z. contradiction.
Qed.

(* deeds appended at the end of any deque *)
Lemma hang_grow qf qf' Pr Lf C t add j :
  (forall z, z <> t -> qf' z = qf z) -> qf' t = qf t ++ add -> hangq qf Pr Lf C j -> hangq qf' Pr Lf C j.
Proof.
  intros Hq Ht.
  assert (In' : forall z k, In k (dids (qf z)) -> In k (dids (qf' z))).
  { intros z k Hk. destruct (N.eq_dec z t) as [Heq|Hne]; [subst z; rewrite Ht, dids_app; apply in_or_app; now left|now rewrite Hq]. }
  apply hangq_xfer.
  - intros k Hk. now apply hg_hand.
  - intros x k Px (u & r & E & Mu & Hk). apply (hg_behind _ _ _ _ x); [exact Px|].
    destruct (N.eq_dec x t) as [Heq|Hne].
    + subst x. exists u, (r ++ add). rewrite Ht, E, <- app_assoc. cbn [app]. split; [reflexivity|]. split; [exact Mu|].
      rewrite dids_app. apply in_or_app. now left.
    + exists u, r. rewrite Hq by exact Hne. now split.
  - intros z k Lz Hk. apply (hg_leaf _ _ _ _ z); [exact Lz|now apply In'].
  - intros z k Hz' _ Hk. apply (hg_sub _ _ _ _ z); [exact Hz'|now apply In'].
Qed.

(* deeds deleted from any deque, the deleted ones going into the hand *)
Lemma hang_filter qf qf' Pr Lf C C' t q j :
  (forall z, z <> t -> qf' z = qf z) -> qf' t = filter (keepf q) (qf t) ->
  incl C C' -> (forall k, In k (dids (qf t)) -> q k = false -> In k C') ->
  hangq qf Pr Lf C j -> hangq qf' Pr Lf C' j.
Proof.
  intros Hq Ht Hc Hd.
  assert (In' : forall z k, In k (dids (qf z)) -> In k (dids (qf' z)) \/ In k C').
  { intros z k Hk. destruct (N.eq_dec z t) as [Heq|Hne]; [|left; now rewrite Hq].
    subst z. destruct (q k) eqn:Qk; [left|right; now apply Hd]. rewrite Ht, dids_keepf. apply filter_In. now split. }
  apply hangq_xfer.
  - intros k Hk. apply hg_hand. now apply Hc.
  - intros x k Px (u & r & E & Mu & Hk). destruct (N.eq_dec x t) as [Heq|Hne].
    + subst x. destruct (q k) eqn:Qk.
      * apply (hg_behind _ _ _ _ t); [exact Px|]. exists (filter (keepf q) u), (filter (keepf q) r).
        rewrite Ht, E, filter_app. cbn [filter keepf]. split; [reflexivity|]. split; [now apply mf_filter|].
        rewrite dids_keepf. apply filter_In. now split.
      * apply hg_hand. apply Hd; [|exact Qk]. rewrite E, dids_app. apply in_or_app. right. exact Hk.
    + apply (hg_behind _ _ _ _ x); [exact Px|]. exists u, r. rewrite Hq by exact Hne. now split.
  - intros z k Lz Hk. destruct (In' z k Hk) as [Hi|Hi]; [now apply (hg_leaf _ _ _ _ z)|now apply hg_hand].
  - intros z k Hz' _ Hk. destruct (In' z k Hk) as [Hi|Hi]; [now apply (hg_sub _ _ _ _ z)|now apply hg_hand].
Qed.

(* a hand that starts executing: what hung from it hangs from its deque's members *)
Lemma hang_split_hand qf Pr Lf C i j :
  hangq qf Pr Lf (i :: C) j -> j = i \/ hangq qf Pr Lf (dids (qf i) ++ C) j.
Proof.
  intro Hg. induction Hg as [k Hk|x k Px B|y k Ly Hk|y k Hy IH Hk].
  - destruct Hk as [Hk|Hk]; [now left|right; apply hg_hand, in_or_app; now right].
  - right. now apply (hg_behind _ _ _ _ x).
  - right. now apply (hg_leaf _ _ _ _ y).
  - right. destruct IH as [Heq|IH]; [subst y; apply hg_hand, in_or_app; now left|now apply (hg_sub _ _ _ _ y)].
Qed.

(* the members of a never-processed deque need no other root *)
Lemma hang_leaf_roots qf Pr (Lf : id -> Prop) C i j : Lf i -> hangq qf Pr Lf (dids (qf i) ++ C) j -> hangq qf Pr Lf C j.
Proof.
  intro Li. apply hangq_xfer.
  - intros k Hk. apply in_app_or in Hk. destruct Hk as [Hk|Hk]; [now apply (hg_leaf _ _ _ _ i)|now apply hg_hand].
  - intros x k Px B. now apply (hg_behind _ _ _ _ x).
  - intros y k Ly Hk. now apply (hg_leaf _ _ _ _ y).
  - intros y k Hy _ Hk. now apply (hg_sub _ _ _ _ y).
Qed.

(* ---------- the trace property: no Recur of j before a new Enter of j ---------- *)

Variable j : id.

Definition is_recur_of (e : ev T) : bool := match e_kind e with Recur => N.eqb (e_id e) j | _ => false end.
Definition has_enter (l : list (ev T)) : Prop := exists e, In e l /\ is_enter_of j e = true.

Fixpoint nrbe (seg : list (ev T)) : Prop :=
  match seg with
  | [] => True
  | e :: older => nrbe older /\ (is_recur_of e = true -> has_enter older)
  end.

Lemma has_enter_app l1 l2 : has_enter l2 -> has_enter (l1 ++ l2).
Proof. intros (e & Hin & He). exists e. split; [apply in_or_app; now right|exact He]. Qed.

Lemma nrbe_app l1 l2 : nrbe l1 -> nrbe l2 -> nrbe (l1 ++ l2).
Proof.
  induction l1 as [|e l1 IH]; intros N1 N2; [exact N2|]. cbn [app nrbe] in *. destruct N1 as [N1 He].
  split; [now apply IH|]. intro R. destruct (He R) as (x & Hin & Hx). exists x. split; [apply in_or_app; now left|exact Hx].
Qed.

(* the consequence one reads: no Enter of j in the segment, then no Recur of j either *)
Lemma nrbe_no_enter seg : nrbe seg -> ~ has_enter seg -> forall e, In e seg -> is_recur_of e = false.
Proof.
  induction seg as [|x seg IH]; intros N Ne e Hin; [contradiction|]. cbn [nrbe] in N. destruct N as [N Hx].
  assert (Ne' : ~ has_enter seg).
  { intros (y & Hy & Ey). apply Ne. exists y. split; [now right|exact Ey]. }
  destruct Hin as [Heq|Hin]; [subst x|now apply IH].
  destruct (is_recur_of e) eqn:R; [exfalso; apply Ne'; now apply Hx|reflexivity].
Qed.

Definition entj a s : Prop := exists seg, trace s = seg ++ trace a /\ has_enter seg.
Definition NRj a s : Prop := exists seg, trace s = seg ++ trace a /\ nrbe seg.

Variables Pr Lf : id -> Prop.

Definition PJ a s (C : list id) : Prop :=
  NRj a s /\ (entj a s \/ startable s j = true \/ running s j \/ hang s Pr Lf C j).

Lemma entj_mono a s s' : entj a s -> (exists seg, trace s' = seg ++ trace s) -> entj a s'.
Proof.
  intros (seg & Tr & He) (seg2 & Tr2). exists (seg2 ++ seg). split; [now rewrite Tr2, Tr, app_assoc|now apply has_enter_app].
Qed.

Lemma pj_refl a C : (startable a j = true \/ running a j \/ hang a Pr Lf C j) -> PJ a a C.
Proof. intro Hs. split; [exists []; split; [reflexivity|exact Logic.I]|now right]. Qed.

Lemma pj_same a s s' C :
  trace s' = trace s -> get_gen s' j = get_gen s j -> (forall x, dq s' x = dq s x) -> PJ a s C -> PJ a s' C.
Proof.
  intros Ht Hg Hq [(seg & Tr & N) D]. split; [exists seg; split; [congruence|exact N]|].
  destruct D as [(sg & Tr' & He)|[St|[[pc R]|Hg']]].
  - left. exists sg. split; [congruence|exact He].
  - right; left. unfold startable in *. now rewrite Hg.
  - right; right; left. exists pc. now rewrite Hg.
  - right; right; right. unfold hang in *. eapply hangq_xfer; [| | | |exact Hg'].
    + intros k Hk. now apply hg_hand.
    + intros x k Px (u & r & E & Mu & Hk). apply (hg_behind _ _ _ _ x); [exact Px|]. exists u, r. rewrite Hq. now split.
    + intros y k Ly Hk. apply (hg_leaf _ _ _ _ y); [exact Ly|]. now rewrite Hq.
    + intros y k Hy _ Hk. apply (hg_sub _ _ _ _ y); [exact Hy|]. now rewrite Hq.
Qed.
Lemma pj_done a s C i d : PJ a s C -> PJ a (set_done s i d) C.
Proof. intro P. apply (pj_same a s); [reflexivity|reflexivity|intro; reflexivity|exact P]. Qed.

(* an event that is not a Recur of j *)
Lemma pj_emit a s C k i : (k = Recur -> i = j -> entj a s) -> PJ a s C -> PJ a (emit s k i) C.
Proof.
  intros Hk [(seg & Tr & N) D]. split.
  - eexists (_ :: seg). split; [cbn [trace emit]; now rewrite Tr|]. cbn [nrbe]. split; [exact N|].
    unfold is_recur_of. cbn [e_kind e_id]. intro R. destruct k; try discriminate. apply N.eqb_eq in R.
    destruct (Hk eq_refl R) as (sg & Tr' & He). rewrite Tr in Tr'. apply app_inv_tail in Tr'. now subst sg.
  - destruct D as [E|[St|[R|Hg]]].
    + left. eapply entj_mono; [exact E|]. now eexists [_].
    + right; now left.
    + right; right; now left.
    + right; right; now right.
Qed.

Lemma pj_enter a s C g : NRj a s -> PJ a (emit (set_gen s j g) Enter j) C /\ entj a (emit (set_gen s j g) Enter j).
Proof.
  intros (seg & Tr & N).
  assert (E : entj a (emit (set_gen s j g) Enter j)).
  { eexists (_ :: seg). split; [cbn [trace emit set_gen]; now rewrite Tr|].
    eexists. split; [now left|]. unfold is_enter_of. cbn [e_kind e_id]. apply N.eqb_refl. }
  split; [|exact E]. split; [|now left].
  eexists (_ :: seg). split; [cbn [trace emit set_gen]; now rewrite Tr|]. cbn [nrbe]. split; [exact N|discriminate].
Qed.

(* generator updates *)
Lemma pj_gen_other a s C i g : i <> j -> PJ a s C -> PJ a (set_gen s i g) C.
Proof.
  intros Hne P. apply (pj_same a s); [reflexivity|apply gen_set_gen_other; congruence|intro; reflexivity|exact P].
Qed.
Lemma pj_gen_j a s C g : (forall pc, g = GSusp pc -> entj a s) -> PJ a s C -> PJ a (set_gen s j g) C.
Proof.
  intros Hg [N D]. split; [exact N|].
  destruct g as [|pc|pc|].
  - right; left. unfold startable. now rewrite gen_set_gen_same.
  - left. exact (Hg pc eq_refl).
  - right; right; left. exists pc. apply gen_set_gen_same.
  - right; left. unfold startable. now rewrite gen_set_gen_same.
Qed.
Lemma pj_gen a s C i g : (i = j -> forall pc, g = GSusp pc -> entj a s) -> PJ a s C -> PJ a (set_gen s i g) C.
Proof.
  intros Hg P. destruct (N.eq_dec i j) as [Heq|Hne]; [subst i; apply pj_gen_j; [exact (Hg eq_refl)|exact P]|now apply pj_gen_other].
Qed.

(* deque updates: the hang disjunct is transported by the given function *)
Lemma pj_sched a s C C' y c' :
  (hang s Pr Lf C j -> hang (set_sched s y c') Pr Lf C' j) -> PJ a s C -> PJ a (set_sched s y c') C'.
Proof.
  intros Hh [N D]. split; [exact N|]. destruct D as [E|[St|[R|Hg]]]; [now left|right; now left|right; right; now left|].
  right; right; right. now apply Hh.
Qed.

Lemma pj_incl a s C C' : incl C C' -> PJ a s C -> PJ a s C'.
Proof.
  intros Hc [N D]. split; [exact N|]. destruct D as [E|[St|[R|Hg]]]; [now left|right; now left|right; right; now left|].
  right; right; right. now apply (hang_incl _ _ _ C).
Qed.

End Shelter.

(* ================================================================== *)
Section ShelterAll.
Context {T : Type} `{Time T}.
Implicit Types s a b : st T.
Variable tk : T.
Variable j : id.
Variable Pr : id -> Prop.
Variable d : amap (fdef T).

(* deques that are never processed: of leaves and of undefined ids *)
Definition Lf (i : id) : Prop := isnest d i = false.
Hypothesis Dj : get d j <> None.

Definition HP s : Prop := (forall x, Pr x -> prot s x) /\ defs s = d.

Lemma hp_same s s' : (forall x, get_gen s' x = get_gen s x) -> defs s' = defs s -> HP s -> HP s'.
Proof. intros Hg Hd [P D]. split; [intros x Px; apply (prot_same s); [exact Hg|exact Hd|now apply P]|congruence]. Qed.
Lemma hp_gen s i g : ~ Pr i -> HP s -> HP (set_gen s i g).
Proof.
  intros Np [P D]. split; [|exact D]. intros x Px. apply prot_gen; [|now apply P]. intro Heq. subst. contradiction.
Qed.
Lemma hp_steps s s' : steps s s' -> (forall x, prot s x -> prot s' x) -> HP s -> HP s'.
Proof. intros St K [P D]. split; [intros x Px; apply K; now apply P|now rewrite (steps_defs _ _ St)]. Qed.

Lemma hp_all f :
  (forall s i s' r, HP s -> gen_start tk f s i = (s', r) -> HP s') /\
  (forall s i k sc pc s' r, HP s -> ~ Pr i -> run_step tk f s i k sc pc = (s', r) -> HP s') /\
  (forall s i s' r, HP s -> gen_send tk f s i = (s', r) -> HP s') /\
  (forall s i, HP s -> HP (gen_close tk f s i)) /\
  (forall s i, HP s -> HP (close_own tk f s i)) /\
  (forall s ds, HP s -> HP (close_list tk f s ds)) /\
  (forall s sid ids s' r, HP s -> enter_own tk f s sid ids = (s', r) -> HP s') /\
  (forall s ids acc s' r acc', HP s -> enter_local tk f s ids acc = (s', r, acc') -> HP s') /\
  (forall s c es s' r, HP s -> run_effects tk f s c es = (s', r) -> HP s') /\
  (forall s sid s' r, HP s -> recur_pass tk f s sid = (s', r) -> HP s') /\
  (forall s sid s' r, HP s -> recur_loop tk f s sid = (s', r) -> HP s').
Proof.
  destruct (frame_all tk f) as (Fst & Frs & Fsd & Fcl & Fco & Fli & Feo & Fel & Fef & Frp & Frl).
  repeat split; intros.
  - apply (hp_steps s s'); [eauto using st_refl| |eassumption].
    intros x Px. destruct (prot_more tk f x) as (K & _). eapply K; eassumption.
  - match goal with Hh : HP _ |- _ => destruct Hh as [P D] end. split.
    + intros x Px. destruct (prot_all tk f x) as (K & _). eapply K; [now apply P| |eassumption]. intro Heq. subst. contradiction.
    + rewrite <- D. apply steps_defs. eapply Frs; [apply st_refl|eassumption].
  - apply (hp_steps s s'); [eauto using st_refl| |eassumption].
    intros x Px. destruct (prot_all tk f x) as (_ & K & _). eapply K; eassumption.
  - apply (hp_steps s (gen_close tk f s i)); [apply Fcl, st_refl| |eassumption].
    intros x Px. destruct (prot_all tk f x) as (_ & _ & K & _). now apply K.
  - apply (hp_steps s (close_own tk f s i)); [apply Fco, st_refl| |eassumption].
    intros x Px. destruct (prot_all tk f x) as (_ & _ & _ & K & _). now apply K.
  - apply (hp_steps s (close_list tk f s ds)); [apply Fli, st_refl| |eassumption].
    intros x Px. destruct (prot_all tk f x) as (_ & _ & _ & _ & K & _). now apply K.
  - apply (hp_steps s s'); [eauto using st_refl| |eassumption].
    intros x Px. destruct (prot_more tk f x) as (_ & K & _). eapply K; eassumption.
  - apply (hp_steps s s'); [eauto using st_refl| |eassumption].
    intros x Px. destruct (prot_more tk f x) as (_ & _ & K). eapply K; eassumption.
  - apply (hp_steps s s'); [eauto using st_refl| |eassumption].
    intros x Px. destruct (prot_all tk f x) as (_ & _ & _ & _ & _ & K & _). eapply K; eassumption.
  - apply (hp_steps s s'); [eauto using st_refl| |eassumption].
    intros x Px. destruct (prot_all tk f x) as (_ & _ & _ & _ & _ & _ & K & _). eapply K; eassumption.
  - apply (hp_steps s s'); [eauto using st_refl| |eassumption].
    intros x Px. destruct (prot_all tk f x) as (_ & _ & _ & _ & _ & _ & _ & K). eapply K; eassumption.
Qed.

Lemma np_start s i : HP s -> startable s i = true -> get (defs s) i <> None -> ~ Pr i.
Proof. intros [P _] St D Px. exact (prot_ne_start s i i (P i Px) St D eq_refl). Qed.
Lemma np_susp s i pc : HP s -> get_gen s i = GSusp pc -> get (defs s) i <> None -> ~ Pr i.
Proof. intros [P _] G D Px. exact (prot_ne s i i pc (P i Px) G D eq_refl). Qed.

Notation PJ' := (PJ j Pr Lf).

(* i starts executing from a hand: what hung from it now hangs from its deque *)
Lemma pj_hand_run a s C i pc : PJ' a s (i :: C) -> PJ' a (set_gen s i (GRun pc)) (qids s i ++ C).
Proof.
  intros [N D]. split; [exact N|].
  destruct D as [E|[St|[R|Hg]]].
  - now left.
  - destruct (N.eq_dec i j) as [Heq|Hne].
    + subst i. right; right; left. exists pc. apply gen_set_gen_same.
    + right; left. unfold startable. rewrite gen_set_gen_other by congruence. exact St.
  - destruct (N.eq_dec i j) as [Heq|Hne].
    + subst i. right; right; left. exists pc. apply gen_set_gen_same.
    + right; right; left. destruct R as [pc' R]. exists pc'. rewrite gen_set_gen_other by congruence. exact R.
  - destruct (hang_split_hand _ _ _ _ _ _ Hg) as [Heq|Hg'].
    + subst i. right; right; left. exists pc. apply gen_set_gen_same.
    + right; right; right. exact Hg'.
Qed.

Lemma pj_leaf_roots a s C i : Lf i -> PJ' a s (qids s i ++ C) -> PJ' a s C.
Proof.
  intros Li [N D]. split; [exact N|]. destruct D as [E|[St|[R|Hg]]]; [now left|right; now left|right; right; now left|].
  right; right; right. now apply (hang_leaf_roots _ _ _ _ i).
Qed.

(* the deque of an executing DoDoer that is not protected is irrelevant *)
Lemma pj_irrel a s C E y c' :
  Hold2 s E -> (forall k, In k C -> is_susp s k) -> running s y -> ~ Pr y -> isnest d y = true ->
  PJ' a s C -> PJ' a (set_sched s y c') C.
Proof.
  intros Hh Hc R Np Ny. apply pj_sched. intro Hg. unfold hang in *.
  eapply hang_irrel; [| | | |exact Hg].
  - intros z Hz. now apply dq_set_other.
  - exact Np.
  - unfold Lf. congruence.
  - eapply (hang_not_running s); eassumption.
Qed.
Lemma pj_irrel_deeds a s C E y l :
  Hold2 s E -> (forall k, In k C -> is_susp s k) -> running s y -> ~ Pr y -> isnest d y = true ->
  PJ' a s C -> PJ' a (set_deeds s y l) C.
Proof. intros. unfold set_deeds. eapply pj_irrel; eassumption. Qed.

(* Recur of i can be emitted: i is in hand, so it does not hang *)
Lemma pj_recur a s C X i pc :
  Hold2 s (i :: X) -> incl C X -> get_gen s i = GSusp pc -> PJ' a s C ->
  PJ' a (emit (set_gen s i (GRun pc)) Recur i) C /\ (i = j -> entj j a (emit (set_gen s i (GRun pc)) Recur i)).
Proof.
  intros Hh Hc G P.
  assert (Ej : i = j -> entj j a s).
  { intro Heq. subst i. destruct P as [_ [E|[St|[[pc' R]|Hg]]]]; [exact E| | |].
    - unfold startable in St. rewrite G in St. discriminate.
    - congruence.
    - exfalso. eapply hang_hand_false; eassumption. }
  split.
  - apply pj_emit; [intros _ Heq; exact (Ej Heq)|]. apply pj_gen; [intros _ pc' Hx; discriminate|exact P].
  - intro Heq. eapply entj_mono; [exact (Ej Heq)|]. now eexists [_].
Qed.

Lemma pj_start a s C i : PJ' a s C ->
  PJ' a (emit (set_gen s i (GRun 0)) Enter i) C /\ (i = j -> entj j a (emit (set_gen s i (GRun 0)) Enter i)).
Proof.
  intros P. destruct (N.eq_dec i j) as [Heq|Hne].
  - subst i. destruct (pj_enter j Pr Lf a s C (GRun 0) (proj1 P)) as [P1 E1]. split; [exact P1|intros _; exact E1].
  - split; [|congruence]. apply pj_emit; [discriminate|]. now apply pj_gen_other.
Qed.

End ShelterAll.
