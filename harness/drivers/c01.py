"""C01 — every doer runs a well-formed lifecycle on every exit path."""
from harness.drivers import sched_common as sc
from harness.drivers.sched_common import (COQ_REQUIRES, COQ_CHECK, COQ_CASE_TYPE, COQ_BRANCHES, COQ_HEADER, SHARD, CASE_TIMEOUT, MODELLED,
                                          run_impl, to_coq, shrink, distribution)

PROP = "C01"
RULE = ("random doer forests (leaf kinds: doify function, bound method, Doer with plain recur, Doer with generator recur; "
        "DoDoers nested to depth 3) with scripted per-step yields/returns/raises/KeyboardInterrupt, optional limit, plus "
        "runtime extend/remove effects; plus the systematic sweep 'one fault injected at every (doer, step) of a fault-free "
        "base program'; non-trivial = at least 2 doers and at least one fault, removal, nesting level or limit stop")


def directed():
    L = lambda *steps: [{"es": [], "out": list(o)} for o in steps]
    Y, R, X, K = ("y", None), ("r", "true"), ("x",), ("k",)
    base = lambda defs, doers, limit=None: {"tock": 0.25, "limit": limit, "tyme": 0.0, "doers": doers, "defs": defs, "mode": "do"}
    out = []
    # completes; limit stop; raise mid pass with doers on both sides; failing enter; kbd
    out.append(base({"1": {"kind": "func", "script": L(Y, Y, R)}, "2": {"kind": "doer", "script": L(Y, Y, Y, R)}}, [1, 2]))
    out.append(base({"1": {"kind": "func", "script": L(Y, Y, Y, Y, Y, Y)}, "2": {"kind": "doergen", "script": L(Y, Y, Y, Y, Y, Y, Y)}}, [1, 2], limit=0.5))
    out.append(base({"1": {"kind": "func", "script": L(Y, Y, Y, Y)}, "2": {"kind": "doer", "script": L(Y, Y, X)},
                     "3": {"kind": "doergen", "script": L(Y, Y, Y, Y)}}, [1, 2, 3]))
    out.append(base({"1": {"kind": "func", "script": L(Y, Y)}, "2": {"kind": "doer", "script": L(X)}, "3": {"kind": "func", "script": L(Y, Y)}}, [1, 2, 3]))
    out.append(base({"1": {"kind": "func", "script": L(Y, Y, Y)}, "2": {"kind": "func", "script": L(Y, K)}, "3": {"kind": "doer", "script": L(Y, Y, Y)}}, [1, 2, 3]))
    # nested: raise inside a nest with siblings on both sides
    out.append(base({"1": {"kind": "func", "script": L(Y, Y, Y, Y)},
                     "2": {"kind": "nest", "tock": 0.0, "always": False, "kids": [3, 4, 5]},
                     "3": {"kind": "doer", "script": L(Y, Y, Y, Y)}, "4": {"kind": "func", "script": L(Y, Y, X)},
                     "5": {"kind": "doergen", "script": L(Y, Y, Y, Y)}, "6": {"kind": "func", "script": L(Y, Y, Y, Y)}}, [1, 2, 6]))
    # failing enter inside extend (D2): doer 1 extends root with [3, 4]; 4 fails in enter
    out.append(base({"1": {"kind": "func", "script": [{"es": [], "out": ["y", None]}, {"es": [["ext", 0, [3, 4]]], "out": ["y", None]}, {"es": [], "out": ["r", "true"]}]},
                     "2": {"kind": "doer", "script": L(Y, Y, Y, Y)}, "3": {"kind": "func", "script": L(Y, Y, Y)}, "4": {"kind": "doer", "script": L(X)}}, [1, 2]))
    # the same with a KeyboardInterrupt in the new doer's enter (BaseException, not Exception), in the Doist and in a DoDoer
    for tgt, root, extra in ((0, [1, 2], {}), (9, [9], {"9": {"kind": "nest", "tock": 0.0, "always": False, "kids": [1, 2]}})):
        defs = {"1": {"kind": "func", "script": [{"es": [], "out": ["y", None]}, {"es": [["ext", tgt, [3, 4]]], "out": ["y", None]}, {"es": [], "out": ["r", "true"]}]},
                "2": {"kind": "doer", "script": L(Y, Y, Y, Y)}, "3": {"kind": "func", "script": L(Y, Y, Y)}, "4": {"kind": "doer", "script": L(K)}}
        defs.update(extra)
        out.append(base(defs, root))
    # removal of a sibling and of self; extend with duplicates (D33); remove with duplicates (D34)
    out.append(base({"1": {"kind": "func", "script": [{"es": [], "out": ["y", None]}, {"es": [["rem", 0, [2, 1]]], "out": ["y", None]}, {"es": [], "out": ["y", None]}, {"es": [], "out": ["r", "true"]}]},
                     "2": {"kind": "doer", "script": L(Y, Y, Y, Y, Y)}, "3": {"kind": "func", "script": L(Y, Y, Y, Y, R)}}, [1, 2, 3]))
    out.append(base({"1": {"kind": "func", "script": [{"es": [], "out": ["y", None]}, {"es": [["ext", 0, [3, 3]]], "out": ["y", None]}, {"es": [], "out": ["r", "true"]}]},
                     "3": {"kind": "func", "script": L(Y, Y, R)}}, [1]))
    out.append(base({"1": {"kind": "func", "script": [{"es": [], "out": ["y", None]}, {"es": [["rem", 0, [2, 2]]], "out": ["y", None]}, {"es": [], "out": ["r", "true"]}]},
                     "2": {"kind": "doer", "script": L(Y, Y, Y, Y, Y)}}, [1, 2]))
    # D43 witness: 1 extends the suspended always-DoDoer 2 with 4, whose enter removes 2 from the root
    Yk = lambda es=None: {"es": es or [], "out": ["y", None]}
    out.append({"tock": 0.25, "limit": 0.75, "tyme": 0.0, "doers": [1, 2], "mode": "do", "defs": {
        "1": {"kind": "func", "script": [Yk(), Yk([["ext", 2, [4]]]), Yk(), Yk(), Yk()]},
        "2": {"kind": "nest", "tock": 0.0, "always": True, "kids": [3]},
        "3": {"kind": "doer", "script": [Yk(), Yk(), Yk(), Yk(), Yk()]},
        "4": {"kind": "func", "script": [Yk([["rem", 0, [2]]]), Yk(), Yk(), Yk()]}}})
    return out


def fault_sweep(rng, n_bases):
    """Inject one fault at every (leaf, step) position of fault-free base programs."""
    import copy
    out = []
    for _ in range(n_bases):
        base = sc.gen_static(rng, n_leaves=rng.randint(2, 5), nest_depth=2, faults=False, tocks="dyadic", limit_p=0.3)
        for i, d in base["defs"].items():
            if d["kind"] == "nest":
                continue
            for pc in range(len(d["script"])):
                c = copy.deepcopy(base)
                c["defs"][i]["script"][pc]["out"] = ["x"] if rng.random() < 0.85 else ["k"]
                del c["defs"][i]["script"][pc + 1:]
                out.append(c)
    return out


def generate(rng, tier):
    n = 1 if tier == "quick" else 12
    out = []
    out += [sc.gen_static(rng, nest_depth=3, faults=True) for _ in range(250 * n)]
    out += fault_sweep(rng, 12 * n)
    out += [sc.gen_dynamic(rng, faults=(rng.random() < 0.4)) for _ in range(250 * n)]
    out += sc.gen_broad(rng, 150 * n)
    out += sc.gen_hookraise(rng, 80 * n)
    out += sc.gen_manual(rng, 60 * n)
    out += sc.gen_enter_effects(rng, 60 * n)
    out += sc.gen_hook_effects(rng, 40 * n)
    sc.add_falsy(rng, out)
    return out


def oracle(case, obs):
    tr = obs["trace"]
    if obs["raised"].startswith("escape"):
        return f"unexpected exception escaped do(): {obs['raised']}"
    why = sc.clock_oracle(obs)
    if why:
        return why
    ids = [int(i) for i in case["defs"]]
    end = len(tr) - 1      # DoReturn / DoRaise is last
    for i in ids:
        lv = sc.split_lives(sc.lives(tr, i))
        for n, life in enumerate(lv):
            if not sc.wf_life(life, kbd_ok=False):
                return f"doer {i} life {n} is not Enter Recur* (Clean|Cease|Abort) Exit: {life}"
    # completeness: every started doer has exited before do() returns/raises: DoReturn/DoRaise is the
    # last event (a leaked generator closed later by the garbage collector shows up after it)
    if not tr or tr[-1][0] not in ("DoReturn", "DoRaise"):
        late = [(k, i) for k, i, _ in tr[[k for k, _, _ in tr].index("DoRaise" if obs["raised"] != "none" else "DoReturn") + 1:]]
        return f"lifecycle events after do() ended: {late}"
    return None


def _step0_remove(case):
    return any(d["kind"] != "nest" and d["script"] and any(e[0] == "rem" for e in d["script"][0]["es"])
               for d in case["defs"].values())


def classify(case, obs, why):
    # D43: a new doer whose enter (inside extend()) removes/closes the very scheduler it is being added to
    # is left suspended in the dead scheduler's deque: entered, never exited
    if _step0_remove(case) and not case.get("enter_effects") and ("life" in why or "not exited" in why):
        tr = obs["trace"]
        bad = [i for i in (int(k) for k in case["defs"])
               if any(not sc.wf_life(l) for l in sc.split_lives(sc.lives(tr, i)))]
        if bad and all(sc.split_lives(sc.lives(tr, i))[-1] == ["Enter"] or sc.split_lives(sc.lives(tr, i))[-1][0] == "Enter" for i in bad):
            return "D43"

    # D40-kbd: a KeyboardInterrupt raised inside a doer skips that doer's abort context (only exit runs)
    if "life" in why and sc.has_kbd(case):
        tr = obs["trace"]
        for i in [int(k) for k in case["defs"]]:
            for life in sc.split_lives(sc.lives(tr, i)):
                if not sc.wf_life(life) and not sc.wf_life(life, kbd_ok=True):
                    return None
        return "D40-kbd"
    return None


def nontrivial(case, obs):
    if len(case["defs"]) < 2:
        return False
    kinds = {k for k, _, _ in obs["trace"]}
    return bool(kinds & {"Abort", "Cease", "RemRet"}) or any(d["kind"] == "nest" for d in case["defs"].values())
