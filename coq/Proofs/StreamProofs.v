(* Lemmas about Model/Stream.v: stream invariants for arbitrary op sequences and
   arbitrary kernel answers, wire-log exactness, liveness of a healthy connection. *)
From Hio Require Import Base.Prelude Model.Stream.

Local Ltac inv H := inversion H; subst; clear H.

(* ---------- the transmit side: nothing lost, duplicated or reordered ---------- *)

Definition payload (o : op) : bytes := match o with Tx d => d | _ => [] end.

Lemma send_tx : forall c s k s' r,
  send c s k = (s', r) ->
  txbs s' = txbs s /\
  match r with
  | Ok n => k_sent s' = k_sent s ++ firstn n (txbs s)
  | Exc _ => k_sent s' = k_sent s
  end.
Proof.
  intros c s k s' r H. unfold send in H. destruct k as [n|e].
  - destruct n; inv H; cbn; split; auto. now rewrite app_nil_r.
  - destruct (classify (kd c) DTx e); inv H; cbn; split; auto; now rewrite app_nil_r.
Qed.

Lemma service_sends_tx : forall c s k,
  let s' := st (service_sends c s k) in
  k_sent s' ++ txbs s' = k_sent s ++ txbs s.
Proof.
  intros c s k. unfold service_sends, st.
  destruct (negb (is_nil (txbs s)) && gate c s); [|reflexivity].
  destruct (send c s k) as [s1 r] eqn:E. apply send_tx in E. destruct E as [Et Ek].
  destruct r as [n|e]; cbn.
  - rewrite Ek, Et, <- app_assoc. now rewrite firstn_skipn.
  - now rewrite Ek, Et.
Qed.

Lemma receive_tx : forall c s k s' r,
  receive c s k = (s', r) -> k_sent s' = k_sent s /\ txbs s' = txbs s.
Proof.
  intros c s k s' r H. unfold receive in H. destruct k as [d|e].
  - destruct d; inv H; cbn; auto.
  - destruct (classify (kd c) DRx e); inv H; cbn; auto.
Qed.

Lemma service_receives_tx : forall c ks s,
  let s' := st (service_receives c s ks) in
  k_sent s' = k_sent s /\ txbs s' = txbs s.
Proof.
  intros c ks. induction ks as [|k ks IH]; intros s; cbn.
  - destruct (gate c s); cbn; auto.
  - destruct (gate c s); cbn; auto.
    destruct (receive c s k) as [s1 r] eqn:E. apply receive_tx in E. destruct E as [E1 E2].
    destruct r as [[[|b d]|]|e]; cbn; auto.
    specialize (IH (rx_extend s1 (b :: d))). cbn in IH.
    destruct (service_receives c (rx_extend s1 (b :: d)) ks) as [[s2 r2] n2]. cbn in *.
    destruct IH as [I1 I2]. rewrite I1, I2. auto.
Qed.

Lemma service_receive_once_tx : forall c s k,
  let s' := st (service_receive_once c s k) in
  k_sent s' = k_sent s /\ txbs s' = txbs s.
Proof.
  intros c s k. unfold service_receive_once, st. destruct (gate c s); cbn; auto.
  destruct (receive c s k) as [s1 r] eqn:E. apply receive_tx in E. destruct E as [E1 E2].
  destruct r as [[[|b d]|]|e]; cbn; auto.
Qed.

Lemma step_tx : forall c s o,
  let s' := st (step c s o) in
  k_sent s' ++ txbs s' = (k_sent s ++ txbs s) ++ payload o.
Proof.
  intros c s o. destruct o; cbn [step payload]; rewrite ?app_nil_r.
  - cbn. now rewrite app_assoc.
  - apply service_sends_tx.
  - destruct (service_receives_tx c ks s) as [A B]. cbn in A, B. cbn. now rewrite A, B.
  - destruct (service_receive_once_tx c s k) as [A B]. cbn in A, B. cbn. now rewrite A, B.
  - destruct (is_client (kd c)).
    + pose proof (service_sends_tx c s k) as A. cbn in A.
      destruct (service_sends c s k) as [[s1 r1] n1] eqn:E1. unfold st in A; cbn in A.
      destruct r1; [|exact A].
      destruct (service_receives_tx c ks s1) as [B C]. cbn in B, C.
      destruct (service_receives c s1 ks) as [[s2 r2] n2]. unfold st in *; cbn in *.
      now rewrite B, C.
    + destruct (service_receives_tx c ks s) as [B C]. cbn in B, C.
      destruct (service_receives c s ks) as [[s1 r1] n1] eqn:E1. unfold st in B, C; cbn in B, C.
      destruct r1; [|unfold st; cbn; now rewrite B, C].
      pose proof (service_sends_tx c s1 k) as A. cbn in A.
      destruct (service_sends c s1 k) as [[s2 r2] n2]. unfold st in *; cbn in *.
      now rewrite A, B, C.
  - reflexivity.
  - reflexivity.
  - destruct (is_client (kd c) && negb (connected s)); reflexivity.
Qed.

Lemma exec_tx : forall c ops s,
  k_sent (exec c s ops) ++ txbs (exec c s ops) = (k_sent s ++ txbs s) ++ all_tx ops.
Proof.
  intros c ops. induction ops as [|o ops IH]; intros s; cbn [exec all_tx].
  - now rewrite app_nil_r.
  - rewrite IH. pose proof (step_tx c s o) as H. cbn in H. rewrite H.
    rewrite <- app_assoc. destruct o; cbn [payload]; auto.
Qed.

Theorem prefix_invariant : forall c conn0 ops,
  let s := exec c (init conn0) ops in
  k_sent s ++ txbs s = all_tx ops.
Proof. intros. subst s. now rewrite exec_tx. Qed.

(* what the kernel has accepted only ever grows by appending *)
Lemma step_sent_grows : forall c s o, exists d, k_sent (st (step c s o)) = k_sent s ++ d.
Proof.
  intros c s o.
  assert (Hs : forall s k, exists d, k_sent (st (service_sends c s k)) = k_sent s ++ d).
  { intros s0 k. unfold service_sends, st.
    destruct (negb (is_nil (txbs s0)) && gate c s0); [|exists []; cbn; now rewrite app_nil_r].
    destruct (send c s0 k) as [s1 r] eqn:E. apply send_tx in E. destruct E as [_ Ek].
    destruct r; cbn; rewrite Ek; eauto. exists []; now rewrite app_nil_r. }
  destruct o; cbn [step].
  - exists []; cbn; now rewrite app_nil_r.
  - apply Hs.
  - exists []. rewrite app_nil_r. apply service_receives_tx.
  - exists []. rewrite app_nil_r. apply service_receive_once_tx.
  - destruct (is_client (kd c)).
    + destruct (Hs s k) as [d Hd].
      destruct (service_sends c s k) as [[s1 r1] n1]. unfold st in Hd; cbn in Hd.
      destruct r1; [|exists d; exact Hd].
      destruct (service_receives_tx c ks s1) as [B _]. cbn in B.
      destruct (service_receives c s1 ks) as [[s2 r2] n2]. unfold st in *; cbn in *.
      exists d. now rewrite B.
    + destruct (service_receives_tx c ks s) as [B _]. cbn in B.
      destruct (service_receives c s ks) as [[s1 r1] n1]. unfold st in B; cbn in B.
      destruct r1; [|exists []; unfold st; cbn; now rewrite app_nil_r].
      destruct (Hs s1 k) as [d Hd].
      destruct (service_sends c s1 k) as [[s2 r2] n2]. unfold st in *; cbn in *.
      exists d. now rewrite Hd, B.
  - exists []; cbn; now rewrite app_nil_r.
  - exists []; cbn; now rewrite app_nil_r.
  - exists []; rewrite app_nil_r. destruct (is_client (kd c) && negb (connected s)); reflexivity.
Qed.

Theorem sent_monotone : forall c ops s, exists d, k_sent (exec c s ops) = k_sent s ++ d.
Proof.
  intros c ops. induction ops as [|o ops IH]; intros s; cbn [exec].
  - exists []; now rewrite app_nil_r.
  - destruct (IH (st (step c s o))) as [d Hd]. destruct (step_sent_grows c s o) as [d0 H0].
    exists (d0 ++ d). now rewrite Hd, H0, app_assoc.
Qed.

Lemma exec_app : forall c a b s, exec c s (a ++ b) = exec c (exec c s a) b.
Proof. intros c a. induction a; intros; cbn; auto. Qed.

(* ---------- receive side and wire log: one invariant ---------- *)

Lemma log_of_snoc : forall d l d' b,
  log_of d (l ++ [(d', b)]) = log_of d l ++ (if dir_eqb d' d then b else []).
Proof.
  intros. unfold log_of. rewrite filter_app, map_app, concat_app. cbn.
  destruct d', d; cbn; now rewrite ?app_nil_r.
Qed.

Definition Inv (c : cfg) (s : conn) : Prop :=
  taken s ++ rxbs s = k_recvd s /\
  log_of DTx (wlog s) = lg_tx s /\
  log_of DRx (wlog s) = lg_rx s /\
  Forall (fun r => snd r <> []) (wlog s) /\
  (wl_now s = None ->
   lg_tx s = (if wl_tx c then k_sent s else []) /\ lg_rx s = (if wl_rx c then k_recvd s else [])).

Lemma Inv_init : forall c b, Inv c (init b).
Proof. intros. unfold Inv, init; cbn. destruct (wl_tx c), (wl_rx c); auto 6. Qed.

Lemma Inv_same : forall c s s',
  taken s' = taken s -> rxbs s' = rxbs s -> k_recvd s' = k_recvd s -> k_sent s' = k_sent s ->
  wlog s' = wlog s -> wl_now s' = wl_now s -> lg_tx s' = lg_tx s -> lg_rx s' = lg_rx s ->
  Inv c s -> Inv c s'.
Proof. unfold Inv. intros c s s' -> -> -> -> -> -> -> ->. auto. Qed.

Lemma Inv_cut : forall c s, Inv c s -> Inv c (cut s).
Proof. intros. eapply Inv_same; eauto. Qed.

Lemma Inv_set_txbs : forall c s b, Inv c s -> Inv c (set_txbs s b).
Proof. intros. eapply Inv_same; eauto. Qed.

Local Ltac proj := cbn [moved rx_extend set_rx wlog k_sent k_recvd taken rxbs txbs connected cutoff wl_now lg_tx lg_rx].

Lemma Inv_moved_tx : forall c s b, b <> [] -> Inv c s -> Inv c (moved c DTx b s).
Proof.
  unfold Inv. intros c s b Hb (A & B & C & D & E). proj.
  destruct (log_on c s DTx) eqn:L; repeat split; auto.
  - now rewrite log_of_snoc, B.
  - rewrite log_of_snoc, C. cbn [dir_eqb]. now rewrite app_nil_r.
  - apply Forall_app. split; auto.
  - destruct (E H) as [E1 _]. unfold log_on in L. rewrite H in L. rewrite L in *. now rewrite E1.
  - now destruct (E H).
  - destruct (E H) as [E1 _]. unfold log_on in L. rewrite H in L. rewrite L in *. exact E1.
  - now destruct (E H).
Qed.

Lemma Inv_moved_rx : forall c s b, b <> [] -> Inv c s -> Inv c (rx_extend (moved c DRx b s) b).
Proof.
  unfold Inv. intros c s b Hb (A & B & C & D & E). proj.
  destruct (log_on c s DRx) eqn:L; repeat split; auto; try (now rewrite app_assoc, A).
  - rewrite log_of_snoc, B. cbn [dir_eqb]. now rewrite app_nil_r.
  - now rewrite log_of_snoc, C.
  - apply Forall_app. split; auto.
  - now destruct (E H).
  - destruct (E H) as [_ E2]. unfold log_on in L. rewrite H in L. rewrite L in *. now rewrite E2.
  - now destruct (E H).
  - destruct (E H) as [_ E2]. unfold log_on in L. rewrite H in L. rewrite L in *. exact E2.
Qed.

Lemma firstn_nonnil : forall A n (l : list A), n <> 0 -> l <> [] -> firstn n l <> [].
Proof. intros A n l Hn Hl. destruct n; [easy|]. destruct l; [easy|]. cbn. discriminate. Qed.

Lemma Inv_service_sends : forall c s k, Inv c s -> Inv c (st (service_sends c s k)).
Proof.
  intros c s k H. unfold service_sends, st.
  destruct (txbs s) as [|b0 t] eqn:Et; cbn [is_nil negb andb fst]; auto.
  destruct (gate c s); cbn [fst]; auto.
  unfold send. destruct k as [n|e].
  - destruct n; cbn [fst].
    + now apply Inv_set_txbs.
    + apply Inv_set_txbs. apply Inv_moved_tx; auto. rewrite Et. cbn. discriminate.
  - destruct (classify (kd c) DTx e); cbn [fst]; auto using Inv_set_txbs, Inv_cut.
Qed.

(* receive followed by the caller's rxbs.extend *)
Lemma Inv_receive : forall c s k s' r,
  Inv c s -> receive c s k = (s', r) ->
  match r with
  | Ok (Some (b :: d)) => Inv c (rx_extend s' (b :: d))
  | _ => Inv c s'
  end.
Proof.
  intros c s k s' r H E. unfold receive in E. destruct k as [d|e].
  - destruct d; inv E; [now apply Inv_cut|]. apply Inv_moved_rx; auto. discriminate.
  - destruct (classify (kd c) DRx e); inv E; auto using Inv_cut.
Qed.

Lemma Inv_service_receives : forall c ks s, Inv c s -> Inv c (st (service_receives c s ks)).
Proof.
  intros c ks. induction ks as [|k ks IH]; intros s H; cbn.
  - destruct (gate c s); cbn; auto.
  - destruct (gate c s); cbn; auto.
    destruct (receive c s k) as [s1 r] eqn:E. pose proof (Inv_receive _ _ _ _ _ H E) as HR.
    destruct r as [[[|b d]|]|e]; cbn; auto.
    specialize (IH _ HR).
    destruct (service_receives c (rx_extend s1 (b :: d)) ks) as [[s2 r2] n2]. exact IH.
Qed.

Lemma Inv_service_receive_once : forall c s k, Inv c s -> Inv c (st (service_receive_once c s k)).
Proof.
  intros c s k H. unfold service_receive_once, st. destruct (gate c s); cbn; auto.
  destruct (receive c s k) as [s1 r] eqn:E. pose proof (Inv_receive _ _ _ _ _ H E) as HR.
  destruct r as [[[|b d]|]|e]; cbn; auto.
Qed.

Lemma Inv_step : forall c s o, Inv c s -> Inv c (st (step c s o)).
Proof.
  intros c s o H. destruct o; cbn [step].
  - now apply Inv_set_txbs.
  - now apply Inv_service_sends.
  - now apply Inv_service_receives.
  - now apply Inv_service_receive_once.
  - destruct (is_client (kd c)).
    + pose proof (Inv_service_sends c s k H) as A.
      destruct (service_sends c s k) as [[s1 r1] n1]. unfold st in A; cbn in A.
      destruct r1; [|exact A].
      pose proof (Inv_service_receives c ks s1 A) as B.
      destruct (service_receives c s1 ks) as [[s2 r2] n2]. exact B.
    + pose proof (Inv_service_receives c ks s H) as A.
      destruct (service_receives c s ks) as [[s1 r1] n1]. unfold st in A; cbn in A.
      destruct r1; [|exact A].
      pose proof (Inv_service_sends c s1 k A) as B.
      destruct (service_sends c s1 k) as [[s2 r2] n2]. exact B.
  - destruct H as (A & B & C & D & E). unfold Inv; cbn. repeat split; auto; try (now rewrite app_nil_r); now destruct (E H).
  - destruct H as (A & B & C & D & E). unfold Inv; cbn. repeat split; auto; discriminate.
  - destruct (is_client (kd c) && negb (connected s)); auto.
Qed.

Theorem Inv_exec : forall c ops s, Inv c s -> Inv c (exec c s ops).
Proof. intros c ops. induction ops; intros; cbn; auto using Inv_step. Qed.

(* ---------- a would-block or raising answer changes nothing ---------- *)

Lemma conn_eta : forall s, set_txbs s (txbs s) = s.
Proof. now destruct s. Qed.

Theorem sends_block_noop : forall c s e,
  classify (kd c) DTx e <> CutOff -> st (service_sends c s (SFail e)) = s.
Proof.
  intros c s e H. unfold service_sends, st, send.
  destruct (negb (is_nil (txbs s)) && gate c s); cbn; auto.
  destruct (classify (kd c) DTx e); cbn; auto; try easy. apply conn_eta.
Qed.

Theorem sends_zero_noop : forall c s, st (service_sends c s (SAccept 0)) = s.
Proof.
  intros c s. unfold service_sends, st, send.
  destruct (negb (is_nil (txbs s)) && gate c s); cbn; auto. apply conn_eta.
Qed.

(* ---------- liveness ---------- *)

Lemma skipn_length_le : forall A n (l : list A), length (skipn n l) = length l - n.
Proof. intros. apply skipn_length. Qed.

Theorem drain : forall c ns s,
  gate c s = true ->
  Forall (fun n => 1 <= n) ns ->
  length (txbs s) <= length ns ->
  let s' := exec c s (map (fun n => SvcSends (SAccept n)) ns) in
  txbs s' = [] /\ k_sent s' = k_sent s ++ txbs s /\ gate c s' = true.
Proof.
  intros c ns. induction ns as [|n ns IH]; intros s Hg Hn Hl; cbn [map exec].
  - destruct (txbs s); [|cbn in Hl; lia]. now rewrite app_nil_r.
  - inv Hn. cbn [step]. unfold service_sends.
    destruct (txbs s) as [|b t] eqn:Et; cbn [is_nil negb andb].
    + unfold st; cbn [fst]. specialize (IH s Hg H2). rewrite Et in IH. cbn in IH.
      destruct (IH ltac:(lia)) as (A & B & C). repeat split; auto.
    + rewrite Hg. unfold send. destruct n as [|n]; [lia|].
      unfold st; cbn [fst].
      set (s1 := set_txbs _ _).
      assert (G1 : gate c s1 = true) by exact Hg.
      assert (L1 : length (txbs s1) <= length ns).
      { subst s1. cbn [set_txbs txbs moved]. rewrite skipn_length_le. rewrite Et. cbn in *. lia. }
      destruct (IH s1 G1 H2 L1) as (A & B & C). repeat split; auto.
      rewrite B. subst s1. cbn [set_txbs txbs k_sent moved]. rewrite Et, <- app_assoc.
      now rewrite firstn_skipn.
Qed.

(* ---------- liveness under arbitrary healthy interleavings ---------- *)

(* a receive answer that neither ends nor cuts the connection *)
Definition healthy_r (c : cfg) (k : rres) : bool :=
  match k with
  | RData [] => false
  | RData _ => true
  | RFail e => match classify (kd c) DRx e with WouldBlock => true | _ => false end
  end.
Definition healthy_s (c : cfg) (k : sres) : bool :=
  match k with
  | SAccept _ => true
  | SFail e => match classify (kd c) DTx e with WouldBlock => true | _ => false end
  end.
(* ops of a connection that stays healthy and gets no new payload *)
Definition healthy (c : cfg) (o : op) : bool :=
  match o with
  | Tx _ => false
  | SvcSends k => healthy_s c k
  | SvcRecvs ks => forallb (healthy_r c) ks
  | SvcRecvOnce k => healthy_r c k
  | Service k ks => healthy_s c k && forallb (healthy_r c) ks
  | TakeRx => true
  | WlSet _ _ => true
  | Connect => true
  end.
(* services in which the kernel takes at least one byte *)
Definition progress (o : op) : nat :=
  match o with
  | SvcSends (SAccept (S _)) => 1
  | Service (SAccept (S _)) _ => 1
  | _ => 0
  end.

Lemma healthy_receive : forall c s k, healthy_r c k = true ->
  let x := receive c s k in
  connected (fst x) = connected s /\ cutoff (fst x) = cutoff s /\ txbs (fst x) = txbs s /\
  (exists v, snd x = Ok v).
Proof.
  intros c s k H. unfold receive. destruct k as [d|e]; cbn in H.
  - destruct d; [discriminate|]. cbn. eauto 6.
  - destruct (classify (kd c) DRx e); try discriminate. cbn. eauto 6.
Qed.

Lemma healthy_receives : forall c ks s, forallb (healthy_r c) ks = true ->
  let s' := st (service_receives c s ks) in
  connected s' = connected s /\ cutoff s' = cutoff s /\ txbs s' = txbs s /\
  snd (fst (service_receives c s ks)) = Ok tt.
Proof.
  intros c ks. induction ks as [|k ks IH]; intros s H; cbn [service_receives].
  - destruct (gate c s); cbn; auto.
  - cbn in H. apply andb_true_iff in H. destruct H as [Hk Hks].
    destruct (gate c s); cbn; auto.
    pose proof (healthy_receive c s k Hk) as R. cbn in R.
    destruct (receive c s k) as [s1 r]. cbn in R. destruct R as (A & B & C & [v D]). subst r.
    destruct v as [[|b d]|]; cbn; auto.
    specialize (IH (rx_extend s1 (b :: d)) Hks). cbn in IH.
    destruct (service_receives c (rx_extend s1 (b :: d)) ks) as [[s2 r2] n2]. unfold st in *. cbn in *.
    destruct IH as (A' & B' & C' & D'). rewrite A', B', C'. auto.
Qed.

Lemma healthy_receive_once : forall c s k, healthy_r c k = true ->
  let s' := st (service_receive_once c s k) in
  connected s' = connected s /\ cutoff s' = cutoff s /\ txbs s' = txbs s.
Proof.
  intros c s k H. unfold service_receive_once, st. destruct (gate c s); cbn; auto.
  pose proof (healthy_receive c s k H) as R. cbn in R.
  destruct (receive c s k) as [s1 r]. cbn in R. destruct R as (A & B & C & _).
  destruct r as [[[|b d]|]|e]; cbn; auto.
Qed.

Lemma healthy_sends : forall c s k, healthy_s c k = true -> gate c s = true ->
  let s' := st (service_sends c s k) in
  connected s' = connected s /\ cutoff s' = cutoff s /\
  length (txbs s') <= length (txbs s) - (match k with SAccept (S _) => 1 | _ => 0 end).
Proof.
  intros c s k H G. unfold service_sends, st. rewrite G.
  destruct (txbs s) as [|b t] eqn:Et; cbn [is_nil negb andb fst].
  - rewrite Et. cbn. repeat split; lia.
  - unfold send. destruct k as [n|e].
    + destruct n as [|n]; cbn [fst set_txbs moved txbs connected cutoff].
      * rewrite Et. cbn. repeat split; lia.
      * rewrite Et. repeat split; auto. rewrite skipn_length. cbn. lia.
    + cbn in H. destruct (classify (kd c) DTx e); try discriminate.
      cbn [fst set_txbs txbs connected cutoff skipn]. rewrite Et. cbn. repeat split; lia.
Qed.

Lemma gate_same : forall c s s', connected s' = connected s -> cutoff s' = cutoff s -> gate c s' = gate c s.
Proof. intros c s s' A B. unfold gate. now rewrite A, B. Qed.

Lemma healthy_step : forall c s o, healthy c o = true -> gate c s = true ->
  let s' := st (step c s o) in
  gate c s' = true /\ length (txbs s') <= length (txbs s) - progress o.
Proof.
  intros c s o H G. destruct o; cbn [step healthy progress] in *.
  - discriminate.
  - destruct (healthy_sends c s k H G) as (A & B & C). split; [now rewrite (gate_same c s _ A B)|exact C].
  - destruct (healthy_receives c ks s H) as (A & B & C & _). split; [now rewrite (gate_same c s _ A B)|]. rewrite C. lia.
  - destruct (healthy_receive_once c s k H) as (A & B & C). split; [now rewrite (gate_same c s _ A B)|]. rewrite C. lia.
  - apply andb_true_iff in H. destruct H as [Hk Hks].
    destruct (is_client (kd c)).
    + destruct (healthy_sends c s k Hk G) as (A & B & C). cbn in A, B, C.
      destruct (service_sends c s k) as [[s1 r1] n1] eqn:E1. unfold st in A, B, C. cbn in A, B, C.
      destruct r1 as [u|e].
      * destruct (healthy_receives c ks s1 Hks) as (A' & B' & C' & _). cbn in A', B', C'.
        destruct (service_receives c s1 ks) as [[s2 r2] n2]. unfold st in *. cbn in *.
        split; [rewrite (gate_same c s s2); auto; congruence|]. rewrite C'. exact C.
      * unfold st; cbn. split; [now rewrite (gate_same c s s1 A B)|exact C].
    + destruct (healthy_receives c ks s Hks) as (A & B & C & D). cbn in A, B, C, D.
      destruct (service_receives c s ks) as [[s1 r1] n1] eqn:E1. unfold st in A, B, C. cbn in A, B, C, D.
      destruct r1 as [u|e]; [|discriminate].
      assert (G1 : gate c s1 = true) by now rewrite (gate_same c s s1 A B).
        destruct (healthy_sends c s1 k Hk G1) as (A' & B' & C'). cbn in A', B', C'.
        destruct (service_sends c s1 k) as [[s2 r2] n2]. unfold st in *. cbn in *.
        split; [rewrite (gate_same c s s2); auto; congruence|]. rewrite <- C. exact C'.
  - cbn. split; auto. lia.
  - cbn. split; auto. lia.
  - destruct (is_client (kd c) && negb (connected s)) eqn:E; unfold st; cbn [fst]; [|split; auto; lia].
    split; [|cbn; lia]. unfold gate in *. cbn. apply andb_true_iff in E. destruct E as [E1 E2].
    rewrite E1 in *. destruct (connected s); discriminate.
Qed.

Fixpoint progress_count (ops : list op) : nat :=
  match ops with [] => 0 | o :: r => progress o + progress_count r end.

Theorem healthy_drain : forall c ops s,
  gate c s = true -> forallb (healthy c) ops = true ->
  let s' := exec c s ops in
  gate c s' = true /\ length (txbs s') <= length (txbs s) - progress_count ops /\
  k_sent s' ++ txbs s' = k_sent s ++ txbs s.
Proof.
  intros c ops. induction ops as [|o ops IH]; intros s G H; cbn [exec progress_count].
  - repeat split; auto. lia.
  - cbn in H. apply andb_true_iff in H. destruct H as [Ho Hr].
    destruct (healthy_step c s o Ho G) as (G1 & L1). cbn in G1, L1.
    destruct (IH _ G1 Hr) as (G2 & L2 & T2). cbn in G2, L2, T2.
    repeat split; auto; [lia|].
    rewrite T2. pose proof (step_tx c s o) as X. cbn in X. rewrite X.
    destruct o; cbn [payload]; try now rewrite app_nil_r. discriminate.
Qed.

(* ---------- wire log under reconfiguration: exactly the bytes moved while a direction is enabled ---------- *)

Definition is_wl (o : op) : bool := match o with WlSet _ _ => true | _ => false end.
Definition no_wl (ops : list op) : bool := forallb (fun o => negb (is_wl o)) ops.

Definition delta (c : cfg) (s s' : conn) : Prop :=
  wl_now s' = wl_now s /\
  exists ds dr, k_sent s' = k_sent s ++ ds /\ k_recvd s' = k_recvd s ++ dr /\
    lg_tx s' = lg_tx s ++ (if log_on c s DTx then ds else []) /\
    lg_rx s' = lg_rx s ++ (if log_on c s DRx then dr else []).

Lemma log_on_same : forall c s s' d, wl_now s' = wl_now s -> log_on c s' d = log_on c s d.
Proof. intros c s s' d H. unfold log_on. now rewrite H. Qed.

Lemma delta_fields : forall c s s',
  wl_now s' = wl_now s -> k_sent s' = k_sent s -> k_recvd s' = k_recvd s ->
  lg_tx s' = lg_tx s -> lg_rx s' = lg_rx s -> delta c s s'.
Proof.
  intros c s s' A B C D E. split; auto. exists [], []. rewrite B, C, D, E.
  destruct (log_on c s DTx), (log_on c s DRx); now rewrite !app_nil_r.
Qed.

Lemma delta_refl : forall c s, delta c s s.
Proof. intros. now apply delta_fields. Qed.

Lemma delta_trans : forall c s1 s2 s3, delta c s1 s2 -> delta c s2 s3 -> delta c s1 s3.
Proof.
  intros c s1 s2 s3 (W1 & ds1 & dr1 & A1 & B1 & C1 & D1) (W2 & ds2 & dr2 & A2 & B2 & C2 & D2).
  split; [congruence|]. exists (ds1 ++ ds2), (dr1 ++ dr2).
  rewrite (log_on_same c s1 s2 DTx W1) in C2. rewrite (log_on_same c s1 s2 DRx W1) in D2.
  rewrite A2, A1, B2, B1, C2, C1, D2, D1.
  destruct (log_on c s1 DTx), (log_on c s1 DRx); now rewrite <- ?app_assoc, ?app_nil_r.
Qed.

Lemma delta_moved : forall c d b s, delta c s (moved c d b s).
Proof.
  intros c d b s. split; [reflexivity|]. destruct d.
  - exists b, []. cbn. destruct (log_on c s DTx), (log_on c s DRx); now rewrite ?app_nil_r.
  - exists [], b. cbn. destruct (log_on c s DTx), (log_on c s DRx); now rewrite ?app_nil_r.
Qed.

Lemma delta_service_sends : forall c s k, delta c s (st (service_sends c s k)).
Proof.
  intros c s k. unfold service_sends, st.
  destruct (negb (is_nil (txbs s)) && gate c s); cbn [fst]; [|apply delta_refl].
  unfold send. destruct k as [n|e].
  - destruct n; cbn [fst]; [now apply delta_fields|].
    eapply delta_trans; [apply delta_moved|now apply delta_fields].
  - destruct (classify (kd c) DTx e); cbn [fst]; now apply delta_fields.
Qed.

Lemma delta_receive_extend : forall c s k s' r,
  receive c s k = (s', r) ->
  match r with
  | Ok (Some (b :: d)) => delta c s (rx_extend s' (b :: d))
  | _ => delta c s s'
  end.
Proof.
  intros c s k s' r E. unfold receive in E. destruct k as [d|e].
  - destruct d; inversion E; subst; [now apply delta_fields|].
    eapply delta_trans; [apply delta_moved|now apply delta_fields].
  - destruct (classify (kd c) DRx e); inversion E; subst; now apply delta_fields.
Qed.

Lemma delta_service_receives : forall c ks s, delta c s (st (service_receives c s ks)).
Proof.
  intros c ks. induction ks as [|k ks IH]; intros s; cbn [service_receives].
  - destruct (gate c s); apply delta_refl.
  - destruct (gate c s); [|apply delta_refl].
    destruct (receive c s k) as [s1 r] eqn:E. pose proof (delta_receive_extend _ _ _ _ _ E) as R.
    destruct r as [[[|b d]|]|e]; try exact R.
    specialize (IH (rx_extend s1 (b :: d))).
    destruct (service_receives c (rx_extend s1 (b :: d)) ks) as [[s2 r2] n2]. unfold st in *. cbn [fst] in *.
    eapply delta_trans; eauto.
Qed.

Lemma delta_service_receive_once : forall c s k, delta c s (st (service_receive_once c s k)).
Proof.
  intros c s k. unfold service_receive_once, st. destruct (gate c s); [|apply delta_refl].
  destruct (receive c s k) as [s1 r] eqn:E. pose proof (delta_receive_extend _ _ _ _ _ E) as R.
  destruct r as [[[|b d]|]|e]; exact R.
Qed.

Lemma delta_step : forall c s o, is_wl o = false -> delta c s (st (step c s o)).
Proof.
  intros c s o H. destruct o; cbn [step]; try discriminate.
  - now apply delta_fields.
  - apply delta_service_sends.
  - apply delta_service_receives.
  - apply delta_service_receive_once.
  - destruct (is_client (kd c)).
    + pose proof (delta_service_sends c s k) as A.
      destruct (service_sends c s k) as [[s1 r1] n1]. unfold st in A; cbn [fst] in A.
      destruct r1; [|exact A].
      pose proof (delta_service_receives c ks s1) as B.
      destruct (service_receives c s1 ks) as [[s2 r2] n2]. unfold st in *; cbn [fst] in *.
      eapply delta_trans; eauto.
    + pose proof (delta_service_receives c ks s) as A.
      destruct (service_receives c s ks) as [[s1 r1] n1]. unfold st in A; cbn [fst] in A.
      destruct r1; [|exact A].
      pose proof (delta_service_sends c s1 k) as B.
      destruct (service_sends c s1 k) as [[s2 r2] n2]. unfold st in *; cbn [fst] in *.
      eapply delta_trans; eauto.
  - now apply delta_fields.
  - destruct (is_client (kd c) && negb (connected s)); now apply delta_fields.
Qed.

Lemma delta_exec : forall c ops s, no_wl ops = true -> delta c s (exec c s ops).
Proof.
  intros c ops. induction ops as [|o ops IH]; intros s H; cbn [exec]; [apply delta_refl|].
  unfold no_wl in H. cbn [forallb] in H. apply andb_true_iff in H. destruct H as [Ho Hr].
  assert (Hw : is_wl o = false) by (destruct (is_wl o); [discriminate|reflexivity]).
  eapply delta_trans; [apply (delta_step c s o Hw)|apply IH; exact Hr].
Qed.

(* For any reachable state (any history, reconfigurations included) and any continuation without
   reconfiguration: a disabled direction's log receives nothing, an enabled direction's log grows by
   exactly the bytes the kernel moved in that direction. *)
Theorem wirelog_segment : forall c conn0 pre ops,
  no_wl ops = true ->
  let s := exec c (init conn0) pre in
  let s' := exec c s ops in
  exists ds dr,
    k_sent s' = k_sent s ++ ds /\ k_recvd s' = k_recvd s ++ dr /\
    log_of DTx (wlog s') = log_of DTx (wlog s) ++ (if log_on c s DTx then ds else []) /\
    log_of DRx (wlog s') = log_of DRx (wlog s) ++ (if log_on c s DRx then dr else []).
Proof.
  intros c conn0 pre ops H s s'.
  pose proof (Inv_exec c pre _ (Inv_init c conn0)) as (_ & T1 & R1 & _).
  pose proof (Inv_exec c (pre ++ ops) _ (Inv_init c conn0)) as (_ & T2 & R2 & _).
  rewrite exec_app in T2, R2. fold s in T1, R1, T2, R2. fold s' in T2, R2.
  destruct (delta_exec c ops s H) as (_ & ds & dr & A & B & C & D). fold s' in A, B, C, D.
  exists ds, dr. rewrite T2, R2, T1, R1. auto.
Qed.

Lemma no_wl_static : forall c ops s, no_wl ops = true -> wl_now (exec c s ops) = wl_now s.
Proof. intros c ops s H. now destruct (delta_exec c ops s H). Qed.
