(* hio.core.http.httping.parseLeader and parseChunk (after the D15/D16/D17
   fixes) as stage machines, the chunked-body decoder obtained by calling
   parseChunk again and again (as Requestant/Respondent.parseBody do), and
   the encoder side (packChunk and a general chunked encoder).  No proofs. *)
From Hio Require Import Base.Prelude Model.HttpLine.

(* ---------------------------------------------------------------- headers *)
(* CIMultiDict filled only through  h[key] = value  and  update():  items in
   insertion order, a key compared by str.lower() (iso-8859-1 text) replaces
   the first equal item in place.  Keys are kept lower-cased. *)
Definition headers := list (bytes * bytes).

(* str.lower() on iso-8859-1 text *)
Definition lower_l1 (x : N) : N :=
  if (N.leb 65 x && N.leb x 90) || (N.leb 192 x && N.leb x 222 && negb (N.eqb x 215))
  then x + 32 else x.
Definition lowerk (l : bytes) : bytes := map lower_l1 l.
Definition hset (h : headers) (k v : bytes) : headers := dset h (lowerk k) v.
Definition hget (h : headers) (k : bytes) : option bytes := dget h k.   (* k already lower *)
Definition hupdate (h e : headers) : headers := dupdate h e.

Definition max_headers : nat := 100.

(* line.partition(': ') *)
Fixpoint partition_cs (l : bytes) : option (bytes * bytes) :=
  match l with
  | [] => None
  | x :: l' =>
    match l' with
    | y :: l'' =>
      if N.eqb x 58 && N.eqb y 32 then Some ([], l'')
      else match partition_cs l' with Some (a, c) => Some (x :: a, c) | None => None end
    | [] => None
    end
  end.

(* one iteration of parseLeader's loop *)
Inductive lres :=
| LNeed
| LFail (k : exn)
| LMore (h : headers) (rest : bytes)     (* a header line was added *)
| LDone (h : headers) (rest : bytes).    (* the empty line: leader complete *)

Definition leader_step (h : headers) (b : bytes) : lres :=
  match line_stage EHttp false b with
  | Need => LNeed
  | Fail k => LFail k
  | Step _ r l =>
    if is_nil l then
      (if Nat.ltb max_headers (length h) then LFail HTTPExc else LDone h r)
    else match partition_cs l with
         | None => LFail HTTPExc                      (* D15 fix: no ': ' *)
         | Some (k, v) =>
           let h' := hset h k v in
           if Nat.ltb max_headers (length h') then LFail HTTPExc else LMore h' r
         end
  end.

(* ------------------------------------------------------------- parseChunk *)
Definition parms := list (bytes * option bytes).

Definition parse_ext (p : parms) (ext : bytes) : parms :=
  let '(name, _, value) := partition1 61 (strip ws_ascii ext) in
  let v := strip ws_ascii value in
  dset p (strip ws_ascii name) (if is_nil v then None else Some v).

Definition parse_exts (exts : bytes) : parms :=
  fold_left parse_ext (split1 59 exts) [].

(* the chunk-size line: size [; ext]* *)
Definition parse_size_line (line : bytes) : res (N * parms) :=
  let '(sz, _, exts) := partition1 59 line in
  let sz' := strip ws_sptab sz in
  if is_nil sz' || negb (forallb is_hex sz') then Exc HTTPExc   (* InvalidChunk *)
  else Ok (hex_value sz', if is_nil exts then [] else parse_exts exts).

Record chunk := { k_size : N; k_parms : parms; k_trails : headers; k_data : bytes }.

Inductive cstate :=
| CSize                                    (* waiting for the chunk-size line *)
| CData (n : N) (p : parms)                (* waiting for n data bytes *)
| CEnd (n : N) (p : parms) (d : bytes)     (* waiting for the CRLF after the data *)
| CTrail (p : parms) (h : headers)         (* last chunk: trailer lines *)
| CFin.                                    (* last chunk delivered; parseChunk is not called again *)

Definition chunk_stage (s : cstate) (b : bytes) : sres cstate (option chunk) :=
  match s with
  | CSize =>
    match line_stage ECrlf false b with
    | Need => Need
    | Fail k => Fail k
    | Step _ r l =>
      match parse_size_line l with
      | Exc k => Fail k
      | Ok (n, p) => if N.eqb n 0 then Step (CTrail p []) r None else Step (CData n p) r None
      end
    end
  | CData n p =>   (* n <> 0 whenever this state is entered; the second test only makes the stage total *)
    if N.ltb (lenN b) n || N.eqb n 0 then Need
    else Step (CEnd n p (firstn (N.to_nat n) b)) (skipn (N.to_nat n) b) None
  | CEnd n p d =>
    match line_stage ECrlf false b with
    | Need => Need
    | Fail k => Fail k
    | Step _ r l =>
      if is_nil l then Step CSize r (Some {| k_size := n; k_parms := p; k_trails := []; k_data := d |})
      else Fail HTTPExc                                            (* InvalidChunk *)
    end
  | CTrail p h =>
    match leader_step h b with
    | LNeed => Need
    | LFail k => Fail k
    | LMore h' r => Step (CTrail p h') r None
    | LDone h' r => Step CFin r (Some {| k_size := 0; k_parms := p; k_trails := h'; k_data := [] |})
    end
  | CFin => Need
  end.

Definition somes {A} (l : list (option A)) : list A :=
  flat_map (fun o => match o with Some a => [a] | None => [] end) l.

(* ------------------------------------------------ whole-body decode (C17) *)
(* what parseBody accumulates over the chunks *)
Record decoded := { d_body : bytes; d_parms : parms; d_trails : headers; d_rest : bytes }.

Definition body_of (cs : list chunk) : bytes := concat (map k_data cs).
Definition parms_of (cs : list chunk) : parms :=
  fold_left (fun acc c => dupdate acc (k_parms c)) cs [].
Definition trails_of (cs : list chunk) : headers :=
  match rev cs with c :: _ => k_trails c | [] => [] end.

Inductive dres :=
| DOk (d : decoded)      (* the last-chunk and its trailer were seen *)
| DIncomplete            (* more bytes needed *)
| DErr (k : exn).

Definition decode_reads (reads : list bytes) : dres :=
  match feeds chunk_stage (Live CSize []) reads with
  | (Dead k, _) => DErr k
  | (Live CFin rest, os) =>
    let cs := somes os in
    DOk {| d_body := body_of cs; d_parms := parms_of cs; d_trails := trails_of cs; d_rest := rest |}
  | (Live _ _, _) => DIncomplete
  end.
Definition decode (wire : bytes) : dres := decode_reads [wire].

(* ---------------------------------------------------------------- encoder *)
(* "%x" *)
Definition hex_digit (d : N) : N := if N.ltb d 10 then 48 + d else 87 + d.
Fixpoint to_hex_fuel (fuel : nat) (n : N) (acc : bytes) : bytes :=
  match fuel with
  | 0 => acc
  | S f => let acc' := hex_digit (N.modulo n 16) :: acc in
           if N.ltb n 16 then acc' else to_hex_fuel f (N.div n 16) acc'
  end.
Definition to_hex (n : N) : bytes := to_hex_fuel (S (N.to_nat (N.log2 n))) n [].

Definition CRLFb : bytes := [CRb; LFb].
(* httping.packChunk *)
Definition pack_chunk (msg : bytes) : bytes := to_hex (lenN msg) ++ CRLFb ++ msg ++ CRLFb.

(* A general sender: every chunk has a size field (any hex spelling of the
   data length), extension text and data; the last-chunk has extension text
   and trailer lines. *)
Record echunk := { e_hex : bytes; e_ext : bytes; e_data : bytes }.
Definition render_chunk (c : echunk) : bytes :=
  e_hex c ++ e_ext c ++ CRLFb ++ e_data c ++ CRLFb.
Definition render_trailer (kv : bytes * bytes) : bytes := fst kv ++ [58; 32]%N ++ snd kv ++ CRLFb.
Definition encode_chunked (cs : list echunk) (zeros lastext : bytes) (trailers : list (bytes * bytes)) : bytes :=
  concat (map render_chunk cs) ++ zeros ++ lastext ++ CRLFb
  ++ concat (map render_trailer trailers) ++ CRLFb.

(* extension text for a list of (name, optional value) *)
Definition render_ext (nv : bytes * option bytes) : bytes :=
  (59%N :: fst nv) ++ match snd nv with Some v => 61%N :: v | None => [] end.
Definition render_exts (l : parms) : bytes := concat (map render_ext l).

(* ------------------------------------------------------------ correspondence *)
Record case := {
  c_reads : list bytes;
  c_chunks : list chunk;          (* every tuple parseChunk yielded, in order *)
  c_err : option exn;             (* the exception that escaped next(), if any *)
  c_done : bool;                  (* the size-0 chunk was delivered *)
  c_left : bytes                  (* raw afterwards (compared when no exception) *)
}.

Definition parms_eqb : parms -> parms -> bool :=
  list_eqb (pair_eqb bytes_eqb (option_eqb bytes_eqb)).
Definition headers_eqb : headers -> headers -> bool :=
  list_eqb (pair_eqb bytes_eqb bytes_eqb).
Definition chunk_eqb (a b : chunk) : bool :=
  N.eqb (k_size a) (k_size b) && parms_eqb (k_parms a) (k_parms b)
  && headers_eqb (k_trails a) (k_trails b) && bytes_eqb (k_data a) (k_data b).

Definition check_case (c : case) : bool :=
  match feeds chunk_stage (Live CSize []) (c_reads c) with
  | (Dead k, os) =>
    list_eqb chunk_eqb (somes os) (c_chunks c) && option_eqb exn_eqb (Some k) (c_err c)
  | (Live s b, os) =>
    list_eqb chunk_eqb (somes os) (c_chunks c) && option_eqb exn_eqb None (c_err c)
    && Bool.eqb (match s with CFin => true | _ => false end) (c_done c)
    && bytes_eqb b (c_left c)
  end.

(* branch ids: 0 size line ok  1 bad size  2 data  3 chunk end ok  4 bad chunk
   end  5 trailer line  6 trailer done  7 line too long / header error  8 need *)
Definition n_branches : nat := 9.
Definition branch_of (s : cstate) (b : bytes) : nat :=
  match s, chunk_stage s b with
  | _, Need => 8
  | CSize, Step _ _ _ => 0
  | CSize, Fail _ => 1
  | CData _ _, _ => 2
  | CEnd _ _ _, Step _ _ _ => 3
  | CEnd _ _ _, Fail _ => 4
  | CTrail _ _, Step (CTrail _ _) _ _ => 5
  | CTrail _ _, Step _ _ _ => 6
  | CTrail _ _, Fail _ => 7
  | CFin, _ => 8
  end.
Fixpoint branches_run (fuel : nat) (s : cstate) (b : bytes) : list nat * pstate cstate :=
  match fuel with
  | 0 => ([], Live s b)
  | S f => match chunk_stage s b with
           | Need => ([branch_of s b], Live s b)
           | Step s' b' _ => let (l, p) := branches_run f s' b' in (branch_of s b :: l, p)
           | Fail k => ([branch_of s b], Dead k)
           end
  end.
Fixpoint branches_reads (p : pstate cstate) (reads : list bytes) : list nat :=
  match reads, p with
  | [], _ => []
  | _, Dead _ => []
  | c :: cs, Live s b =>
    let (l, p') := branches_run (S (length (b ++ c))) s (b ++ c) in l ++ branches_reads p' cs
  end.
Definition case_branches (c : case) : list nat := branches_reads (Live CSize []) (c_reads c).
