(* Lemmas about Model/TcpFault.v: the finite fault table, the effect of a fault on one
   connection in any state, and isolation between the connections of a server. *)
From Hio Require Import Base.Prelude Model.Stream Model.TcpFault.

Definition all_sites : list site := io_sites ++ [SHsRemoter; SHsClient; SConnect].

Definition outcome_eqb (a b : outcome) : bool :=
  match a, b with
  | OBlocked, OBlocked | OCut, OCut | OAborted, OAborted | ORetry, ORetry | ORaised, ORaised => true
  | _, _ => false
  end.
Lemma outcome_eqb_eq : forall a b, outcome_eqb a b = true <-> a = b.
Proof. intros [] []; cbn; split; intro H; try reflexivity; discriminate. Qed.

(* The defective class: EPIPE at the eight send/receive sites (finding D5) and every
   fault at ClientTls.handshake (finding D9). *)
Definition defect (s : site) (f : flavor * N) : bool :=
  match s with
  | SSend _ | SRecv _ => match fst f with FOs => N.eqb (snd f) EPIPE | FSsl => false end
  | SHsClient => true
  | _ => false
  end.

(* what a handled fault must look like at each site *)
Definition expected (s : site) : outcome :=
  match s with
  | SSend _ | SRecv _ => OCut
  | SHsRemoter | SHsClient => OAborted
  | SConnect => ORetry
  end.

Definition table_check : bool :=
  forallb (fun s =>
    forallb (fun f =>
      if defect s f then outcome_eqb (outcome_of s (fst f) (snd f)) ORaised
      else outcome_eqb (outcome_of s (fst f) (snd f)) (expected s))
    (faults_at s)) all_sites.

Lemma table_check_true : table_check = true.
Proof. vm_compute. reflexivity. Qed.

Lemma table : forall s f, In s all_sites -> In f (faults_at s) ->
  if defect s f then outcome_of s (fst f) (snd f) = ORaised
  else outcome_of s (fst f) (snd f) = expected s.
Proof.
  intros s f Hs Hf. pose proof table_check_true as T. unfold table_check in T.
  rewrite forallb_forall in T. specialize (T s Hs). rewrite forallb_forall in T. specialize (T f Hf).
  destruct (defect s f); now apply outcome_eqb_eq.
Qed.

Lemma table_handled : forall s f, In s all_sites -> In f (faults_at s) -> defect s f = false ->
  outcome_of s (fst f) (snd f) = expected s /\ handled (outcome_of s (fst f) (snd f)) = true.
Proof.
  intros s f Hs Hf Hd. pose proof (table s f Hs Hf) as T. rewrite Hd in T. rewrite T.
  split; [reflexivity|]. destruct s; reflexivity.
Qed.

Lemma table_raises_iff : forall s f, In s all_sites -> In f (faults_at s) ->
  (outcome_of s (fst f) (snd f) = ORaised <-> defect s f = true).
Proof.
  intros s f Hs Hf. pose proof (table s f Hs Hf) as T. destruct (defect s f).
  - split; auto.
  - split; [|discriminate]. rewrite T. destruct s; discriminate.
Qed.

(* ---------- one connection, any state ---------- *)

Lemma send_fault_marks : forall c s e,
  classify (kd c) DTx e = CutOff -> txbs s <> [] -> gate c s = true ->
  service_sends c s (SFail e) = (cut s, Ok tt, 1).
Proof.
  intros c s e Hc Ht Hg. unfold service_sends, send. rewrite Hg, Hc.
  destruct (txbs s) eqn:E; [easy|]. cbn [is_nil negb andb skipn]. unfold set_txbs, cut, set_connected; cbn.
  now rewrite E.
Qed.

Lemma gate_moved_rx : forall c s d, gate c (rx_extend (moved c DRx d s) d) = gate c s.
Proof. reflexivity. Qed.

Lemma recv_fault_marks : forall c chunks s e rest,
  classify (kd c) DRx e = CutOff -> gate c s = true ->
  Forall (fun d => d <> []) chunks ->
  let x := service_receives c s (map RData chunks ++ RFail e :: rest) in
  snd (fst x) = Ok tt /\ cutoff (st x) = true /\ rxbs (st x) = rxbs s ++ concat chunks /\
  txbs (st x) = txbs s /\ k_sent (st x) = k_sent s /\ snd x = S (length chunks).
Proof.
  intros c chunks. induction chunks as [|d chunks IH]; intros s e rest Hc Hg Hf; cbn [map app service_receives].
  - rewrite Hg. unfold receive. rewrite Hc. cbn. now rewrite app_nil_r.
  - rewrite Hg. inversion Hf as [|? ? Hd Hf']; subst.
    destruct d as [|b d]; [easy|]. cbn [receive].
    specialize (IH (rx_extend (moved c DRx (b :: d) s) (b :: d)) e rest Hc Hg Hf').
    destruct (service_receives c (rx_extend (moved c DRx (b :: d) s) (b :: d)) (map RData chunks ++ RFail e :: rest))
      as [[s2 r2] n2]. unfold st in *. cbn in IH. cbn.
    destruct IH as (A & B & C & D & E & F).
    repeat split; auto; try (rewrite C; now rewrite <- app_assoc); try (now rewrite F).
Qed.

(* ---------- server: isolation ---------- *)

Definition alone_recv (c : cfg) (io : list (N * script)) (x : N * conn) : list (N * conn) :=
  match service_receives c (snd x) (recvs_of io (fst x)) with
  | (s', Ok _, _) => [(fst x, s')]
  | (_, Exc _, _) => []
  end.

Definition alone_send (c : cfg) (io : list (N * script)) (x : N * conn) : N * conn :=
  (fst x, st (service_sends c (snd x) (send_of io (fst x)))).

(* a connection served on its own: receives (removed if they raise), then sends *)
Definition alone (c : cfg) (io : list (N * script)) (x : N * conn) : list (N * conn) :=
  map (alone_send c io) (alone_recv c io x).

Lemma recv_all_pointwise : forall c io l, fst (recv_all c io l) = flat_map (alone_recv c io) l.
Proof.
  intros c io l. induction l as [|[ca s] r IH]; cbn [recv_all flat_map]; auto.
  unfold alone_recv at 1. cbn [fst snd].
  destruct (service_receives c s (recvs_of io ca)) as [[s' [u|e]] n];
    destruct (recv_all c io r) as [r' cl]; cbn in *; now rewrite IH.
Qed.

Definition no_raise_send (c : cfg) (a : sres) : bool :=
  match a with
  | SAccept _ => true
  | SFail e => match classify (kd c) DTx e with Raise => false | _ => true end
  end.

Lemma service_sends_ok : forall c s a, no_raise_send c a = true ->
  snd (fst (service_sends c s a)) = Ok tt.
Proof.
  intros c s a H. unfold service_sends.
  destruct (negb (is_nil (txbs s)) && gate c s); [|reflexivity].
  unfold send. destruct a as [n|e].
  - destruct n; reflexivity.
  - cbn in H. destruct (classify (kd c) DTx e); try discriminate; reflexivity.
Qed.

Lemma send_all_pointwise : forall c io l,
  (forall ca, no_raise_send c (send_of io ca) = true) ->
  send_all c io l = (map (alone_send c io) l, Ok tt).
Proof.
  intros c io l H. induction l as [|[ca s] r IH]; cbn [send_all map]; auto.
  pose proof (service_sends_ok c s (send_of io ca) (H ca)) as E.
  unfold alone_send at 1. cbn [fst snd]. unfold st.
  destruct (service_sends c s (send_of io ca)) as [[s' r0] n]. cbn in E. subst r0.
  rewrite IH. reflexivity.
Qed.

Lemma map_flat_map : forall A B C (f : B -> C) (g : A -> list B) l,
  map f (flat_map g l) = flat_map (fun x => map f (g x)) l.
Proof. intros. induction l; cbn; auto. now rewrite map_app, IHl. Qed.

(* connections present while the pass is serviced: the established ones (after transmitIx), those accepted in
   this pass (replacing an older connection of the same address) and those whose handshake completes in it *)
Definition present (c : cfg) (p : pass) (sv : server) : list (N * conn) := fst (fst (staged c p sv)).

Theorem isolation : forall c p sv,
  (forall ca, no_raise_send c (send_of (p_io p) ca) = true) ->
  snd (service c p sv) = Ok tt /\
  ixes (fst (service c p sv)) = flat_map (alone c (p_io p)) (present c p sv).
Proof.
  intros c p sv H. unfold service, present.
  destruct (staged c p sv) as [[ix1 pend] cl0]. cbn [fst snd].
  pose proof (recv_all_pointwise c (p_io p) ix1) as R.
  destruct (recv_all c (p_io p) ix1) as [ix2 cl]. cbn [fst] in R.
  rewrite (send_all_pointwise c (p_io p) ix2 H). cbn [fst snd ixes]. split; auto.
  rewrite R. unfold alone. apply map_flat_map.
Qed.

(* the receive phase never lets anything out, whatever the sockets answer *)
Theorem receive_phase_total : forall c io l, exists l' cl, recv_all c io l = (l', cl).
Proof. intros. destruct (recv_all c io l); eauto. Qed.

(* pending handshakes are independent of each other and nothing escapes serviceCxes *)
Lemma service_cxes_pointwise : forall hs l,
  let '(pend, conn, ab) := service_cxes hs l in
  pend = filter (fun ca => hs_out_eqb (remoter_handshake (hs_of hs ca)) HsPending) l /\
  conn = filter (fun ca => hs_out_eqb (remoter_handshake (hs_of hs ca)) HsConnected) l /\
  ab = filter (fun ca => hs_out_eqb (remoter_handshake (hs_of hs ca)) HsAborted) l.
Proof.
  intros hs l. induction l as [|ca r IH]; cbn [service_cxes filter]; auto.
  destruct (service_cxes hs r) as [[pend conn] ab]. destruct IH as (A & B & C).
  assert (NR : remoter_handshake (hs_of hs ca) <> HsRaised).
  { unfold remoter_handshake. destruct (hs_of hs ca) as [|[] e]; try discriminate.
    destruct (memN e want_codes); discriminate. }
  destruct (remoter_handshake (hs_of hs ca)); cbn; subst; auto. easy.
Qed.

(* ---------- server pass in which no answer is a re-raised code: nobody is removed ---------- *)

Definition no_raise_recv (c : cfg) (k : rres) : bool :=
  match k with
  | RData _ => true
  | RFail e => match classify (kd c) DRx e with Raise => false | _ => true end
  end.

Lemma service_receives_ok : forall c ks s, forallb (no_raise_recv c) ks = true ->
  snd (fst (service_receives c s ks)) = Ok tt.
Proof.
  intros c ks. induction ks as [|k ks IH]; intros s H; cbn [service_receives].
  - destruct (gate c s); reflexivity.
  - cbn in H. apply andb_true_iff in H. destruct H as [Hk Hks].
    destruct (gate c s); [|reflexivity].
    unfold receive. destruct k as [d|e].
    + destruct d as [|b d]; [reflexivity|].
      specialize (IH (rx_extend (moved c DRx (b :: d) s) (b :: d)) Hks).
      destruct (service_receives c (rx_extend (moved c DRx (b :: d) s) (b :: d)) ks) as [[s2 r2] n2]. exact IH.
    + cbn in Hk. destruct (classify (kd c) DRx e); try discriminate; reflexivity.
Qed.

Definition served (c : cfg) (io : list (N * script)) (x : N * conn) : N * conn :=
  (fst x, st (service_sends c (st (service_receives c (snd x) (recvs_of io (fst x)))) (send_of io (fst x)))).

Lemma alone_served : forall c io x,
  forallb (no_raise_recv c) (recvs_of io (fst x)) = true -> alone c io x = [served c io x].
Proof.
  intros c io [ca s] H. unfold alone, alone_recv, served, alone_send. cbn [fst snd] in *.
  pose proof (service_receives_ok c _ s H) as E. unfold st.
  destruct (service_receives c s (recvs_of io ca)) as [[s1 r1] n1]. cbn in E. subst r1. reflexivity.
Qed.

Lemma flat_map_singleton : forall A B (f : A -> list B) (g : A -> B) l,
  (forall x, In x l -> f x = [g x]) -> flat_map f l = map g l.
Proof.
  intros A B f g l H. induction l as [|a l IH]; cbn; auto.
  rewrite (H a (or_introl eq_refl)), IH; auto. intros x Hx. apply H. now right.
Qed.

Theorem server_no_escape : forall c p sv,
  (forall ca, no_raise_send c (send_of (p_io p) ca) = true) ->
  (forall ca, forallb (no_raise_recv c) (recvs_of (p_io p) ca) = true) ->
  snd (service c p sv) = Ok tt /\
  ixes (fst (service c p sv)) = map (served c (p_io p)) (present c p sv).
Proof.
  intros c p sv Hs Hr. destruct (isolation c p sv Hs) as [A B]. split; auto.
  rewrite B. apply flat_map_singleton. intros x _. apply alone_served. apply Hr.
Qed.

(* ---------- a repeated address: the old connection is closed, the new one takes its place ---------- *)

Lemma put_ix_spec : forall ca l,
  lookup ca (put_ix ca l) = Some (init true) /\
  map fst (put_ix ca l) = (if mem_ix ca l then map fst l else map fst l ++ [ca]) /\
  (forall k, N.eqb k ca = false -> lookup k (put_ix ca l) = lookup k l).
Proof.
  intros ca l. induction l as [|[k s] r IH]; cbn [put_ix mem_ix lookup map fst app].
  - rewrite N.eqb_refl. repeat split; auto. intros k H. now rewrite H.
  - destruct IH as (A & B & C). destruct (N.eqb ca k) eqn:E; cbn [lookup map fst orb].
    + rewrite E. repeat split; auto. intros k0 H. apply N.eqb_eq in E. subst k.
      cbn [lookup]. now rewrite H.
    + rewrite E. repeat split; auto.
      * rewrite B. destruct (mem_ix ca r); reflexivity.
      * intros k0 H. destruct (N.eqb k0 k); auto.
Qed.

Theorem replacement : forall ca l,
  mem_ix ca l = true ->
  accept_ix [(ca, false)] l = (put_ix ca l, [ca]) /\
  lookup ca (put_ix ca l) = Some (init true) /\
  map fst (put_ix ca l) = map fst l /\
  (forall k, N.eqb k ca = false -> lookup k (put_ix ca l) = lookup k l).
Proof.
  intros ca l H. destruct (put_ix_spec ca l) as (A & B & C). rewrite H in B.
  cbn [accept_ix]. rewrite H. auto.
Qed.
