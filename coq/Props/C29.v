(* C29 — placeholder while the proofs are being written *)
From Hio Require Import Base.Prelude Model.Path.
Theorem C29_tmp : forall d, climbs_from d [] = false.
Proof. reflexivity. Qed.
Print Assumptions C29_tmp.
