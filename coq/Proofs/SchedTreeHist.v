(* C04 over histories — a first do()/ado() followed by further runs of the same doer
   objects (Proofs/SchedHist.v): on the same Doist (RAgain) or under a new Doist
   (RFresh).  The history of the nested program and of the flat program are described
   together by a [trerun] list: a fresh Doist is given a duplicate-free selection [sel]
   of the program's TOP-LEVEL items (trees), in any order — the nested history passes
   their top ids, the flat history their leaves in tree order. *)
From Coq Require Import Permutation.
From Hio Require Import Base.Prelude Base.AMap Base.Time Model.Sched
  Proofs.SchedEqs Proofs.SchedFrame Proofs.SchedFlatDefs Proofs.SchedFlatRun Proofs.SchedFlatTop
  Proofs.SchedTreeDefs Proofs.SchedTreeRun Proofs.SchedTreeSim Proofs.SchedTreeTop Proofs.SchedTreeHistRun
  Proofs.SchedAdo Proofs.SchedHist.

Section THist.
Context {T : Type} `{Time T}.
Implicit Types s : st T.

Inductive trerun : Type :=
| TAgain (limit tyme' : option T)
| TFresh (limit : option T) (tyme0 : T) (sel : list (gtree T)).

Definition nest_rerun (r : trerun) : rerun (T:=T) :=
  match r with TAgain l t => RAgain l t | TFresh l t sel => RFresh l t (map gt_top sel) end.
Definition flat_rerun (r : trerun) : rerun (T:=T) :=
  match r with TAgain l t => RAgain l t | TFresh l t sel => RFresh l t (map lf_id (gflatten sel)) end.
(* the same history, seen from the flat program: every selected tree replaced by its leaves *)
Definition leaves_rerun (r : trerun) : trerun :=
  match r with TAgain l t => TAgain l t | TFresh l t sel => TFresh l t (map TLeaf (gflatten sel)) end.

Definition wf_rerun (gs : list (gtree T)) (r : trerun) : Prop :=
  match r with
  | TAgain _ _ => True
  | TFresh _ _ sel => (forall g, In g sel -> In g gs) /\ NoDup (gts_ids sel)
  end.

Variables tk z0 : T.

(* ---------- specification of a history ---------- *)

Fixpoint tspec_hist (cycles : nat) (cur : list (gtree T)) (st0 : T * out T) (h : list trerun) : option (T * out T) :=
  match h with
  | [] => Some st0
  | TAgain l t' :: h' =>
    let t1 := match t' with Some x => x | None => fst st0 end in
    match tspec_tail tk z0 cycles l t1 cur (o_done (snd st0) 0%N (Some false)) with
    | Some st1 => tspec_hist cycles cur st1 h'
    | None => None
    end
  | TFresh l t0 sel :: h' =>
    match tspec_tail tk z0 cycles l t0 sel (o_done (snd st0) 0%N (Some false)) with
    | Some st1 => tspec_hist cycles sel st1 h'
    | None => None
    end
  end.

(* ---------- the model computes it ---------- *)

Section Prog.
Variable gs : list (gtree T).
Hypothesis WF : wf_tree gs.
Variables (limit : option T) (t0 : T).

Let p := tnest_prog tk limit t0 z0 gs.
Let ids := map lf_id (gflatten gs).
Let vis := 0%N :: ids.
Let D0 := defs (init_st p).

(* between two runs *)
Definition HI s (cur : list (gtree T)) (o : out T) : Prop :=
  defs s = D0 /\ all (g_idle1 s) gs /\
  doers (get_sched s 0%N) = map gt_top cur /\ deeds (get_sched s 0%N) = [] /\
  out_ok vis s o /\ (forall g, In g cur -> In g gs) /\ NoDup (gts_ids cur).

Lemma all_sel {A} (P : A -> Prop) (l sel : list A) : (forall g, In g sel -> In g l) -> all P l -> all P sel.
Proof. intros Hs Hl. rewrite all_Forall in *. rewrite Forall_forall in *. auto. Qed.

Lemma sel_ids (sel : list (gtree T)) : (forall g, In g sel -> In g gs) -> forall x, In x (gts_ids sel) -> In x (gts_ids gs).
Proof.
  intros Hs x Hx. unfold gts_ids in *. apply in_flat_map in Hx as (g & Hg & Hx).
  apply in_flat_map. exists g. split; [now apply Hs|exact Hx].
Qed.

Lemma zero_notin : ~ In 0%N (gts_ids gs).
Proof. pose proof (nd_gts_ids gs WF) as N. now apply NoDup_cons_iff in N as [N0 _]. Qed.

Lemma wf_gs : all (g_wf1 vis z0 D0) gs.
Proof. exact (proj1 (gs_wf_init_t tk limit t0 z0 gs WF)). Qed.

Lemma V0 : In 0%N vis. Proof. now left. Qed.

(* one run of the common body from a state between runs, for the doers cur' *)
Lemma tail_step cycles fuel l s0 (cur' : list (gtree T)) o :
  defs s0 = D0 -> all (g_idle1 s0) gs -> deeds (get_sched s0 0%N) = [] -> out_ok vis s0 o ->
  (forall g, In g cur' -> In g gs) -> NoDup (gts_ids cur') ->
  doers (get_sched s0 0%N) = map gt_top cur' ->
  oof (run_tail tk cycles fuel l s0 (map gt_top cur')) = false ->
  exists t' o', tspec_tail tk z0 cycles l (tyme s0) cur' o = Some (t', o') /\
    tyme (run_tail tk cycles fuel l s0 (map gt_top cur')) = t' /\
    HI (run_tail tk cycles fuel l s0 (map gt_top cur')) cur' o'.
Proof.
  intros Ds Hi Dq OK Hsel ND Do O.
  assert (ND0 : NoDup (0%N :: gts_ids cur')).
  { constructor; [|exact ND]. intro X. apply zero_notin. now apply (sel_ids cur' Hsel). }
  assert (W' : all (g_wf1 vis z0 (defs s0)) cur') by (rewrite Ds; apply (all_sel _ gs); [exact Hsel|exact wf_gs]).
  destruct (tail_spec vis tk z0 V0 cycles fuel l s0 cur' o O W' (all_sel _ gs _ Hsel Hi) ND0 Dq OK)
    as (t' & o' & Hs & Ht & OK' & GF & SD & En & Dq').
  exists t', o'. split; [exact Hs|]. split; [exact Ht|].
  set (sf := run_tail tk cycles fuel l s0 (map gt_top cur')) in *.
  assert (Df : defs sf = D0) by (destruct GF as (-> & _); exact Ds).
  split; [exact Df|]. split; [|split; [|split; [exact Dq'|split; [exact OK'|split; [exact Hsel|exact ND]]]]].
  - eapply (idle_mixed vis z0 s0 sf); [exact Hi|rewrite Df; exact wf_gs|exact SD|].
    intros x Hx. destruct (in_dec N.eq_dec x (gts_ids cur')) as [Hc|Hc]; [left; now apply En|right].
    destruct GF as (_ & FG & FS). split; [now apply FG|]. apply FS.
    intros [Heq|Hc2]; [subst x; now apply zero_notin|contradiction].
  - rewrite SD. exact Do.
Qed.

Lemma idle_gf s s' : gframe [] [0%N] s s' -> all (g_idle1 s) gs -> all (g_idle1 s') gs.
Proof.
  intros GF. apply (idle_gframe [] [0%N] s s' gs GF).
  intros x Hx. split; [intros []|]. intros [Heq|[]]. subst x. now apply zero_notin.
Qed.

Lemma ok_rlive s (v : bool) o : out_ok vis s o -> out_ok vis (set_rlive s v) o.
Proof. intros [E D]. split; assumption. Qed.
Lemma ok_sched s i c o : out_ok vis s o -> out_ok vis (set_sched s i c) o.
Proof. intros [E D]. split; assumption. Qed.

Lemma do_again_tail cycles fuel l t' s :
  do_again cycles fuel tk l t' s =
  let s0 := set_done (set_rlive (match t' with Some t => set_tyme s t | None => s end) false) 0%N (Some false) in
  run_tail tk cycles fuel l s0 (doers (get_sched s0 0%N)).
Proof. reflexivity. Qed.

Lemma do_fresh_tail cycles fuel l t1 ds s :
  do_fresh cycles fuel tk l t1 ds s =
  run_tail tk cycles fuel l
    (set_done (set_rlive (set_sched (set_tyme s t1) 0%N {| doers := ds; deeds := [] |}) false) 0%N (Some false)) ds.
Proof. reflexivity. Qed.

Lemma rerun_oof cycles fuel asyn s r : oof s = true -> oof (rerun_step cycles fuel tk asyn s r) = true.
Proof.
  intro O. destruct r as [l t'|l t1 ds]; cbn [rerun_step].
  - destruct asyn; [rewrite ado_again_eq|]; rewrite do_again_tail; cbv zeta; apply run_tail_oof;
      destruct t'; exact O.
  - rewrite do_fresh_tail. apply run_tail_oof. exact O.
Qed.

Lemma hist_oof cycles fuel asyn (h : list (rerun (T:=T))) : forall s,
  oof s = true -> oof (fold_left (rerun_step cycles fuel tk asyn) h s) = true.
Proof. induction h as [|r h IH]; intros s O; [exact O|]. cbn [fold_left]. apply IH. now apply rerun_oof. Qed.

Lemma hist_spec cycles fuel asyn : forall (h : list trerun) s cur o,
  HI s cur o -> Forall (wf_rerun gs) h ->
  oof (fold_left (rerun_step cycles fuel tk asyn) (map nest_rerun h) s) = false ->
  exists t' o', tspec_hist cycles cur (tyme s, o) h = Some (t', o') /\
    tyme (fold_left (rerun_step cycles fuel tk asyn) (map nest_rerun h) s) = t' /\
    out_ok vis (fold_left (rerun_step cycles fuel tk asyn) (map nest_rerun h) s) o'.
Proof.
  induction h as [|r h IH]; intros s cur o HIs Wh O.
  - exists (tyme s), o. split; [reflexivity|]. split; [reflexivity|]. destruct HIs as (_ & _ & _ & _ & OK & _). exact OK.
  - apply Forall_cons_iff in Wh as [Wr Wh]. cbn [map fold_left] in O |- *.
    set (s1 := rerun_step cycles fuel tk asyn s (nest_rerun r)) in *.
    assert (O1 : oof s1 = false).
    { destruct (oof s1) eqn:X; [|reflexivity]. rewrite (hist_oof _ _ _ _ _ X) in O. discriminate. }
    destruct HIs as (Ds & Hi & Do & Dq & OK & Hsel & ND).
    destruct r as [l t'|l t1 sel]; cbn [nest_rerun rerun_step tspec_hist fst snd] in *.
    + assert (E1 : s1 = do_again cycles fuel tk l t' s) by (unfold s1; destruct asyn; [apply ado_again_eq|reflexivity]).
      rewrite do_again_tail in E1. cbv zeta in E1.
      set (sa := match t' with Some t => set_tyme s t | None => s end) in *.
      set (s0 := set_done (set_rlive sa false) 0%N (Some false)) in *.
      assert (GFa : gframe [] [0%N] s s0).
      { unfold s0, sa. apply gf_done, gf_rlive. destruct t'; [apply gf_tyme|]; apply gframe_refl. }
      assert (OKa : out_ok vis s0 (o_done o 0%N (Some false))).
      { unfold s0, sa. apply ok_done_vis, ok_rlive. destruct t'; [apply ok_tyme|]; exact OK. }
      assert (Do0 : doers (get_sched s0 0%N) = map gt_top cur) by (unfold s0, sa; destruct t'; exact Do).
      assert (Dq0 : deeds (get_sched s0 0%N) = []) by (unfold s0, sa; destruct t'; exact Dq).
      assert (Ds0 : defs s0 = D0) by (unfold s0, sa; destruct t'; exact Ds).
      assert (Ty0 : tyme s0 = match t' with Some x => x | None => tyme s end) by (unfold s0, sa; destruct t'; reflexivity).
      rewrite Do0 in E1. rewrite E1 in O1.
      destruct (tail_step cycles fuel l s0 cur _ Ds0 (idle_gf _ _ GFa Hi) Dq0 OKa Hsel ND Do0 O1)
        as (t2 & o2 & Hs & Ht & HI2).
      rewrite Ty0 in Hs. rewrite Hs. rewrite <- E1 in HI2, Ht.
      destruct (IH s1 cur o2 HI2 Wh O) as (tf & o' & Hh & Hty & OKf).
      rewrite Ht in Hh. exists tf, o'. split; [exact Hh|]. split; [exact Hty|exact OKf].
    + destruct Wr as [Hsel' ND'].
      assert (E1 : s1 = do_fresh cycles fuel tk l t1 (map gt_top sel) s) by reflexivity.
      rewrite do_fresh_tail in E1.
      set (s0 := set_done (set_rlive (set_sched (set_tyme s t1) 0%N {| doers := map gt_top sel; deeds := [] |}) false) 0%N (Some false)) in *.
      assert (GFa : gframe [] [0%N] s s0).
      { unfold s0. apply gf_done, gf_rlive. apply gf_sched; [now left|]. apply gf_tyme, gframe_refl. }
      assert (OKa : out_ok vis s0 (o_done o 0%N (Some false))).
      { unfold s0. apply ok_done_vis, ok_rlive, ok_sched, ok_tyme. exact OK. }
      assert (Sc0 : get_sched s0 0%N = {| doers := map gt_top sel; deeds := [] |}).
      { unfold s0, get_sched, set_sched; cbn [scheds set_done set_rlive]. now rewrite get_set_same. }
      assert (Ds0 : defs s0 = D0) by exact Ds.
      rewrite E1 in O1.
      destruct (tail_step cycles fuel l s0 sel _ Ds0 (idle_gf _ _ GFa Hi) (f_equal deeds Sc0) OKa Hsel' ND'
                  (f_equal doers Sc0) O1) as (t2 & o2 & Hs & Ht & HI2).
      change (tyme s0) with t1 in Hs. rewrite Hs. rewrite <- E1 in HI2, Ht.
      destruct (IH s1 sel o2 HI2 Wh O) as (t' & o' & Hh & Hty & OKf).
      rewrite Ht in Hh. exists t', o'. split; [exact Hh|]. split; [exact Hty|exact OKf].
Qed.

Lemma do_run_tail cycles fuel : do_run cycles fuel p = run_tail tk cycles fuel limit (init_st p) (map gt_top gs).
Proof. reflexivity. Qed.

Theorem tree_hist_spec cycles fuel asyn (h : list trerun) :
  Forall (wf_rerun gs) h ->
  oof (run_hist cycles fuel asyn p (map nest_rerun h)) = false ->
  exists st0 r, tspec_run tk (tabs z0) cycles limit t0 gs = Some st0 /\
    tspec_hist cycles gs st0 h = Some r /\
    leaf_view ids (run_hist cycles fuel asyn p (map nest_rerun h)) = view_of ids r.
Proof.
  intros Wh O. unfold run_hist in *. change (p_tock p) with tk in *.
  assert (E0 : (if asyn then ado_run cycles fuel p else do_run cycles fuel p) = do_run cycles fuel p)
    by (destruct asyn; [apply ado_run_eq|reflexivity]).
  rewrite E0 in *. rewrite do_run_tail in *.
  set (s1 := run_tail tk cycles fuel limit (init_st p) (map gt_top gs)) in *.
  assert (O1 : oof s1 = false).
  { destruct (oof s1) eqn:X; [|reflexivity]. rewrite (hist_oof _ _ _ _ _ X) in O. discriminate. }
  destruct (gs_wf_init_t tk limit t0 z0 gs WF) as [W St].
  pose proof (nd_gts_ids gs WF) as ND0. pose proof ND0 as ND0'. apply NoDup_cons_iff in ND0' as [_ ND].
  assert (Hi0 : all (g_idle1 (init_st p)) gs) by (apply idle_of_st; [exact St|reflexivity]).
  destruct (tail_step cycles fuel limit (init_st p) gs out0 eq_refl Hi0 eq_refl (ok_init_t tk limit t0 z0 gs)
              (fun g Hg => Hg) ND eq_refl O1) as (t1 & o1 & Hs & Ht & HI1).
  change (tyme (init_st p)) with t0 in Hs.
  destruct (hist_spec cycles fuel asyn h s1 gs o1 HI1 Wh O) as (t' & o' & Hh & Hty & OKf).
  fold s1 in Ht. rewrite Ht in Hh.
  exists (t1, o1), (t', o'). split; [exact Hs|]. split; [exact Hh|].
  pose proof (view_ok_t gs _ _ OKf) as V. rewrite Hty in V. exact V.
Qed.

End Prog.

(* ---------- nested history vs flat history ---------- *)

Section HSim.
Hypothesis LAWS : flat_laws tk z0.

Lemma tspec_tail_sim c1 c2 l t (cur : list (gtree T)) o r1 r2 :
  forallb no_asap_then_positive (tgrouped_leaves cur) = true ->
  tspec_tail tk z0 c1 l t cur o = Some r1 ->
  tspec_tail tk z0 c2 l t (map TLeaf (gflatten cur)) o = Some r2 ->
  r1 = r2.
Proof.
  destruct LAWS as (L1 & L2 & L3).
  intros Hy E1 E2. unfold tspec_tail in *. rewrite tenter_flat in E2.
  destruct (enter_simt L1 t cur false o Hy) as (fl & its & o' & Hf & Hn & S).
  rewrite Hf in E2. rewrite Hn in E1.
  eapply (tspec_cycles_sim tk (tabs z0) L1 L2 L3); eassumption.
Qed.

Lemma grouped_sel (gs sel : list (gtree T)) :
  (forall g, In g sel -> In g gs) ->
  forallb no_asap_then_positive (tgrouped_leaves gs) = true ->
  forallb no_asap_then_positive (tgrouped_leaves sel) = true.
Proof.
  intros Hs Hy. rewrite forallb_forall in *. intros l Hl. apply Hy.
  unfold tgrouped_leaves in *. apply in_flat_map in Hl as (g & Hg & Hl).
  apply in_flat_map. exists g. split; [now apply Hs|exact Hl].
Qed.

Lemma tspec_hist_sim (gs : list (gtree T)) c1 c2 :
  forallb no_asap_then_positive (tgrouped_leaves gs) = true ->
  forall (h : list trerun) cur st0 r1 r2,
  (forall g, In g cur -> In g gs) -> Forall (wf_rerun gs) h ->
  tspec_hist c1 cur st0 h = Some r1 ->
  tspec_hist c2 (map TLeaf (gflatten cur)) st0 (map leaves_rerun h) = Some r2 ->
  r1 = r2.
Proof.
  intro Hy. induction h as [|r h IH]; intros cur st0 r1 r2 Hc Wh E1 E2.
  - cbn [tspec_hist map] in *. congruence.
  - apply Forall_cons_iff in Wh as [Wr Wh]. destruct r as [l t'|l t1 sel]; cbn [map leaves_rerun tspec_hist] in E1, E2.
    + destruct (tspec_tail tk z0 c1 l _ cur _) as [s1|] eqn:T1; [|discriminate].
      destruct (tspec_tail tk z0 c2 l _ (map TLeaf (gflatten cur)) _) as [s2|] eqn:T2; [|discriminate].
      pose proof (tspec_tail_sim _ _ _ _ _ _ _ _ (grouped_sel gs cur Hc Hy) T1 T2) as <-.
      eapply IH; eassumption.
    + destruct Wr as [Hs _].
      destruct (tspec_tail tk z0 c1 l t1 sel _) as [s1|] eqn:T1; [|discriminate].
      destruct (tspec_tail tk z0 c2 l t1 (map TLeaf (gflatten sel)) _) as [s2|] eqn:T2; [|discriminate].
      pose proof (tspec_tail_sim _ _ _ _ _ _ _ _ (grouped_sel gs sel Hs Hy) T1 T2) as <-.
      eapply IH; eassumption.
Qed.

Lemma flat_rerun_leaves (h : list trerun) : map flat_rerun h = map nest_rerun (map leaves_rerun h).
Proof.
  rewrite map_map. apply map_ext. intros [l t|l t sel]; cbn [flat_rerun nest_rerun leaves_rerun]; [reflexivity|].
  now rewrite map_map.
Qed.

Lemma gts_ids_tleaves (ls : list (leaf T)) : gts_ids (map TLeaf ls) = map lf_id ls.
Proof. induction ls as [|l ls IH]; [reflexivity|]. cbn [map]. now rewrite gts_ids_leaf, IH. Qed.

Lemma sel_leaves (gs sel : list (gtree T)) : (forall g, In g sel -> In g gs) ->
  forall l, In l (gflatten sel) -> In l (gflatten gs).
Proof.
  intros Hs l Hl. unfold gflatten in *. apply in_flat_map in Hl as (g & Hg & Hl).
  apply in_flat_map. exists g. split; [now apply Hs|exact Hl].
Qed.

Lemma wf_leaves_rerun (gs : list (gtree T)) (h : list trerun) :
  Forall (wf_rerun gs) h -> Forall (wf_rerun (map TLeaf (gflatten gs))) (map leaves_rerun h).
Proof.
  intro Wh. rewrite Forall_forall in *. intros r Hr. apply in_map_iff in Hr as (r0 & <- & Hr0).
  specialize (Wh r0 Hr0). destruct r0 as [l t|l t sel]; cbn [leaves_rerun wf_rerun] in *; [exact I|].
  destruct Wh as [Hs ND]. split.
  - intros g Hg. apply in_map_iff in Hg as (lf & <- & Hl). apply in_map. eapply sel_leaves; eassumption.
  - rewrite gts_ids_tleaves. eapply NoDup_app_l. eapply Permutation_NoDup; [apply gts_ids_perm|exact ND].
Qed.

Theorem flatten_hist (gs : list (gtree T)) (limit : option T) (t0 : T) (h : list trerun) c1 f1 a1 c2 f2 a2 :
  wf_tree gs -> Forall (wf_rerun gs) h ->
  forallb no_asap_then_positive (tgrouped_leaves gs) = true ->
  oof (run_hist c1 f1 a1 (tnest_prog tk limit t0 z0 gs) (map nest_rerun h)) = false ->
  oof (run_hist c2 f2 a2 (flat_prog tk limit t0 (gflatten gs)) (map flat_rerun h)) = false ->
  leaf_view (map lf_id (gflatten gs)) (run_hist c1 f1 a1 (tnest_prog tk limit t0 z0 gs) (map nest_rerun h)) =
  leaf_view (map lf_id (gflatten gs)) (run_hist c2 f2 a2 (flat_prog tk limit t0 (gflatten gs)) (map flat_rerun h)).
Proof.
  intros WF Wh Hy O1 O2.
  rewrite (flat_prog_tleaves tk limit t0 z0), flat_rerun_leaves in *.
  destruct (tree_hist_spec gs WF limit t0 c1 f1 a1 h Wh O1) as (sa & ra & Sa & Ha & Va).
  destruct (tree_hist_spec (map TLeaf (gflatten gs)) (wf_tleaves gs WF) limit t0 c2 f2 a2 (map leaves_rerun h)
              (wf_leaves_rerun gs h Wh) O2) as (sb & rb & Sb & Hb & Vb).
  rewrite gflatten_tleaves in Vb. rewrite Va, Vb. f_equal.
  destruct LAWS as (L1 & L2 & L3).
  pose proof (tspec_run_sim tk (tabs z0) L1 L2 L3 c1 c2 limit t0 gs sa sb Hy Sa Sb) as <-.
  exact (tspec_hist_sim gs c1 c2 Hy h gs sa ra rb (fun g Hg => Hg) Wh Ha Hb).
Qed.

End HSim.
End THist.
