(* Membership over whole runs (C06) for ALL programs: the same refinement as
   Proofs/SchedDequeMembers2.v without the class NE0, at the price of snapshots.
   extend() computes the not-present arguments from the doers list AT THE CALL and
   appends them AFTER the enters; when the entered doers themselves change that
   list in their first resumption the two differ.  Log entries for extend carry
   the snapshot; [SnapOK]: every snapshot is the value the list of its target had
   after some EARLIER prefix of the log.  (Under NE0 the prefix is the current
   one: SchedDequeMembers2.) *)
From Hio Require Import Base.Prelude Base.AMap Base.Time Model.Sched Proofs.SchedEqs Proofs.SchedFrame Proofs.SchedLife
  Proofs.SchedDeque Proofs.SchedDequeHold Proofs.SchedDequeAll Proofs.SchedDequeEffects Proofs.SchedDequeMembers.

Section Members3.
Context {T : Type} `{Time T}.
Implicit Types s a b : st T.
Variable tk : T.
Variable d : amap (fdef T).

Inductive sop := SExt (snap news : list id) | SRem (who : list id).
Definition apply_sop (l : list id) (o : sop) : list id :=
  match o with
  | SExt snap news => l ++ dedupe (filter (fun x => negb (memN x snap)) news) []
  | SRem who => fold_left (fun l x => remove_first x l) (dedupe (filter (fun x => memN x l) who) []) l
  end.
Definition slog := list (id * sop).
Definition son_t (t : id) (log : slog) : list sop :=
  flat_map (fun '(t', o) => if N.eqb t' t then [o] else []) log.
Definition srun (l : list id) (t : id) (log : slog) : list id := fold_left apply_sop (son_t t log) l.

Definition eff_from3 (e : effect) : Prop :=
  exists i k sc pc, get d i = Some (FLeaf k sc) /\ In e (f_es (nth pc sc default_step)).
Definition sentry_eff (x : id * sop) : effect :=
  match x with (t, SExt _ n) => EExtend t n | (t, SRem w) => ERemove t w end.
Definition from_prog3 (x : id * sop) : Prop := eff_from3 (sentry_eff x).

Definition view3 s (t : id) : list id := doers (get_sched s t).

(* every snapshot is the value of its target's list after an earlier prefix *)
Definition SnapOK (A : id -> list id) (log : slog) : Prop :=
  forall n t snap news, nth_error log n = Some (t, SExt snap news) ->
    exists m, (m <= n)%nat /\ snap = srun (A t) t (firstn m log).

Definition MRS s s' : Prop :=
  exists log, Forall from_prog3 log /\ (forall t, view3 s' t = srun (view3 s t) t log) /\ SnapOK (view3 s) log.

Lemma son_t_app t l1 l2 : son_t t (l1 ++ l2) = son_t t l1 ++ son_t t l2.
Proof. unfold son_t. apply flat_map_app. Qed.
Lemma srun_app l t l1 l2 : srun l t (l1 ++ l2) = srun (srun l t l1) t l2.
Proof. unfold srun. now rewrite son_t_app, fold_left_app. Qed.

Lemma snapok_app A A' l1 l2 :
  (forall t, A' t = srun (A t) t l1) -> SnapOK A l1 -> SnapOK A' l2 -> SnapOK A (l1 ++ l2).
Proof.
  intros EA S1 S2 n t snap news Hn. destruct (Nat.lt_ge_cases n (length l1)) as [Lt|Ge].
  - rewrite nth_error_app1 in Hn by exact Lt. destruct (S1 n t snap news Hn) as (m & Hm & Es).
    exists m. split; [exact Hm|]. rewrite firstn_app. replace (m - length l1)%nat with 0%nat by lia.
    cbn [firstn]. now rewrite app_nil_r.
  - rewrite nth_error_app2 in Hn by exact Ge. destruct (S2 _ t snap news Hn) as (m & Hm & Es).
    exists (length l1 + m)%nat. split; [lia|]. rewrite firstn_app_2, srun_app, <- EA. exact Es.
Qed.

Lemma mrs_refl s : MRS s s.
Proof. exists []. split; [constructor|]. split; [reflexivity|]. intros n t snap news Hn. destruct n; discriminate. Qed.
Lemma mrs_trans a b c : MRS a b -> MRS b c -> MRS a c.
Proof.
  intros (l1 & F1 & E1 & S1) (l2 & F2 & E2 & S2). exists (l1 ++ l2). split; [apply Forall_app; now split|]. split.
  - intro t. now rewrite E2, E1, srun_app.
  - eapply snapok_app; [exact E1|exact S1|exact S2].
Qed.
Lemma mrs_same s s' : (forall t, view3 s' t = view3 s t) -> MRS s s'.
Proof. intro E. exists []. split; [constructor|]. split; [exact E|]. intros n t snap news Hn. destruct n; discriminate. Qed.

Lemma view3_deeds s sid l t : view3 (set_deeds s sid l) t = view3 s t.
Proof. apply dsame_deeds. Qed.

Definition mrs_at (f : nat) : Prop :=
  (forall s i s' r, defs s = d -> gen_start tk f s i = (s', r) -> MRS s s') /\
  (forall s i k sc pc s' r, defs s = d -> get d i = Some (FLeaf k sc) -> run_step tk f s i k sc pc = (s', r) -> MRS s s') /\
  (forall s i s' r, defs s = d -> gen_send tk f s i = (s', r) -> MRS s s') /\
  (forall s i, MRS s (gen_close tk f s i)) /\
  (forall s i, MRS s (close_own tk f s i)) /\
  (forall s ds, MRS s (close_list tk f s ds)) /\
  (forall s sid ids s' r, defs s = d -> enter_own tk f s sid ids = (s', r) -> MRS s s') /\
  (forall s ids acc s' r acc', defs s = d -> enter_local tk f s ids acc = (s', r, acc') -> MRS s s') /\
  (forall s c es s' r, defs s = d -> Forall eff_from3 es -> run_effects tk f s c es = (s', r) -> MRS s s') /\
  (forall s sid s' r, defs s = d -> recur_pass tk f s sid = (s', r) -> MRS s s') /\
  (forall s sid s' r, defs s = d -> recur_loop tk f s sid = (s', r) -> MRS s s').

Lemma mrs_all : forall f, mrs_at f.
Proof.
  induction f as [|f IH].
  - unfold mrs_at. repeat match goal with |- _ /\ _ => split end; intros;
      try match goal with E : _ = _ |- _ => cbn in E; inversion E; subst; clear E end; cbn; apply mrs_same; reflexivity.
  - destruct IH as (Ist & Irs & Isd & Icl & Ico & Ili & Ieo & Iel & Ief & Irp & Irl).
    destruct (doers_close tk (S f)) as (Dcl & Dco & Dli).
    destruct (doers_close tk f) as (Dcl' & Dco' & Dli').
    destruct (defs_all tk f) as (Fst & Fsd & Fli & Fel & Fef).
    assert (NestEnd : forall s2 s3 i, (forall t, view3 s3 t = view3 s2 t) ->
              forall t, view3 (set_gen (emit (close_own tk f s3 i) Exit i) i GDone) t = view3 s2 t).
    { intros s2 s3 i E3 t. change (doers (get_sched (close_own tk f s3 i) t) = view3 s2 t). rewrite Dco'. apply E3. }
    unfold mrs_at. repeat match goal with |- _ /\ _ => split end.
    + (* gen_start *)
      intros s i s' r Dd E. rewrite gen_start_S in E.
      destruct (startable s i); cbn [negb] in E; [|fin; apply mrs_refl].
      destruct (get (defs s) i) as [[k sc|t0 al kids]|] eqn:D; [| |fin; apply mrs_refl].
      * eapply mrs_trans; [|eapply Irs; [| |exact E]]; [apply mrs_same; reflexivity|exact Dd|rewrite <- Dd; exact D].
      * cbv zeta in E. destruct (enter_own tk f _ i _) as [s2 r0] eqn:Ee.
        assert (M2 : MRS s s2) by (eapply mrs_trans; [|eapply Ieo; [|exact Ee]]; [apply mrs_same; reflexivity|exact Dd]).
        eapply mrs_trans; [exact M2|]. apply mrs_same.
        destruct r0; fin; try (intro; reflexivity).
        apply NestEnd. intro t. destruct kbd; reflexivity.
    + (* run_step *)
      intros s i k sc pc s' r Dd D E. rewrite run_step_S in E. cbv zeta in E.
      destruct (run_effects tk f s i _) as [s1 r0] eqn:Ee.
      assert (M1 : MRS s s1).
      { eapply Ief; [exact Dd| |exact Ee]. apply Forall_forall. intros e He. exists i, k, sc, pc. now split. }
      eapply mrs_trans; [exact M1|]. apply mrs_same. intro t.
      destruct r0; [| |destruct kbd|]; cbv beta iota zeta in E; try (destruct (f_out _)); fin; reflexivity.
    + (* gen_send *)
      intros s i s' r Dd E. rewrite gen_send_S in E.
      destruct (get_gen s i) eqn:G; try (fin; apply mrs_refl).
      destruct (get (defs s) i) as [[k sc|t0 al kids]|] eqn:D; [| |fin; apply mrs_refl].
      * eapply mrs_trans; [|eapply Irs; [| |exact E]]; [apply mrs_same; reflexivity|exact Dd|rewrite <- Dd; exact D].
      * cbv zeta in E. destruct (recur_pass tk f _ i) as [s2 r0] eqn:Ee.
        assert (M2 : MRS s s2) by (eapply mrs_trans; [|eapply Irp; [|exact Ee]]; [apply mrs_same; reflexivity|exact Dd]).
        eapply mrs_trans; [exact M2|]. apply mrs_same.
        destruct r0; cbv beta iota zeta in E.
        -- match type of E with (if ?c then _ else _) = _ => destruct c end; fin; [|intro; reflexivity].
           apply NestEnd. intro; reflexivity.
        -- match type of E with (if ?c then _ else _) = _ => destruct c end; fin; [|intro; reflexivity].
           apply NestEnd. intro; reflexivity.
        -- fin. apply NestEnd. intro t. destruct kbd; reflexivity.
        -- fin. intro; reflexivity.
    + intros s i. apply mrs_same. intro t. apply Dcl.
    + intros s i. apply mrs_same. intro t. apply Dco.
    + intros s ds. apply mrs_same. intro t. apply Dli.
    + (* enter_own *)
      intros s sid ids s' r Dd E. rewrite enter_own_S in E.
      destruct ids as [|i rest]; [fin; apply mrs_refl|]. cbv zeta in E.
      destruct (gen_start tk f _ i) as [s1 r0] eqn:Eg.
      assert (M1 : MRS s s1) by (eapply mrs_trans; [|eapply Ist; [|exact Eg]]; [apply mrs_same; reflexivity|exact Dd]).
      assert (D1 : defs s1 = d) by (rewrite (Fst _ _ _ _ Eg); exact Dd).
      destruct r0; fin; try exact M1.
      * eapply mrs_trans; [exact M1|]. eapply mrs_trans; [|eapply Ieo; [|exact E]]; [apply mrs_same; intro x0; apply view3_deeds|exact D1].
      * eapply mrs_trans; [exact M1|]. eapply Ieo; [exact D1|exact E].
    + (* enter_local *)
      intros s ids acc s' r acc' Dd E. rewrite enter_local_S in E.
      destruct ids as [|i rest]; [fin; apply mrs_refl|]. cbv zeta in E.
      destruct (gen_start tk f _ i) as [s1 r0] eqn:Eg.
      assert (M1 : MRS s s1) by (eapply mrs_trans; [|eapply Ist; [|exact Eg]]; [apply mrs_same; reflexivity|exact Dd]).
      assert (D1 : defs s1 = d) by (rewrite (Fst _ _ _ _ Eg); exact Dd).
      destruct r0; fin; try exact M1.
      * eapply mrs_trans; [exact M1|]. eapply Iel; [exact D1|exact E].
      * eapply mrs_trans; [exact M1|]. eapply Iel; [exact D1|exact E].
      * eapply mrs_trans; [exact M1|]. apply mrs_same. intro t. apply Dli'.
    + (* run_effects *)
      intros s c es s' r Dd Fe E. rewrite run_effects_S in E.
      destruct es as [|e rest]; [fin; apply mrs_refl|].
      inversion Fe as [|e0 rest0 He Hrest]; subst.
      destruct (negb (live s match e with EExtend t0 _ => t0 | ERemove t0 _ => t0 end)); [eapply Ief; eassumption|].
      destruct e as [t' news|t' who]; cbv zeta in E.
      * destruct (enter_local tk f s _ []) as [[s1 r0] acc] eqn:Ee.
        assert (M1 : MRS s s1) by (eapply Iel; [exact Dd|exact Ee]).
        assert (D1 : defs s1 = d) by (rewrite (Fel _ _ _ _ _ _ Ee); exact Dd).
        assert (Ext : MRS s (emit (set_sched s1 t' {| doers := doers (get_sched s1 t') ++ dedupe (filter (fun x => negb (memN x (doers (get_sched s t')))) news) [];
                                                      deeds := deeds (get_sched s1 t') ++ acc |}) ExtRet c)).
        { destruct M1 as (ln & Fn & En & Sn).
          exists (ln ++ [(t', SExt (view3 s t') news)]). split; [apply Forall_app; split; [exact Fn|constructor; [exact He|constructor]]|]. split.
          - intro t. rewrite srun_app, <- En. unfold srun at 1, son_t. cbn [flat_map app]. unfold view3 at 1.
            change (get_sched (emit ?x ExtRet c) t) with (get_sched x t).
            destruct (N.eqb t' t) eqn:Et.
            + apply N.eqb_eq in Et. subst t'. rewrite sched_set_same. reflexivity.
            + apply N.eqb_neq in Et. rewrite sched_set_other by congruence. reflexivity.
          - intros n t snap news0 Hn. destruct (Nat.lt_ge_cases n (length ln)) as [Lt|Ge].
            + rewrite nth_error_app1 in Hn by exact Lt. destruct (Sn n t snap news0 Hn) as (m & Hm & Es).
              exists m. split; [exact Hm|]. rewrite firstn_app. replace (m - length ln)%nat with 0%nat by lia.
              cbn [firstn]. now rewrite app_nil_r.
            + rewrite nth_error_app2 in Hn by exact Ge. destruct (n - length ln)%nat as [|k'] eqn:Ek; [|destruct k'; discriminate].
              cbn in Hn. inversion Hn; subst. exists 0%nat. split; [lia|reflexivity]. }
        destruct r0; fin; try exact M1.
        -- eapply mrs_trans; [exact Ext|]. eapply Ief; [|exact Hrest|exact E]. exact D1.
        -- eapply mrs_trans; [exact Ext|]. eapply Ief; [|exact Hrest|exact E]. exact D1.
      * match type of E with run_effects tk f (emit (close_list tk f ?s1 ?l) RemRet c) c rest = _ =>
          assert (Rem : MRS s (emit (close_list tk f s1 l) RemRet c));
          [|eapply mrs_trans; [exact Rem|]; eapply Ief; [|exact Hrest|exact E];
            change (defs (close_list tk f s1 l) = d); rewrite Fli; exact Dd]
        end.
        exists [(t', SRem who)]. split; [constructor; [exact He|constructor]|]. split.
        -- intro t. unfold srun, son_t. cbn [flat_map app]. unfold view3.
           change (get_sched (emit ?x RemRet c) t) with (get_sched x t). rewrite Dli'.
           destruct (N.eqb t' t) eqn:Et.
           ++ apply N.eqb_eq in Et. subst t'. rewrite sched_set_same. reflexivity.
           ++ apply N.eqb_neq in Et. rewrite sched_set_other by congruence. reflexivity.
        -- intros n t snap news0 Hn. destruct n as [|n]; [discriminate|destruct n; discriminate].
    + intros s sid s' r Dd E. rewrite recur_pass_S in E. cbv zeta in E.
      eapply mrs_trans; [|eapply Irl; [|exact E]]; [apply mrs_same; intro x0; apply view3_deeds|exact Dd].
    + (* recur_loop *)
      intros s sid s' r Dd E. rewrite recur_loop_S in E.
      destruct (deeds (get_sched s sid)) as [|[|i re] rest]; [fin; apply mrs_refl|fin; apply mrs_same; intro x0; apply view3_deeds|].
      cbv zeta in E. destruct (tleb re _).
      * destruct (gen_send tk f _ i) as [s2 g] eqn:Eg.
        assert (M2 : MRS s s2) by (eapply mrs_trans; [|eapply Isd; [|exact Eg]]; [apply mrs_same; intro x0; apply view3_deeds|exact Dd]).
        assert (D2 : defs s2 = d) by (rewrite (Fsd _ _ _ _ Eg); exact Dd).
        destruct g; fin; try exact M2.
        -- eapply mrs_trans; [exact M2|]. eapply mrs_trans; [|eapply Irl; [|exact E]]; [apply mrs_same; intro x0; apply view3_deeds|exact D2].
        -- eapply mrs_trans; [exact M2|]. eapply Irl; [exact D2|exact E].
      * eapply mrs_trans; [|eapply Irl; [|exact E]]; [apply mrs_same; intro x0; rewrite !view3_deeds; reflexivity|exact Dd].
Qed.

Lemma mrs_close_end fuel s k : MRS s (emit (close_own tk fuel s 0%N) k 0%N).
Proof.
  apply mrs_same. intro t. destruct (doers_close tk fuel) as (_ & Dco & _).
  change (doers (get_sched (close_own tk fuel s 0%N) t) = view3 s t). apply Dco.
Qed.

Lemma cycle_mrs cycles : forall fuel s limit stop, defs s = d -> MRS s (cycle_loop tk cycles fuel s limit stop).
Proof.
  induction cycles as [|c IH]; intros fuel s limit stop Dd; cbn [cycle_loop].
  - apply mrs_same. reflexivity.
  - destruct (recur_pass tk fuel s 0%N) as [s1 r] eqn:E.
    destruct (mrs_all fuel) as (_ & _ & _ & _ & _ & _ & _ & _ & _ & Irp & _).
    assert (M1 : MRS s s1) by (eapply Irp; eassumption).
    assert (D1 : defs s1 = d).
    { rewrite <- Dd. destruct (frame_all tk fuel) as (_ & _ & _ & _ & _ & _ & _ & _ & _ & Frp & _).
      apply steps_defs. eapply Frp; [apply st_refl|exact E]. }
    eapply mrs_trans; [exact M1|].
    destruct r as [t| |[|]|]; try apply mrs_close_end; try apply mrs_refl.
    + destruct (deeds (get_sched (set_tyme s1 (tadd (tyme s1) tk)) 0%N)).
      * eapply mrs_trans; [|apply mrs_close_end]. apply mrs_same. reflexivity.
      * destruct (_ && _); [eapply mrs_trans; [|apply mrs_close_end]; apply mrs_same; reflexivity|].
        eapply mrs_trans; [|apply IH; exact D1]. apply mrs_same. reflexivity.
    + destruct (deeds (get_sched (set_tyme s1 (tadd (tyme s1) tk)) 0%N)).
      * eapply mrs_trans; [|apply mrs_close_end]. apply mrs_same. reflexivity.
      * destruct (_ && _); [eapply mrs_trans; [|apply mrs_close_end]; apply mrs_same; reflexivity|].
        eapply mrs_trans; [|apply IH; exact D1]. apply mrs_same. reflexivity.
Qed.

End Members3.

Section MembersRun3.
Context {T : Type} `{Time T}.

Theorem do_run_members_all cycles fuel (p : prog T) : MRS (p_defs p) (init_st p) (do_run cycles fuel p).
Proof.
  unfold do_run.
  destruct (enter_own (p_tock p) fuel (init_st p) 0%N (p_doers p)) as [s1 r] eqn:E.
  destruct (mrs_all (p_tock p) (p_defs p) fuel) as (_ & _ & _ & _ & _ & _ & Ieo & _).
  assert (M1 : MRS (p_defs p) (init_st p) s1) by (eapply Ieo; [reflexivity|exact E]).
  assert (D1 : defs s1 = p_defs p).
  { destruct (frame_all (p_tock p) fuel) as (_ & _ & _ & _ & _ & _ & Feo & _).
    apply (steps_defs (init_st p)). eapply Feo; [apply st_refl|exact E]. }
  eapply mrs_trans; [exact M1|].
  destruct r as [t| |k|].
  - eapply mrs_trans; [|apply cycle_mrs; exact D1]. apply mrs_same. reflexivity.
  - eapply mrs_trans; [|apply cycle_mrs; exact D1]. apply mrs_same. reflexivity.
  - apply mrs_close_end.
  - apply mrs_refl.
Qed.

End MembersRun3.
