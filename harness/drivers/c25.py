"""C25 — boxwork transitions run exit/enter actions in documented nested order.

A case is a box forest built directly from hio Box objects (over / unders links and ten act lists per box holding
trace-recording callables), driven through the real Boxer.run generator by a list of ops:
  ["start", first, fails]      next() + first send(): predo of first.pile, then enter it
  ["pass", gos, fails]         one send(): gos = [[box, goact index, dest], ...] are the goacts that return a box
                               during this pass, fails = [[box, preact index(, value code)], ...] the preacts that
                               return something other than True: code 0 False, 1 None, 2 0, 3 0.0, 4 '', 5 [] (falsy)
                               6 1, 7 'x', 8 object(), 9 [0], 10 2.5 (truthy); no code = False
  ["end"]                      set the boxer's end bag, one send()
The observation is, per op, the list of act calls [kind, box, index] and the boxer status afterwards.
"""
import itertools
from harness.core import coq_nat, coq_list, coq_bool, coq_option

PROP = "C25"
COQ_REQUIRES = ["Hio.Model.Box"]
COQ_CHECK = "Box.check_case"
COQ_CASE_TYPE = "Box.case"
COQ_BRANCHES = ("Box.case_branches", "Box.n_branches")
SHARD = 150
RULE = ("box forests of 1-7 boxes (random over links, random order of unders so the primary under varies, 0-2 acts in "
        "each of the ten act lists of every box) built from real Box objects with trace-recording acts; op sequences "
        "start / pass (scripted goacts; scripted preacts returning False, None, 0, 0.0, '', [] or truthy 1, 'x', object(), "
        "[0], 2.5 instead of True) / end through the real Boxer.run generator; thorough adds "
        "every forest of <= 5 boxes x every (near, far) pair x every firing level through the model and every forest "
        "shape of <= 6 boxes through the direct oracle; non-trivial = forest depth >= 3 and a transition that retains "
        ">= 2 boxes or is rejected by a precondition")
MODELLED = ["Python generator protocol of Boxer.run (as one model step per next/send)",
            "acts as trace-recording callables identified by (act list, box, index); the Hold bags run() writes are not modelled",
            "object identity of boxes (as equality of box numbers)"]

# what a listed preact returns, by code; Box.predo must go by truthiness
PVALUES = [lambda: False, lambda: None, lambda: 0, lambda: 0.0, lambda: "", lambda: [],
           lambda: 1, lambda: "x", lambda: object(), lambda: [0], lambda: 2.5]
PCOQ = ["Box.PFalse", "Box.PNone", "(Box.PInt 0%Z)", "(Box.PFloat true)", "(Box.PStr 0)", "(Box.PList 0)",
        "(Box.PInt 1%Z)", "(Box.PStr 1)", "Box.PObj", "(Box.PList 1)", "(Box.PFloat false)"]


def _code(e):
    return e[2] if len(e) > 2 else 0


def _falsy(fails):
    """the (box, index) pairs whose listed value is falsy (first listing wins, as in the model)"""
    seen, out = set(), set()
    for e in fails:
        k = (e[0], e[1])
        if k not in seen:
            seen.add(k)
            if _code(e) <= 5:
                out.add(k)
    return out


def _values(fails):
    vals = {}
    for e in fails:
        vals.setdefault((e[0], e[1]), _code(e))
    return vals


NABE = {"pre": "predo", "rm": "remark", "ren": "rendo", "em": "enmark", "en": "endo", "re": "redo", "af": "afdo",
        "ex": "exdo", "rex": "rexdo"}
KINDS = ["pre", "rm", "ren", "em", "en", "re", "af", "go", "ex", "rex"]
K = {k: i for i, k in enumerate(KINDS)}
ATTR = {"pre": "preacts", "rm": "remarks", "ren": "renacts", "em": "enmarks", "en": "enacts", "re": "reacts",
        "af": "afacts", "go": "goacts", "ex": "exacts", "rex": "rexacts"}
STRUCT = {K["rm"], K["ren"], K["em"], K["en"], K["ex"], K["rex"]}


# ----------------------------------------------------------------------------- forests

def forest(overs, order=None, counts=None):
    """overs[i] = over of box i or None; unders listed by number unless order (a key function) is given."""
    n = len(overs)
    unders = [[u for u in range(n) if overs[u] == b] for b in range(n)]
    if order:
        unders = [order(b, us) for b, us in enumerate(unders)]
    return {"overs": list(overs), "unders": unders, "counts": counts or [[1] * 10 for _ in range(n)]}


def consistent(case):
    ov, un = case["overs"], case["unders"]
    n = len(ov)
    for b in range(n):
        if sorted(un[b]) != [u for u in range(n) if ov[u] == b]:
            return False
    # acyclic
    for b in range(n):
        seen, x = set(), b
        while x is not None:
            if x in seen:
                return False
            seen.add(x); x = ov[x]
    return True


def spec_pile(case, b):
    ov, un = case["overs"], case["unders"]
    up, x = [], ov[b]
    while x is not None:
        up.insert(0, x); x = ov[x]
    dn, x = [], b
    while un[x]:
        x = un[x][0]; dn.append(x)
    return up + [b] + dn


def spec_split(nears, fars, far):
    """(common, near_only, far_only): forced re-entry cuts at far, otherwise at the end of the common prefix."""
    if far in nears:
        i = nears.index(far)
    else:
        i = 0
        while i < min(len(nears), len(fars)) and nears[i] == fars[i]:
            i += 1
    return nears[:i], nears[i:], fars[i:]


def depth(case):
    return max(len(spec_pile(case, b)) for b in range(len(case["overs"]))) if case["overs"] else 0


# ----------------------------------------------------------------------------- cases

def _w(n, **kw):
    c = [1] * 10
    for k, v in kw.items():
        c[K[k]] = v
    return [list(c) for _ in range(n)]


def directed():
    #      0
    #    1   4
    #   2 3   5
    f6 = forest([None, 0, 1, 1, 0, 4], counts=_w(6, go=2, pre=2, ex=2, en=2))
    f5 = forest([None, 0, 1, 1, 0], counts=_w(5, ex=2, rex=2, ren=2, rm=2))
    two = forest([None, None, 1])
    cases = [
        # D28a: 2 -> 3 retains 0 and 1 (re-exit bottom-up, re-enter top-down)
        dict(f5, ops=[["start", 2, []], ["pass", [[2, 0, 3]], []], ["end"]]),
        # D28c: rejected transition then an idle pass, then accepted
        dict(f5, ops=[["start", 3, []], ["pass", [[3, 0, 4]], [[4, 0]]], ["pass", [], []], ["pass", [[3, 0, 4]], []], ["end"]]),
        # D28d: active box is a non-primary under, an over's goact fires
        dict(f5, ops=[["start", 3, []], ["pass", [[1, 0, 4]], []], ["end"]]),
        # D28b: end from a deep pile
        dict(f6, ops=[["start", 0, []], ["end"]]),
        # failed start
        dict(f6, ops=[["start", 2, [[1, 1]]], ["pass", [], []], ["end"]]),
        # rejection followed by acceptance in the same pass; forced re-entry with and without a rejection before
        dict(f6, ops=[["start", 2, []], ["pass", [[0, 0, 5], [0, 1, 3]], [[5, 0]]],
                      ["pass", [[1, 0, 1]], []], ["pass", [[0, 0, 5], [1, 1, 0]], [[4, 1]]],
                      ["pass", [[2, 1, 2]], []], ["pass", [[1, 0, 5], [1, 1, 4]], [[5, 1], [4, 0]]], ["end"]]),
        # preconditions returning falsy values other than False (None, 0, 0.0, '', []) reject; truthy non-True values admit
        dict(f5, ops=[["start", 3, []], ["pass", [[3, 0, 4]], [[4, 0, 1]]], ["pass", [[3, 0, 4]], [[4, 0, 2]]],
                      ["pass", [[3, 0, 4]], [[4, 0, 3]]], ["pass", [[3, 0, 4]], [[4, 0, 4]]], ["pass", [[3, 0, 4]], [[4, 0, 5]]],
                      ["pass", [[3, 0, 4]], [[4, 0, 8]]], ["end"]]),
        dict(f5, ops=[["start", 2, [[1, 0, 1]]], ["end"]]),
        dict(f5, ops=[["start", 2, [[1, 0, 7], [2, 0, 10], [0, 0, 9]]], ["pass", [[2, 0, 3]], [[3, 0, 6]]], ["end"]]),
        dict(f6, ops=[["start", 2, []], ["pass", [[0, 0, 5], [0, 1, 3]], [[5, 0, 4], [3, 1, 2]]], ["end"]]),
        # boxwork declared with bx: nested box earlier, then an over=None box, then a default-over box (must be top level)
        dict(forest([None, 0, None, None, 3]), decl=[[0, "none"], [1, "name"], [2, "none"], [3, "default"], [4, "obj"]],
             ops=[["start", 1, []], ["pass", [[0, 0, 3]], []], ["pass", [[3, 0, 4]], []], ["end"]]),
        dict(forest([None, 0, 0, 1, None]), decl=[[0, "default"], [1, "obj"], [2, "default"], [3, "name"], [4, "none"]],
             ops=[["start", 3, []], ["pass", [[0, 0, 4]], []], ["end"]]),
        dict(f5, decl=[[0, "none"], [1, "name"], [2, "obj"], [3, "default"], [4, "name"]],
             ops=[["start", 2, []], ["pass", [[2, 0, 3]], []], ["end"]]),
        # acts declared with the verbs: be / do without nabe= under at("exdo"), at("rexdo"), at("rendo"), at("predo"), ...
        dict(forest([None, 0, 0], counts=[[1, 1, 1, 1, 1, 1, 1, 1, 1, 1]] * 3),
             decl=[[0, "none"], [1, "name"], [2, "default"]],
             verbs={"godest": [[0, 0, 2], [1, 0, 2], [2, 0, 1]],
                    "stmts": [[["at", "ex"], ["be", "ex", 0, False], ["at", "rex"], ["be", "rex", 0, False], ["at", "ren"],
                               ["do", "ren", 0, False], ["be", "rm", 0, True], ["at", "native"], ["be", "en", 0, False],
                               ["do", "em", 0, True], ["at", "pre"], ["do", "pre", 0, False], ["at", "re"], ["be", "re", 0, False],
                               ["at", "af"], ["do", "af", 0, False], ["go", 0, 2]]] +
                              [[["do", "en", 0, False], ["at", "ex"], ["be", "ex", 0, False], ["be", "rex", 0, True],
                                ["at", "pre"], ["be", "pre", 0, False], ["do", "rm", 0, True], ["do", "ren", 0, True],
                                ["be", "em", 0, True], ["do", "re", 0, True], ["be", "af", 0, True], ["go", 0, d]]
                               for d in (2, 1)]},
             ops=[["start", 1, []], ["pass", [[1, 0, 2]], []], ["pass", [[2, 0, 1]], [[1, 0, 1]]], ["pass", [[0, 0, 2]], []], ["end"]]),
        # registered act classes whose own default context is not endo, declared for endo: at("endo") + do(name) and
        # do(name, nabe="endo"); traced ones in the run, hio's own (count, discount, marks, end) built only
        dict(forest([None, 0], counts=[[0, 0, 0, 0, 2, 1, 0, 1, 1, 0]] * 2), decl=[[0, "none"], [1, "name"]],
             verbs={"godest": [[0, 0, 1], [1, 0, 0]],
                    "stmts": [[["at", "en"], ["reg", "en", 0, False, "re"], ["reg", "en", 1, True, "ex"], ["at", "native"],
                               ["reg", "re", 0, False, "re"], ["reg", "ex", 0, True, "af"], ["go", 0, 1]],
                              [["reg", "en", 0, True, "af"], ["at", "en"], ["reg", "en", 1, False, "em"],
                               ["at", "ex"], ["reg", "ex", 0, False, "re"], ["reg", "re", 0, True, "ex"], ["go", 0, 0]]],
                    "regs": [[["at", "en"], ["name", "count", None], ["name", "discount", "en"], ["name", "Mark", "en"],
                              ["at", "native"], ["name", "count", None], ["name", "discount", None], ["name", "RelapseMark", None],
                              ["name", "end", "ex"], ["at", "rex"], ["name", "LapseMark", None], ["name", "Count", "en"]],
                             [["name", "discount", "en"], ["at", "en"], ["name", "RelapseMark", None], ["name", "count", "pre"]]]},
             ops=[["start", 0, []], ["pass", [[0, 0, 1]], []], ["pass", [[1, 0, 0]], []], ["end"]]),
        # cross-tree transition, ops after the end are ignored
        dict(two, ops=[["start", 0, []], ["pass", [[0, 0, 2]], []], ["pass", [[1, 0, 0]], []], ["end"], ["pass", [], []], ["end"]]),
        # pass before start
        dict(two, ops=[["pass", [], []], ["end"], ["start", 1, []], ["start", 0, []]]),
        # inconsistent links (box 1 names 0 as over but is not among 0's unders): exen falls out of its loop
        {"overs": [None, 0], "unders": [[], []], "counts": _w(2), "ops": [["start", 0, []], ["pass", [[0, 0, 1]], []], ["end"]]},
    ]
    return cases


def random_forest(rng, n):
    overs = [None if (i == 0 or rng.random() < 0.15) else rng.randrange(i) for i in range(n)]
    def order(b, us):
        us = list(us); rng.shuffle(us); return us
    counts = [[rng.choice([0, 1, 1, 2]) for _ in range(10)] for _ in range(n)]
    for c in counts:
        c[K["go"]] = rng.choice([0, 1, 2, 2, 3])
    return forest(overs, order, counts)


def declare(rng, f, p_default=0.6):
    """a declaration order (an over before its unders, unders of one box in their order) and, per box, how over is
    given: by name, by object, None, or left to the default when the current level already is the intended over"""
    n = len(f["overs"])
    nxt = {b: 0 for b in range(n)}                      # next under of b to declare
    roots = [b for b in range(n) if f["overs"][b] is None]
    ready, decl, level, ri = [], [], None, 0
    # candidates: the next undeclared root (roots may come in any interleaving), or the next under of a declared box
    declared = []
    while len(declared) < n:
        cands = []
        if ri < len(roots):
            cands.append(roots[ri])
        for b in declared:
            if nxt[b] < len(f["unders"][b]):
                cands.append(f["unders"][b][nxt[b]])
        b = rng.choice(cands)
        ov = f["overs"][b]
        if ov is None:
            ri += 1
        else:
            nxt[ov] += 1
        if ov == level and rng.random() < p_default:
            mode = "default"
        elif ov is None:
            mode = "none"
        else:
            mode = rng.choice(["name", "obj"])
        decl.append([b, mode])
        declared.append(b)
        level = ov
    return decl


def random_case(rng):
    n = rng.choice([1, 2, 3, 4, 5, 5, 6, 6, 7, 7])
    f = random_forest(rng, n)
    # bias towards deep forests
    if rng.random() < 0.5 and n >= 4:
        f["overs"] = [None] + [max(0, i - rng.choice([1, 1, 2])) for i in range(1, n)]
        f = forest(f["overs"], lambda b, us: rng.sample(us, len(us)), f["counts"])
    ops = []
    first = rng.randrange(n)
    sfail = []
    if rng.random() < 0.1:
        p = spec_pile(f, first); b = rng.choice(p)
        if f["counts"][b][K["pre"]]:
            sfail = [[b, rng.randrange(f["counts"][b][K["pre"]]), rng.randrange(6)]]
    ops.append(["start", first, sfail])
    active = first
    for _ in range(rng.choice([1, 2, 3, 5, 8])):
        gos, fails = [], []
        pile = spec_pile(f, active)
        for _ in range(rng.choice([0, 1, 1, 2, 3])):
            b = rng.choice(pile) if rng.random() < 0.8 else rng.randrange(n)
            if f["counts"][b][K["go"]]:
                g = [b, rng.randrange(f["counts"][b][K["go"]]), rng.randrange(n)]
                if not any(x[:2] == g[:2] for x in gos):
                    gos.append(g)
        for g in gos:
            if rng.random() < 0.3:
                tgt = rng.choice(spec_pile(f, g[2]))
                if f["counts"][tgt][K["pre"]]:
                    fails.append([tgt, rng.randrange(f["counts"][tgt][K["pre"]]), rng.randrange(len(PVALUES))])
        ops.append(["pass", gos, fails])
        exp = _expected_pass(f, active, gos, fails)
        active = exp[1]
    if rng.random() < 0.8:
        ops.append(["end"])
    c = dict(f, ops=ops)
    if consistent(c) and rng.random() < 0.6:
        c["decl"] = declare(rng, f)
    return c


def exhaustive_cases(nmax, fail_variants=True, dedupe=False):
    """every forest (over has a smaller number, unders by number) x (near, far) x firing level [x failing far preact]"""
    seen = set()
    for n in range(1, nmax + 1):
        for choice in itertools.product(*[[None] + list(range(i)) for i in range(n)]):
            f = forest(list(choice))
            if dedupe:
                def shape(b):
                    return tuple(shape(u) for u in f["unders"][b])
                key = tuple(shape(b) for b in range(n) if f["overs"][b] is None)
                # keep the numbering-independent shape once, but only when numbering is preorder (canonical)
                pre = []
                def walk(b):
                    pre.append(b)
                    for u in f["unders"][b]:
                        walk(u)
                for b in range(n):
                    if f["overs"][b] is None:
                        walk(b)
                if pre != list(range(n)) or key in seen:
                    continue
                seen.add(key)
            for near in range(n):
                pile = spec_pile(f, near)
                for far in range(n):
                    for lvl in pile:
                        yield dict(f, ops=[["start", near, []], ["pass", [[lvl, 0, far]], []], ["end"]])
                    if fail_variants:
                        yield dict(f, ops=[["start", near, []], ["pass", [[pile[0], 0, far]], [[far, 0]]], ["end"]])


def declared_case(rng):
    """several trees, declared through bx with many default overs"""
    n = rng.choice([3, 4, 5, 6, 7])
    overs = [None if (i == 0 or rng.random() < 0.4) else rng.randrange(i) for i in range(n)]
    f = forest(overs, lambda b, us: rng.sample(us, len(us)))
    first = rng.randrange(n)
    ops = [["start", first, []]]
    active = first
    for _ in range(rng.choice([1, 2, 3])):
        b = rng.choice(spec_pile(f, active))
        gos = [[b, 0, rng.randrange(n)]]
        ops.append(["pass", gos, []])
        active = _expected_pass(f, active, gos, [])[1]
    ops.append(["end"])
    return dict(f, ops=ops, decl=declare(rng, f, 0.85))


def verb_statements(rng, f, godest):
    """per box: at(ctx) / do / be statements (with or without explicit nabe=) filing every act of the box under its
    context, acts of one context in index order, plus one go per goact"""
    out = []
    for b in range(len(f["overs"])):
        pend = {k: 0 for k in NABE}
        todo = [k for k in NABE for _ in range(f["counts"][b][K[k]])]
        gos = [["go", j, godest[(b, j)]] for j in range(f["counts"][b][K["go"]])]
        stmts, ctx = [], "native"
        while todo:
            k = rng.choice(todo)
            todo.remove(k)
            explicit = rng.random() < 0.4
            if not explicit:
                ok_native = ctx == "native" and k == "en"
                if ctx != k and not ok_native:
                    stmts.append(["at", k]); ctx = k
                elif rng.random() < 0.1:
                    stmts.append(["at", k]); ctx = k
            elif rng.random() < 0.3:
                other = rng.choice(list(NABE) + ["native"])       # an unrelated context is current; nabe= overrides it
                stmts.append(["at", other]); ctx = other
            verb = rng.choice(["do", "be", "reg"])
            if verb == "reg":
                # a registered class whose own default context is another one: the declared context must win
                dk = rng.choice(list(NABE))
                if not explicit and ctx == "native" and dk != k:
                    dk = k
                stmts.append(["reg", k, pend[k], explicit, dk])
            else:
                stmts.append([verb, k, pend[k], explicit])
            pend[k] += 1
            if gos and rng.random() < 0.3:
                stmts.append(gos.pop(0))
        out.append(stmts + gos)
    return out


def verb_case(rng):
    n = rng.choice([2, 3, 4, 5, 6])
    overs = [None if (i == 0 or rng.random() < 0.3) else rng.randrange(i) for i in range(n)]
    counts = [[rng.choice([0, 1, 1, 2]) for _ in range(10)] for _ in range(n)]
    for c in counts:
        c[K["go"]] = rng.choice([0, 1, 2])
    f = forest(overs, lambda b, us: rng.sample(us, len(us)), counts)
    godest = {(b, j): rng.randrange(n) for b in range(n) for j in range(counts[b][K["go"]])}
    first = rng.randrange(n)
    ops = [["start", first, []]]
    active = first
    for _ in range(rng.choice([1, 2, 3, 4])):
        gos, fails = [], []
        for b in spec_pile(f, active):
            for j in range(counts[b][K["go"]]):
                if rng.random() < 0.4:
                    gos.append([b, j, godest[(b, j)]])
        for g in gos:
            if rng.random() < 0.25:
                tgt = rng.choice(spec_pile(f, g[2]))
                if counts[tgt][K["pre"]]:
                    fails.append([tgt, rng.randrange(counts[tgt][K["pre"]]), rng.randrange(len(PVALUES))])
        ops.append(["pass", gos, fails])
        active = _expected_pass(f, active, gos, fails)[1]
    ops.append(["end"])
    regs = []
    for b in range(n):
        row = []
        for _ in range(rng.choice([0, 2, 4, 6])):
            if rng.random() < 0.35:
                row.append(["at", rng.choice(list(NABE) + ["native", "en", "en"])])
            else:
                row.append(["name", rng.choice(list(REGNAMES)), rng.choice([None, None, "en", "en", rng.choice(list(NABE))])])
        regs.append(row)
    return dict(f, ops=ops, decl=declare(rng, f, 0.5),
                verbs={"stmts": verb_statements(rng, f, godest), "godest": [[b, j, d] for (b, j), d in sorted(godest.items())],
                       "regs": regs})


def generate(rng, tier):
    out = [random_case(rng) for _ in range(700 if tier == "quick" else 6000)]
    out += [verb_case(rng) for _ in range(250 if tier == "quick" else 2500)]
    out += [declared_case(rng) for _ in range(200 if tier == "quick" else 2000)]
    if tier == "quick":
        out += list(exhaustive_cases(3))
    else:
        out += list(exhaustive_cases(5))
    return out


# ----------------------------------------------------------------------------- implementation

_traced = {}
_uniq = [0]
REGNAMES = {"count": "re", "discount": "ex", "Mark": "em", "LapseMark": "em", "RelapseMark": "rm", "end": "en",
            "Count": "re"}      # registered act classes usable without extra iops, and the kind of their default context


def traced_classes():
    """registered act classes (one per default context) whose act records the call like the do/be tracer does"""
    if not _traced:
        from hio.base.hier.acting import ActBase, register
        for kind in NABE:
            def init(self, nabe=NABE[kind], **kwa):
                ActBase.__init__(self, nabe=nabe, **kwa)

            def act(self, **iops):
                return type(self).Tracer(**self.iops)
            name = f"C25Act{kind}"
            cls = ActBase.Registry.get(name) or register()(type(name, (ActBase,), {"__init__": init, "act": act, "Tracer": None}))
            _traced[kind] = cls
    return _traced


def run_impl(case):
    from hio.base.hier.boxing import Box, Boxer
    from hio.base.hier import Bag
    n = len(case["overs"])
    trace, cur = [], {"gos": {}, "fails": {}}
    built, built_acts, reg_filed = None, None, None
    if case.get("decl"):
        # the boxwork is declared through Boxer.make() and the bx verb: over by name, by object, None, or default
        maker = Boxer(name="mkr")

        verbs = case.get("verbs")

        def tracer(**io):
            """deed of a do-act / rhs of a be-act: records the call; a precondition returns its scripted value"""
            trace.append([io["k"], io["b"], io["j"]])
            if io["k"] == K["pre"]:
                c = cur["fails"].get((io["b"], io["j"]))
                return True if c is None else PVALUES[c]()
            return True

        from hio.base.hier.needing import Need

        class TraceNeed(Need):
            """the need of a go-transition: records its evaluation, fires when scripted for this pass"""
            def __init__(self, b, j, **kwa):
                super().__init__(**kwa)
                self.ident = [K["go"], b, j]

            def __call__(self, **iops):
                trace.append(list(self.ident))
                return cur["gos"].get((self.ident[1], self.ident[2])) is not None

        if verbs:
            for cls in traced_classes().values():
                cls.Tracer = staticmethod(tracer)

        def fun(H, bx, go, do, on, at, be):
            made = {}
            if verbs:
                H["c25"] = Bag()
            for b, mode in case["decl"]:
                ov = case["overs"][b]
                if mode == "name":
                    made[b] = bx(name=f"b{b}", over=f"b{ov}")
                elif mode == "obj":
                    made[b] = bx(name=f"b{b}", over=made[ov])
                elif mode == "none":
                    made[b] = bx(name=f"b{b}", over=None)
                else:
                    made[b] = bx(name=f"b{b}")
                if not verbs:
                    continue
                # the acts of this box through the public verbs: at(context), do / be with or without nabe=, go
                for st in verbs["stmts"][b]:
                    if st[0] == "at":
                        at(NABE[st[1]] if st[1] != "native" else "native")
                    elif st[0] == "go":
                        go(f"b{st[2]}", TraceNeed(b, st[1], hold=H))
                    else:
                        verb, kind, j, explicit = st[:4]
                        kw = dict(nabe=NABE[kind]) if explicit else {}
                        if verb == "do":
                            do(tracer, k=K[kind], b=b, j=j, **kw)
                        elif verb == "reg":      # do(<registered class name>) whose own default context is st[4]
                            do(f"C25Act{st[4]}", k=K[kind], b=b, j=j, **kw)
                        else:
                            be("c25.value", tracer, k=K[kind], b=b, j=j, **kw)
        maker.make(fun)
        if verbs and verbs.get("regs"):
            # hio's own registered act classes by name, in every context: built only, never run
            maker2 = Boxer(name="mkr2")
            _uniq[0] += 1
            uniq = _uniq[0]          # act instance names are unique per process

            def fun2(H, bx, go, do, on, at, be):
                for b, _ in case["decl"]:
                    bx(name=f"b{b}", over=None)
                    for i, st in enumerate(verbs["regs"][b]):
                        if st[0] == "at":
                            at(NABE[st[1]] if st[1] != "native" else "native")
                        else:
                            do(st[1], name=f"c25r{uniq}x{b}x{i}", **(dict(nabe=NABE[st[2]]) if st[2] else {}))
            maker2.make(fun2)
            reg_filed = [[i, [[K[kind], [int(a.name.rsplit("x", 1)[1]) for a in getattr(maker2.boxes[f"b{i}"], ATTR[kind])
                                         if getattr(a, "name", "").startswith(f"c25r{uniq}x")]] for kind in KINDS if kind != "go"]]
                         for i in range(n)]
        boxes = [maker.boxes[f"b{i}"] for i in range(n)]
        idx = {id(b): i for i, b in enumerate(boxes)}
        built = [[b, idx.get(id(boxes[b].over)) if boxes[b].over is not None else None,
                  [idx.get(id(u), -1) for u in boxes[b].unders], [idx.get(id(x), -1) for x in boxes[b].pile]]
                 for b, _ in case["decl"]]
        for b in boxes:
            b._pile = None      # piles are traced again after the links were inspected
        if verbs:
            def ident(a):
                if hasattr(a, "need") and hasattr(a.need, "ident"):
                    return list(a.need.ident)
                io = getattr(a, "iops", {})
                return [io.get("k", -1), io.get("b", -1), io.get("j", -1)]
            built_acts = [[i, [[K[kind], [ident(a) for a in getattr(bx_, ATTR[kind])]] for kind in KINDS]]
                          for i, bx_ in enumerate(boxes)]
    else:
        boxes = [Box(name=f"b{i}") for i in range(n)]
        for i, b in enumerate(boxes):
            b.over = boxes[case["overs"][i]] if case["overs"][i] is not None else None
            b.unders = [boxes[u] for u in case["unders"][i]]
    for i, b in enumerate(boxes):
        if case.get("verbs"):
            break           # the acts were declared with the verbs
        for kind in KINDS:
            lst = getattr(b, ATTR[kind])
            for j in range(case["counts"][i][K[kind]]):
                if kind == "pre":
                    def act(i=i, j=j):
                        trace.append([K["pre"], i, j])
                        c = cur["fails"].get((i, j))
                        return True if c is None else PVALUES[c]()
                elif kind == "go":
                    def act(i=i, j=j):
                        trace.append([K["go"], i, j])
                        d = cur["gos"].get((i, j))
                        return boxes[d] if d is not None else None
                else:
                    def act(i=i, j=j, kind=kind):
                        trace.append([K[kind], i, j])
                lst.append(act)
    boxer = Boxer(name="bxr")
    boxer.boxes = {b.name: b for b in boxes}
    gen, status, tyme = None, ["idle"], 0.0
    obs = []

    def drive(f):
        nonlocal status
        try:
            f()
            status = ["active", boxes.index(boxer.box)]
        except StopIteration as ex:
            status = ["done", bool(ex.value)]
        except TypeError:
            status = ["crashed"]

    for op in case["ops"]:
        del trace[:]
        if op[0] == "start" and status == ["idle"]:
            boxer.first = boxes[op[1]]
            cur["gos"], cur["fails"] = {}, _values(op[2])
            gen = boxer.run(tock=0.0)
            drive(lambda: next(gen))
            if status[0] == "active":
                drive(lambda: gen.send(tyme))
        elif op[0] == "pass" and status[0] == "active":
            tyme += 1.0
            cur["gos"] = {(b, k): d for b, k, d in op[1]}
            cur["fails"] = _values(op[2])
            drive(lambda: gen.send(tyme))
        elif op[0] == "end" and status[0] == "active":
            tyme += 1.0
            cur["gos"], cur["fails"] = {}, {}
            boxer.hold[("", "boxer", "bxr", "end")] = Bag(value=True)
            drive(lambda: gen.send(tyme))
        obs.append({"status": list(status), "trace": [list(e) for e in trace]})
    # last element: what bx built, per declared box [box, over, unders, pile] (None when the boxes were linked directly)
    obs.append({"built": built, "acts": built_acts, "regs": reg_filed})
    return obs


# ----------------------------------------------------------------------------- oracle (the property, directly)

def _acts(case, kinds, boxes):
    out = []
    for b in boxes:
        for kind in kinds:
            out += [[K[kind], b, j] for j in range(case["counts"][b][K[kind]])]
    return out


def _pre_ok(case, fails, boxes):
    fails = _falsy(fails)
    for b in boxes:
        for j in range(case["counts"][b][K["pre"]]):
            if (b, j) in fails:
                return False
    return True


def _expected_pass(case, active, gos, fails):
    """(structural events, new active box, retained count, rejected?) the property demands of one pass"""
    nears = spec_pile(case, active)
    rejected = False
    for b in nears:
        for k in range(case["counts"][b][K["go"]]):
            dest = next((d for bb, kk, d in gos if bb == b and kk == k), None)
            if dest is None:
                continue
            common, near_only, far_only = spec_split(nears, spec_pile(case, dest), dest)
            if not _pre_ok(case, fails, far_only):
                rejected = True
                continue
            ev = (_acts(case, ["ex"], near_only[::-1]) + _acts(case, ["rex"], common[::-1]) +
                  _acts(case, ["rm", "ren"], common) + _acts(case, ["em", "en"], far_only))
            return ev, dest, len(common), rejected
    return [], active, 0, rejected


def oracle(case, obs):
    last = obs[-1]
    built, acts, obs = obs[-1]["built"], obs[-1].get("acts"), obs[:-1]
    if built is not None:
        for b, ov, un, pile in built:
            if ov != case["overs"][b] or un != case["unders"][b] or pile != spec_pile(case, b):
                return (f"bx built box {b} with over {ov}, unders {un}, pile {pile}; declared: over {case['overs'][b]}, "
                        f"unders {case['unders'][b]}, pile {spec_pile(case, b)} (declarations {case['decl']})")
    if acts is not None:
        for b, lists in acts:
            for k, got in lists:
                want = [[k, b, j] for j in range(case["counts"][b][k])]
                if got != want:
                    return (f"the verbs filed under {KINDS[k]} of box {b}: {got}; declared: {want} "
                            f"(statements {case['verbs']['stmts'][b]})")
    regs = last.get("regs")
    if regs is not None:
        for b, lists in regs:
            want, ctx = {k: [] for k in range(10)}, "native"
            for i, st in enumerate(case["verbs"]["regs"][b]):
                if st[0] == "at":
                    ctx = st[1]
                else:
                    eff = st[2] or (ctx if ctx != "native" else REGNAMES[st[1]])
                    want[K[eff]].append(i)
            for k, got in lists:
                if got != want[k]:
                    return (f"do(<registered class>) statements of box {b} filed under {KINDS[k]}: {got}; by explicit nabe=, "
                            f"else at() context, else class default: {want[k]} (statements {case['verbs']['regs'][b]})")
    if not consistent(case):
        return None          # the property speaks about box trees
    status = ["idle"]
    for n, (op, o) in enumerate(zip(case["ops"], obs)):
        struct = [e for e in o["trace"] if e[0] in STRUCT]
        if op[0] == "start" and status == ["idle"]:
            pile = spec_pile(case, op[1])
            if _pre_ok(case, op[2], pile):
                exp, status = _acts(case, ["em", "en"], pile), ["active", op[1]]
            else:
                exp, status = [], ["done", False]
        elif op[0] == "pass" and status[0] == "active":
            exp, new, _, _ = _expected_pass(case, status[1], op[1], op[2])
            status = ["active", new]
        elif op[0] == "end" and status[0] == "active":
            exp = _acts(case, ["ex"], spec_pile(case, status[1])[::-1])
            status = ["done", True]
        else:
            exp = []
        if struct != exp:
            return (f"op {n} {op[0]}: exit/enter actions ran as {_fmt(struct)} but the documented nested order is "
                    f"{_fmt(exp)}")
        if o["status"] != status:
            return f"op {n} {op[0]}: boxer status {o['status']} but expected {status}"
    return None


def _fmt(evs):
    return " ".join(f"{KINDS[k]}{j}@{b}" for k, b, j in evs) or "(none)"


def nontrivial(case, obs):
    obs = obs[:-1]
    if not consistent(case) or depth(case) < 3:
        return False
    status = ["idle"]
    for op in case["ops"]:
        if op[0] == "start" and status == ["idle"]:
            status = ["active", op[1]] if _pre_ok(case, op[2], spec_pile(case, op[1])) else ["done", False]
        elif op[0] == "pass" and status[0] == "active":
            ev, new, kept, rej = _expected_pass(case, status[1], op[1], op[2])
            if kept >= 2 or rej:
                return True
            status = ["active", new]
        elif op[0] == "end":
            status = ["done", True]
    return False


def classify(case, obs, why):
    return None


def shrink(case):
    ops = case["ops"]
    for i in range(1, len(ops)):
        yield dict(case, ops=ops[:i] + ops[i + 1:])
    for i, op in enumerate(ops):
        if op[0] == "pass":
            for j in range(len(op[1])):
                yield dict(case, ops=ops[:i] + [["pass", op[1][:j] + op[1][j + 1:], op[2]]] + ops[i + 1:])
            for j in range(len(op[2])):
                yield dict(case, ops=ops[:i] + [["pass", op[1], op[2][:j] + op[2][j + 1:]]] + ops[i + 1:])


# ----------------------------------------------------------------------------- Gallina

def _pairs(l):
    return coq_list([f"({a}, {b})" for a, b in l], "nat * nat")


def _fails(l):
    return coq_list([f"({e[0]}, {e[1]}, {PCOQ[_code(e)]})" for e in l], "nat * nat * Box.pyv")


def _op(op):
    if op[0] == "start":
        return f"(Box.Start {op[1]} {_fails(op[2])})"
    if op[0] == "pass":
        gos = coq_list([f"({b}, {k}, {d})" for b, k, d in op[1]], "nat * nat * nat")
        return f"(Box.Pass {gos} {_fails(op[2])})"
    return "Box.End"


def _status(s):
    if s[0] == "idle":
        return "Box.Idle"
    if s[0] == "active":
        return f"(Box.Active {s[1]})"
    if s[0] == "done":
        return f"(Box.Done {coq_bool(s[1])})"
    return "Box.Crashed"


def to_coq(case, obs):
    fo = ("{| Box.overs := %s; Box.unders := %s; Box.counts := %s |}" % (
        coq_list([coq_option(o, str, "nat") for o in case["overs"]], "option nat"),
        coq_list([coq_list(map(str, u), "nat") for u in case["unders"]], "list nat"),
        coq_list([coq_list(map(str, c), "nat") for c in case["counts"]], "list nat")))
    built, acts, regs, obs = obs[-1]["built"], obs[-1].get("acts"), obs[-1].get("regs"), obs[:-1]
    ob = coq_list(["(%s, %s)" % (_status(o["status"]), coq_list([f"Box.E {k} {b} {j}" for k, b, j in o["trace"]], "Box.ev"))
                   for o in obs], "Box.status * list Box.ev")
    mode = {"name": lambda b: f"(Box.MExplicit {case['overs'][b]})", "obj": lambda b: f"(Box.MExplicit {case['overs'][b]})",
            "none": lambda b: "Box.MNone", "default": lambda b: "Box.MDefault"}
    decl = coq_list([f"({b}, {mode[m](b)})" for b, m in case.get("decl") or []], "nat * Box.omode")
    bl = coq_list(["(%d, %s, %s)" % (b, coq_option(ov, str, "nat"), coq_list([str(max(u, 0) if u >= 0 else 999) for u in un], "nat"))
                   for b, ov, un, _ in (built or [])], "nat * option nat * list nat")
    stmts, filed = [], []
    if case.get("verbs") and acts is not None:
        for b, ss in enumerate(case["verbs"]["stmts"]):
            row = []
            for st in ss:
                if st[0] == "at":
                    row.append(f"(Box.SAt {0 if st[1] == 'native' else K[st[1]] + 1})")
                elif st[0] != "go":
                    kind, j, explicit = st[1:4]
                    dflt = K[st[4]] + 1 if st[0] == "reg" else 5
                    row.append("(Box.SAct %s %d %d %d)" % (f"(Some {K[kind] + 1})" if explicit else "None", dflt, K[kind], j))
            stmts.append(coq_list(row, "Box.stmt"))
        for b, lists in acts:
            filed.append(coq_list(["(%d, %s)" % (k + 1, coq_list([f"({a[0]}, {a[2]})" for a in got], "nat * nat"))
                                   for k, got in lists if k != K["go"]], "nat * list (nat * nat)"))
    rstmts, rfiled = [], []
    if regs is not None:
        for b, ss in enumerate(case["verbs"]["regs"]):
            row = []
            for i, st in enumerate(ss):
                if st[0] == "at":
                    row.append(f"(Box.SAt {0 if st[1] == 'native' else K[st[1]] + 1})")
                else:
                    row.append("(Box.SAct %s %d 99 %d)" % (f"(Some {K[st[2]] + 1})" if st[2] else "None",
                                                          K[REGNAMES[st[1]]] + 1, i))
            rstmts.append(coq_list(row, "Box.stmt"))
        for b, lists in regs:
            rfiled.append(coq_list(["(%d, %s)" % (k + 1, coq_list([f"(99, {i})" for i in got], "nat * nat"))
                                    for k, got in lists], "nat * list (nat * nat)"))
    return ("{| Box.c_forest := %s; Box.c_ops := %s; Box.c_obs := %s; Box.c_decl := %s; Box.c_built := %s; "
            "Box.c_stmts := %s; Box.c_filed := %s; Box.c_rstmts := %s; Box.c_rfiled := %s |}" % (
                fo, coq_list([_op(o) for o in case["ops"]], "Box.op"), ob, decl, bl,
                coq_list(stmts, "list Box.stmt"), coq_list(filed, "list (nat * list (nat * nat))"),
                coq_list(rstmts, "list Box.stmt"), coq_list(rfiled, "list (nat * list (nat * nat))")))


def distribution(cases, obs):
    kinds = {"sibling/cousin": 0, "to-ancestor/self (forced re-entry)": 0, "to-descendant": 0, "cross-tree": 0, "rejected": 0}
    for c in cases:
        if not consistent(c):
            continue
        status = ["idle"]
        for op in c["ops"]:
            if op[0] == "start" and status == ["idle"]:
                status = ["active", op[1]] if _pre_ok(c, op[2], spec_pile(c, op[1])) else ["done", False]
            elif op[0] == "pass" and status[0] == "active":
                nears = spec_pile(c, status[1])
                ev, new, kept, rej = _expected_pass(c, status[1], op[1], op[2])
                if rej:
                    kinds["rejected"] += 1
                if ev or new != status[1]:
                    fars = spec_pile(c, new)
                    if new in nears:
                        kinds["to-ancestor/self (forced re-entry)"] += 1
                    elif nears[0] != fars[0]:
                        kinds["cross-tree"] += 1
                    elif status[1] in fars:
                        kinds["to-descendant"] += 1
                    else:
                        kinds["sibling/cousin"] += 1
                status = ["active", new]
            elif op[0] == "end":
                status = ["done", True]
    return kinds


def extra(tier, ctx):
    """thorough: every ordered forest shape of <= 6 boxes x (near, far) x firing level, with and without a failing
    precondition, through the real Boxer against the direct oracle"""
    if tier != "thorough":
        return {}
    n = bad = 0
    for case in exhaustive_cases(6, dedupe=True):
        n += 1
        why = oracle(case, run_impl(case))
        if why is not None:
            bad += 1
            if bad <= 2:
                ctx.violations.append({"kind": "exhaustive", "why": why, "case": case})
    return {"exhaustive": True, "exhaustive_domain": f"all ordered box forests with <= 6 boxes x all (near, far) pairs x all "
            f"firing levels, plus a failing far precondition: {n} transitions through the real Boxer.run",
            "exhaustive_failures": bad}
