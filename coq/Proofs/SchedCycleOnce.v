(* C03 for DYNAMIC programs (extend / remove during a pass, nested DoDoers, faults):
   in one recur pass of a scheduler every doer is sent at most once, and the
   doers sent are a sub-sequence of what was in front of the pass's marker.
   Built on Proofs/SchedDequePass.v (a pass sends only deeds in front of its marker:
   loop_sent_sub) and Proofs/SchedDequeUniq.v (no doer is held by two deeds:
   hold2_all); added here: the deque of the scheduler whose pass it is, is
   mark-free again when the pass ends, so the statement holds for every cycle of a run. *)
From Hio Require Import Base.Prelude Base.AMap Base.Time Model.Sched Proofs.SchedEqs Proofs.SchedFrame Proofs.SchedLife
  Proofs.SchedDeque Proofs.SchedDequeHold Proofs.SchedDequeAll Proofs.SchedDequeEffects Proofs.SchedDequeEpos
  Proofs.SchedDequeSortB Proofs.SchedDequeUniq Proofs.SchedDequePass Proofs.SchedDequeTop Proofs.SchedDequeTop2
  Proofs.SchedCycleTick Proofs.SchedCycleDue Proofs.SchedCycleStop.

Section Once.
Context {T : Type} `{Time T}.
Implicit Types s : st T.
Variable tk : T.

Lemma sub_In (l1 l2 : list id) x : subseq l1 l2 -> In x l1 -> In x l2.
Proof. induction 1; intro I; [destruct I|destruct I as [<-|I]; [now left|right; auto]|right; auto]. Qed.

Lemma sub_NoDup (l1 l2 : list id) : subseq l1 l2 -> NoDup l2 -> NoDup l1.
Proof.
  induction 1 as [l|x l1 l2 S IH|x l1 l2 S IH]; intro N; [constructor| |].
  - inversion N as [|? ? Nin N']; subst. constructor; [|now apply IH].
    intro I. apply Nin. eapply sub_In; eassumption.
  - apply IH. now inversion N.
Qed.

Lemma hold2_nodup s X x : Hold2 s X -> NoDup (qids s x).
Proof.
  intros [_ U]. apply (NoDup_count_occ N.eq_dec). intro y.
  specialize (U [x] (nodup1 x) y). unfold allq in U. cbn [flat_map] in U. rewrite app_nil_r in U.
  unfold qids, cnt in *. lia.
Qed.

Lemma grow_mf (l' l : list (deed T)) : grow l' l -> mf l -> mf l'.
Proof. intros (q & add & -> & Ma) M. apply mf_app. split; [now apply mf_filter|exact Ma]. Qed.

(* ---------- one pass: at most once, in deque order ---------- *)

Theorem pass_once f s x (u rr : list (deed T)) s' r l :
  prot s x -> dq s x = u ++ DMark :: rr -> mf u -> NoDup (dids u) ->
  loop_sent tk f s x = (s', r, l) ->
  recur_loop tk f s x = (s', r) /\ subseq l (dids u) /\ NoDup l.
Proof.
  intros P Q M N E. split; [rewrite <- loop_sent_erase, E; reflexivity|].
  assert (S : subseq l (dids u)) by (eapply loop_sent_sub; eassumption).
  split; [exact S|eapply sub_NoDup; eassumption].
Qed.

(* ---------- the marker is gone when the pass has ended normally ---------- *)

Lemma loop_mf : forall f s x (u rr : list (deed T)) s' r,
  prot s x -> dq s x = u ++ DMark :: rr -> mf u -> mf rr ->
  recur_loop tk f s x = (s', r) -> pass_ok r = true -> mf (dq s' x).
Proof.
  induction f as [|f IH]; intros s x u rr s' r P Q Mu Mr E Ok; [rewrite recur_loop_O in E; inversion E; subst; discriminate|].
  rewrite recur_loop_S in E. change (deeds (get_sched s x)) with (dq s x) in E. rewrite Q in E.
  destruct u as [|[|i re] u']; cbn [app] in E.
  - inversion E; subst. rewrite dq_deeds_same. exact Mr.
  - exfalso. apply Mu. now left.
  - cbv zeta in E.
    assert (Mu' : mf u') by (intro Hin; apply Mu; now right).
    set (s1 := set_deeds s x (u' ++ DMark :: rr)) in *.
    assert (P1 : prot s1 x) by (apply (prot_same s); [reflexivity|reflexivity|exact P]).
    destruct (tleb re (tyme s1)).
    + destruct (gen_send tk f s1 i) as [s2 g] eqn:Eg.
      destruct (grw_all tk x f) as (_ & _ & Gsd & _).
      destruct (Gsd s1 s1 i s2 g P1 (grow_refl _) Eg) as (q & add & Eq & Ma).
      unfold s1 in Eq. rewrite dq_deeds_same, filter_app in Eq. cbn [filter keepf] in Eq.
      rewrite <- app_assoc in Eq. cbn [app] in Eq.
      assert (P2 : prot s2 x) by (destruct (prot_all tk f x) as (_ & K & _); eapply K; [exact P1|exact Eg]).
      destruct g as [t| |kbd|].
      * eapply (IH _ x (filter (keepf q) u')); [| | | |exact E|exact Ok].
        -- apply (prot_same s2); [reflexivity|reflexivity|exact P2].
        -- rewrite dq_deeds_same. change (deeds (get_sched s2 x)) with (dq s2 x). rewrite Eq, <- app_assoc. cbn [app].
           rewrite <- app_assoc. reflexivity.
        -- now apply mf_filter.
        -- apply mf_app. split; [now apply mf_filter|]. apply mf_app. split; [exact Ma|]. intros [X|[]]. discriminate.
      * eapply (IH _ x (filter (keepf q) u')); [exact P2|exact Eq|now apply mf_filter| |exact E|exact Ok].
        apply mf_app. split; [now apply mf_filter|exact Ma].
      * inversion E; subst. discriminate.
      * inversion E; subst. discriminate.
    + eapply (IH _ x u' (rr ++ [DDeed i re])); [| |exact Mu'| |exact E|exact Ok].
      * apply (prot_same s1); [reflexivity|reflexivity|exact P1].
      * rewrite dq_deeds_same, <- app_assoc. reflexivity.
      * apply mf_app. split; [exact Mr|]. intros [X|[]]. discriminate.
Qed.

(* enter() of the root keeps its deque mark-free *)
Lemma enter_mf : forall ids f s s' r,
  prot s 0%N -> mf (dq s 0%N) -> enter_own tk f s 0%N ids = (s', r) -> mf (dq s' 0%N) /\ prot s' 0%N.
Proof.
  induction ids as [|i ids IH]; intros f s s' r P M E.
  - destruct f as [|f]; [rewrite enter_own_O in E|rewrite enter_own_S in E]; inversion E; subst; split; assumption.
  - destruct f as [|f]; [rewrite enter_own_O in E; inversion E; subst; split; assumption|].
    rewrite enter_own_S in E. cbv zeta in E.
    set (s0 := set_done s i (Some false)) in *.
    assert (P0 : prot s0 0%N) by (apply (prot_same s); [reflexivity|reflexivity|exact P]).
    destruct (gen_start tk f s0 i) as [s1 g] eqn:Eg.
    destruct (grw_all tk 0%N f) as (Gst & _).
    pose proof (Gst s0 s0 i s1 g P0 (grow_refl _) Eg) as G1.
    assert (M1 : mf (dq s1 0%N)) by (eapply grow_mf; [exact G1|exact M]).
    assert (P1 : prot s1 0%N).
    { destruct (prot_more tk f 0%N) as (K & _). eapply K; [exact P0|exact Eg]. }
    destruct g as [t| |kbd|]; try (inversion E; subst; split; assumption).
    + eapply (IH f _ s' r); [| |exact E].
      * apply (prot_same s1); [reflexivity|reflexivity|exact P1].
      * rewrite dq_deeds_same. change (deeds (get_sched s1 0%N)) with (dq s1 0%N).
        apply mf_app. split; [exact M1|]. intros [X|[]]. discriminate.
    + eapply (IH f _ s' r); [exact P1|exact M1|exact E].
Qed.

(* ---------- every cycle of a run ---------- *)

(* the doers sent by the root pass that starts in state s, in the order sent *)
Definition root_sent (fuel : nat) s : list id :=
  snd (loop_sent tk (pred fuel) (set_deeds s 0%N (dq s 0%N ++ [DMark])) 0%N).

Lemma root_sent_pass fuel s :
  fst (loop_sent tk (pred fuel) (set_deeds s 0%N (dq s 0%N ++ [DMark])) 0%N) = recur_pass tk (S (pred fuel)) s 0%N.
Proof. rewrite loop_sent_erase, recur_pass_S. reflexivity. Qed.

Theorem root_pass_once fuel s X :
  Hold2 s X -> get (defs s) 0%N = None -> mf (dq s 0%N) ->
  NoDup (root_sent fuel s) /\ subseq (root_sent fuel s) (qids s 0%N).
Proof.
  intros Hh D0 M. unfold root_sent.
  destruct (loop_sent tk (pred fuel) _ 0%N) as [[s' r] l] eqn:E. cbn [snd].
  assert (P : prot (set_deeds s 0%N (dq s 0%N ++ [DMark])) 0%N) by (right; split; [reflexivity|exact D0]).
  assert (Q : dq (set_deeds s 0%N (dq s 0%N ++ [DMark])) 0%N = dq s 0%N ++ DMark :: []) by apply dq_deeds_same.
  destruct (pass_once _ _ 0%N (dq s 0%N) [] s' r l P Q M (hold2_nodup s X 0%N Hh) E) as (_ & S & N).
  split; assumption.
Qed.

End Once.

Section OnceRun.
Context {T : Type} `{Time T}.

(* invariant at the start of every cycle *)
Definition cyc_inv (p : prog T) (s : st T) : Prop :=
  I2 s [] /\ defs s = p_defs p /\ (oof s = false -> mf (dq s 0%N)).

Lemma cyc_inv_entered fuel (p : prog T) :
  get (p_defs p) 0%N = None -> enter_ok fuel p = true -> cyc_inv p (entered fuel p).
Proof.
  intros D0 Ok. unfold entered, enter_ok in *.
  destruct (enter_own (p_tock p) fuel (init_st p) 0%N (p_doers p)) as [s1 r] eqn:E. cbn [fst snd] in *.
  destruct (hold2_all (p_tock p) fuel) as (_ & _ & _ & _ & _ & _ & Jeo & _).
  split; [apply i2_rlive; eapply Jeo; [right; apply hold2_init|exact E]|].
  split; [exact (steps_defs _ _ (enter_own_steps _ _ _ _ _ _ _ E))|].
  intros _. change (dq (set_rlive s1 true) 0%N) with (dq s1 0%N).
  eapply (enter_mf (p_tock p) (p_doers p) fuel (init_st p) s1 r); [right; split; [reflexivity|exact D0]| |exact E].
  unfold dq. rewrite init_deeds. intros [].
Qed.

Lemma cyc_inv_step fuel (p : prog T) s :
  get (p_defs p) 0%N = None -> cyc_inv p s -> cycle_ok (p_tock p) fuel s = true ->
  cyc_inv p (cycle_end (p_tock p) fuel s).
Proof.
  intros D0 (I & Df & M) Ok. unfold cycle_end, cycle_ok in *.
  destruct (recur_pass (p_tock p) fuel s 0%N) as [s1 r] eqn:E. cbn [fst snd] in *.
  destruct (hold2_all (p_tock p) fuel) as (_ & _ & _ & _ & _ & _ & _ & _ & _ & Jrp & _).
  assert (Df1 : defs s1 = p_defs p) by (rewrite (steps_defs _ _ (recur_pass_steps _ _ _ _ _ _ E)); exact Df).
  split; [apply i2_tyme; eapply Jrp; [exact I|exact E]|]. split; [exact Df1|].
  intro O1. change (dq (set_tyme s1 _) 0%N) with (dq s1 0%N). change (oof (set_tyme s1 _)) with (oof s1) in O1.
  assert (O : oof s = false).
  { destruct (oof s) eqn:X; [|reflexivity]. rewrite (steps_oof _ _ (recur_pass_steps _ _ _ _ _ _ E) X) in O1. discriminate. }
  destruct fuel as [|f]; [rewrite recur_pass_O in E; inversion E; subst; discriminate|].
  rewrite recur_pass_S in E. cbv zeta in E.
  eapply (loop_mf (p_tock p) f _ 0%N (dq s 0%N) [] s1 r); [| |exact (M O)|intros []|exact E|exact Ok].
  - right. split; [reflexivity|]. cbn [defs set_deeds set_sched]. now rewrite Df.
  - apply dq_deeds_same.
Qed.

Lemma cyc_inv_after fuel (p : prog T) : forall k s,
  get (p_defs p) 0%N = None -> cyc_inv p s ->
  (forall j, (j < k)%nat -> cycle_ok (p_tock p) fuel (after (p_tock p) fuel s j) = true) ->
  cyc_inv p (after (p_tock p) fuel s k).
Proof.
  induction k as [|k IH]; intros s D0 C Ok; [exact C|]. cbn [after]. apply IH; [exact D0| |].
  - apply cyc_inv_step; [exact D0|exact C|exact (Ok 0%nat (Nat.lt_0_succ _))].
  - intros j Hj. apply (Ok (S j)). lia.
Qed.

(* in every cycle of every run: each doer is sent at most once by the root's pass,
   in the order of the root deque at the start of the cycle *)
Theorem run_pass_once fuel (p : prog T) k :
  let tk := p_tock p in let s := after tk fuel (entered fuel p) k in
  get (p_defs p) 0%N = None -> enter_ok fuel p = true ->
  (forall j, (j < k)%nat -> cycle_ok tk fuel (after tk fuel (entered fuel p) j) = true) ->
  oof s = false ->
  NoDup (root_sent tk fuel s) /\ subseq (root_sent tk fuel s) (qids s 0%N).
Proof.
  cbv zeta. intros D0 Ok Oks O.
  destruct (cyc_inv_after fuel p k (entered fuel p) D0 (cyc_inv_entered fuel p D0 Ok) Oks) as (I & Df & M).
  destruct I as [X|Hh]; [congruence|].
  eapply root_pass_once; [exact Hh|now rewrite Df|exact (M O)].
Qed.

End OnceRun.
