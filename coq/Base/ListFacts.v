(* Small list lemmas shared by proof files. *)
From Hio Require Import Base.Prelude.

Lemma list_eqb_refl {A} (eqb : A -> A -> bool) :
  (forall a, eqb a a = true) -> forall l, list_eqb eqb l l = true.
Proof. intros H l; induction l as [|a l IH]; simpl; [reflexivity|]. now rewrite H, IH. Qed.

Lemma list_eqb_eq {A} (eqb : A -> A -> bool) :
  (forall a b, eqb a b = true <-> a = b) ->
  forall x y, list_eqb eqb x y = true <-> x = y.
Proof.
  intros H x; induction x as [|a x IH]; intros [|b y]; simpl; split; intro E;
    try reflexivity; try discriminate.
  - apply andb_true_iff in E as [E1 E2]. apply H in E1. apply IH in E2. now subst.
  - injection E as -> ->. apply andb_true_iff; split; [now apply H | now apply IH].
Qed.

Lemma bytes_eqb_eq (x y : bytes) : bytes_eqb x y = true <-> x = y.
Proof. apply list_eqb_eq. intros a b. apply N.eqb_eq. Qed.
