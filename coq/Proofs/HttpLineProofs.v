(* Generic fragmentation independence of stage machines, and the stability
   facts of findEol/parseLine that instantiate it. *)
From Hio Require Import Base.Prelude Model.HttpLine.
From Coq Require Import ZifyBool.

(* ------------------------------------------------------------------------ *)
Section RunFacts.
  Context {S O : Type}.
  Variable stage : S -> bytes -> sres S O.
  Hypothesis shrinks : forall s b s' b' o,
    stage s b = Step s' b' o -> length b' < length b.
  Hypothesis stable_step : forall s b s' b' o c,
    stage s b = Step s' b' o -> stage s (b ++ c) = Step s' (b' ++ c) o.
  Hypothesis stable_fail : forall s b k c,
    stage s b = Fail k -> stage s (b ++ c) = Fail k.

  Lemma run_S f s b :
    run stage (Datatypes.S f) s b =
    match stage s b with
    | Need => (Live s b, [])
    | Step s' b' o => let (p, os) := run stage f s' b' in (p, o :: os)
    | Fail k => (Dead k, [])
    end.
  Proof. reflexivity. Qed.

  Lemma run_fuel : forall f1 f2 s b,
    length b < f1 -> length b < f2 -> run stage f1 s b = run stage f2 s b.
  Proof.
    induction f1 as [|f1 IH]; intros f2 s b H1 H2; [lia|].
    destruct f2 as [|f2]; [lia|]. rewrite !run_S.
    destruct (stage s b) as [|s' b' o|k] eqn:E; try reflexivity.
    apply shrinks in E. rewrite (IH f2 s' b') by lia. reflexivity.
  Qed.

  (* a parser is stuck when it is suspended on "need more bytes" (or dead) *)
  Definition stuck (p : pstate S) : Prop :=
    match p with Live s b => stage s b = Need | Dead _ => True end.

  Lemma run_stuck : forall f s b, length b < f -> stuck (fst (run stage f s b)).
  Proof.
    induction f as [|f IH]; intros s b H; [lia|]. rewrite run_S.
    destruct (stage s b) as [|s' b' o|k] eqn:E; cbn; auto.
    specialize (IH s' b'). apply shrinks in E.
    destruct (run stage f s' b') as [p os]. cbn in *. apply IH. lia.
  Qed.

  Lemma run_app : forall f F s b c,
    length b < f -> length (b ++ c) < F ->
    run stage F s (b ++ c) =
    match run stage f s b with
    | (Live s' b', os) =>
        let (p, os') := run stage (Datatypes.S (length (b' ++ c))) s' (b' ++ c) in (p, os ++ os')
    | (Dead k, os) => (Dead k, os)
    end.
  Proof.
    induction f as [|f IH]; intros F s b c Hf HF; [lia|].
    rewrite (run_S f s b).
    destruct (stage s b) as [|s' b' o|k] eqn:E.
    - rewrite (run_fuel F (Datatypes.S (length (b ++ c)))) by lia.
      destruct (run stage (Datatypes.S (length (b ++ c))) s (b ++ c)). reflexivity.
    - destruct F as [|F]; [lia|]. rewrite run_S, (stable_step _ _ _ _ _ c E).
      pose proof (shrinks _ _ _ _ _ E) as Hs.
      rewrite (IH F s' b' c) by (rewrite ?app_length in *; lia).
      destruct (run stage f s' b') as [[s'' b''|k] os].
      + destruct (run stage (Datatypes.S (length (b'' ++ c))) s'' (b'' ++ c)). reflexivity.
      + reflexivity.
    - destruct F as [|F]; [lia|]. rewrite run_S, (stable_fail _ _ _ c E). reflexivity.
  Qed.

  Lemma feed_stuck p c : stuck (fst (feed stage p c)).
  Proof.
    destruct p as [s b|k]; cbn [feed]; [|exact I].
    apply run_stuck. lia.
  Qed.

  (* Fragmentation independence: feeding any list of reads one after the other
     leaves the same parser state and produces the same outputs as feeding
     their concatenation in one read. *)
  Theorem feeds_concat : forall cs p,
    stuck p -> feeds stage p cs = feed stage p (concat cs).
  Proof.
    induction cs as [|c cs IH]; intros p Hp.
    - cbn [feeds concat]. destruct p as [s b|k]; cbn [feed]; [|reflexivity].
      rewrite app_nil_r, run_S. cbn in Hp. rewrite Hp. reflexivity.
    - cbn [feeds concat].
      pose proof (feed_stuck p c) as Hst.
      destruct p as [s b|k].
      + cbn [feed] in *.
        rewrite app_assoc.
        rewrite (run_app (Datatypes.S (length (b ++ c))) _ s (b ++ c) (concat cs)) by lia.
        destruct (run stage (Datatypes.S (length (b ++ c))) s (b ++ c)) as [p' os].
        cbn [fst] in Hst. rewrite (IH p' Hst).
        destruct p' as [s' b'|k]; cbn [feed].
        * reflexivity.
        * rewrite app_nil_r. reflexivity.
      + cbn [feed]. rewrite (IH (Dead k) I). reflexivity.
  Qed.

  (* for a non-empty list of reads no condition on the starting state is needed
     (the buffer may hold bytes that were never parsed) *)
  Lemma feeds_cons_concat : forall c cs p,
    feeds stage p (c :: cs) = feed stage p (c ++ concat cs).
  Proof.
    intros c cs p. cbn [feeds].
    pose proof (feed_stuck p c) as Hst.
    destruct p as [s b|k].
    - cbn [feed] in *. rewrite app_assoc.
      rewrite (run_app (Datatypes.S (length (b ++ c))) _ s (b ++ c) (concat cs)) by lia.
      destruct (run stage (Datatypes.S (length (b ++ c))) s (b ++ c)) as [p' os].
      cbn [fst] in Hst. rewrite (feeds_concat cs p' Hst).
      destruct p' as [s' b'|k]; cbn [feed]; [reflexivity|rewrite app_nil_r; reflexivity].
    - cbn [feed]. rewrite (feeds_concat cs (Dead k) I). reflexivity.
  Qed.

  Corollary feeds_partition : forall cs1 cs2 p,
    stuck p -> concat cs1 = concat cs2 -> feeds stage p cs1 = feeds stage p cs2.
  Proof. intros. rewrite !feeds_concat by assumption. congruence. Qed.
End RunFacts.

(* ------------------------------------------------------------------ scans *)
Lemma scan_crlf_2 x y t :
  scan_crlf (x :: y :: t) =
  if N.eqb x CRb && N.eqb y LFb then Some ([], t)
  else match scan_crlf (y :: t) with Some (l, r) => Some (x :: l, r) | None => None end.
Proof. reflexivity. Qed.

Lemma scan_crlf_stable : forall b c l r,
  scan_crlf b = Some (l, r) -> scan_crlf (b ++ c) = Some (l, r ++ c).
Proof.
  induction b as [|x b IH]; intros c l r H; [discriminate|].
  destruct b as [|y t]; [discriminate|].
  rewrite scan_crlf_2 in H. change ((x :: y :: t) ++ c) with (x :: y :: (t ++ c)).
  rewrite scan_crlf_2.
  destruct (N.eqb x CRb && N.eqb y LFb).
  - inversion H; subst. reflexivity.
  - destruct (scan_crlf (y :: t)) as [[l' r']|] eqn:E; [|discriminate].
    inversion H; subst.
    change (y :: t ++ c) with ((y :: t) ++ c). rewrite (IH c l' r eq_refl). reflexivity.
Qed.

Lemma scan_crlf_shrinks : forall b l r,
  scan_crlf b = Some (l, r) -> length r < length b.
Proof.
  induction b as [|x b IH]; intros l r H; [discriminate|].
  destruct b as [|y t]; [discriminate|].
  rewrite scan_crlf_2 in H.
  destruct (N.eqb x CRb && N.eqb y LFb).
  - inversion H; subst. cbn. lia.
  - destruct (scan_crlf (y :: t)) as [[l' r']|] eqn:E; [|discriminate].
    inversion H; subst. specialize (IH l' r eq_refl). cbn in *. lia.
Qed.

Lemma scan_crlf_late : forall b c l r,
  scan_crlf b = None -> scan_crlf (b ++ c) = Some (l, r) -> length b <= length l + 1.
Proof.
  induction b as [|x b IH]; intros c l r Hn Hs; [cbn; lia|].
  destruct b as [|y t]; [cbn; lia|].
  rewrite scan_crlf_2 in Hn.
  change ((x :: y :: t) ++ c) with (x :: y :: (t ++ c)) in Hs. rewrite scan_crlf_2 in Hs.
  destruct (N.eqb x CRb && N.eqb y LFb); [discriminate|].
  destruct (scan_crlf (y :: t)) as [[l' r']|] eqn:E; [discriminate|].
  change (y :: t ++ c) with ((y :: t) ++ c) in Hs.
  destruct (scan_crlf ((y :: t) ++ c)) as [[l' r']|] eqn:E2; [|discriminate].
  inversion Hs; subst. specialize (IH c l' r eq_refl E2). cbn in *. lia.
Qed.

Lemma scan_lf_stable : forall b c l r,
  scan_lf b = Some (l, r) -> scan_lf (b ++ c) = Some (l, r ++ c).
Proof.
  induction b as [|x b IH]; intros c l r H; [discriminate|].
  cbn [scan_lf app] in *. destruct (N.eqb x LFb).
  - inversion H; subst. reflexivity.
  - destruct (scan_lf b) as [[l' r']|] eqn:E; [|discriminate].
    inversion H; subst. rewrite (IH c l' r eq_refl). reflexivity.
Qed.

Lemma scan_lf_shrinks : forall b l r,
  scan_lf b = Some (l, r) -> length r < length b.
Proof.
  induction b as [|x b IH]; intros l r H; [discriminate|].
  cbn [scan_lf] in H. destruct (N.eqb x LFb).
  - inversion H; subst. cbn. lia.
  - destruct (scan_lf b) as [[l' r']|] eqn:E; [|discriminate].
    inversion H; subst. specialize (IH l' r eq_refl). cbn. lia.
Qed.

Lemma scan_lf_late : forall b c l r,
  scan_lf b = None -> scan_lf (b ++ c) = Some (l, r) -> length b <= length l.
Proof.
  induction b as [|x b IH]; intros c l r Hn Hs; [cbn; lia|].
  cbn [scan_lf app] in *. destruct (N.eqb x LFb); [discriminate|].
  destruct (scan_lf b) as [[l' r']|] eqn:E; [discriminate|].
  destruct (scan_lf (b ++ c)) as [[l' r']|] eqn:E2; [|discriminate].
  inversion Hs; subst. specialize (IH c l' r eq_refl E2). cbn. lia.
Qed.

Lemma strip_last_cr_len : forall l, length l <= length (strip_last_cr l) + 1.
Proof.
  induction l as [|x l IH]; [cbn; lia|].
  destruct l as [|y t].
  - cbn. destruct (N.eqb x CRb); cbn; lia.
  - change (strip_last_cr (x :: y :: t)) with (x :: strip_last_cr (y :: t)).
    cbn [length] in *. lia.
Qed.

Lemma scan_sse_stable : forall b c l r k,
  scan_sse b = Some (l, r, k) -> scan_sse (b ++ c) = Some (l, r ++ c, k).
Proof.
  induction b as [|x b IH]; intros c l r k H; [discriminate|].
  cbn [scan_sse app] in *. destruct (N.eqb x LFb).
  - inversion H; subst. reflexivity.
  - destruct (N.eqb x CRb).
    + inversion H; subst. reflexivity.
    + destruct (scan_sse b) as [[[l' r'] k']|] eqn:E; [|discriminate].
      inversion H; subst. rewrite (IH c l' r k eq_refl). reflexivity.
Qed.

Lemma scan_sse_shrinks : forall b l r k,
  scan_sse b = Some (l, r, k) -> length r < length b.
Proof.
  induction b as [|x b IH]; intros l r k H; [discriminate|].
  cbn [scan_sse] in H. destruct (N.eqb x LFb).
  - inversion H; subst. cbn. lia.
  - destruct (N.eqb x CRb).
    + inversion H; subst. cbn. lia.
    + destruct (scan_sse b) as [[[l' r'] k']|] eqn:E; [|discriminate].
      inversion H; subst. specialize (IH l' r k eq_refl). cbn. lia.
Qed.

Lemma scan_sse_late : forall b c l r k,
  scan_sse b = None -> scan_sse (b ++ c) = Some (l, r, k) -> length b <= length l.
Proof.
  induction b as [|x b IH]; intros c l r k Hn Hs; [cbn; lia|].
  cbn [scan_sse app] in *. destruct (N.eqb x LFb); [discriminate|].
  destruct (N.eqb x CRb); [discriminate|].
  destruct (scan_sse b) as [[[l' r'] k']|] eqn:E; [discriminate|].
  destruct (scan_sse (b ++ c)) as [[[l' r'] k']|] eqn:E2; [|discriminate].
  inversion Hs; subst. specialize (IH c l' r k eq_refl E2). cbn. lia.
Qed.

Lemma scan_stable : forall m b c l r k,
  scan m b = Some (l, r, k) -> scan m (b ++ c) = Some (l, r ++ c, k).
Proof.
  intros [] b c l r k H; cbn [scan] in *.
  - destruct (scan_crlf b) as [[l' r']|] eqn:E; [|discriminate]. inversion H; subst.
    rewrite (scan_crlf_stable _ c _ _ E). reflexivity.
  - destruct (scan_lf b) as [[l' r']|] eqn:E; [|discriminate]. inversion H; subst.
    rewrite (scan_lf_stable _ c _ _ E). reflexivity.
  - apply scan_sse_stable. exact H.
Qed.

Lemma scan_shrinks : forall m b l r k,
  scan m b = Some (l, r, k) -> length r < length b.
Proof.
  intros [] b l r k H; cbn [scan] in *.
  - destruct (scan_crlf b) as [[l' r']|] eqn:E; [|discriminate]. inversion H; subst.
    eapply scan_crlf_shrinks; eauto.
  - destruct (scan_lf b) as [[l' r']|] eqn:E; [|discriminate]. inversion H; subst.
    eapply scan_lf_shrinks; eauto.
  - eapply scan_sse_shrinks; eauto.
Qed.

(* a terminator that only appears after more bytes arrived starts no earlier
   than one byte before the end of what was there (the CR of a split CRLF) *)
Lemma scan_late : forall m b c l r k,
  scan m b = None -> scan m (b ++ c) = Some (l, r, k) -> length b <= length l + 1.
Proof.
  intros [] b c l r k Hn Hs; cbn [scan] in *.
  - destruct (scan_crlf b) as [[l' r']|] eqn:E; [discriminate|].
    destruct (scan_crlf (b ++ c)) as [[l' r']|] eqn:E2; [|discriminate]. inversion Hs; subst.
    eapply scan_crlf_late; eauto.
  - destruct (scan_lf b) as [[l' r']|] eqn:E; [discriminate|].
    destruct (scan_lf (b ++ c)) as [[l' r']|] eqn:E2; [|discriminate]. inversion Hs; subst.
    pose proof (scan_lf_late _ _ _ _ E E2). pose proof (strip_last_cr_len l'). lia.
  - pose proof (scan_sse_late _ _ _ _ _ Hn Hs). lia.
Qed.

(* ------------------------------------------------------------- line stage *)
Lemma drop_lf_len b : length (drop_lf b) <= length b.
Proof. destruct b as [|x b]; cbn; [lia|]. destruct (N.eqb x LFb); cbn; lia. Qed.

Lemma drop_lf_app b c : b <> [] -> drop_lf (b ++ c) = drop_lf b ++ c.
Proof. destruct b as [|x b]; [congruence|]. intros _. cbn. destruct (N.eqb x LFb); reflexivity. Qed.

Lemma skipped_app (skip : bool) (b c : bytes) :
  skip && is_nil b = false ->
  skipped skip (b ++ c) = skipped skip b ++ c.
Proof.
  unfold skipped. destruct skip; cbn; [|reflexivity]. intros H. apply drop_lf_app.
  destruct b; [discriminate|congruence].
Qed.

Lemma skip_nil_app (skip : bool) (b c : bytes) :
  skip && is_nil b = false -> skip && is_nil (b ++ c) = false.
Proof. destruct skip, b; cbn; congruence. Qed.

Lemma line_shrinks m skip b k r l :
  line_stage m skip b = Step k r l -> length r < length b.
Proof.
  unfold line_stage. destruct (skip && is_nil b); [discriminate|].
  set (b1 := skipped skip b).
  assert (length b1 <= length b) by (subst b1; unfold skipped; destruct skip; [apply drop_lf_len|lia]).
  destruct (scan m b1) as [[[l' r'] k']|] eqn:E.
  - destruct (N.ltb max_line (lenN l')); [discriminate|]. intros H1; inversion H1; subst.
    apply scan_shrinks in E. lia.
  - destruct (N.ltb (max_line + 1) (lenN b1)); discriminate.
Qed.

Lemma line_stable_step m skip b k r l c :
  line_stage m skip b = Step k r l -> line_stage m skip (b ++ c) = Step k (r ++ c) l.
Proof.
  unfold line_stage. destruct (skip && is_nil b) eqn:Es; [discriminate|].
  rewrite (skip_nil_app _ _ c Es), (skipped_app _ _ c Es).
  set (b1 := skipped skip b).
  destruct (scan m b1) as [[[l' r'] k']|] eqn:E.
  - rewrite (scan_stable _ _ c _ _ _ E).
    destruct (N.ltb max_line (lenN l')); [discriminate|]. intros H1; inversion H1; subst. reflexivity.
  - destruct (N.ltb (max_line + 1) (lenN b1)); discriminate.
Qed.

Lemma line_stable_fail m skip b e c :
  line_stage m skip b = Fail e -> line_stage m skip (b ++ c) = Fail e.
Proof.
  unfold line_stage. destruct (skip && is_nil b) eqn:Es; [discriminate|].
  rewrite (skip_nil_app _ _ c Es), (skipped_app _ _ c Es).
  set (b1 := skipped skip b).
  destruct (scan m b1) as [[[l' r'] k']|] eqn:E.
  - rewrite (scan_stable _ _ c _ _ _ E).
    destruct (N.ltb max_line (lenN l')); [|discriminate]. auto.
  - destruct (N.ltb (max_line + 1) (lenN b1)) eqn:El; [|discriminate].
    intros H1; inversion H1; subst.
    apply N.ltb_lt in El.
    destruct (scan m (b1 ++ c)) as [[[l' r'] k']|] eqn:E2.
    + pose proof (scan_late _ _ _ _ _ _ E E2) as Hl.
      assert (Hlt : (max_line < lenN l')%N) by (unfold lenN in *; lia).
      apply N.ltb_lt in Hlt. rewrite Hlt. reflexivity.
    + assert (Hlt : (max_line + 1 < lenN (b1 ++ c))%N)
        by (unfold lenN in *; rewrite app_length; lia).
      apply N.ltb_lt in Hlt. rewrite Hlt. reflexivity.
Qed.

Lemma line_fail_http m skip b e : line_stage m skip b = Fail e -> e = HTTPExc.
Proof.
  unfold line_stage. destruct (skip && is_nil b); [discriminate|].
  destruct (scan m _) as [[[l' r'] k']|].
  - destruct (N.ltb max_line (lenN l')); [|discriminate]. congruence.
  - destruct (N.ltb (max_line + 1) (lenN _)); [|discriminate]. congruence.
Qed.

Lemma line_need_nil m skip : line_stage m skip [] = Need.
Proof. unfold line_stage. destruct skip, m; reflexivity. Qed.
